#!/bin/bash
# Run once after a fresh restore (offline): builds the shim toolchain and warms the build of llgo.
set -e
cd "$(dirname "${BASH_SOURCE[0]}")"
./toolchain/setup.sh
python3 - <<'PY'
import sys
sys.path.insert(0, ".")
from vlib import common as C
print("llgo:", C.llgo_binary())
PY

#!/bin/bash
# usage: tools/confirm_seed.sh <worktree> <k> <pkgs-to-test...>
# confirms a seeded change delivered under <worktree>/_out/<k>: patch applies, touched packages' tests pass with it,
# demo fails with it and passes without it. Prints a one-line verdict.
WT="$1"; K="$2"; shift 2
. /tmp/llgo-toolchain/env.sh
cd "$WT" && git checkout -q -- . 
bash "$WT/_out/$K/demo.sh" "$WT" > /tmp/confirm-head.txt 2>&1; head_rc=$?
git apply "_out/$K/patch.diff" || { echo "seed $K: PATCH FAILS"; exit 1; }
go build ./... > /dev/null 2>&1
tests_rc=0
for p in "$@"; do go test -mod=mod -vet=off -count=1 "$p" > /tmp/confirm-tests.txt 2>&1 || tests_rc=1; done
bash "$WT/_out/$K/demo.sh" "$WT" > /tmp/confirm-mut.txt 2>&1; mut_rc=$?
git checkout -q -- .
echo "seed $K: demo@HEAD rc=$head_rc  demo@patched rc=$mut_rc  existing-tests rc=$tests_rc"

#!/usr/bin/env python3
"""writes seeded/README.md from the meta.json files"""
import json, os, glob
V = os.path.dirname(os.path.dirname(os.path.abspath(__file__)))
rows = []
for d in sorted(glob.glob(os.path.join(V, "seeded", "C*-*"))):
    m = json.load(open(os.path.join(d, "meta.json")))
    rows.append((os.path.basename(d), m))
out = ["# Seeded changes", "",
       "Each directory holds one change to goplus/llgo written by a fresh sub-agent that saw only the text of the property",
       "(never anything from /verif): `patch.diff`, a demonstration that fails with the change and passes without it, and",
       "`meta.json` (what it breaks, what it needs to manifest, how it was confirmed, which check flags it).",
       "Every change compiles and leaves the existing tests of the touched packages passing. None is ever committed to /repo;",
       "`tools/try_seed.sh <check> <patch>` runs a check against a scratch copy with the patch applied.", "",
       "| seed | property | summary | needs to manifest | caught by the check |", "|---|---|---|---|---|"]
caught = {"yes": 0, "after-strengthening": 0, "no": 0}
for name, m in rows:
    c = m.get("caught_by_check", "?")
    caught[c] = caught.get(c, 0) + 1
    out.append("| %s | %s | %s | %s | **%s** — %s |" % (name, m.get("property"), (m.get("summary") or "").replace("|", "/").replace("\n", " ")[:220],
                                                (m.get("needs_to_manifest") or "").replace("|", "/").replace("\n", " ")[:200], c,
                                                (m.get("check_note") or "").replace("|", "/")[:260]))
out += ["", "Totals: %d seeds; caught as delivered: %d; caught after the check was strengthened: %d; not caught: %d." % (
    len(rows), caught.get("yes", 0), caught.get("after-strengthening", 0), caught.get("no", 0))]
open(os.path.join(V, "seeded", "README.md"), "w").write("\n".join(out) + "\n")
print("\n".join(out[-1:]))

#!/usr/bin/env python3
"""usage: import_seed2.py <worktree> <k> <property> <caught: yes|no|after-strengthening> <check note> [confirmation note]
copies /tmp/mut/<P>/_out/<k> into /verif/seeded/<property>-<n> (n = next free number) with an augmented meta.json"""
import json, os, shutil, sys, re
wt, k, prop, caught, note = sys.argv[1:6]
conf = sys.argv[6] if len(sys.argv) > 6 else "demo exits 0 at HEAD and 1 with the patch (re-run by me in the author's worktree, llgo rebuilt by the demo)"
src = os.path.join(wt, "_out", k)
used = [int(m.group(1)) for d in os.listdir("/verif/seeded") for m in [re.match(r"%s-(\d+)$" % prop, d)] if m]
# re-import of the same change replaces it
n = None
for d in os.listdir("/verif/seeded"):
    mp = os.path.join("/verif/seeded", d, "meta.json")
    if d.startswith(prop + "-") and os.path.exists(mp):
        if json.load(open(mp)).get("source") == src:
            n = int(d.split("-")[1])
if n is None:
    n = max(used + [0]) + 1
dst = os.path.join("/verif/seeded", "%s-%d" % (prop, n))
shutil.rmtree(dst, ignore_errors=True)
shutil.copytree(src, dst, ignore=shutil.ignore_patterns("*.log", "bin", "scratch*", "llgo*"))
mp = os.path.join(dst, "meta.json")
try:
    meta = json.load(open(mp))
except Exception:
    meta = {}
meta.update({"property": prop, "source": src, "confirmed_by_me": conf, "caught_by_check": caught, "check_note": note})
json.dump(meta, open(mp, "w"), indent=1)
print("imported", dst)

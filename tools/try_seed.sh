#!/bin/bash
# usage: tools/try_seed.sh <check id> <patch.diff> [tier]   — runs the check against a scratch copy of /repo with the patch applied
set -u
id="$1"; patch="$2"; tier="${3:-quick}"
S=/tmp/seedrepo-$$
rm -rf $S; cp -r /repo $S
( cd $S && { git apply "$patch" 2>/dev/null || patch -p1 -s --no-backup-if-mismatch -F3 < "$patch"; } ) || { echo "PATCH DOES NOT APPLY"; rm -rf $S; exit 3; }
cd /verif
VERIF_REPO=$S VERIF_OWNER="seed$id" ./check "$id" "$tier" > /tmp/seedout-$$.txt 2>&1
rc=$?
echo "exit=$rc violations=$(grep -c '^VIOLATION' /tmp/seedout-$$.txt)"
grep '^violation' /tmp/seedout-$$.txt | cut -c1-260 | head -4
grep 'UNDECIDED' /tmp/seedout-$$.txt | cut -c1-300 | head -2
rm -rf $S /tmp/seedout-$$.txt
exit $rc

#!/usr/bin/env python3
"""usage: import_seed.py <worktree> <k> <property> <caught: yes|no|after-strengthening> <check note> <confirmation note>
copies a seeded change into /verif/seeded/<property>-<k>/ with an augmented meta.json"""
import json, os, shutil, sys
wt, k, prop, caught, note, conf = sys.argv[1:7]
src = os.path.join(wt, "_out", k)
dst = os.path.join("/verif/seeded", "%s-%s" % (prop, k))
shutil.rmtree(dst, ignore_errors=True)
shutil.copytree(src, dst)
mp = os.path.join(dst, "meta.json")
try:
    meta = json.load(open(mp))
except Exception:
    meta = {}
meta["property"] = prop
meta["confirmed_by_me"] = conf
meta["caught_by_check"] = caught
meta["check_note"] = note
json.dump(meta, open(mp, "w"), indent=1)
print("imported", dst)

#!/usr/bin/env python3
"""Regenerates /verif/MANIFEST.json from the table below (single source of truth)."""
import json
import os

V = os.path.dirname(os.path.dirname(os.path.abspath(__file__)))

CHECKS = {
    "C18": dict(
        engine="tlc+loader-replay",
        technique="TLA+ resolution law (TargetMerge) + TLC-enumerated inheritance forests replayed into the real Loader; layer-B MergeImpl model-checked against the law",
        text="TLC enumerates every inheritance forest within the bounds (cycles, self-loops, duplicates, missing parents, diamonds) "
             "and the law's result for each node; every forest is replayed into internal/targets.Loader for all 31 Config fields and "
             "all shipped targets are resolved by both law and loader. Exhaustive within bounds, so a dropped field, changed precedence, "
             "list replacement or lost cycle check is reached; the loader's recursion (MergeImpl) is model-checked against the law incl. termination.",
        note="trusts TLC's evaluation of the law, the transcription of Config's JSON field names into the harness, and the symmetry of fields in the law",
        design="5 C18"),
}

CHECKS["C10"] = dict(
    engine="tlc+controlled-scheduler",
    technique="TLA+ channel semantics (GoChan) as judge: outcome sets from TLC (GoChanProg) + TLC trace validation (GoChanTrace) of histories from the real z_chan.go driven through all interleavings by a controlled scheduler; PlusCal ChanImpl (whole z_chan.go incl. TrySelect/Select, selectOp semaphores, send-first rule) model-checked against GoChan on every scenario",
    text="The real z_chan.go (copied from the working tree, imports redirected to scheduler gates) is executed under every interleaving at "
         "lock/wait/signal granularity (exhaustive DFS for ~95% of ~270 scenarios, preemption-bounded DFS with spurious wake-ups, seeded random), "
         "and every outcome and distinct API-level history must be a behaviour of the TLA+ channel semantics, including legal-deadlock analysis "
         "(NoStuckPair). Lost wake-ups, double delivery, wrong ok flags, missed panics and select mis-commits are reached because the schedule space is enumerated, not sampled.",
    note="assumes all shared Chan/selectOp fields are accessed under their mutex (gates are the only scheduling points); stand-in mutex/cond follow POSIX semantics; "
         "select-default judged by the case-by-case reading (DESIGN C10); one known finding (same-channel select pair) listed in known-findings.txt",
    design="5 C10")

CHECKS["C11"] = dict(
    engine="tlc+controlled-scheduler+compiled-programs",
    technique="TLA+ semaphore/notify-list contracts (GoSync) as judge: outcome sets (GoSyncProg) + TLC trace validation (GoSyncTrace) of histories from the real sema_llgo.go under a controlled scheduler with atomics as scheduling points; sync/atomic as one memory with indivisible steps (AtomicSC) gives the outcome set of each litmus program, observed outcomes of the llgo-compiled runner (13 operand kinds, real threads) must lie inside it, AtomicTSO (layer B) checks llgo's instruction selection on x86-TSO; go statements judged by GoStmt (snapshot at the statement; TLC enumerates call form x argument kinds with the prescribed observation); llgo-compiled stress programs; Go's Mutex, RWMutex, WaitGroup and Once algorithms (compiled unchanged by llgo) model-checked over the semaphore contract (PlusCal)",
    text="The real sema_llgo.go (copied from the working tree, psync/latomic redirected to scheduler gates) is driven through all interleavings "
         "at lock/wait/signal/atomic granularity for ~120 scenarios and every outcome/history must satisfy the TLA+ contracts (units conserved, "
         "no lost wake-up, Wait returns only for a notified ticket). Go statements, Mutex/RWMutex/WaitGroup/Once/Cond and atomics of all widths "
         "are exercised by llgo-compiled programs with real threads whose output is schedule independent. "
         "Litmus programs (35 named shapes + enumerated two-thread programs) x 13 operand kinds run thousands of rounds each: every observed outcome must be sequentially consistent; "
         "735+ go-statement cases (12 call forms x 16 argument kinds x side-effect order) must show the callee, receiver and arguments as evaluated at the statement.",
    note="assumes Go's own sync package is correct given the semaphore/notify contracts; compiled stress programs see only OS-chosen schedules",
    design="5 C11")

CHECKS["C04"] = dict(
    engine="tlc-gomachine+llgo",
    technique="TLA+ abstract machine for core Go (GoMachine: frames, deferred-call lists, panic/recover/Goexit modes) interpreted by TLC gives the predicted trace of each generated program; llgo-compiled programs must print exactly that trace; reference toolchain self-validates the machine; DeferImpl (layer B: llgo's bit set + node list + drain loops) model-checked against Go's rule, every behaviour of every function body of up to 4 statements replayed into llgo-compiled code",
    text="DeferImpl: 1,554 function bodies over {defer with/without arguments on the straight path, the same inside a branch, loop of defers, call that may panic}, 13,499 behaviours, "
         "each replayed in a non-inlined llgo-compiled function and compared with the calls Go prescribes (exhaustive within the bound; the two pre-fix designs are refuted by TLC on every run). "
         "Seeded programs combining unconditional / conditional / loop defers, deferred closures that change named results, recover (directly), "
         "panics and re-panics inside deferred calls, run-time faults, early returns and Goexit in goroutines are run by the TLA+ machine (TLC) "
         "and by llgo-compiled code; traces and termination must agree. Fixed representative programs pin the two known deviations.",
    note="trusts GoMachine's transcription of the spec and the Python lowering to its jump code, both self-validated against the reference toolchain on every case; O2 = reduced pipeline O2*",
    design="5 C04")

CHECKS["C01"] = dict(
    engine="tlc-gomachine+llgo",
    technique="TLA+ abstract machine for core Go (GoMachine) interpreted by TLC predicts output and termination of seeded programs; llgo-compiled programs at O0 and O2* must match; reference toolchain self-validates the machine",
    text="Programs from a typed grammar over the core language (branches, labelled loops, switch/fallthrough, closures incl. per-iteration loop variables, "
         "structs/embedding/methods/method values/interfaces, generic functions and types, arrays, pointers, tuple assignment, multiple results, integer-, array- and function-range loops) "
         "are executed by the TLA+ machine and by llgo-compiled code in each configuration; printed lines and termination must agree.",
    note="the grammar is a subset of Go (generics: functions and a generic struct with methods at int and struct instantiations; range-over-func with break/continue/return/defer in the body; no floats); the machine and the Python lowering are self-validated against the reference toolchain on every case; O2 = reduced pipeline O2*; package split not exercised yet",
    design="5 C01")
CHECKS["C03"] = dict(
    engine="tlc-tables+gomachine+llgo",
    technique="TLA+ tables (Bounds: in-range predicate and result window per kind/form/index type; Panics: mandated panic per operation and operand state, repeated occurrences) enumerated by TLC and replayed into an llgo-compiled evaluator; GoMachine for the position of the panic",
    text="TLC enumerates ~59k (kind, form, index type, len, cap, i, j, k) tuples and ~80 operation/operand-state cases with the verdict Go mandates; a generated "
         "evaluator (one non-inlined function per kind x form x index type, plus literal-index variants for the constant-folded checks) compiled by llgo must agree, "
         "each panic case three times in one goroutine; programs of the faults profile check that the panic is raised at exactly the faulting statement.",
    note="panic kinds (not texts) are compared; Big/Huge/Min stand for extreme index values instantiated per type; reference toolchain self-validates the tables",
    design="5 C03")
CHECKS["C02"] = dict(
    engine="tlc-tables+llgo",
    technique="TLA+ operator semantics (IntOps on integers, BV limb arithmetic model-checked against it, FloatExact) evaluated by TLC into expected tables; an llgo-compiled evaluator with one non-inlined function per operator x type must reproduce them",
    text="Exhaustive 8-bit operand pairs, boundary cross products at 16/32/64 bit, shift counts of every type, all 12x12 conversions, exact floats and specials; "
         "results computed by TLC from the TLA+ definitions and compared with the llgo-compiled evaluator (run-time and constant operands).",
    note="rounding of inexact float results and complex division are outside the specification (stated limit); BV is justified by model-checking it against IntOps at 8/16 bit",
    design="5 C02")
CHECKS["C17"] = dict(
    engine="tlc-automata+injected-tests",
    technique="TLA+ automata/laws (ShellSplit, PkgConfigSplit, TagExpr, Expand) enumerated exhaustively by TLC with expected results; replayed into the real package functions through injected tests",
    text="Every string over a 9-symbol alphabet up to the bound and every small argument list (round trip), every build expression over 3 tags, every template of <=4 segments: "
         "TLC computes the expected token lists / verdicts / expansions and the real shellparse, safesplit, buildtags, env functions must return them; order-independence of expansion is run 32x per case.",
    note="documented dialects transcribed from doc comments; where the documentation is silent both POSIX and literal readings are accepted; -X parsing in internal/build not covered",
    design="5 C17")

CHECKS["C20"] = dict(
    engine="tlc+injected-tests+loopback-http",
    technique="TLA+ extraction law (Extract/ExtractMachine: Confined, Faithful) with TLC-enumerated archives replayed into the real extractTarGz/extractZip/extractTarXz; PlusCal FetchLock (flock on inode vs path) model-checked, its counterexample staged on the real system calls; concurrent fetch stress against a loopback server",
    text="TLC enumerates every archive of <=3 entries over names with '..', '.', empty and absolute segments, links and clashes, with the verdict the law demands per entry; each is built as tar.gz/zip/tar.xz and extracted by the real code under a watched parent directory (nothing may appear outside dest; benign archives must be reproduced byte for byte). "
         "The lock/extract/rename protocol is model-checked (FetchLock) and exercised with 2-4 concurrent callers and injected download failures.",
    note="entries whose handling the statement leaves open (links, '.', duplicates) are judged by confinement only; interleavings of the lock protocol are staged through the HTTP server rather than a hook",
    design="5 C20")

CHECKS["C07"] = dict(
    engine="tlc+injected-test",
    technique="TLA+ transcription of Go type identity over a recursive type grammar; TLC enumerates base terms and every single-point mutation (near-miss pairs) with the verdict; an injected test builds the pairs as go/types values and checks that ssa/abi's canonical descriptor name is shared exactly when identical; MethodSets (declared type x {T,*T} x interface) and GenericLocal (types declared inside generic functions, local types as type arguments: 63 type values, all pairs) judged at run time in llgo-compiled programs",
    text="~4,600 pairs (4,200 near misses differing in one attribute: field name, tag, embedding, package of an unexported name, variadic, direction, array length, key/elem swap, type argument, scope, package) get the verdict of the TLA+ identity relation; Builder.TypeName - the weak-ODR symbol name under which the descriptor is merged - must coincide exactly then. go/types.Identical validates the transcription on every pair.",
    note="the run-time half (assertion = pointer comparison of merged descriptors) is covered by compiled programs only for a sample; interface satisfaction is exercised through GoMachine programs (C01) rather than enumerated here",
    design="5 C07")
CHECKS["C12"] = dict(
    engine="tlc-trace-validation+llgo",
    technique="TLA+ initialisation law (InitOrder: InitVar / RunInit / Main with Go's next-ready-variable rule) model-checked on the generated worlds and used for TLC trace validation of the order printed by llgo-compiled multi-package programs",
    text="Seeded worlds (import DAGs of 2-5 packages, variables with forward, function-mediated and cross-package references, several init functions over two files, "
         "patched std packages used inside initialisers) are compiled by llgo; every printed initialisation trace must be a behaviour of InitOrder and every printed value must be the one computed from fully initialised dependencies.",
    note="order among independent packages is left free; only build mode exe; patched std packages observed through their API results",
    design="5 C12")
CHECKS["C16"] = dict(
    engine="tlc+injected-test+go-list",
    technique="TLA+ transcription of cmd/go's embed resolution (Embed/EmbedCases/EmbedLine); TLC enumerates directory trees x pattern lists and directive lines with the expected outcome; replayed into the real internal/goembed functions on materialised trees; go list validates the spec",
    text="~1,500 trees x 321 pattern lists in quick (all trees up to the bounds in thorough) incl. hidden/underscore names, all:, nested modules, symlinks, bad names, glob metacharacters; file sets, accept/reject, embed.FS table order and bytes, and directive-line splitting must equal the spec's; `go list -json` is the self-validation.",
    note="placement/type rules of //go:embed (compiler's job) are not covered; error classes compared for information only",
    design="5 C16")

CHECKS["C05"] = dict(
    engine="tlc-trace-validation+llgo",
    technique="TLA+ SliceModel (heap of arrays + slice windows; growth capacity free) with TLC trace validation of the per-step state logged by an llgo-compiled script interpreter; Utf8/StringOps tables computed by TLC",
    text="~195k TLC-enumerated scripts (operands at every window boundary, one beyond, inverted, omitted) plus seeded long scripts crossing growth thresholds run in an llgo-compiled generic interpreter for element sizes 0,1,2,3,8,24; logs are validated against SliceModel (aliasing validated behaviourally). "
         "Every byte string over a UTF-8 boundary alphabet up to length 4: range iteration, []rune, string(rune), comparison, slicing must equal the decoder automaton's results.",
    note="quick validates a stratified sample of the logs (all that deviate from the reference first); the unseen tail of a fresh array is unconstrained",
    design="5 C05")

CHECKS["C09"] = dict(
    engine="tlc-sysv+llgo+c",
    technique="TLA+ System V classification (SysVAbi/SysVShapes/SysVCall) enumerates struct shapes and call shapes and selects one representative per classification state x argument position x register pressure; llgo-compiled Go<->C programs must satisfy the identity law field by field in six directions; gcc<->gcc/clang self-validates the generated C",
    text="~390 cases in quick (2,500 in thorough, O0 and O2*): every classification vector, nesting/padding pattern and register-pressure situation the TLA+ ABI model distinguishes is exercised as Go->C argument, C->Go result, callback parameter, callback result and by-value copy semantics with distinct bit patterns (sign bits, NaN payloads); C strings round-trip through AllocCStr/AllocaCStr/GoString. Added: every second callback result is an earlier copy of a variable modified before the return; 240 variadic calls (SysVVariadic: struct prefix class x 0-3 variadic arguments); 20,679 cgo byte-buffer scripts (CBuf: CString/CBytes/GoString/GoStringN/GoBytes are snapshots); narrow integers behind aggregates of every class with the callee at -O2 (SysVNarrow).",
    note="only the host ABI (x86-64 System V) is executed; classification drift vs GetTypeInfo is reported, never judged; O2 = reduced pipeline O2*",
    design="5 C09")
CHECKS["C15"] = dict(
    engine="tlc-reflectmodel+llgo",
    technique="TLA+ TypeTerms/ReflectModel/FmtModel own the grammar of type strings, method sets, DeepEqual and fmt verbs; TLC enumerates type/value terms with the expected text of every query; llgo-compiled self-describing programs in four reflect-usage variants must print exactly that text; the reference toolchain validates the spec text",
    text="~330 type terms / 13k expected lines in quick (2.4k / 83k in thorough) over named and unnamed types, methods on value and pointer receivers, embedding and promotion, tags, unexported fields, generic instances; Kind/Name/PkgPath/String/fields/method tables/reflected calls/DeepEqual (incl. all 3-node pointer heaps)/Convert/Set and %v %+v %#v %T %d %s %q %x %t. "
         "Program variants differ in which reflect calls appear, to exercise method-table pruning. Laws (c15x/c15ro): EmbedLookup, ConvCopy, BlankCmp, ReflectRO (read-only flags along 126 field paths x addressable / copy), SliceEq (DeepEqual on every pair of 38 slice windows, plain and wrapped), ChanStr (strings of nested directional channels).",
    note="float formatting, width/precision flags and func-value size facts are outside the spec; three known finding classes are represented by fixed terms and seeded generation is kept away from them",
    design="5 C15")

CHECKS["C19"] = dict(
    engine="tlc-pybridge+llgo+python",
    technique="TLA+ PyBridge (value terms with limb integers, RoundTrip/Call/Lookup laws) and PyImports (import-once state machine over program shapes) enumerated by TLC with the expected echo/trace; llgo programs linked with libpython3.11 must produce it; python3 validates the spec's expectations; PyImportImpl (layer B) model-checked",
    text="~9,000 value/call/lookup cases (64-bit boundary integers, special floats, text incl. NUL and multi-byte, bytes incl. invalid UTF-8, nested lists/tuples, arities 0-6) are sent to Python and read back; the Python side logs what it received. Program shapes with 1-3 packages using math/json/a local module in var/init/run positions must import each module exactly once, before first use. PyCallShapes: 77 cases (two bindings of one attribute with arities 0-3, Go-variadic bindings, function references as arguments, module/package/submodule symbols bound together, one Python function per kind of call site incl. generic instances and initialisers), each in its own process.",
    note="O0 only; reference counts not observed; any topological init order accepted (exact order is C12's)",
    design="5 C19")
CHECKS["C14"] = dict(
    engine="tlc-naming+injected-test+llgo",
    technique="TLA+ Naming (entities, same-entity relation) enumerates references built to collide; NamingJudge evaluates Injective / Agree / MergeSafe / Linkname / Reach on observations from cl.funcName, varName, abi.TypeName (injected test, five package layouts) and from llgo-built multi-package programs + llvm-nm; NamingImpl (layer B) model-checked",
    text="714 references (1,292 in thorough) reuse every name on every axis (package, T vs *T, local scopes, type arguments incl. local/alias/composite); each link name is collected from every package that compiles the entity; programs in which every body prints its identity must reach the predicted entity; no strong symbol is defined twice, weak duplicates have equal size.",
    note="zero-size package variables are covered by one fixed program; MergeSafe end to end is an equal-size proxy; goroutine thunks end-to-end only; C-callback wrappers not covered; one known finding (dotted last path element)",
    design="5 C14")

CHECKS["C06"] = dict(
    engine="tlc-trace-validation+llgo",
    technique="TLA+ FiniteMap (entries by equality class incl. +0/-0, NaN, interface keys; Go's range rule with need/yielded sets) with TLC trace validation of the calls logged by an llgo-compiled generic map interpreter; MapGrowth (layer B) conformance reported",
    text="TLC-enumerated scripts (all histories up to 4-5 tokens over four 3-key universes) and seeded random histories crossing doubling and same-size growth, with mutation (insert/delete/clear) scripted inside range loops, for 10 key types (int, string, float64, any, [2]int, struct, complex128, struct{complex64;int32}, [2]float32, interface with a method holding pointer-shaped dynamic types + pointee writes) x 3 value sizes (0, 8, 136 bytes); every logged result, the hmap count and every yielded entry must be a behaviour of FiniteMap. Each run must reach the growth situations (else exit 2).",
    note="live map sizes stay below ~7k entries; a map reassigned inside a running loop is not modelled",
    design="5 C06")
CHECKS["C08"] = dict(
    engine="tlc-layout+injected-test+gcc",
    technique="TLA+ Layout (Size/Align/Offsets over type terms, six target profiles) enumerates terms; an injected test in package ssa asks the three real computations (compile-time Sizes wrapper, LLVM data layout, emitted descriptors) for 5 targets; agreement is judged, amd64 must equal the spec; gcc validates the host profile; LayoutImpl (layer B) model-checked",
    text="11k type terms x 5 targets in quick (90k in thorough): scalars of every width, arrays incl. length 0, nested structs with padding and zero-size tails, func/closure, aliases, named types, interface/string/slice/map/chan, map slot and bucket sizes. a = b = c is demanded everywhere; llgo-compiled host programs confirm Sizeof/Offsetof constants, address differences and reflect sizes.",
    note="32-bit profiles are fitted, only disagreement among llgo's own computations is judged there; 16 known finding keys (zero-size tail, arm/wasm 64-bit alignment) are listed",
    design="5 C08")

CHECKS["C13"] = dict(
    engine="tlc-histories+llgo-build",
    technique="TLA+ BuildCache (inputs with content and stat, packages reading inputs, cache keyed by an abstract key; Fresh / NoopStable / KeyFunctional / Repro) as judge; TLC enumerates canonical edit/build histories (BuildCases) and computes the expected markers (BuildReplay); each history is replayed with the real `llgo build` and a persistent private cache; CacheKey/CacheProbe (layer B: collect.go's manifest) model-checked for missing inputs",
    text="Histories over 13 inputs of a generated module main->p1->p2 (Go source, one embed variable over two files whose boundary moves, LLGoFiles C file and -X value per package; build tag through a #cgo line, -O level, LLGO_TRACE in six spellings) "
         "x {edit, edit keeping size+mtime, touch} with builds, no-op rebuilds and cache clears: a deterministic cover of every single change plus a seeded sample "
         "(17 histories / ~70 real builds in quick; 200+ histories incl. TLC-simulated length-10 ones with a clean differential build after every step in thorough). "
         "After every build the program's markers must equal those of the current inputs (Fresh); two clean builds into empty caches must give byte-identical archive members "
         "and manifests (Repro); equal keys across unrelated programs must hold equal code.",
    note="ABI mode and the LLGO_* variables without printable effect are not exercised; -X goes through build.Config (the command line ignores -ldflags); Repro compares member contents, not temporary member names",
    design="5 C13")

NOT_YET = {}

props = [json.loads(l) for l in open(os.path.join(V, "properties.jsonl"))]
checks = []
na = []
for p in props:
    pid = p["id"]
    if pid in CHECKS:
        c = CHECKS[pid]
        checks.append({
            "property_id": pid,
            "quick_cmd": "./check %s quick" % pid,
            "thorough_cmd": "./check %s thorough" % pid,
            "evidence_file": "/verif/evidence/%s.json" % pid,
            "replay_cmd_template": "./check %s --replay {path}" % pid,
            "engine": c["engine"],
            "level_claimed": {"category": c.get("category", "model_checking"), "text": c["text"], "design_ref": "DESIGN.md section " + c["design"]},
            "level_note": c["note"],
            "technique": c["technique"],
        })
    else:
        na.append({"property_id": pid, "reason": NOT_YET.get(pid, "check not built yet in this session (planned: see DESIGN.md section 5 %s); not claimed until its check runs green" % pid)})

m = {
    "version": 1,
    "setup_cmd": "./setup.sh",
    "hooks": {
        "guard": "verif",
        "enable": "go build -tags llvm14,dev,verif -overlay toolchain/overlay.json ./cmd/llgo (toolchain/build-llgo.sh); injected tests via go test -overlay",
        "baseline_off_cmd": "for m in $(cat /w/out/gomods.txt); do MF=$(cd /repo/$m && . /w/out/goenv.sh && gomodflag); (cd /repo/$m && go test $MF -json -vet=off -count=1 -timeout 25m ./...); done",
        "source_commits": [l.strip() for l in open(os.path.join(V, "hook-commits.txt")) if l.strip() and not l.startswith("#")],
        "add_only": True,
    },
    "engines": [
        {"name": "tlc", "path": "/verif/spec", "serves_properties": sorted(CHECKS), "kind_free_text": "explicit TLA+ specifications checked/enumerated by TLC 1.8; layer A judges real executions, layer B models llgo's mechanism"},
        {"name": "vlib", "path": "/verif/vlib", "serves_properties": sorted(CHECKS), "kind_free_text": "python driver: runs TLC, renders cases, builds llgo / injected tests from /repo's working tree, replays or trace-validates, writes evidence"},
    ],
    "checks": checks,
    "notes": "All verdicts come from executions of code rebuilt from /repo's working tree (see DESIGN.md 2.3). exit 2 = undecided (machinery), never a violation.",
    "not_applicable": na,
}
json.dump(m, open(os.path.join(V, "MANIFEST.json"), "w"), indent=1)
print("MANIFEST.json: %d checks, %d not claimed" % (len(checks), len(na)))

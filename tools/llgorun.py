#!/usr/bin/env python3
"""ad-hoc: build a module dir with the llgo built from /repo's working tree and run it.  usage: llgorun.py <dir> [O0|O2] [tags]"""
import os, sys, tempfile, shutil
sys.path.insert(0, os.path.dirname(os.path.dirname(os.path.abspath(__file__))))
from vlib import common as C
d = os.path.abspath(sys.argv[1]); opt = sys.argv[2] if len(sys.argv) > 2 else "O0"; tags = sys.argv[3] if len(sys.argv) > 3 else ""
rd = tempfile.mkdtemp(prefix="llgorun-")
try:
    ok, out = C.llgo_build(d, os.path.join(rd, "a.out"), opt=opt, tags=tags, rundir=rd)
    if not ok:
        print("BUILD FAILED\n" + out); sys.exit(1)
    st, so, se = C.run_exe(os.path.join(rd, "a.out"), timeout=60)
    sys.stdout.write(so); sys.stderr.write(se); print("exit:", st)
finally:
    shutil.rmtree(rd, ignore_errors=True)

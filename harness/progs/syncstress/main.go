// Compiled by llgo (and by go as reference): every line printed is schedule independent.
package main

import (
	"sync"
	"sync/atomic"
	"unsafe"
)

type pair struct{ a, b int64 }

type box struct{ v int }

func (b box) get(k int) int   { return b.v*10 + k }
func (b *box) add(k int, wg *sync.WaitGroup, out *int64) { atomic.AddInt64(out, int64(b.v+k)); wg.Done() }

func goStatement() {
	var wg sync.WaitGroup
	res := make([]int64, 8)
	x := 1
	s := pair{3, 4}
	bx := box{7}
	f := func(i int, p pair, q *pair, str string, fl float64, arr [3]int8) {
		res[0] = int64(i)
		res[1] = p.a*10 + p.b
		res[2] = q.a*10 + q.b
		res[3] = int64(len(str)) + int64(fl*2) + int64(arr[2])
		wg.Done()
	}
	wg.Add(3)
	q := &pair{5, 6}
	go f(x, s, q, "abc", 1.5, [3]int8{1, 2, 3})
	x = 2         // must not be seen by the goroutine
	s = pair{9, 9} // idem
	var sum int64
	go bx.add(5, &wg, &sum) // method value on pointer receiver, bound at the go statement
	g := bx.get
	bx.v = 100 // the bound method value g copied bx already
	go func(h func(int) int) { res[4] = int64(h(2)); wg.Done() }(g)
	wg.Wait()
	println("go:", res[0], res[1], res[2], res[3], res[4], sum >= 12)
}

func mutexCounter(n, m int) {
	var mu sync.Mutex
	var wg sync.WaitGroup
	cnt := 0
	for i := 0; i < n; i++ {
		wg.Add(1)
		go func() {
			defer wg.Done()
			for j := 0; j < m; j++ {
				mu.Lock()
				cnt++
				mu.Unlock()
			}
		}()
	}
	wg.Wait()
	println("mutex:", n, m, cnt)
}

func rwmutex(readers, writes int) {
	var mu sync.RWMutex
	var wg sync.WaitGroup
	p := pair{}
	var bad int64
	stop := int32(0)
	for i := 0; i < readers; i++ {
		wg.Add(1)
		go func() {
			defer wg.Done()
			for atomic.LoadInt32(&stop) == 0 {
				mu.RLock()
				if p.a != p.b {
					atomic.AddInt64(&bad, 1)
				}
				mu.RUnlock()
			}
		}()
	}
	for j := 0; j < writes; j++ {
		mu.Lock()
		p.a++
		p.b++
		mu.Unlock()
	}
	atomic.StoreInt32(&stop, 1)
	wg.Wait()
	println("rwmutex:", p.a, p.b, bad)
}

func once(n int) {
	var o sync.Once
	var wg sync.WaitGroup
	var runs, seen int64
	init := 0
	for i := 0; i < n; i++ {
		wg.Add(1)
		go func() {
			defer wg.Done()
			o.Do(func() { atomic.AddInt64(&runs, 1); init = 42 })
			if init == 42 {
				atomic.AddInt64(&seen, 1)
			}
		}()
	}
	wg.Wait()
	println("once:", runs, seen)
}

func cond(producers, items int) {
	var mu sync.Mutex
	c := sync.NewCond(&mu)
	queue := 0
	consumed := 0
	total := producers * items
	var wg sync.WaitGroup
	for i := 0; i < 3; i++ { // consumers
		wg.Add(1)
		go func() {
			defer wg.Done()
			for {
				mu.Lock()
				for queue == 0 && consumed < total {
					c.Wait()
				}
				if consumed >= total {
					mu.Unlock()
					c.Broadcast()
					return
				}
				queue--
				consumed++
				done := consumed >= total
				mu.Unlock()
				if done {
					c.Broadcast()
				}
			}
		}()
	}
	for i := 0; i < producers; i++ {
		wg.Add(1)
		go func() {
			defer wg.Done()
			for j := 0; j < items; j++ {
				mu.Lock()
				queue++
				mu.Unlock()
				c.Signal()
			}
		}()
	}
	wg.Wait()
	println("cond:", consumed, queue)
}

func atomics(n, m int) {
	var wg sync.WaitGroup
	var i32 int32
	var u32 uint32
	var i64 int64
	var u64 uint64
	var up uintptr
	var ai atomic.Int64
	var au atomic.Uint32
	var casv int64
	var tear uint64
	var badTear int64
	var val atomic.Value
	val.Store(pair{0, 0})
	for g := 0; g < n; g++ {
		wg.Add(1)
		go func(g int) {
			defer wg.Done()
			for j := 0; j < m; j++ {
				atomic.AddInt32(&i32, 1)
				atomic.AddUint32(&u32, 2)
				atomic.AddInt64(&i64, 1<<33)
				atomic.AddUint64(&u64, 3)
				atomic.AddUintptr(&up, 1)
				ai.Add(-1)
				au.Add(1)
				for {
					old := atomic.LoadInt64(&casv)
					if atomic.CompareAndSwapInt64(&casv, old, old+5) {
						break
					}
				}
				if g%2 == 0 {
					if j%2 == 0 {
						atomic.StoreUint64(&tear, 0)
					} else {
						atomic.StoreUint64(&tear, ^uint64(0))
					}
				} else {
					v := atomic.LoadUint64(&tear)
					if v != 0 && v != ^uint64(0) {
						atomic.AddInt64(&badTear, 1)
					}
				}
				val.Store(pair{int64(j), int64(j)})
				p := val.Load().(pair)
				if p.a != p.b {
					atomic.AddInt64(&badTear, 1)
				}
			}
		}(g)
	}
	wg.Wait()
	old := atomic.SwapInt32(&i32, -7)
	println("atomics:", old, i32, u32, i64>>33, u64, up, ai.Load(), au.Load(), casv, badTear)
	var b atomic.Bool
	println("atomicbool:", b.CompareAndSwap(false, true), b.Load(), b.Swap(false), b.Load())
	var ptr atomic.Pointer[pair]
	pp := &pair{1, 2}
	println("atomicptr:", ptr.Load() == nil, ptr.CompareAndSwap(nil, pp), ptr.Load() == pp, ptr.Load().b)
}

// Store-buffering (Dekker) litmus: with sequentially consistent atomics the outcome
// "both loads saw the initial value" is impossible, for every operand kind.
func dekker(rounds int) {
	var xi, yi int64
	var xu, yu uint32
	var xp, yp unsafe.Pointer
	var xg, yg atomic.Pointer[pair]
	one := &pair{1, 1}
	var go1, go2, done int32
	var r [8]int64 // results of worker 1 (even) and worker 2 (odd) per kind
	bad := [4]int64{}
	worker := func(start *int32, self int) {
		for i := 1; i <= rounds; i++ {
			for atomic.LoadInt32(start) != int32(i) {
			}
			if self == 0 {
				atomic.StoreInt64(&xi, 1)
				r[0] = atomic.LoadInt64(&yi)
				atomic.StoreUint32(&xu, 1)
				r[2] = int64(atomic.LoadUint32(&yu))
				atomic.StorePointer(&xp, unsafe.Pointer(one))
				if atomic.LoadPointer(&yp) != nil {
					r[4] = 1
				} else {
					r[4] = 0
				}
				xg.Store(one)
				if yg.Load() != nil {
					r[6] = 1
				} else {
					r[6] = 0
				}
			} else {
				atomic.StoreInt64(&yi, 1)
				r[1] = atomic.LoadInt64(&xi)
				atomic.StoreUint32(&yu, 1)
				r[3] = int64(atomic.LoadUint32(&xu))
				atomic.StorePointer(&yp, unsafe.Pointer(one))
				if atomic.LoadPointer(&xp) != nil {
					r[5] = 1
				} else {
					r[5] = 0
				}
				yg.Store(one)
				if xg.Load() != nil {
					r[7] = 1
				} else {
					r[7] = 0
				}
			}
			atomic.AddInt32(&done, 1)
		}
	}
	go worker(&go1, 0)
	go worker(&go2, 1)
	for i := 1; i <= rounds; i++ {
		atomic.StoreInt64(&xi, 0)
		atomic.StoreInt64(&yi, 0)
		atomic.StoreUint32(&xu, 0)
		atomic.StoreUint32(&yu, 0)
		atomic.StorePointer(&xp, nil)
		atomic.StorePointer(&yp, nil)
		xg.Store(nil)
		yg.Store(nil)
		atomic.StoreInt32(&done, 0)
		atomic.StoreInt32(&go1, int32(i))
		atomic.StoreInt32(&go2, int32(i))
		for atomic.LoadInt32(&done) != 2 {
		}
		for k := 0; k < 4; k++ {
			if r[2*k] == 0 && r[2*k+1] == 0 {
				bad[k]++
			}
		}
	}
	println("dekker:", bad[0], bad[1], bad[2], bad[3])
}

func chans(producers, consumers, items int) {
	ch := make(chan int, 3)
	un := make(chan int)
	var cw sync.WaitGroup
	var sum int64
	for c := 0; c < consumers; c++ {
		cw.Add(1)
		go func() {
			defer cw.Done()
			ch, un := ch, un
			for {
				select {
				case v, ok := <-ch:
					if !ok {
						ch = nil
						for v := range un {
							atomic.AddInt64(&sum, int64(v))
						}
						return
					}
					atomic.AddInt64(&sum, int64(v))
				case v, ok := <-un:
					if ok {
						atomic.AddInt64(&sum, int64(v))
					}
				}
			}
		}()
	}

	var pw sync.WaitGroup
	for p := 0; p < producers; p++ {
		pw.Add(1)
		go func(p int) {
			defer pw.Done()
			for j := 1; j <= items; j++ {
				if j%2 == 0 {
					ch <- j
				} else {
					un <- j
				}
			}
		}(p)
	}
	pw.Wait()
	close(ch)
	close(un)
	cw.Wait()
	println("chans:", sum, producers*items*(items+1)/2)
}

func main() {
	goStatement()
	mutexCounter(2, 2000)
	mutexCounter(16, 300)
	rwmutex(4, 3000)
	once(16)
	cond(4, 200)
	atomics(8, 400)
	mutexCounter(64, 40)
	chans(3, 2, 40)
	dekker(60000)
	println("done")
}

module syncstress

go 1.24

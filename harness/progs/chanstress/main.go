// Compiled by llgo (and by go as reference): every line printed is schedule independent.
package main

import "sync"

type msg struct {
	id  int
	pay [3]int64
	s   string
}

func fifo() {
	ch := make(chan int, 3)
	ch <- 1
	ch <- 2
	ch <- 3
	println("fifo:", len(ch), cap(ch), <-ch, <-ch, len(ch), <-ch)
	close(ch)
	v, ok := <-ch
	println("closed:", v, ok)
}

func rangeClose() {
	ch := make(chan int)
	go func() {
		for i := 0; i < 5; i++ {
			ch <- i * i
		}
		close(ch)
	}()
	s := 0
	n := 0
	for v := range ch {
		s += v
		n++
	}
	println("range:", n, s)
}

func structs() {
	ch := make(chan msg, 1)
	done := make(chan struct{})
	go func() {
		m := <-ch
		println("struct:", m.id, m.pay[0], m.pay[2], m.s)
		close(done)
	}()
	ch <- msg{7, [3]int64{1 << 40, 2, -3}, "hi"}
	<-done
	z := make(chan struct{}, 2)
	z <- struct{}{}
	z <- struct{}{}
	println("zerosize:", len(z))
}

func selects() {
	a := make(chan int, 1)
	b := make(chan int, 1)
	var nilch chan int
	n := 0
	select {
	case v := <-a:
		n = v
	case <-nilch:
		n = -1
	default:
		n = 100
	}
	// only the receive is ready: a holds a value, b is full
	a <- 5
	b <- 2
	select {
	case v := <-a:
		n += v
	case b <- 1:
		n += 1000
	}
	<-b
	// only the send is ready: a is empty, b has room
	select {
	case v := <-a:
		n += v * 7
	case b <- 9:
		n += 10000
	}
	println("select:", n, len(a), len(b), <-b)
	// blocking select woken by close
	c := make(chan int)
	go func() { close(c) }()
	select {
	case v, ok := <-c:
		println("selclose:", v, ok)
	}
}

func pipeline(workers, items int) {
	src := make(chan int)
	dst := make(chan int, 4)
	var wg sync.WaitGroup
	for w := 0; w < workers; w++ {
		wg.Add(1)
		go func() {
			defer wg.Done()
			for v := range src {
				dst <- v * 2
			}
		}()
	}
	go func() {
		for i := 1; i <= items; i++ {
			src <- i
		}
		close(src)
	}()
	go func() { wg.Wait(); close(dst) }()
	sum, n := 0, 0
	for v := range dst {
		sum += v
		n++
	}
	println("pipeline:", n, sum)
}

func selectBoth(rounds int) {
	// two goroutines exchanging through selects with send and receive cases on different channels
	x := make(chan int)
	y := make(chan int)
	done := make(chan int)
	go func() {
		got := 0
		for i := 0; i < rounds; i++ {
			select {
			case v := <-x:
				got += v
			}
			y <- i
		}
		done <- got
	}()
	s := 0
	for i := 0; i < rounds; i++ {
		x <- i
		s += <-y
	}
	println("exchange:", <-done, s)
}

func misuse() {
	try := func(name string, f func()) {
		defer func() {
			r := recover()
			println(name, r != nil)
		}()
		f()
	}
	try("sendclosed:", func() { c := make(chan int, 1); close(c); c <- 1 })
	try("closeclosed:", func() { c := make(chan int); close(c); close(c) })
	try("closenil:", func() { var c chan int; close(c) })
	try("recvclosed:", func() { c := make(chan int); close(c); <-c })
	try("selsendclosed:", func() {
		c := make(chan int, 1)
		close(c)
		select {
		case c <- 1:
		default:
		}
	})
}

func main() {
	fifo()
	rangeClose()
	structs()
	selects()
	pipeline(4, 200)
	selectBoth(50)
	misuse()
	println("done")
}

module chanstress

go 1.24

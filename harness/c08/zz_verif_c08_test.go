package ssa

// Injected by /verif at check time; not part of goplus/llgo.
//
// C08: for TLC-generated type terms (spec/layout/Layout.tla) build the go/types value and ask the real code for its
// layout in the three places the property names:
//   a  compile-time: the types.Sizes object internal/build.Do hands to the type checker for the target
//      (types.SizesFor(compiler, arch) as reported by `go list`, passed through Do's own `sizes` closure, whose source
//      text is compiled into this test binary by the driver -> Program.TypeSizes -> goProgram.Sizeof/Alignof/Offsetsof)
//   b  code generation: Program.SizeOf / OffsetOf / ABI alignment of the LLVM type generated code uses
//   c  type descriptors: the constants in the descriptor globals the real Builder.abiType emits (Size, Align,
//      FieldAlign, PtrBytes, struct field offsets, map key/elem/bucket sizes) and the abi.Builder tables behind them
// One process per target (VERIF_TARGET=goos/goarch); observations are written as ndjson, the driver judges them.

import (
	"bufio"
	"encoding/json"
	"fmt"
	"go/token"
	"go/types"
	"os"
	"os/exec"
	"strings"
	"testing"
	"time"

	"github.com/xgo-dev/llvm"
	xpackages "golang.org/x/tools/go/packages"
)

// VerifBuildSizes is set by the generated external test file: it returns internal/build.Do's `sizes` closure (compiled
// from the source text found in internal/build/build.go) bound to the given Program.
var VerifBuildSizes func(prog Program) func(sizes types.Sizes, compiler, arch string) types.Sizes

type c08Term struct {
	K      string    `json:"k"`
	N      string    `json:"n"`
	M      int       `json:"m"`
	Len    int64     `json:"len"`
	E      *c08Term  `json:"e"`
	Key    *c08Term  `json:"key"`
	U      *c08Term  `json:"u"`
	Fields []c08Term `json:"fields"`
}

type c08Case struct {
	I int     `json:"i"`
	T c08Term `json:"t"`
}

// [size, align, offsets, map slots]
type c08Lay struct {
	S int64   `json:"s"`
	A int64   `json:"a"`
	O []int64 `json:"o"`
	M []int64 `json:"m"`
}

type c08Obs struct {
	I   int     `json:"i"`
	A   *c08Lay `json:"a,omitempty"`   // compile-time sizes
	B   *c08Lay `json:"b,omitempty"`   // LLVM data layout
	C   *c08Lay `json:"c,omitempty"`   // constants read back from the emitted descriptors
	CT  []int64 `json:"ct,omitempty"`  // abi.Builder tables: size, align, fieldalign, ptrbytes
	CD  []int64 `json:"cd,omitempty"`  // descriptor: fieldalign, ptrbytes
	Ref *c08Lay `json:"ref,omitempty"` // the reference toolchain's own sizes for the arch (gc), func-free terms only
	Raw string  `json:"raw,omitempty"`
	Err string  `json:"err,omitempty"`
}

type c08World struct {
	pkg *types.Package
	n   int
	idx int
}

var c08BasicKinds = map[string]types.BasicKind{
	"bool": types.Bool, "int8": types.Int8, "uint8": types.Uint8, "int16": types.Int16, "uint16": types.Uint16,
	"int32": types.Int32, "uint32": types.Uint32, "int64": types.Int64, "uint64": types.Uint64, "int": types.Int,
	"uint": types.Uint, "uintptr": types.Uintptr, "float32": types.Float32, "float64": types.Float64,
	"complex64": types.Complex64, "complex128": types.Complex128, "string": types.String, "unsafeptr": types.UnsafePointer,
}

func (w *c08World) build(t *c08Term) types.Type {
	switch t.K {
	case "basic":
		k, ok := c08BasicKinds[t.N]
		if !ok {
			panic("unknown basic " + t.N)
		}
		return types.Typ[k]
	case "ptr":
		return types.NewPointer(w.build(t.E))
	case "slice":
		return types.NewSlice(w.build(t.E))
	case "chan":
		return types.NewChan(types.SendRecv, w.build(t.E))
	case "map":
		return types.NewMap(w.build(t.Key), w.build(t.E))
	case "func":
		return types.NewSignatureType(nil, nil, nil, nil, nil, false)
	case "iface":
		var ms []*types.Func
		for i := 0; i < t.M; i++ {
			ms = append(ms, types.NewFunc(token.NoPos, w.pkg, fmt.Sprintf("M%d", i), types.NewSignatureType(nil, nil, nil, nil, nil, false)))
		}
		return types.NewInterfaceType(ms, nil).Complete()
	case "array":
		return types.NewArray(w.build(t.E), t.Len)
	case "struct":
		fs := make([]*types.Var, len(t.Fields))
		for i := range t.Fields {
			// every second field is blank: names play no part in layout, and a blank field counts like any other
			name := fmt.Sprintf("F%d", i)
			if i%2 == 1 {
				name = "_"
			}
			fs[i] = types.NewField(token.NoPos, w.pkg, name, w.build(&t.Fields[i]), false)
		}
		return types.NewStruct(fs, nil)
	case "alias":
		w.n++
		obj := types.NewTypeName(token.NoPos, w.pkg, fmt.Sprintf("A%d_%d", w.idx, w.n), nil)
		a := types.NewAlias(obj, w.build(t.U))
		w.pkg.Scope().Insert(obj)
		return a
	case "named":
		w.n++
		obj := types.NewTypeName(token.NoPos, w.pkg, fmt.Sprintf("T%d_%d", w.idx, w.n), nil)
		n := types.NewNamed(obj, w.build(t.U).Underlying(), nil)
		w.pkg.Scope().Insert(obj)
		return n
	}
	panic("unknown term kind " + t.K)
}

func c08HasFunc(t *c08Term) bool {
	if t == nil {
		return false
	}
	if t.K == "func" {
		return true
	}
	for i := range t.Fields {
		if c08HasFunc(&t.Fields[i]) {
			return true
		}
	}
	// a pointer/slice/chan is one or three words whatever it refers to; a map's slot and bucket sizes depend on key and elem
	if t.K == "map" {
		return c08HasFunc(t.Key) || c08HasFunc(t.E)
	}
	if t.K == "array" {
		return c08HasFunc(t.E)
	}
	if t.K == "named" || t.K == "alias" {
		return c08HasFunc(t.U)
	}
	return false
}

func c08StructOf(t types.Type) *types.Struct {
	s, _ := t.Underlying().(*types.Struct)
	return s
}

func c08Fields(s *types.Struct) []*types.Var {
	fs := make([]*types.Var, s.NumFields())
	for i := range fs {
		fs[i] = s.Field(i)
	}
	return fs
}

func c08SizesLay(sz types.Sizes, T types.Type) *c08Lay {
	l := &c08Lay{S: sz.Sizeof(T), A: sz.Alignof(T), O: []int64{}, M: []int64{}}
	if s := c08StructOf(T); s != nil && s.NumFields() > 0 {
		l.O = sz.Offsetsof(c08Fields(s))
	}
	return l
}

// descend to the abi.Type (its first member is the integer Size); chain[len-1] is the abi.Type constant,
// chain[len-2] (if any) the kind-specific descriptor that embeds it
func c08DescChain(init llvm.Value) []llvm.Value {
	chain := []llvm.Value{init}
	v := init
	for v.OperandsCount() > 0 && v.Operand(0).Type().TypeKind() == llvm.StructTypeKind {
		v = v.Operand(0)
		chain = append(chain, v)
	}
	return chain
}

type c08Target struct {
	goos, goarch string
	prog         Program
	pkg          Package
	b            Builder
	sz           types.Sizes
	ref          types.Sizes
	info         map[string]any
}

func c08NewTarget(goos, goarch string, rt *types.Package) *c08Target {
	tg := &c08Target{goos: goos, goarch: goarch}
	prog := NewProgram(&Target{GOOS: goos, GOARCH: goarch})
	prog.SetRuntime(rt)
	// exactly as golang.org/x/tools/go/packages (and therefore internal/packages.LoadEx) learns compiler and arch
	cmd := exec.Command("go", "list", "-f", "{{context.GOARCH}} {{context.Compiler}}", "--", "unsafe")
	cmd.Env = append(os.Environ(), "GOOS="+goos, "GOARCH="+goarch)
	out, err := cmd.Output()
	if err != nil {
		panic(fmt.Sprintf("go list for %s/%s: %v", goos, goarch, err))
	}
	f := strings.Fields(string(out))
	if len(f) != 2 {
		panic("unexpected go list output " + string(out))
	}
	arch, compiler := f[0], f[1]
	base := types.SizesFor(compiler, arch)
	if base == nil {
		panic("no sizes for " + compiler + "/" + arch)
	}
	if VerifBuildSizes == nil {
		panic("VerifBuildSizes not set")
	}
	tg.sz = VerifBuildSizes(prog)(base, compiler, arch)
	tg.ref = types.SizesFor("gc", arch)
	tg.prog = prog
	tg.pkg = prog.NewPackage("verifc08", "verifc08")
	tg.b = tg.pkg.NewFunc("main", NoArgsNoRet, InC).MakeBody(1)
	tg.info = map[string]any{"goos": goos, "goarch": goarch, "compiler": compiler, "arch": arch,
		"base": fmt.Sprintf("%T %+v", base, base), "sizes": fmt.Sprintf("%T", tg.sz), "ptr": prog.PointerSize(),
		"datalayout": prog.DataLayout()}
	return tg
}

func (tg *c08Target) observe(idx int, term *c08Term, T types.Type) (obs c08Obs) {
	obs.I = idx
	defer func() {
		if e := recover(); e != nil {
			obs.Err = fmt.Sprint(e)
		}
	}()
	prog := tg.prog
	// a: compile time
	obs.A = c08SizesLay(tg.sz, T)
	if !c08HasFunc(term) {
		obs.Ref = c08SizesLay(tg.ref, T)
	}
	// b: code generation
	lt := prog.Type(T, InGo)
	raw := lt.raw.Type
	obs.Raw = raw.String()
	bl := &c08Lay{S: int64(prog.SizeOf(lt)), A: int64(prog.td.ABITypeAlignment(lt.ll)), O: []int64{}, M: []int64{}}
	if s := c08StructOf(T); s != nil {
		for i := 0; i < s.NumFields(); i++ {
			bl.O = append(bl.O, int64(prog.OffsetOf(lt, i)))
		}
	}
	obs.B = bl
	// c: descriptors
	ab := &prog.abi
	obs.CT = []int64{int64(ab.Size(raw)), int64(ab.Align(raw)), int64(ab.FieldAlign(raw)), int64(ab.PtrBytes(raw))}
	tg.b.abiType(raw)
	name, _ := ab.TypeName(raw)
	g := tg.pkg.VarOf(name)
	if g == nil {
		panic("descriptor global not found: " + name)
	}
	chain := c08DescChain(g.impl.Initializer())
	common := chain[len(chain)-1]
	if common.OperandsCount() < 7 {
		panic(fmt.Sprintf("unexpected descriptor shape for %s", name))
	}
	cl := &c08Lay{S: int64(common.Operand(0).ZExtValue()), A: int64(common.Operand(4).ZExtValue()), O: []int64{}, M: []int64{}}
	obs.CD = []int64{int64(common.Operand(5).ZExtValue()), int64(common.Operand(1).ZExtValue())}
	if rs, ok := raw.Underlying().(*types.Struct); ok && rs.NumFields() > 0 && c08StructOf(T) != nil {
		sname, _ := ab.TypeName(rs)
		gf := tg.pkg.VarOf(sname + "$fields")
		if gf == nil {
			panic("fields global not found: " + sname)
		}
		arr := gf.impl.Initializer()
		if arr.OperandsCount() != rs.NumFields() {
			panic(fmt.Sprintf("fields array of %s has %d entries, want %d", sname, arr.OperandsCount(), rs.NumFields()))
		}
		for i := 0; i < rs.NumFields(); i++ {
			cl.O = append(cl.O, int64(arr.Operand(i).Operand(2).ZExtValue()))
		}
	}
	if mt, ok := raw.Underlying().(*types.Map); ok {
		if len(chain) < 2 {
			panic("map descriptor without extended fields")
		}
		ext := chain[len(chain)-2]
		if ext.OperandsCount() < 9 {
			panic("unexpected map descriptor shape")
		}
		cl.M = []int64{int64(ext.Operand(5).ZExtValue()), int64(ext.Operand(6).ZExtValue()), int64(ext.Operand(7).ZExtValue())}
		// the same three numbers as the compile-time sizes and the LLVM layout see them
		bucket := ab.MapBucket(mt)
		bs := bucket.Underlying().(*types.Struct)
		keySlot := bs.Field(1).Type().(*types.Array).Elem()
		elemSlot := bs.Field(2).Type().(*types.Array).Elem()
		gm := T.Underlying().(*types.Map)
		aslot := func(x types.Type) int64 { // unsafe.Sizeof of the Go key/elem type, a pointer when kept indirectly
			if n := tg.sz.Sizeof(x); n <= 128 {
				return n
			}
			return tg.sz.Sizeof(types.Typ[types.UnsafePointer])
		}
		obs.A.M = []int64{aslot(gm.Key()), aslot(gm.Elem()), tg.sz.Sizeof(bucket)}
		obs.B.M = []int64{int64(prog.SizeOf(prog.rawType(keySlot))), int64(prog.SizeOf(prog.rawType(elemSlot))), int64(prog.SizeOf(prog.rawType(bucket)))}
		if obs.Ref != nil {
			slot := func(x types.Type) types.Type {
				if tg.ref.Sizeof(x) > 128 {
					return types.NewPointer(x)
				}
				return x
			}
			k, e := slot(gm.Key()), slot(gm.Elem())
			fld := func(n string, t types.Type) *types.Var { return types.NewField(token.NoPos, nil, n, t, false) }
			rb := types.NewStruct([]*types.Var{fld("topbits", types.NewArray(types.Typ[types.Uint8], 8)), fld("keys", types.NewArray(k, 8)),
				fld("elems", types.NewArray(e, 8)), fld("overflow", types.Typ[types.Uintptr])}, nil)
			obs.Ref.M = []int64{tg.ref.Sizeof(k), tg.ref.Sizeof(e), tg.ref.Sizeof(rb)}
		}
	}
	obs.C = cl
	return
}

func TestVerifC08Layout(t *testing.T) {
	casesPath, outPath, target := os.Getenv("VERIF_CASES"), os.Getenv("VERIF_OUT"), os.Getenv("VERIF_TARGET")
	if casesPath == "" || outPath == "" || target == "" {
		t.Skip("VERIF_CASES / VERIF_OUT / VERIF_TARGET not set")
	}
	t0 := time.Now()
	Initialize(InitAll)
	repo := os.Getenv("VERIF_REPO_DIR")
	pkgs, err := xpackages.Load(&xpackages.Config{
		Mode: xpackages.NeedName | xpackages.NeedTypes | xpackages.NeedSyntax | xpackages.NeedTypesInfo | xpackages.NeedDeps |
			xpackages.NeedImports | xpackages.NeedFiles | xpackages.NeedCompiledGoFiles,
		Dir: repo + "/runtime", BuildFlags: []string{"-tags=llgo"}}, PkgRuntime)
	if err != nil || len(pkgs) != 1 || len(pkgs[0].Errors) > 0 || pkgs[0].Types == nil {
		t.Fatalf("cannot load the llgo runtime package from source: %v %v", err, pkgs)
	}
	rt := pkgs[0].Types
	tload := time.Since(t0)
	parts := strings.Split(target, "/")
	tg := c08NewTarget(parts[0], parts[1], rt)

	in, err := os.Open(casesPath)
	if err != nil {
		t.Fatal(err)
	}
	defer in.Close()
	out, err := os.Create(outPath)
	if err != nil {
		t.Fatal(err)
	}
	defer out.Close()
	// unbuffered on purpose: if the real code kills the process on some term (log.Fatalf), what was seen so far survives
	enc := json.NewEncoder(out)
	tg.info["runtime_load_s"] = tload.Seconds()
	enc.Encode(map[string]any{"info": tg.info})
	world := &c08World{pkg: types.NewPackage("example.com/verifp", "verifp")}
	sc := bufio.NewScanner(in)
	sc.Buffer(make([]byte, 1<<20), 1<<24)
	n, nerr := 0, 0
	for sc.Scan() {
		var c c08Case
		if err := json.Unmarshal(sc.Bytes(), &c); err != nil {
			t.Fatalf("bad case: %v: %s", err, sc.Text())
		}
		world.idx, world.n = c.I, 0
		var T types.Type
		func() {
			defer func() {
				if e := recover(); e != nil {
					T = nil
					enc.Encode(c08Obs{I: c.I, Err: fmt.Sprint("build: ", e)})
				}
			}()
			T = world.build(&c.T)
		}()
		if T == nil {
			nerr++
			continue
		}
		o := tg.observe(c.I, &c.T, T)
		if o.Err != "" {
			nerr++
		}
		enc.Encode(o)
		n++
	}
	fmt.Printf("VERIF_DONE target=%s cases=%d errors=%d wall=%.1fs\n", target, n, nerr, time.Since(t0).Seconds())
}

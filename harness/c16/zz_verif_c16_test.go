package goembed

// Injected by /verif at check time (go test -overlay); not part of goplus/llgo.
// Replays the cases printed by spec/embed/EmbedCases.tla and EmbedLine.tla into the real functions of this
// package and compares every outcome with the one the TLA+ specification prescribes.  In the "golist" tests the
// same cases are given to the reference `go list` instead: that validates the specification, not llgo.

import (
	"bufio"
	"bytes"
	"encoding/json"
	"fmt"
	"go/ast"
	"go/parser"
	"go/token"
	"io"
	"os"
	"os/exec"
	"path/filepath"
	"runtime"
	"sort"
	"strconv"
	"strings"
	"sync"
	"testing"
)

type vHeader struct {
	Pats  []string `json:"pats"`
	Pairs [][]int  `json:"pairs"`
}
type vNode struct {
	P string `json:"p"`
	K string `json:"k"`
}
type vOut struct {
	F []int   `json:"f"`
	E *string `json:"e"`
}
type vFst struct {
	F []int    `json:"f"`
	D []string `json:"d"`
}
type vTree struct {
	T     []vNode  `json:"t"`
	Home  string   `json:"home"`
	Files []string `json:"files"`
	One   []vOut   `json:"one"`
	Two   []vOut   `json:"two"`
	Fst   []vFst   `json:"fst"`
}

type vMismatch struct {
	Line  int      `json:"line"`
	Which string   `json:"which"`
	Idx   int      `json:"idx"`
	Via   string   `json:"via"`
	Kind  string   `json:"kind"`
	Tree  []vNode  `json:"tree"`
	Home  string   `json:"home,omitempty"`
	Pats  []string `json:"pats"`
	Want  string   `json:"want"`
	WantF []string `json:"want_files,omitempty"`
	Got   []string `json:"got,omitempty"`
	Err   string   `json:"err,omitempty"`
	Note  string   `json:"note,omitempty"`
}

// the specification writes "U" for one non-ASCII letter
func vReal(s string) string { return strings.ReplaceAll(s, "U", "é") }

func vContent(rel string) string {
	if strings.HasSuffix(rel, "go.mod") {
		return "module nested\n\ngo 1.24\n"
	}
	return "bytes of <" + rel + ">\x00\xff\n"
}

// vMaterialise creates the directory the abstract tree denotes; returns relpath -> content of every regular file
func vMaterialise(dir string, t *vTree, zgo string) (map[string]string, error) {
	content := map[string]string{}
	if err := os.MkdirAll(dir, 0o755); err != nil {
		return nil, err
	}
	write := func(rel, data string) error {
		content[rel] = data
		return os.WriteFile(filepath.Join(dir, filepath.FromSlash(rel)), []byte(data), 0o644)
	}
	if err := write("z.go", zgo); err != nil {
		return nil, err
	}
	for _, n := range t.T {
		rel := vReal(n.P)
		abs := filepath.Join(dir, filepath.FromSlash(rel))
		var err error
		switch n.K {
		case "f":
			err = write(rel, vContent(rel))
		case "d":
			err = os.Mkdir(abs, 0o755)
		case "m":
			if err = os.Mkdir(abs, 0o755); err == nil {
				err = write(rel+"/go.mod", vContent(rel+"/go.mod"))
			}
		case "l":
			err = os.Symlink("a", abs)
		case "L":
			err = os.Symlink("sub", abs)
		default:
			err = fmt.Errorf("unknown kind %q", n.K)
		}
		if err != nil {
			return nil, err
		}
	}
	return content, nil
}

// error class of a message of the go command or of this package (the texts coincide)
func vClass(msg string) string {
	switch {
	case strings.Contains(msg, "invalid pattern syntax"):
		return "S"
	case strings.Contains(msg, "no matching files found"):
		return "N"
	case strings.Contains(msg, "in different module"):
		return "M"
	case strings.Contains(msg, "in non-directory"):
		return "D"
	case strings.Contains(msg, "invalid name"), strings.Contains(msg, "in invalid directory"):
		return "B"
	case strings.Contains(msg, "cannot embed irregular file"):
		return "I"
	case strings.Contains(msg, "contains no embeddable files"):
		return "E"
	}
	return "?"
}

func vQuote(p string, style int) string {
	bareOK := p != "" && !strings.ContainsAny(p, " \t\"`")
	switch style % 3 {
	case 0:
		if bareOK {
			return p
		}
		return strconv.Quote(p)
	case 1:
		return strconv.Quote(p)
	default:
		if !strings.Contains(p, "`") {
			return "`" + p + "`"
		}
		return strconv.Quote(p)
	}
}

func vSource(pats []string, style int) string {
	q := make([]string, len(pats))
	for i, p := range pats {
		q[i] = vQuote(p, style+i)
	}
	return "package p\n\nimport \"embed\"\n\n//go:embed " + strings.Join(q, " ") + "\nvar X embed.FS\n"
}

func vWantFiles(t *vTree, o vOut) []string {
	w := make([]string, 0, len(o.F))
	for _, i := range o.F {
		w = append(w, vReal(t.Files[i-1]))
	}
	sort.Strings(w)
	return w
}

func vKeyInts(f []int) string {
	c := append([]int(nil), f...)
	sort.Ints(c)
	return fmt.Sprint(c)
}

type vCaseCtx struct {
	line    int
	t       *vTree
	content map[string]string
	which   string
	idx     int
	pats    []string
	want    vOut
	report  func(m vMismatch)
	stats   map[string]int64
}

// vJudge compares one real outcome with the specification's
func (c *vCaseCtx) vJudge(via string, got []FileData, err error, panicked string) bool {
	m := vMismatch{Line: c.line, Which: c.which, Idx: c.idx, Via: via, Tree: c.t.T, Home: c.t.Home, Pats: c.pats}
	if c.want.E != nil {
		m.Want = "reject:" + *c.want.E
	} else {
		m.Want = "accept"
		m.WantF = vWantFiles(c.t, c.want)
	}
	for _, g := range got {
		m.Got = append(m.Got, g.Name)
	}
	if err != nil {
		m.Err = err.Error()
	}
	if panicked != "" {
		m.Kind, m.Note = "panic", panicked
		c.report(m)
		return false
	}
	if c.want.E != nil {
		if err == nil {
			m.Kind = "accepted-but-go-rejects"
			c.report(m)
			return false
		}
		if cl := vClass(err.Error()); !strings.Contains(*c.want.E, cl) {
			c.stats["class_drift"]++ // informational: the statement only demands rejection
		}
		return true
	}
	if err != nil {
		m.Kind = "rejected-but-go-accepts"
		c.report(m)
		return false
	}
	names := make([]string, 0, len(got))
	seen := map[string]bool{}
	for _, g := range got {
		if seen[g.Name] {
			m.Kind, m.Note = "duplicate-file", g.Name
			c.report(m)
			return false
		}
		seen[g.Name] = true
		names = append(names, g.Name)
	}
	sort.Strings(names)
	if strings.Join(names, "\x00") != strings.Join(m.WantF, "\x00") {
		m.Kind = "file-set-differs"
		c.report(m)
		return false
	}
	for _, g := range got {
		if string(g.Data) != c.content[g.Name] {
			m.Kind, m.Note = "bytes-differ", g.Name
			c.report(m)
			return false
		}
	}
	return true
}

func (c *vCaseCtx) vJudgeFS(got []FileData, fst map[string][]string) {
	d, ok := fst[vKeyInts(c.want.F)]
	if !ok {
		return
	}
	c.stats["fs_tables_checked"]++
	var entries []FileData
	pan := ""
	func() {
		defer func() {
			if r := recover(); r != nil {
				pan = fmt.Sprint(r)
			}
		}()
		entries = BuildFSEntries(got)
	}()
	m := vMismatch{Line: c.line, Which: c.which, Idx: c.idx, Via: "fs", Tree: c.t.T, Home: c.t.Home, Pats: c.pats, Want: "fs-table", WantF: d}
	if pan != "" {
		m.Kind, m.Note = "panic", pan
		c.report(m)
		return
	}
	for _, e := range entries {
		m.Got = append(m.Got, e.Name)
	}
	lookupNote := vFSLookups(entries, d)
	if strings.Join(m.Got, "\x00") != strings.Join(d, "\x00") {
		m.Kind, m.Note = "fs-table-differs", lookupNote
		c.report(m)
		return
	}
	if lookupNote != "" {
		m.Kind, m.Note = "fs-lookup-fails", lookupNote
		c.report(m)
		return
	}
	for _, e := range entries {
		if strings.HasSuffix(e.Name, "/") {
			if len(e.Data) != 0 {
				m.Kind, m.Note = "fs-bytes-differ", e.Name
				c.report(m)
				return
			}
		} else if string(e.Data) != c.content[e.Name] {
			m.Kind, m.Note = "fs-bytes-differ", e.Name
			c.report(m)
			return
		}
	}
}

// the search package embed performs on the table (embed.FS.lookup / readDir): entries are found by binary search
// on (directory, element); want = the table the law prescribes (directories carry a trailing slash)
func vFSSplit(name string) (dir, elem string) {
	name = strings.TrimSuffix(name, "/")
	if i := strings.LastIndexByte(name, '/'); i >= 0 {
		return name[:i], name[i+1:]
	}
	return ".", name
}

func vFSLookups(tab []FileData, want []string) string {
	lookup := func(name string) int {
		dir, elem := vFSSplit(name)
		i := sort.Search(len(tab), func(i int) bool {
			idir, ielem := vFSSplit(tab[i].Name)
			return idir > dir || idir == dir && ielem >= elem
		})
		if i < len(tab) && strings.TrimSuffix(tab[i].Name, "/") == name {
			return i
		}
		return -1
	}
	readDir := func(dir string) []string {
		i := sort.Search(len(tab), func(i int) bool { idir, _ := vFSSplit(tab[i].Name); return idir >= dir })
		j := sort.Search(len(tab), func(j int) bool { jdir, _ := vFSSplit(tab[j].Name); return jdir > dir })
		var l []string
		for ; i < j; i++ {
			l = append(l, tab[i].Name)
		}
		return l
	}
	kids := map[string][]string{}
	for _, w := range want {
		name := strings.TrimSuffix(w, "/")
		if lookup(name) < 0 {
			return "embed.FS lookup of " + name + " fails in the table " + fmt.Sprint(vNames(tab))
		}
		dir, _ := vFSSplit(w)
		kids[dir] = append(kids[dir], w)
	}
	for dir, ks := range kids {
		got := readDir(dir)
		sort.Strings(ks)
		g := append([]string(nil), got...)
		sort.Strings(g)
		if strings.Join(g, "\x00") != strings.Join(ks, "\x00") {
			return "embed.FS ReadDir(" + dir + ") lists " + fmt.Sprint(got) + ", want " + fmt.Sprint(ks)
		}
	}
	return ""
}

func vNames(tab []FileData) []string {
	n := make([]string, len(tab))
	for i, e := range tab {
		n[i] = e.Name
	}
	return n
}

func vResolve(dir string, pats []string) (got []FileData, err error, pan string) {
	defer func() {
		if r := recover(); r != nil {
			pan = fmt.Sprint(r)
		}
	}()
	got, err = ResolvePatterns(dir, pats)
	return
}

func vDirective(dir string, pats []string, style int) (got []FileData, err error, pan string) {
	defer func() {
		if r := recover(); r != nil {
			pan = fmt.Sprint(r)
		}
	}()
	fset := token.NewFileSet()
	f, perr := parser.ParseFile(fset, filepath.Join(dir, "z.go"), vSource(pats, style), parser.ParseComments)
	if perr != nil {
		return nil, nil, "harness: generated source does not parse: " + perr.Error()
	}
	vm, err := LoadDirectives(fset, []*ast.File{f})
	if err != nil {
		return nil, err, ""
	}
	v, ok := vm["X"]
	if !ok {
		return nil, nil, "LoadDirectives returned no entry for the variable carrying the directive"
	}
	return v.Files, nil, ""
}

func vNontrivial(o vOut) bool {
	if o.E == nil {
		return true
	}
	return strings.ContainsAny(*o.E, "MDBIE")
}

func vRunTree(line int, hdr *vHeader, t *vTree, dir string, report func(vMismatch), stats map[string]int64) error {
	content, err := vMaterialise(dir, t, "package p\n")
	if err != nil {
		return err
	}
	defer os.RemoveAll(dir)
	fst := map[string][]string{}
	for _, e := range t.Fst {
		d := make([]string, len(e.D))
		for i, s := range e.D {
			d[i] = vReal(s)
		}
		fst[vKeyInts(e.F)] = d
	}
	run := func(which string, idx int, pats []string, want vOut) {
		c := &vCaseCtx{line: line, t: t, content: content, which: which, idx: idx, pats: pats, want: want, report: report, stats: stats}
		stats["cases"]++
		if want.E == nil {
			stats["spec_accept"]++
		} else {
			stats["spec_reject"]++
			for _, ch := range *want.E {
				if ch != '-' {
					stats["spec_reject_"+string(ch)]++
				}
			}
		}
		if vNontrivial(want) {
			stats["nontrivial"]++
		}
		got, err, pan := vResolve(dir, pats)
		if c.vJudge("resolve", got, err, pan) && want.E == nil {
			c.vJudgeFS(got, fst)
		}
		if which == "two" && (line+idx)%4 != 0 {
			return // the directive spelling is exercised on every single pattern and on a quarter of the lists
		}
		got2, err2, pan2 := vDirective(dir, pats, line+idx)
		stats["directive_cases"]++
		c.vJudge("directive", got2, err2, pan2)
	}
	for i, o := range t.One {
		run("one", i+1, []string{vReal(hdr.Pats[i])}, o)
	}
	for k, o := range t.Two {
		pr := hdr.Pairs[k]
		run("two", k+1, []string{vReal(hdr.Pats[pr[0]-1]), vReal(hdr.Pats[pr[1]-1])}, o)
	}
	return nil
}

func vTmpBase() string {
	if b := os.Getenv("VERIF_TMP"); b != "" {
		return b
	}
	return os.TempDir()
}

func vReadHeader(sc *bufio.Scanner) (*vHeader, error) {
	if !sc.Scan() {
		return nil, fmt.Errorf("empty case file")
	}
	var h vHeader
	if err := json.Unmarshal(sc.Bytes(), &h); err != nil || len(h.Pats) == 0 {
		return nil, fmt.Errorf("first line is not the header: %v", err)
	}
	return &h, nil
}

// TestVerifTrees: VERIF_CASES (line 0 = header, then one tree per line), VERIF_OUT (mismatches), VERIF_STATS
func TestVerifTrees(t *testing.T) {
	path := os.Getenv("VERIF_CASES")
	if path == "" {
		t.Skip("not under /verif")
	}
	f, err := os.Open(path)
	if err != nil {
		t.Fatal(err)
	}
	defer f.Close()
	sc := bufio.NewScanner(f)
	sc.Buffer(make([]byte, 1<<20), 1<<26)
	hdr, err := vReadHeader(sc)
	if err != nil {
		t.Fatal(err)
	}
	out, err := os.Create(os.Getenv("VERIF_OUT"))
	if err != nil {
		t.Fatal(err)
	}
	defer out.Close()
	var mu sync.Mutex
	nrep := 0
	report := func(m vMismatch) {
		mu.Lock()
		defer mu.Unlock()
		nrep++
		if nrep > 200000 {
			return
		}
		b, _ := json.Marshal(m)
		out.Write(append(b, '\n'))
	}
	type job struct {
		line int
		data []byte
	}
	jobs := make(chan job, 64)
	nw := runtime.GOMAXPROCS(0)
	if s := os.Getenv("VERIF_WORKERS"); s != "" {
		nw, _ = strconv.Atoi(s)
	}
	total := map[string]int64{}
	var wg sync.WaitGroup
	var firstErr error
	base, err := os.MkdirTemp(vTmpBase(), "verif-c16-")
	if err != nil {
		t.Fatal(err)
	}
	defer os.RemoveAll(base)
	for w := 0; w < nw; w++ {
		wg.Add(1)
		go func(w int) {
			defer wg.Done()
			stats := map[string]int64{}
			for j := range jobs {
				var tr vTree
				if err := json.Unmarshal(j.data, &tr); err != nil {
					mu.Lock()
					firstErr = fmt.Errorf("line %d: %v", j.line, err)
					mu.Unlock()
					continue
				}
				if len(tr.One) != len(hdr.Pats) || len(tr.Two) != len(hdr.Pairs) {
					mu.Lock()
					firstErr = fmt.Errorf("line %d: %d/%d outcomes for %d/%d pattern lists", j.line, len(tr.One), len(tr.Two), len(hdr.Pats), len(hdr.Pairs))
					mu.Unlock()
					continue
				}
				// the law does not depend on the name of the package directory; "meta" trees get one with glob metacharacters
				pkgName := "pkg"
				if tr.Home == "meta" {
					pkgName = "p[k]g"
				}
				if err := vRunTree(j.line, hdr, &tr, filepath.Join(base, fmt.Sprintf("w%d", w), pkgName), report, stats); err != nil {
					mu.Lock()
					firstErr = fmt.Errorf("line %d: %v", j.line, err)
					mu.Unlock()
				}
				stats["trees"]++
			}
			mu.Lock()
			for k, v := range stats {
				total[k] += v
			}
			mu.Unlock()
		}(w)
	}
	line := 0
	for sc.Scan() {
		line++
		jobs <- job{line, append([]byte(nil), sc.Bytes()...)}
	}
	close(jobs)
	wg.Wait()
	if err := sc.Err(); err != nil {
		t.Fatal(err)
	}
	if firstErr != nil {
		t.Fatal(firstErr)
	}
	total["mismatches"] = int64(nrep)
	b, _ := json.Marshal(total)
	if err := os.WriteFile(os.Getenv("VERIF_STATS"), b, 0o644); err != nil {
		t.Fatal(err)
	}
	fmt.Println("VERIF_DONE")
}

// ---------------------------------------------------------------------------------------------- reference: go list

type vListed struct {
	ImportPath    string
	EmbedPatterns []string
	EmbedFiles    []string
	Error         *struct{ Err string }
}

func vGoList(goBin, modDir string) (map[string]*vListed, error) {
	cmd := exec.Command(goBin, "list", "-e", "-json=ImportPath,EmbedPatterns,EmbedFiles,Error", "./...")
	cmd.Dir = modDir
	var stderr bytes.Buffer
	cmd.Stderr = &stderr
	outp, err := cmd.Output()
	if err != nil && len(outp) == 0 {
		return nil, fmt.Errorf("go list: %v: %s", err, stderr.String())
	}
	res := map[string]*vListed{}
	dec := json.NewDecoder(bytes.NewReader(outp))
	for {
		var l vListed
		if err := dec.Decode(&l); err == io.EOF {
			break
		} else if err != nil {
			return nil, fmt.Errorf("go list output: %v", err)
		}
		res[l.ImportPath] = &l
	}
	return res, nil
}

type vSel struct {
	line  int
	which string
	idx   int
}

func vMix(seed, a, b, c uint64) uint64 {
	x := seed*0x9E3779B97F4A7C15 ^ (a+1)*0xBF58476D1CE4E5B9 ^ (b+1)*0x94D049BB133111EB ^ (c+1)*0xD6E8FEB86659FD93
	x ^= x >> 31
	x *= 0xBF58476D1CE4E5B9
	x ^= x >> 29
	x *= 0x94D049BB133111EB
	x ^= x >> 32
	return x
}

// TestVerifGoListTrees: VERIF_CASES, VERIF_GO, VERIF_OUT, selection: VERIF_SEED, VERIF_GL_ALLUPTO (all cases of trees with
// at most that many nodes), VERIF_GL_PER_MILLE_TRIVIAL / VERIF_GL_PER_MILLE (sampling rates of the other cases),
// VERIF_GL_ALWAYS_LINE (a line whose cases are all taken: the negative control).
// Judges the SPECIFICATION by the reference toolchain: every mismatch written here is a defect of the spec.
func TestVerifGoListTrees(t *testing.T) {
	path := os.Getenv("VERIF_CASES")
	if path == "" {
		t.Skip("not under /verif")
	}
	goBin := os.Getenv("VERIF_GO")
	atoi := func(k string, d int) int {
		if v, err := strconv.Atoi(os.Getenv(k)); err == nil {
			return v
		}
		return d
	}
	seed := uint64(atoi("VERIF_SEED", 1))
	allUpTo := atoi("VERIF_GL_ALLUPTO", 0)
	rateTriv := uint64(atoi("VERIF_GL_PER_MILLE_TRIVIAL", 1))
	rate := uint64(atoi("VERIF_GL_PER_MILLE", 10))
	alwaysLine := atoi("VERIF_GL_ALWAYS_LINE", -1)
	f, err := os.Open(path)
	if err != nil {
		t.Fatal(err)
	}
	defer f.Close()
	sc := bufio.NewScanner(f)
	sc.Buffer(make([]byte, 1<<20), 1<<26)
	hdr, err := vReadHeader(sc)
	if err != nil {
		t.Fatal(err)
	}
	out, err := os.Create(os.Getenv("VERIF_OUT"))
	if err != nil {
		t.Fatal(err)
	}
	defer out.Close()
	base, err := os.MkdirTemp(vTmpBase(), "verif-c16-gl-")
	if err != nil {
		t.Fatal(err)
	}
	defer os.RemoveAll(base)

	type pkgCase struct {
		sel  vSel
		tree *vTree
		pats []string
		want vOut
	}
	const chunkSize = 1500
	type chunk struct {
		dir   string
		cases map[string]*pkgCase
	}
	var mu sync.Mutex
	nsel, checked, nmis, nchunks := 0, 0, 0, 0
	var firstErr error
	report := func(pc *pkgCase, kind, golist string, gl *vListed) {
		nmis++
		m := vMismatch{Line: pc.sel.line, Which: pc.sel.which, Idx: pc.sel.idx, Via: "golist", Kind: kind, Tree: pc.tree.T, Pats: pc.pats, Err: golist}
		if pc.want.E != nil {
			m.Want = "reject:" + *pc.want.E
		} else {
			m.Want = "accept"
			m.WantF = vWantFiles(pc.tree, pc.want)
		}
		if gl != nil {
			m.Got = gl.EmbedFiles
		}
		b, _ := json.Marshal(m)
		out.Write(append(b, '\n'))
	}
	sem := make(chan struct{}, 8)
	var wg sync.WaitGroup
	finish := func(ch *chunk) {
		defer wg.Done()
		defer func() { <-sem }()
		defer os.RemoveAll(ch.dir)
		res, err := vGoList(goBin, ch.dir)
		mu.Lock()
		defer mu.Unlock()
		if err != nil {
			firstErr = err
			return
		}
		for ip, pc := range ch.cases {
			gl := res[ip]
			if gl == nil {
				report(pc, "golist-package-missing", "", nil)
				continue
			}
			checked++
			if gl.Error != nil {
				msg := gl.Error.Err
				if !strings.HasPrefix(msg, "pattern ") {
					report(pc, "golist-other-error", msg, gl)
					continue
				}
				if pc.want.E == nil {
					report(pc, "spec-accepts-go-rejects", msg, gl)
					continue
				}
				// class of the pattern the go command names (it takes the patterns in sorted order)
				cl := vClass(msg)
				okc := false
				for i, p := range pc.pats {
					if strings.HasPrefix(msg, "pattern "+p+": ") && i < len(*pc.want.E) && string((*pc.want.E)[i]) == cl {
						okc = true
					}
				}
				if !okc {
					report(pc, "spec-error-class-differs", msg, gl)
				}
				continue
			}
			if pc.want.E != nil {
				report(pc, "spec-rejects-go-accepts", "", gl)
				continue
			}
			got := append([]string(nil), gl.EmbedFiles...)
			sort.Strings(got)
			if strings.Join(got, "\x00") != strings.Join(vWantFiles(pc.tree, pc.want), "\x00") {
				report(pc, "spec-file-set-differs", "", gl)
			}
		}
	}
	var cur *chunk
	dispatch := func() {
		if cur == nil {
			return
		}
		wg.Add(1)
		sem <- struct{}{}
		go finish(cur)
		cur = nil
	}
	line := 0
	for sc.Scan() {
		line++
		tr := new(vTree)
		if err := json.Unmarshal(sc.Bytes(), tr); err != nil {
			t.Fatalf("line %d: %v", line, err)
		}
		take := func(which string, w uint64, idx int, o vOut) bool {
			if line == alwaysLine || len(tr.T) <= allUpTo {
				return true
			}
			r := rateTriv
			if vNontrivial(o) {
				r = rate
			}
			return vMix(seed, uint64(line), w, uint64(idx))%1000 < r
		}
		add := func(which string, idx int, pats []string, want vOut) {
			if cur == nil {
				d := filepath.Join(base, fmt.Sprintf("m%d", nchunks))
				if nchunks%2 == 1 { // every other module lives in a directory whose name has glob metacharacters
					d = filepath.Join(base, fmt.Sprintf("m[%d]x", nchunks))
				}
				nchunks++
				if err := os.MkdirAll(d, 0o755); err != nil {
					t.Fatal(err)
				}
				if err := os.WriteFile(filepath.Join(d, "go.mod"), []byte("module vm\n\ngo 1.24\n"), 0o644); err != nil {
					t.Fatal(err)
				}
				cur = &chunk{dir: d, cases: map[string]*pkgCase{}}
			}
			name := fmt.Sprintf("c%d", len(cur.cases))
			if _, err := vMaterialise(filepath.Join(cur.dir, name), tr, vSource(pats, line+idx)); err != nil {
				t.Fatalf("line %d: %v", line, err)
			}
			cur.cases["vm/"+name] = &pkgCase{sel: vSel{line, which, idx}, tree: tr, pats: pats, want: want}
			nsel++
			if len(cur.cases) >= chunkSize {
				dispatch()
			}
		}
		for i, o := range tr.One {
			if take("one", 1, i+1, o) {
				add("one", i+1, []string{vReal(hdr.Pats[i])}, o)
			}
		}
		for k, o := range tr.Two {
			if take("two", 2, k+1, o) {
				pr := hdr.Pairs[k]
				add("two", k+1, []string{vReal(hdr.Pats[pr[0]-1]), vReal(hdr.Pats[pr[1]-1])}, o)
			}
		}
	}
	if err := sc.Err(); err != nil {
		t.Fatal(err)
	}
	dispatch()
	wg.Wait()
	if firstErr != nil {
		t.Fatal(firstErr)
	}
	fmt.Printf("VERIF_GOLIST selected=%d checked=%d mismatches=%d\n", nsel, checked, nmis)
	fmt.Println("VERIF_DONE")
}

// ---------------------------------------------------------------------------------------------- directive lines

type vLine struct {
	Lead string   `json:"lead"`
	Rest string   `json:"rest"`
	Kind string   `json:"kind"`
	Ps   []string `json:"ps"`
}

var vTok = strings.NewReplacer("s", " ", "t", "\t", "Q", "\"", "B", "`", "E", "\\", "A", "'")

func vLineText(l *vLine) string { return "//" + vTok.Replace(l.Lead) + "go:embed" + vTok.Replace(l.Rest) }

type vLineMismatch struct {
	Line int      `json:"line"`
	Via  string   `json:"via"`
	Kind string   `json:"kind"`
	Text string   `json:"text"`
	Rest string   `json:"rest"`
	Lead string   `json:"lead"`
	Want string   `json:"want"`
	Ps   []string `json:"want_patterns,omitempty"`
	Got  []string `json:"got,omitempty"`
	Err  string   `json:"err,omitempty"`
}

func vReadLines(t *testing.T) []*vLine {
	f, err := os.Open(os.Getenv("VERIF_LINES"))
	if err != nil {
		t.Fatal(err)
	}
	defer f.Close()
	var ls []*vLine
	sc := bufio.NewScanner(f)
	sc.Buffer(make([]byte, 1<<20), 1<<24)
	for sc.Scan() {
		l := new(vLine)
		if err := json.Unmarshal(sc.Bytes(), l); err != nil {
			// TLC prints an empty sequence of patterns as {} for an empty function
			var alt struct {
				Lead, Rest, Kind string
			}
			if err2 := json.Unmarshal(sc.Bytes(), &alt); err2 != nil {
				t.Fatalf("bad line case: %v", err)
			}
			l.Lead, l.Rest, l.Kind = alt.Lead, alt.Rest, alt.Kind
		}
		for i := range l.Ps {
			l.Ps[i] = vTok.Replace(l.Ps[i])
		}
		ls = append(ls, l)
	}
	return ls
}

// TestVerifLines: VERIF_LINES (one case per line), VERIF_OUT
func TestVerifLines(t *testing.T) {
	if os.Getenv("VERIF_LINES") == "" {
		t.Skip("not under /verif")
	}
	ls := vReadLines(t)
	out, err := os.Create(os.Getenv("VERIF_OUT"))
	if err != nil {
		t.Fatal(err)
	}
	defer out.Close()
	n, skipped := 0, 0
	for i, l := range ls {
		if l.Kind == "unspecified" {
			skipped++
			continue
		}
		n++
		text := vLineText(l)
		var pats []string
		var has bool
		var perr error
		pan := ""
		func() {
			defer func() {
				if r := recover(); r != nil {
					pan = fmt.Sprint(r)
				}
			}()
			pats, has, perr = ParsePatterns(&ast.CommentGroup{List: []*ast.Comment{{Text: text}}})
		}()
		m := vLineMismatch{Line: i, Via: "parse", Text: text, Rest: l.Rest, Lead: l.Lead, Want: l.Kind, Ps: l.Ps, Got: pats}
		if perr != nil {
			m.Err = perr.Error()
		}
		switch {
		case pan != "":
			m.Kind, m.Err = "panic", pan
		case l.Kind == "notdirective":
			if has {
				m.Kind = "ordinary-comment-taken-as-directive"
			}
		case l.Kind == "rejected":
			if !has {
				m.Kind = "directive-ignored"
			} else if perr == nil {
				m.Kind = "malformed-directive-accepted"
			}
		case l.Kind == "pats":
			if !has {
				m.Kind = "directive-ignored"
			} else if perr != nil {
				m.Kind = "wellformed-directive-rejected"
			} else if strings.Join(pats, "\x00") != strings.Join(l.Ps, "\x00") || len(pats) != len(l.Ps) {
				m.Kind = "patterns-differ"
			}
		}
		if m.Kind != "" {
			b, _ := json.Marshal(m)
			out.Write(append(b, '\n'))
		}
	}
	fmt.Printf("VERIF_LINES checked=%d skipped=%d\n", n, skipped)
	fmt.Println("VERIF_DONE")
}

// TestVerifGoListLines: VERIF_LINES, VERIF_FROM/VERIF_STEP (every STEP-th case starting at FROM), VERIF_GO, VERIF_OUT
// Judges EmbedLine.tla by go/build's reading of the directive (go list EmbedPatterns).
func TestVerifGoListLines(t *testing.T) {
	if os.Getenv("VERIF_LINES") == "" {
		t.Skip("not under /verif")
	}
	goBin := os.Getenv("VERIF_GO")
	from, _ := strconv.Atoi(os.Getenv("VERIF_FROM"))
	step, _ := strconv.Atoi(os.Getenv("VERIF_STEP"))
	if step <= 0 {
		step = 1
	}
	ls := vReadLines(t)
	out, err := os.Create(os.Getenv("VERIF_OUT"))
	if err != nil {
		t.Fatal(err)
	}
	defer out.Close()
	base, err := os.MkdirTemp(vTmpBase(), "verif-c16-ll-")
	if err != nil {
		t.Fatal(err)
	}
	defer os.RemoveAll(base)
	type chunk struct {
		dir   string
		cases map[string]int
	}
	var chunks []*chunk
	var cur *chunk
	for i := from; i < len(ls); i += step {
		l := ls[i]
		if l.Kind == "unspecified" {
			continue
		}
		if cur == nil || len(cur.cases) >= 1500 {
			d := filepath.Join(base, fmt.Sprintf("m%d", len(chunks)))
			os.MkdirAll(d, 0o755)
			os.WriteFile(filepath.Join(d, "go.mod"), []byte("module vm\n\ngo 1.24\n"), 0o644)
			cur = &chunk{dir: d, cases: map[string]int{}}
			chunks = append(chunks, cur)
		}
		name := fmt.Sprintf("c%d", len(cur.cases))
		pd := filepath.Join(cur.dir, name)
		os.MkdirAll(pd, 0o755)
		src := "package p\n\nimport _ \"embed\"\n\n" + vLineText(l) + "\nvar X string\n"
		if err := os.WriteFile(filepath.Join(pd, "z.go"), []byte(src), 0o644); err != nil {
			t.Fatal(err)
		}
		cur.cases["vm/"+name] = i
	}
	var mu sync.Mutex
	checked, nmis := 0, 0
	var firstErr error
	sem := make(chan struct{}, 8)
	var wg sync.WaitGroup
	for _, ch := range chunks {
		wg.Add(1)
		sem <- struct{}{}
		go func(ch *chunk) {
			defer wg.Done()
			defer func() { <-sem }()
			res, err := vGoList(goBin, ch.dir)
			mu.Lock()
			defer mu.Unlock()
			if err != nil {
				firstErr = err
				return
			}
			for ip, i := range ch.cases {
				l := ls[i]
				gl := res[ip]
				m := vLineMismatch{Line: i, Via: "golist", Text: vLineText(l), Rest: l.Rest, Lead: l.Lead, Want: l.Kind, Ps: l.Ps}
				if gl == nil {
					m.Kind = "golist-package-missing"
				} else {
					checked++
					m.Got = gl.EmbedPatterns
					want := map[string]bool{}
					if l.Kind == "pats" {
						for _, p := range l.Ps {
							want[p] = true
						}
					}
					got := map[string]bool{}
					for _, p := range gl.EmbedPatterns {
						got[p] = true
					}
					if len(want) != len(got) {
						m.Kind = "spec-patterns-differ-from-go"
					}
					for p := range want {
						if !got[p] {
							m.Kind = "spec-patterns-differ-from-go"
						}
					}
				}
				if m.Kind != "" {
					nmis++
					b, _ := json.Marshal(m)
					out.Write(append(b, '\n'))
				}
			}
			os.RemoveAll(ch.dir)
		}(ch)
	}
	wg.Wait()
	if firstErr != nil {
		t.Fatal(firstErr)
	}
	fmt.Printf("VERIF_GOLIST checked=%d mismatches=%d\n", checked, nmis)
	fmt.Println("VERIF_DONE")
}

module c06interp

go 1.24

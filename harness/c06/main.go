// C06 map script interpreter.  Compiled by the llgo built from the working tree (and, for the
// self-validation of the specification only, by the reference Go toolchain).
//
// stdin  : scripts (see vlib/c06.py), one op per line "<code> <a> <b>"
// stdout : one log line per executed op with its observed result (and, when enabled, the scalar
//
//	fields of the runtime's map header read through unsafe; layout = runtime map.go hmap)
//
// No fmt / reflect / time.  One generic interpreter, instantiated per (key type, value type).
package main

import (
	"bufio"
	"os"
	"unsafe"
)

type op struct {
	c       byte
	a, b, d int
}

// prefix of runtime/internal/runtime/map.go `hmap`
type hmapHdr struct {
	count      int
	flags      uint8
	B          uint8
	noverflow  uint16
	hash0      uint32
	buckets    unsafe.Pointer
	oldbuckets unsafe.Pointer
}

var (
	out    []byte
	useHdr bool
	eager  bool // flush after every log line (diagnosis of a crash)
	iterID int
)

func flush() {
	if len(out) > 0 {
		os.Stdout.Write(out)
		out = out[:0]
	}
}

func wb(c byte) { out = append(out, c) }
func ws(s string) {
	out = append(out, s...)
}
func wi(n int) {
	out = append(out, ' ')
	if n == 0 {
		out = append(out, '0')
		return
	}
	u := uint64(n)
	if n < 0 {
		out = append(out, '-')
		u = -u
	}
	wu0(u)
}
func wu0(u uint64) {
	var tmp [24]byte
	i := len(tmp)
	for u > 0 {
		i--
		tmp[i] = byte('0' + u%10)
		u /= 10
	}
	if i == len(tmp) {
		i--
		tmp[i] = '0'
	}
	out = append(out, tmp[i:]...)
}
func wu(u uint64) {
	out = append(out, ' ')
	wu0(u)
}
func whex(s string) {
	out = append(out, ' ', 'x')
	const hexd = "0123456789abcdef"
	for i := 0; i < len(s); i++ {
		out = append(out, hexd[s[i]>>4], hexd[s[i]&15])
	}
}
func nl() {
	out = append(out, '\n')
	if eager {
		flush()
	}
}

func itoa(n int) string {
	if n == 0 {
		return "0"
	}
	neg := n < 0
	u := uint64(n)
	if neg {
		u = -u
	}
	var tmp [24]byte
	i := len(tmp)
	for u > 0 {
		i--
		tmp[i] = byte('0' + u%10)
		u /= 10
	}
	if neg {
		i--
		tmp[i] = '-'
	}
	return string(tmp[i:])
}

// ------------------------------------------------------------------ key universes (mirrored in vlib/c06.py)

type arr2 = [2]int
type st struct {
	a int
	b string
}
type wrap struct{ a any }

func keyInt(i int) int {
	switch i {
	case 0:
		return 0
	case 1:
		return -1
	case 2:
		return -9223372036854775808
	case 3:
		return 9223372036854775807
	}
	return i
}

var strLens = [12]int{0, 1, 3, 4, 6, 8, 12, 16, 17, 40, 49, 100}

func keyStr(i int) string {
	if i == 0 {
		return ""
	}
	s := "k" + itoa(i)
	n := strLens[i%12]
	for len(s) < n {
		s += "abcdefghijklmnopqrstuvwxyz"[:min(26, n-len(s))]
	}
	return s
}

func fromBits(u uint64) float64 { return *(*float64)(unsafe.Pointer(&u)) }
func toBits(f float64) uint64   { return *(*uint64)(unsafe.Pointer(&f)) }

func keyF64(i int) float64 {
	switch i {
	case 0:
		return 0
	case 1:
		return fromBits(0x8000000000000000) // -0
	case 2:
		return fromBits(0x7ff8000000000001) // NaN
	case 3:
		return fromBits(0x7ff0000000000000) // +Inf
	case 4:
		return fromBits(0xfff0000000000000) // -Inf
	case 5:
		return fromBits(0xfff8000000000000) // NaN, other sign/payload
	case 6:
		return fromBits(1) // smallest denormal
	}
	return float64(i-6) * 0.5
}

func f32FromBits(u uint32) float32 { return *(*float32)(unsafe.Pointer(&u)) }
func f32Bits(f float32) uint32     { return *(*uint32)(unsafe.Pointer(&f)) }

// complex keys whose parts differ only in the sign of a zero are equal
func keyC64(i int) complex64 {
	pz, nz := f32FromBits(0), f32FromBits(0x80000000)
	switch i {
	case 0:
		return complex(pz, pz)
	case 1:
		return complex(nz, pz)
	case 2:
		return complex(pz, nz)
	case 3:
		return complex(nz, nz)
	case 4:
		return complex(float32(1), pz)
	case 5:
		return complex(float32(1), nz)
	case 6:
		return complex(pz, float32(2))
	}
	return complex(nz, float32(2))
}

// keys with floating-point parts inside a complex number / struct / array: +0 and -0 are equal in
// every part, a NaN in any part makes the key unequal to itself
type cst struct {
	c complex64
	i int32
}
type arr2f = [2]float32

func keyC128(i int) complex128 {
	pz, nz := fromBits(0), fromBits(0x8000000000000000)
	nan, nan2 := fromBits(0x7ff8000000000001), fromBits(0xfff8000000000000)
	pinf, ninf := fromBits(0x7ff0000000000000), fromBits(0xfff0000000000000)
	switch i {
	case 0:
		return complex(pz, pz)
	case 1:
		return complex(nan, pz)
	case 2:
		return complex(nz, nz)
	case 3:
		return complex(pz, nan)
	case 4:
		return complex(pz, nz)
	case 5:
		return complex(nan, nan)
	case 6:
		return complex(float64(1), nan)
	case 7:
		return complex(pinf, nz)
	case 8:
		return complex(nz, float64(1))
	case 9:
		return complex(pz, float64(1))
	case 10:
		return complex(nan2, float64(2))
	case 11:
		return complex(ninf, pinf)
	}
	return complex(float64(i-10)*0.5, float64(i%5-2))
}

func keyCst(i int) cst {
	pz, nz, nan := f32FromBits(0), f32FromBits(0x80000000), f32FromBits(0x7fc00001)
	switch i {
	case 0:
		return cst{complex(pz, pz), 0}
	case 1:
		return cst{complex(nan, pz), 0}
	case 2:
		return cst{complex(nz, pz), 0}
	case 3:
		return cst{complex(pz, nan), 1}
	case 4:
		return cst{complex(pz, nz), 1}
	case 5:
		return cst{complex(nan, float32(1)), 0}
	case 6:
		return cst{complex(nz, nz), 1}
	case 7:
		return cst{complex(float32(1), nz), -1}
	case 8:
		return cst{complex(float32(1), pz), -1}
	}
	return cst{complex(float32(i/3), float32(i%3)), int32(i % 2)}
}

func keyArrF(i int) arr2f {
	pz, nz, nan := f32FromBits(0), f32FromBits(0x80000000), f32FromBits(0x7fc00001)
	switch i {
	case 0:
		return arr2f{pz, pz}
	case 1:
		return arr2f{nan, pz}
	case 2:
		return arr2f{nz, pz}
	case 3:
		return arr2f{pz, nan}
	case 4:
		return arr2f{nz, nz}
	case 5:
		return arr2f{nan, nan}
	case 6:
		return arr2f{1, nz}
	case 7:
		return arr2f{1, pz}
	case 8:
		return arr2f{f32FromBits(0x7f800000), f32FromBits(0xffc00000)}
	case 9:
		return arr2f{f32FromBits(0xff800000), f32FromBits(0x7f800000)}
	}
	return arr2f{float32(i) * 0.5, float32(-(i % 4))}
}

// keys of an interface type WITH a method.  The dynamic types *cell and pbox are pointer-shaped: the key is
// the identity of the pointer, whatever the variable it points to holds (op 'W' writes to that variable).
type keyer interface{ id() int }
type cell struct {
	w   int // first word of the pointee: changed by 'W'
	idx int
}
type pbox struct{ p *cell }
type ival int
type sbox struct{ s string }

func (c *cell) id() int { return c.idx }
func (b pbox) id() int  { return b.p.idx }
func (v ival) id() int  { return int(v) }
func (b sbox) id() int  { return len(b.s) }

const nCells = 4096

var cellTab [nCells]*cell

func cellAt(n int) *cell {
	if cellTab[n] == nil {
		cellTab[n] = &cell{w: n, idx: n}
	}
	return cellTab[n]
}

func keyIface(i int) keyer {
	n := i / 4
	if n >= nCells {
		return ival(i)
	}
	switch i % 4 {
	case 0:
		return cellAt(n)
	case 1:
		return pbox{cellAt(n)}
	case 2:
		return ival(n)
	}
	if n == 0 {
		return nil
	}
	return sbox{keyStr(n)}
}

// *p = ... for the variable that key i points to (no effect on keys that hold no pointer)
func pokeKey(i int) {
	n := i / 4
	if n < nCells && i%4 < 2 {
		c := cellAt(n)
		c.w = c.w*31 + 7
	}
}

func keyArr(i int) arr2 { return arr2{i, -i} }
func keySt(i int) st    { return st{i % 4, "s" + itoa(i/4)} }

var theSlice = []int{1, 2}
var theMap = map[int]int{}
var theFunc = func() {}

func keyAny(i int) any {
	n := i / 10
	switch i % 10 {
	case 0:
		return n
	case 1:
		return int64(n)
	case 2:
		return keyStr(n)
	case 3:
		return keyF64(n)
	case 4:
		return keyArr(n)
	case 5:
		return keySt(n)
	case 6:
		if n == 0 {
			return nil
		}
		return uint8(n)
	case 7:
		if n < 2 {
			return n == 1
		}
		return keyC64(n % 8)
	case 8:
		switch n {
		case 0:
			return wrap{theSlice}
		case 1:
			return wrap{keyF64(0)}
		case 2:
			return wrap{keyF64(1)}
		case 3:
			return wrap{keyF64(2)}
		}
		return wrap{n}
	default:
		switch n {
		case 0:
			return theSlice
		case 1:
			return theMap
		case 2:
			return theFunc
		}
		return int32(n)
	}
}

func pkInt(k int)         { ws(" I"); wi(k) }
func pkStr(k string)      { ws(" S"); whex(k) }
func pkF64(k float64)     { ws(" F"); wu(toBits(k)) }
func pkArr(k arr2)        { ws(" A"); wi(k[0]); wi(k[1]) }
func pkSt(k st)           { ws(" T"); wi(k.a); whex(k.b) }
func pkC128(k complex128) { ws(" X"); wu(toBits(real(k))); wu(toBits(imag(k))) }
func pkCst(k cst) {
	ws(" V")
	wu(uint64(f32Bits(real(k.c))))
	wu(uint64(f32Bits(imag(k.c))))
	wi(int(k.i))
}
func pkArrF(k arr2f) { ws(" P"); wu(uint64(f32Bits(k[0]))); wu(uint64(f32Bits(k[1]))) }
func pkIface(k keyer) {
	switch x := k.(type) {
	case nil:
		ws(" kN")
	case *cell:
		ws(" kC")
		wi(x.idx)
	case pbox:
		ws(" kB")
		wi(x.p.idx)
	case ival:
		ws(" kI")
		wi(int(x))
	case sbox:
		ws(" kS")
		whex(x.s)
	default:
		ws(" k?")
	}
}
func pkAny(k any) {
	switch x := k.(type) {
	case nil:
		ws(" N")
	case int:
		ws(" aI")
		wi(x)
	case int64:
		ws(" aL")
		wi(int(x))
	case int32:
		ws(" aJ")
		wi(int(x))
	case uint8:
		ws(" aB")
		wi(int(x))
	case bool:
		ws(" aZ")
		if x {
			wi(1)
		} else {
			wi(0)
		}
	case string:
		ws(" aS")
		whex(x)
	case float64:
		ws(" aF")
		wu(toBits(x))
	case complex64:
		ws(" aC")
		wu(uint64(f32Bits(real(x))))
		wu(uint64(f32Bits(imag(x))))
	case arr2:
		ws(" aA")
		wi(x[0])
		wi(x[1])
	case st:
		ws(" aT")
		wi(x.a)
		whex(x.b)
	case wrap:
		ws(" aW")
		pkAny(x.a)
	case []int:
		ws(" aU 0")
	case map[int]int:
		ws(" aU 1")
	case func():
		ws(" aU 2")
	default:
		ws(" a?")
	}
}

// ------------------------------------------------------------------ value types

type big = [17]int64

func mkZ(v int) struct{} { return struct{}{} }
func rdZ(struct{}) int   { return 0 }
func mkI(v int) int      { return v }
func rdI(v int) int      { return v }
func mkB(v int) big {
	var b big
	for i := range b {
		b[i] = int64(v) + int64(i)*int64(v)
	}
	return b
}
func rdB(b big) int {
	v := b[0]
	for i := range b {
		if b[i] != v+int64(i)*v {
			return -777 // torn / corrupted element
		}
	}
	return int(v)
}

// ------------------------------------------------------------------ the operations (each recovers its own panic)

func whdr[K comparable, V any](m map[K]V) {
	if !useHdr || m == nil {
		ws(" -1 0 0 0")
		return
	}
	h := *(**hmapHdr)(unsafe.Pointer(&m))
	wi(h.count)
	wi(int(h.B))
	if h.oldbuckets != nil {
		wi(1)
	} else {
		wi(0)
	}
	wi(int(h.noverflow))
}

func doIns[K comparable, V any](m map[K]V, k K, v V) (p int) {
	defer func() {
		if recover() != nil {
			p = 1
		}
	}()
	m[k] = v
	return 0
}

func doDel[K comparable, V any](m map[K]V, k K) (p int) {
	defer func() {
		if recover() != nil {
			p = 1
		}
	}()
	delete(m, k)
	return 0
}

func doGet2[K comparable, V any](m map[K]V, k K) (v V, ok bool, p int) {
	defer func() {
		if recover() != nil {
			p = 1
		}
	}()
	v, ok = m[k]
	return
}

func doGet1[K comparable, V any](m map[K]V, k K) (v V, p int) {
	defer func() {
		if recover() != nil {
			p = 1
		}
	}()
	v = m[k]
	return
}

func doClear[K comparable, V any](m map[K]V) (p int) {
	defer func() {
		if recover() != nil {
			p = 1
		}
	}()
	clear(m)
	return 0
}

type tk[K comparable, V any] struct {
	key func(int) K
	pk  func(K)
	mkv func(int) V
	rdv func(V) int
}

// Every operation runs in its own call frame (execOp): llgo keeps the temporaries of a call that
// returns a tuple alive until the enclosing function returns, so a long loop must not hold them.
func exec[K comparable, V any](pm *map[K]V, ops []op, lo, hi int, t *tk[K, V]) {
	for pc := lo; pc < hi; {
		pc = execOp(pm, ops, pc, t)
	}
}

func execOp[K comparable, V any](pm *map[K]V, ops []op, pc int, t *tk[K, V]) int {
	o := &ops[pc]
	switch o.c {
	case 'M':
		if o.a == 0 {
			*pm = make(map[K]V)
		} else if o.a < 0 {
			*pm = map[K]V{}
		} else {
			*pm = make(map[K]V, o.a)
		}
		wb('M')
		whdr(*pm)
		nl()
	case 'Z':
		*pm = nil
		wb('Z')
		whdr(*pm)
		nl()
	case 'I':
		p := doIns(*pm, t.key(o.a), t.mkv(o.b))
		wb('I')
		wi(o.a)
		wi(o.b)
		wi(p)
		whdr(*pm)
		nl()
	case 'D':
		p := doDel(*pm, t.key(o.a))
		wb('D')
		wi(o.a)
		wi(p)
		whdr(*pm)
		nl()
	case 'G':
		v, ok, p := doGet2(*pm, t.key(o.a))
		wb('G')
		wi(o.a)
		wi(p)
		wi(t.rdv(v))
		if ok {
			wi(1)
		} else {
			wi(0)
		}
		whdr(*pm)
		nl()
	case 'H':
		v, p := doGet1(*pm, t.key(o.a))
		wb('H')
		wi(o.a)
		wi(p)
		wi(t.rdv(v))
		whdr(*pm)
		nl()
	case 'L':
		wb('L')
		wi(len(*pm))
		whdr(*pm)
		nl()
	case 'C':
		p := doClear(*pm)
		wb('C')
		wi(p)
		whdr(*pm)
		nl()
	case 'W':
		pokeKey(o.a)
		wb('W')
		wi(o.a)
		whdr(*pm)
		nl()
	case 'R':
		doRange(pm, ops, pc, t)
		return o.d + 1
	case 'P':
		doPop(pm, t)
	}
	return pc + 1
}

// segment to run after the j-th yield: ops between "@ j" and the next marker of the same loop
func segment(ops []op, cur *int, end int, j int) (lo, hi int) {
	for *cur < end && ops[*cur].c == '@' && ops[*cur].a < j {
		*cur = ops[*cur].d
	}
	if *cur < end && ops[*cur].c == '@' && ops[*cur].a == j {
		lo, hi = *cur+1, ops[*cur].d
		*cur = hi
		return
	}
	return 0, 0
}

func doRange[K comparable, V any](pm *map[K]V, ops []op, pc int, t *tk[K, V]) {
	o := &ops[pc]
	end := o.d
	cur := pc + 1
	iterID++
	id := iterID
	m := *pm
	ws("RS")
	wi(id)
	whdr(m)
	nl()
	j := 0
	done := 1
	// every script op runs at most once, so a loop that produces each entry at most once cannot
	// produce more than this many; a runaway loop is cut (its duplicates are already in the log)
	limit := len(m) + len(ops) + 16
	if o.b == 0 {
		for k, v := range m {
			j++
			wb('Y')
			wi(id)
			wi(t.rdv(v))
			t.pk(k)
			whdr(m)
			nl()
			lo, hi := segment(ops, &cur, end, j)
			if hi > lo {
				exec(pm, ops, lo, hi, t)
			}
			if o.a != 0 && j >= o.a {
				done = 0
				break
			}
			if j > limit {
				done = 2
				break
			}
		}
	} else {
		for k := range m {
			j++
			wb('K')
			wi(id)
			t.pk(k)
			whdr(m)
			nl()
			lo, hi := segment(ops, &cur, end, j)
			if hi > lo {
				exec(pm, ops, lo, hi, t)
			}
			if o.a != 0 && j >= o.a {
				done = 0
				break
			}
			if j > limit {
				done = 2
				break
			}
		}
	}
	ws("RE")
	wi(id)
	wi(done)
	whdr(m)
	nl()
}

// delete whichever entry a range loop produces first:  for k := range m { delete(m, k); break }
func doPop[K comparable, V any](pm *map[K]V, t *tk[K, V]) {
	m := *pm
	iterID++
	id := iterID
	ws("RS")
	wi(id)
	whdr(m)
	nl()
	var kk K
	found := false
	for k, v := range m {
		wb('Y')
		wi(id)
		wi(t.rdv(v))
		t.pk(k)
		whdr(m)
		nl()
		kk = k
		found = true
		break
	}
	ws("RE")
	wi(id)
	if found {
		wi(0)
	} else {
		wi(1)
	}
	whdr(m)
	nl()
	if found {
		p := doDel(m, kk)
		ws("PD")
		wi(p)
		t.pk(kk)
		whdr(m)
		nl()
	}
}

func run[K comparable, V any](ops []op, key func(int) K, pk func(K), mkv func(int) V, rdv func(V) int) {
	t := &tk[K, V]{key, pk, mkv, rdv}
	var m map[K]V
	exec(&m, ops, 0, len(ops), t)
}

func dispatch(kt, vt int, ops []op) bool {
	switch kt*3 + vt {
	case 0:
		run(ops, keyInt, pkInt, mkZ, rdZ)
	case 1:
		run(ops, keyInt, pkInt, mkI, rdI)
	case 2:
		run(ops, keyInt, pkInt, mkB, rdB)
	case 3:
		run(ops, keyStr, pkStr, mkZ, rdZ)
	case 4:
		run(ops, keyStr, pkStr, mkI, rdI)
	case 5:
		run(ops, keyStr, pkStr, mkB, rdB)
	case 6:
		run(ops, keyF64, pkF64, mkZ, rdZ)
	case 7:
		run(ops, keyF64, pkF64, mkI, rdI)
	case 8:
		run(ops, keyF64, pkF64, mkB, rdB)
	case 9:
		run(ops, keyAny, pkAny, mkZ, rdZ)
	case 10:
		run(ops, keyAny, pkAny, mkI, rdI)
	case 11:
		run(ops, keyAny, pkAny, mkB, rdB)
	case 12:
		run(ops, keyArr, pkArr, mkZ, rdZ)
	case 13:
		run(ops, keyArr, pkArr, mkI, rdI)
	case 14:
		run(ops, keyArr, pkArr, mkB, rdB)
	case 15:
		run(ops, keySt, pkSt, mkZ, rdZ)
	case 16:
		run(ops, keySt, pkSt, mkI, rdI)
	case 17:
		run(ops, keySt, pkSt, mkB, rdB)
	case 18:
		run(ops, keyC128, pkC128, mkZ, rdZ)
	case 19:
		run(ops, keyC128, pkC128, mkI, rdI)
	case 20:
		run(ops, keyC128, pkC128, mkB, rdB)
	case 21:
		run(ops, keyCst, pkCst, mkZ, rdZ)
	case 22:
		run(ops, keyCst, pkCst, mkI, rdI)
	case 23:
		run(ops, keyCst, pkCst, mkB, rdB)
	case 24:
		run(ops, keyArrF, pkArrF, mkZ, rdZ)
	case 25:
		run(ops, keyArrF, pkArrF, mkI, rdI)
	case 26:
		run(ops, keyArrF, pkArrF, mkB, rdB)
	case 27:
		run(ops, keyIface, pkIface, mkZ, rdZ)
	case 28:
		run(ops, keyIface, pkIface, mkI, rdI)
	case 29:
		run(ops, keyIface, pkIface, mkB, rdB)
	default:
		return false
	}
	return true
}

func universe(kt, n int) {
	for i := 0; i < n; i++ {
		wb('U')
		wi(i)
		switch kt {
		case 0:
			pkInt(keyInt(i))
		case 1:
			pkStr(keyStr(i))
		case 2:
			pkF64(keyF64(i))
		case 3:
			pkAny(keyAny(i))
		case 4:
			pkArr(keyArr(i))
		case 5:
			pkSt(keySt(i))
		case 6:
			pkC128(keyC128(i))
		case 7:
			pkCst(keyCst(i))
		case 8:
			pkArrF(keyArrF(i))
		case 9:
			pkIface(keyIface(i))
		}
		nl()
		if len(out) > 1<<16 {
			flush()
		}
	}
	flush()
}

// ------------------------------------------------------------------ input

var rd *bufio.Reader

// reads one line "<code> <a> <b>"; returns ok=false at EOF
func readOp() (o op, ok bool) {
	var c byte
	var err error
	for {
		c, err = rd.ReadByte()
		if err != nil {
			return o, false
		}
		if c != '\n' && c != ' ' {
			break
		}
	}
	o.c = c
	vals := [2]int{}
	idx := 0
	neg := false
	have := false
	for {
		c, err = rd.ReadByte()
		if err != nil || c == '\n' {
			break
		}
		if c == ' ' {
			if have {
				if neg {
					vals[idx] = -vals[idx]
				}
				idx++
				neg, have = false, false
			}
			continue
		}
		if idx > 1 {
			continue
		}
		if c == '-' {
			neg = true
			continue
		}
		vals[idx] = vals[idx]*10 + int(c-'0')
		have = true
	}
	if have && neg && idx <= 1 {
		vals[idx] = -vals[idx]
	}
	o.a, o.b = vals[0], vals[1]
	return o, true
}

var (
	mOps   []op
	mStack []int
	mID    int
	mKT    int
	mVT    int
)

// one input line; false at EOF.  (Its own frame per line, see exec.)
func step() bool {
	o, ok := readOp()
	if !ok {
		return false
	}
	switch o.c {
	case 'Q': // Q <useHdr> <eager>
		useHdr = o.a != 0
		eager = o.b != 0
	case 'U': // U <kt> <n>: dump the key universe
		universe(o.a, o.b)
	case 'S': // S <id> <kt*3+vt>
		mID, mKT, mVT = o.a, o.b/3, o.b%3
		mOps = mOps[:0]
		mStack = mStack[:0]
	case 'X':
		ws("S")
		wi(mID)
		nl()
		flush()
		iterID = 0
		if !dispatch(mKT, mVT, mOps) {
			ws("BAD\n")
		}
		ws("X")
		wi(mID)
		nl()
		flush()
	case 'R':
		mStack = append(mStack, len(mOps), len(mOps))
		mOps = append(mOps, o)
	case '@':
		n := len(mStack)
		prev := mStack[n-1]
		if mOps[prev].c == '@' {
			mOps[prev].d = len(mOps)
		}
		mStack[n-1] = len(mOps)
		mOps = append(mOps, o)
	case 'E':
		n := len(mStack)
		prev := mStack[n-1]
		if mOps[prev].c == '@' {
			mOps[prev].d = len(mOps)
		}
		mOps[mStack[n-2]].d = len(mOps)
		mStack = mStack[:n-2]
		mOps = append(mOps, o)
	default:
		mOps = append(mOps, o)
	}
	return true
}

func main() {
	rd = bufio.NewReaderSize(os.Stdin, 1<<16)
	for step() {
	}
	flush()
}

package cl

// Injected by /verif at check time (go test -overlay); not part of goplus/llgo.
//
// C14 in-process binding.  For every generated "world" (a group of Go packages rendered from the entities that
// spec/naming/Naming.tla enumerates) the test type-checks the packages, builds go/ssa for them exactly like
// internal/build does (one ssa.Program, InstantiateGenerics), compiles every package with NewPackageEx and reports
//   - for every ssa function and every package context: the link name the real naming functions give it
//     ((*context).funcName -> funcName -> ssa.FuncName / abi.TypeArgs ...), plus what identifies the function
//     (the identity literal in its own body, type arguments, receiver) so that the driver can map it to the
//     entity of the specification;
//   - for every global: (*context).varName; for every type that is converted to an interface: abi TypeName;
//   - the symbol table of every per-package LLVM module: name, linkage, defined or declared, digest of the
//     body with module-private constant names replaced by their contents.
// The test judges nothing: the verdict is computed from these observations by NamingJudge.tla.

import (
	"bufio"
	"crypto/sha256"
	"encoding/hex"
	"encoding/json"
	"fmt"
	"go/ast"
	"go/constant"
	"go/parser"
	"go/token"
	"go/types"
	"os"
	"path/filepath"
	"reflect"
	"regexp"
	"runtime"
	"sort"
	"strings"
	"testing"

	"github.com/goplus/gogen/packages"
	llssa "github.com/goplus/llgo/ssa"
	"github.com/goplus/llgo/ssa/abi"
	"github.com/xgo-dev/llvm"
	gopackages "golang.org/x/tools/go/packages"
	"golang.org/x/tools/go/ssa"
	"golang.org/x/tools/go/ssa/ssautil"
)

type c14Pkg struct {
	Path  string   `json:"path"`
	Files []string `json:"files"`
	World bool     `json:"world"`
}

type c14Prog struct {
	ID   string   `json:"id"`
	Dir  string   `json:"dir"`
	Pkgs []c14Pkg `json:"pkgs"`
}

type c14Fn struct {
	Fn     string            `json:"fn"`
	Syn    string            `json:"syn"`
	Pkg    string            `json:"pkg"`
	Consts []string          `json:"consts"`
	Targs  []string          `json:"targs"`
	Recv   string            `json:"recv"`
	Obj    string            `json:"obj"`
	Wide   bool              `json:"wide"` // the function belongs to one package or is an instantiation: one program-wide name
	Names  map[string]string `json:"names"`
	Bound  map[string]string `json:"bound"`
	Lost   []string          `json:"lost"` // compiled in that package by the rules below, but the name is not defined in its module
}

type c14Sym struct {
	Name    string `json:"name"`
	Kind    string `json:"kind"` // func | var
	Linkage string `json:"linkage"`
	Defined bool   `json:"defined"`
	Digest  string `json:"digest"`
	Size    string `json:"size"`
}

type c14Out struct {
	ID      string              `json:"id"`
	Err     string              `json:"err"`
	Funcs   []c14Fn             `json:"funcs"`
	Globals []map[string]string `json:"globals"`
	Descs   []map[string]string `json:"descs"`
	Modules map[string][]c14Sym `json:"modules"`
}

type c14Importer struct {
	own map[string]*types.Package
	std types.Importer
}

func (i *c14Importer) Import(path string) (*types.Package, error) {
	if p, ok := i.own[path]; ok {
		return p, nil
	}
	return i.std.Import(path)
}

func c14Tag(st *types.Struct) string {
	for i := 0; i < st.NumFields(); i++ {
		if v, ok := reflect.StructTag(st.Tag(i)).Lookup("c14"); ok {
			return v
		}
	}
	return ""
}

// c14Key is the canonical spelling of a type shared with the driver (vlib/c14gen.py tkey): it identifies the type by
// its declaration (a function-local type by the tag the generator put on it), never by llgo's naming.
func c14Key(t types.Type) string {
	switch t := types.Unalias(t).(type) {
	case *types.Basic:
		return t.Name()
	case *types.Named:
		o := t.Obj()
		s := o.Name()
		if o.Pkg() != nil {
			s = o.Pkg().Path() + "." + s
			if o.Parent() != o.Pkg().Scope() {
				tag := "?"
				if st, ok := t.Underlying().(*types.Struct); ok {
					tag = c14Tag(st)
				}
				s += "@" + tag
			}
		}
		if ta := t.TypeArgs(); ta != nil && ta.Len() > 0 {
			as := make([]string, ta.Len())
			for i := range as {
				as[i] = c14Key(ta.At(i))
			}
			s += "[" + strings.Join(as, ",") + "]"
		}
		return s
	case *types.Pointer:
		return "*" + c14Key(t.Elem())
	case *types.Slice:
		return "[]" + c14Key(t.Elem())
	case *types.Map:
		return "map[" + c14Key(t.Key()) + "]" + c14Key(t.Elem())
	case *types.Signature:
		ps := make([]string, t.Params().Len())
		for i := range ps {
			ps[i] = c14Key(t.Params().At(i).Type())
		}
		s := "func(" + strings.Join(ps, ",") + ")"
		if t.Results().Len() > 0 {
			rs := make([]string, t.Results().Len())
			for i := range rs {
				rs[i] = c14Key(t.Results().At(i).Type())
			}
			s += "(" + strings.Join(rs, ",") + ")"
		}
		return s
	case *types.Struct:
		fs := make([]string, t.NumFields())
		for i := range fs {
			f := t.Field(i)
			if f.Embedded() {
				fs[i] = c14Key(f.Type())
			} else {
				fs[i] = f.Name() + " " + c14Key(f.Type())
			}
			if tg := t.Tag(i); tg != "" {
				fs[i] += " `" + tg + "`"
			}
		}
		return "struct{" + strings.Join(fs, ";") + "}"
	}
	return types.TypeString(t, nil)
}

func c14Consts(fn *ssa.Function) []string {
	seen := map[string]bool{}
	var out []string
	for _, b := range fn.Blocks {
		for _, ins := range b.Instrs {
			for _, op := range ins.Operands(nil) {
				if op == nil || *op == nil {
					continue
				}
				if c, ok := (*op).(*ssa.Const); ok && c.Value != nil && c.Value.Kind() == constant.String {
					s := constant.StringVal(c.Value)
					if (strings.HasPrefix(s, "@") || strings.HasPrefix(s, "]")) && !seen[s] {
						seen[s] = true
						out = append(out, s)
					}
				}
			}
		}
	}
	sort.Strings(out)
	return out
}

var (
	c14Fset   = token.NewFileSet()
	c14Std    *packages.Importer
	c14RefPat = regexp.MustCompile(`@([0-9]+)\b`)
	c14PrivPat = regexp.MustCompile(`(?m)^@([0-9]+) = (?:private|internal) (.*)$`)
)

var c14RT *types.Package

// the runtime package type-checked from source (its unexported declarations are needed), loaded like internal/build does
func c14Runtime() *types.Package {
	if c14RT != nil {
		return c14RT
	}
	root := os.Getenv("LLGO_ROOT")
	cfg := &gopackages.Config{
		Mode: gopackages.NeedName | gopackages.NeedFiles | gopackages.NeedCompiledGoFiles | gopackages.NeedImports |
			gopackages.NeedDeps | gopackages.NeedTypes | gopackages.NeedTypesSizes | gopackages.NeedSyntax | gopackages.NeedTypesInfo,
		Dir: filepath.Join(root, "runtime"), BuildFlags: []string{"-tags=llgo,math_big_pure_go,purego"}, Fset: c14Fset,
	}
	ps, err := gopackages.Load(cfg, llssa.PkgRuntime)
	if err != nil || len(ps) != 1 || ps[0].Types == nil || len(ps[0].Errors) > 0 {
		panic(fmt.Sprintf("cannot load the runtime package: %v %v", err, ps))
	}
	c14RT = ps[0].Types
	return c14RT
}

func c14Linkage(l llvm.Linkage) string {
	switch l {
	case llvm.ExternalLinkage:
		return "external"
	case llvm.LinkOnceAnyLinkage, llvm.LinkOnceODRLinkage:
		return "linkonce"
	case llvm.WeakAnyLinkage, llvm.WeakODRLinkage:
		return "weak"
	case llvm.PrivateLinkage, llvm.InternalLinkage:
		return "private"
	case llvm.AppendingLinkage:
		return "appending"
	case llvm.ExternalWeakLinkage:
		return "extern_weak"
	}
	return fmt.Sprintf("linkage%d", int(l))
}

func c14Digest(s string) string {
	h := sha256.Sum256([]byte(s))
	return hex.EncodeToString(h[:8])
}

func c14Symbols(mod llvm.Module) []c14Sym {
	// module-private constants are unnamed (printed as numbered slots @N); map the slots to their contents
	priv := map[string]string{}
	for _, m := range c14PrivPat.FindAllStringSubmatch(mod.String(), -1) {
		priv[m[1]] = m[2]
	}
	var syms []c14Sym
	for g := mod.FirstGlobal(); !g.IsNil(); g = llvm.NextGlobal(g) {
		lk := c14Linkage(g.Linkage())
		if lk == "private" {
			continue
		}
		s := c14Sym{Name: g.Name(), Kind: "var", Linkage: lk, Defined: !g.IsDeclaration()}
		s.Size = g.GlobalValueType().String()
		syms = append(syms, s)
	}
	norm := func(text string) string {
		return c14RefPat.ReplaceAllStringFunc(text, func(m string) string {
			if v, ok := priv[m[1:]]; ok {
				return "@{" + v + "}"
			}
			return m
		})
	}
	for f := mod.FirstFunction(); !f.IsNil(); f = llvm.NextFunction(f) {
		s := c14Sym{Name: f.Name(), Kind: "func", Linkage: c14Linkage(f.Linkage()), Defined: !f.IsDeclaration()}
		if s.Defined && (s.Linkage == "linkonce" || s.Linkage == "weak") {
			s.Digest = c14Digest(norm(f.String()))
		}
		syms = append(syms, s)
	}
	return syms
}

// c14CompileSet: the functions whose bodies package pkg emits into its own module, following cl: its members and the
// methods of its types (compileType), their function literals, every function without a home package that one of
// them mentions (compileFunction: instances, wrappers, thunks, bound-method closures are compiled where they are
// used), and the methods of instantiated / function-local / unnamed types whose descriptor it needs
// (checkCompileMethods).
func c14CompileSet(goProg *ssa.Program, pkg *ssa.Package) map[*ssa.Function]bool {
	set := map[*ssa.Function]bool{}
	var visit func(f *ssa.Function)
	addMethods := func(t types.Type) {
		ms := goProg.MethodSets.MethodSet(t)
		for i := 0; i < ms.Len(); i++ {
			if m := goProg.MethodValue(ms.At(i)); m != nil {
				visit(m)
			}
		}
	}
	checkType := func(orig types.Type) {
		nt := orig
		for {
			switch x := nt.(type) {
			case *types.Named:
				if x.TypeArgs() == nil {
					if o := x.Obj(); o.Pkg() == nil || o.Parent() == o.Pkg().Scope() {
						return
					}
				}
				addMethods(orig)
				return
			case *types.Struct:
				addMethods(orig)
				return
			case *types.Pointer:
				nt = x.Elem()
				continue
			case *types.Alias:
				nt = types.Unalias(x)
				continue
			}
			return
		}
	}
	visit = func(f *ssa.Function) {
		if f == nil || set[f] || !(f.Pkg == pkg || f.Pkg == nil) {
			return
		}
		if f.TypeParams().Len() > 0 && len(f.TypeArgs()) == 0 {
			return
		}
		if len(f.Blocks) == 0 && f.Synthetic == "" {
			return // a declaration without body (bound by a directive): nothing to emit
		}
		set[f] = true
		for _, a := range f.AnonFuncs {
			visit(a)
		}
		for _, b := range f.Blocks {
			for _, ins := range b.Instrs {
				for _, op := range ins.Operands(nil) {
					if op == nil || *op == nil {
						continue
					}
					if g, ok := (*op).(*ssa.Function); ok {
						visit(g)
					}
				}
				switch v := ins.(type) {
				case *ssa.MakeInterface:
					checkType(v.X.Type())
				case *ssa.TypeAssert:
					checkType(v.AssertedType)
				}
			}
		}
	}
	for _, m := range pkg.Members {
		switch m := m.(type) {
		case *ssa.Function:
			visit(m)
		case *ssa.Type:
			if tn, ok := m.Object().(*types.TypeName); ok && !tn.IsAlias() {
				addMethods(tn.Type())
				addMethods(types.NewPointer(tn.Type()))
			}
		}
	}
	return set
}

func c14Run(p *c14Prog) (out c14Out) {
	out.ID = p.ID
	defer func() {
		if r := recover(); r != nil {
			buf := make([]byte, 4096)
			n := runtime.Stack(buf, false)
			out.Err = fmt.Sprintf("panic: %v\n%s", r, buf[:n])
		}
	}()
	imp := &c14Importer{own: map[string]*types.Package{}, std: c14Std}
	goProg := ssa.NewProgram(c14Fset, ssa.SanityCheckFunctions|ssa.InstantiateGenerics)
	type built struct {
		spec  c14Pkg
		files []*ast.File
		typs  *types.Package
		ssa   *ssa.Package
	}
	var pkgs []*built
	goProg.CreatePackage(types.Unsafe, nil, nil, true)
	for _, sp := range p.Pkgs {
		b := &built{spec: sp}
		for _, f := range sp.Files {
			af, err := parser.ParseFile(c14Fset, filepath.Join(p.Dir, f), nil, parser.ParseComments)
			if err != nil {
				out.Err = "parse: " + err.Error()
				return
			}
			b.files = append(b.files, af)
		}
		info := &types.Info{
			Types: map[ast.Expr]types.TypeAndValue{}, Defs: map[*ast.Ident]types.Object{}, Uses: map[*ast.Ident]types.Object{},
			Implicits: map[ast.Node]types.Object{}, Instances: map[*ast.Ident]types.Instance{}, Scopes: map[ast.Node]*types.Scope{},
			Selections: map[*ast.SelectorExpr]*types.Selection{}, FileVersions: map[*ast.File]string{},
		}
		conf := &types.Config{Importer: imp, GoVersion: "go1.24"}
		typs, err := conf.Check(sp.Path, c14Fset, b.files, info)
		if err != nil {
			out.Err = "typecheck: " + err.Error()
			return
		}
		imp.own[sp.Path] = typs
		b.typs = typs
		b.ssa = goProg.CreatePackage(typs, b.files, info, true)
		pkgs = append(pkgs, b)
	}
	for _, b := range pkgs {
		b.ssa.Build()
	}
	prog := llssa.NewProgram(nil)
	prog.SetRuntime(c14Runtime())
	prog.TypeSizes(types.SizesFor("gc", runtime.GOARCH))
	out.Modules = map[string][]c14Sym{}
	ctxs := map[string]*context{}
	symset := map[string]map[string]bool{}
	defset := map[string]map[string]bool{}
	compiled := map[string]map[*ssa.Function]bool{}
	for _, b := range pkgs {
		PreCollectLinknames(prog, b.spec.Path, b.files)
	}
	for _, b := range pkgs {
		ret, _, err := NewPackageEx(prog, nil, nil, b.ssa, b.files)
		if err != nil {
			out.Err = "NewPackageEx " + b.spec.Path + ": " + err.Error()
			return
		}
		if dump := os.Getenv("VERIF_C14_DUMP"); dump != "" {
			os.WriteFile(filepath.Join(dump, p.ID+"-"+strings.ReplaceAll(b.spec.Path, "/", "_")+".ll"), []byte(ret.String()), 0o644)
		}
		syms := c14Symbols(ret.Module())
		out.Modules[b.spec.Path] = syms
		set, dset := map[string]bool{}, map[string]bool{}
		for _, s := range syms {
			set[s.Name] = true
			if s.Defined {
				dset[s.Name] = true
			}
		}
		symset[b.spec.Path] = set
		defset[b.spec.Path] = dset
		compiled[b.spec.Path] = c14CompileSet(goProg, b.ssa)
		// a context like the one newPackageEx builds, to ask the naming functions afterwards
		ctxs[b.spec.Path] = &context{
			prog: prog, pkg: ret, fset: goProg.Fset, goProg: goProg, goTyps: b.typs, goPkg: b.ssa,
			skips: make(map[string]none), vargs: make(map[*ssa.Alloc][]llssa.Expr), funcs: make(map[*ssa.Function]llssa.Function),
			loaded: map[*types.Package]*pkgInfo{types.Unsafe: {kind: PkgDeclOnly}},
		}
	}
	world := map[*types.Package]bool{}
	for _, b := range pkgs {
		if b.spec.World {
			world[b.typs] = true
		}
	}
	ab := abi.New(8, types.SizesFor("gc", runtime.GOARCH))
	homeOf := func(fn *ssa.Function) *types.Package {
		for f := fn; f != nil; f = f.Parent() {
			if f.Pkg != nil {
				return f.Pkg.Pkg
			}
			if o := f.Origin(); o != nil && o.Pkg != nil {
				return o.Pkg.Pkg
			}
			if obj := f.Object(); obj != nil && obj.Pkg() != nil {
				return obj.Pkg()
			}
		}
		return nil
	}
	fns := ssautil.AllFunctions(goProg)
	var list []*ssa.Function
	for fn := range fns {
		if fn == nil || !world[homeOf(fn)] {
			continue
		}
		if fn.TypeParams().Len() > 0 && len(fn.TypeArgs()) == 0 {
			continue // the generic itself is never compiled
		}
		list = append(list, fn)
	}
	sort.Slice(list, func(i, j int) bool { return list[i].String() < list[j].String() })
	descSeen := map[string]bool{}
	for _, fn := range list {
		rec := c14Fn{Fn: fn.String(), Syn: fn.Synthetic, Consts: c14Consts(fn), Names: map[string]string{}, Bound: map[string]string{}}
		if fn.Pkg != nil {
			rec.Pkg = fn.Pkg.Pkg.Path()
		}
		for _, ta := range fn.TypeArgs() {
			rec.Targs = append(rec.Targs, c14Key(ta))
		}
		if obj := fn.Object(); obj != nil {
			rec.Obj = obj.Name()
		}
		var recv *types.Var
		for f := fn; f != nil && recv == nil; f = f.Parent() {
			recv = f.Signature.Recv()
		}
		if recv == nil && strings.HasSuffix(fn.Name(), "$thunk") && fn.Signature.Params().Len() > 0 {
			recv = fn.Signature.Params().At(0)
		}
		if recv != nil {
			rec.Recv = c14Key(recv.Type())
		} else if strings.HasSuffix(fn.Name(), "$bound") && len(fn.FreeVars) == 1 {
			rec.Recv = c14Key(fn.FreeVars[0].Type())
		}
		top := fn
		for top.Parent() != nil {
			top = top.Parent()
		}
		rec.Wide = top.Pkg != nil || top.Origin() != nil || isInstance(top)
		for path, ctx := range ctxs {
			func() {
				defer func() {
					if r := recover(); r != nil {
						rec.Names[path] = fmt.Sprintf("!panic: %v", r)
					}
				}()
				_, name, ftype := ctx.funcName(fn)
				if ftype != goFunc {
					return
				}
				if len(fn.Blocks) == 0 && fn.Synthetic == "" {
					if symset[path][name] {
						rec.Bound[path] = name // a body-less declaration: the symbol the package's module refers to
					}
					return
				}
				if compiled[path][fn] && defset[path][name] {
					rec.Names[path] = name // this package compiles the function and its module defines the name
				} else if compiled[path][fn] {
					rec.Lost = append(rec.Lost, path+" "+name)
				}
			}()
		}
		out.Funcs = append(out.Funcs, rec)
		// every type converted to an interface in a world function gets a descriptor
		for _, b := range fn.Blocks {
			for _, ins := range b.Instrs {
				mi, ok := ins.(*ssa.MakeInterface)
				if !ok {
					continue
				}
				t := mi.X.Type()
				k := c14Key(t)
				if descSeen[k] {
					continue
				}
				descSeen[k] = true
				var ctx *context
				for _, c := range ctxs {
					ctx = c
					break
				}
				ctx.goFn = fn
				name, _ := ab.TypeName(ctx.patchType(t))
				out.Descs = append(out.Descs, map[string]string{"key": k, "name": name})
			}
		}
	}
	for _, b := range pkgs {
		if !b.spec.World {
			continue
		}
		var names []string
		for n, m := range b.ssa.Members {
			if _, ok := m.(*ssa.Global); ok {
				names = append(names, n)
			}
		}
		sort.Strings(names)
		for _, n := range names {
			g := b.ssa.Members[n].(*ssa.Global)
			for path, ctx := range ctxs {
				name, vtype, _ := ctx.varName(b.typs, g)
				if vtype == goVar && symset[path][name] {
					out.Globals = append(out.Globals, map[string]string{"pkg": b.spec.Path, "var": n, "ctx": path, "name": name})
				}
			}
		}
	}
	return
}

// TestVerifC14: env VERIF_C14_IN (ndjson of programs), VERIF_OUT (ndjson of observations)
func TestVerifC14(t *testing.T) {
	in := os.Getenv("VERIF_C14_IN")
	if in == "" {
		t.Skip("no VERIF_C14_IN")
	}
	llssa.Initialize(llssa.InitAll | llssa.InitNative)
	c14Std = packages.NewImporter(c14Fset)
	f, err := os.Open(in)
	if err != nil {
		t.Fatal(err)
	}
	defer f.Close()
	of, err := os.Create(os.Getenv("VERIF_OUT"))
	if err != nil {
		t.Fatal(err)
	}
	defer of.Close()
	w := bufio.NewWriter(of)
	defer w.Flush()
	sc := bufio.NewScanner(f)
	sc.Buffer(make([]byte, 1<<20), 1<<26)
	n := 0
	for sc.Scan() {
		var p c14Prog
		if err := json.Unmarshal(sc.Bytes(), &p); err != nil {
			t.Fatal(err)
		}
		o := c14Run(&p)
		bs, _ := json.Marshal(o)
		w.Write(bs)
		w.WriteByte('\n')
		n++
	}
	fmt.Printf("VERIF_DONE programs=%d\n", n)
}

// Package explore enumerates schedules of the controlled scheduler: exhaustive DFS (optionally preemption
// bounded), seeded random, or replay of given thread-id schedules; it dedupes the observed histories.
package explore

import (
	"encoding/json"
	"fmt"
	"math/rand"
	"strings"

	"verifsched/gate"
)

type Event struct {
	T   int    `json:"t"`
	E   string `json:"e"` // call ret
	Op  int    `json:"op"`
	Sel int    `json:"sel"`           // chosen case (1-based), 0 = default / not a select
	Val int64  `json:"val"`           // received value / ticket
	Ok  bool   `json:"ok"`            // recvOK
	Pan string `json:"pan,omitempty"` // panic kind
}

type HistRec struct {
	Events []Event `json:"ev"`
	End    string  `json:"end"` // finished | stuck
	Stuck  []int   `json:"stuck,omitempty"`
	Extra  string  `json:"extra,omitempty"` // final observable state (e.g. semaphore counts)
	Sched  string  `json:"sched"`
	Count  int     `json:"n"`
}

type Result struct {
	ID        int               `json:"id"`
	Execs     int               `json:"execs"`
	Exhausted bool              `json:"exhausted"`
	Hist      []HistRec         `json:"hist"`
	Outcomes  map[string]int    `json:"outcomes"`
	OutSched  map[string]string `json:"outsched"`
	Diverged  int               `json:"diverged"`
	StepLimit int               `json:"steplimit"`
	Crashes   []string          `json:"crashes,omitempty"`
}

// RunOnce executes the scenario once under the given strategy.
type RunOnce func(strat gate.Strategy, spurious int) (HistRec, *gate.Sched, gate.Outcome)

type replayStrat struct {
	prefix []int
	info   *stepInfo
}

type stepInfo struct {
	threads [][]int // thread of every enabled action at each step
	cur     []int   // thread that ran last (-1 none)
}

func (r *replayStrat) Choose(acts []gate.Action, cur *gate.Thread, step int) int {
	ids := make([]int, len(acts))
	for i, a := range acts {
		ids[i] = a.T.ID
	}
	c := -1
	if cur != nil {
		c = cur.ID
	}
	r.info.threads = append(r.info.threads, ids)
	r.info.cur = append(r.info.cur, c)
	if step < len(r.prefix) {
		return r.prefix[step]
	}
	// default continuation: keep running the current thread when it can move (no preemption)
	for i, a := range acts {
		if a.T.ID == c && !a.Spur {
			return i
		}
	}
	for i, a := range acts {
		if !a.Spur {
			return i
		}
	}
	return 0
}

type randStrat struct {
	r      *rand.Rand
	sticky float64
}

func (s *randStrat) Choose(acts []gate.Action, cur *gate.Thread, step int) int {
	if cur != nil && s.r.Float64() < s.sticky {
		for i, a := range acts {
			if a.T.ID == cur.ID && !a.Spur {
				return i
			}
		}
	}
	return s.r.Intn(len(acts))
}

type schedStrat struct {
	sched    []int
	diverged bool
	r        *rand.Rand
}

func (s *schedStrat) Choose(acts []gate.Action, cur *gate.Thread, step int) int {
	if step < len(s.sched) && !s.diverged {
		for i, a := range acts {
			if a.T.ID == s.sched[step] && !a.Spur {
				return i
			}
		}
		s.diverged = true
	}
	return s.r.Intn(len(acts))
}

func OutcomeKey(nthreads int, h *HistRec) string {
	per := make([][]string, nthreads)
	for _, e := range h.Events {
		if e.E == "ret" {
			per[e.T] = append(per[e.T], fmt.Sprintf("%d,%d,%v,%s", e.Sel, e.Val, e.Ok, e.Pan))
		}
	}
	var sb strings.Builder
	for t := range per {
		sb.WriteString(strings.Join(per[t], ";"))
		sb.WriteString("|")
	}
	sb.WriteString(h.End)
	for _, t := range h.Stuck {
		fmt.Fprintf(&sb, ",%d", t)
	}
	if h.Extra != "" {
		sb.WriteString("#" + h.Extra)
	}
	return sb.String()
}

func histKey(h *HistRec) string {
	b, _ := json.Marshal(h.Events)
	return string(b) + h.End + fmt.Sprint(h.Stuck) + h.Extra
}

func Explore(id, nthreads int, run RunOnce, scheds [][]int, mode string, budget, pb, spurious int, seed int64, maxHist int) Result {
	res := Result{ID: id, Outcomes: map[string]int{}, OutSched: map[string]string{}}
	seen := map[string]int{}
	record := func(h HistRec, s *gate.Sched, out gate.Outcome) {
		res.Execs++
		if out == gate.StepLimit {
			res.StepLimit++
		}
		res.Crashes = append(res.Crashes, s.Crashes...)
		ok := OutcomeKey(nthreads, &h)
		if _, dup := res.Outcomes[ok]; !dup {
			res.OutSched[ok] = h.Sched
		}
		res.Outcomes[ok]++
		k := histKey(&h)
		if i, dup := seen[k]; dup {
			res.Hist[i].Count++
		} else if len(res.Hist) < maxHist {
			seen[k] = len(res.Hist)
			h.Count = 1
			res.Hist = append(res.Hist, h)
		}
	}
	switch mode {
	case "dfs":
		prefix := []int{}
		for res.Execs < budget {
			info := &stepInfo{}
			st := &replayStrat{prefix: prefix, info: info}
			h, s, out := run(st, spurious)
			choices, widths := s.Choices, s.Widths
			s.Abandon()
			record(h, s, out)
			// preemptions used along the taken path, up to each step
			pre := make([]int, len(choices)+1)
			for j := range choices {
				p := 0
				if info.cur[j] >= 0 && info.threads[j][choices[j]] != info.cur[j] && contains(info.threads[j], info.cur[j]) {
					p = 1
				}
				pre[j+1] = pre[j] + p
			}
			// backtrack: last step with an untried alternative within the preemption bound
			next := -1
			alt := 0
			for j := len(choices) - 1; j >= 0 && next < 0; j-- {
				for a := choices[j] + 1; a < widths[j]; a++ {
					p := 0
					if info.cur[j] >= 0 && info.threads[j][a] != info.cur[j] && contains(info.threads[j], info.cur[j]) {
						p = 1
					}
					if pb < 0 || pre[j]+p <= pb {
						next, alt = j, a
						break
					}
				}
			}
			if next < 0 {
				res.Exhausted = true
				break
			}
			prefix = append(append([]int{}, choices[:next]...), alt)
		}
	case "random":
		r := rand.New(rand.NewSource(seed + int64(id)*7919))
		for i := 0; i < budget; i++ {
			st := &randStrat{r: r, sticky: []float64{0, 0.5, 0.8}[i%3]}
			h, s, out := run(st, spurious)
			s.Abandon()
			record(h, s, out)
		}
	case "sched":
		r := rand.New(rand.NewSource(seed))
		for _, sch := range scheds {
			st := &schedStrat{sched: sch, r: r}
			h, s, out := run(st, spurious)
			s.Abandon()
			if st.diverged {
				res.Diverged++
			}
			record(h, s, out)
		}
	}
	return res
}

func contains(l []int, x int) bool {
	for _, y := range l {
		if y == x {
			return true
		}
	}
	return false
}

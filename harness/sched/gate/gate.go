// Package gate is a controlled scheduler: model goroutines (real goroutines running the real llgo
// runtime source) park at every synchronisation call; a driver grants exactly one enabled step at a
// time, so every interleaving at lock/wait/signal/atomic granularity — including spurious wake-ups and
// the choice of which waiter a Signal wakes — is a choice the driver makes and can enumerate.
package gate

import (
	"fmt"
	"sort"
)

type Kind int

const (
	KLock Kind = iota
	KReacquire
	KSignal
	KBroadcast
	KAtomic
	KYield
	KSleeping // not an action: parked in cond.Wait, needs a wake-up
)

var kindName = map[Kind]string{KLock: "lock", KReacquire: "reacq", KSignal: "signal", KBroadcast: "bcast", KAtomic: "atomic", KYield: "yield", KSleeping: "sleep"}

type Mutex struct {
	owner *Thread
	ID    int
}

type Cond struct {
	sleepers []*Thread
	ID       int
}

type Thread struct {
	ID     int
	s      *Sched
	req    Kind
	mu     *Mutex
	cv     *Cond
	label  string
	wake   chan struct{}
	done   bool
	parked bool
	Steps  int
}

// Action is one enabled scheduling choice.
type Action struct {
	T      *Thread
	Kind   Kind
	Victim *Thread // for Signal: which sleeper is woken (nil = no sleeper); for spurious: T itself
	Spur   bool
	Label  string
}

func (a Action) String() string {
	s := fmt.Sprintf("t%d:%s", a.T.ID, kindName[a.Kind])
	if a.Spur {
		s = fmt.Sprintf("t%d:spurious", a.T.ID)
	}
	if a.Victim != nil && !a.Spur {
		s += fmt.Sprintf(">t%d", a.Victim.ID)
	}
	if a.Label != "" {
		s += "@" + a.Label
	}
	return s
}

// Strategy picks one of the enabled actions (index into acts). cur is the thread that ran last (or nil).
type Strategy interface {
	Choose(acts []Action, cur *Thread, step int) int
}

type Sched struct {
	threads  []*Thread
	yield    chan *Thread
	cur      *Thread
	nextID   int
	Spurious int // remaining spurious wake-ups allowed
	MaxSteps int
	Trace    []string // actions taken
	Choices  []int    // index chosen at each step
	Widths   []int    // number of enabled actions at each step
	objID    int
	aborting bool
	Crashes  []string                 // panics that escaped a model goroutine
	OnStep   func(step int, a Action) // called after the effect, before the thread resumes
}

func New() *Sched {
	return &Sched{yield: make(chan *Thread), MaxSteps: 2000}
}

var Cur *Sched // the scheduler the stand-in packages talk to (one execution at a time per process)

func (s *Sched) NewMutex() *Mutex { s.objID++; return &Mutex{ID: s.objID} }
func (s *Sched) NewCond() *Cond   { s.objID++; return &Cond{ID: s.objID} }

// Go starts a model goroutine. It does not run until the driver grants it its first step.
func (s *Sched) Go(f func(t *Thread)) *Thread {
	t := &Thread{ID: len(s.threads), s: s, wake: make(chan struct{})}
	s.threads = append(s.threads, t)
	t.req = KYield
	t.label = "start"
	t.parked = true
	go func() {
		defer func() {
			if r := recover(); r != nil && !IsAbort(r) {
				s.Crashes = append(s.Crashes, fmt.Sprintf("t%d: %v", t.ID, r))
			}
			t.done = true
			s.yield <- t
		}()
		<-t.wake
		if s.aborting {
			return
		}
		f(t)
	}()
	return t
}

type abortT struct{}

// IsAbort reports whether a recovered value is the scheduler's unwinding sentinel (must be re-panicked).
func IsAbort(r any) bool { _, ok := r.(abortT); return ok }

func (s *Sched) Running() *Thread { return s.cur }

func (t *Thread) park(k Kind, m *Mutex, c *Cond, label string) {
	t.req, t.mu, t.cv, t.label = k, m, c, label
	t.parked = true
	t.s.yield <- t
	<-t.wake
	if t.s.aborting {
		panic(abortT{})
	}
}

// ---- operations called (through the stand-ins) by the running thread ----

func (s *Sched) Lock(m *Mutex, label string) {
	t := s.cur
	t.park(KLock, m, nil, label)
}

func (s *Sched) Unlock(m *Mutex) {
	if m.owner != s.cur {
		panic(fmt.Sprintf("gate: unlock of mutex %d not held by t%d", m.ID, s.cur.ID))
	}
	m.owner = nil
}

func (s *Sched) Wait(c *Cond, m *Mutex, label string) {
	t := s.cur
	if m.owner != t {
		panic("gate: cond.Wait without holding the mutex")
	}
	m.owner = nil
	c.sleepers = append(c.sleepers, t)
	t.park(KSleeping, m, c, label)
}

func (s *Sched) Signal(c *Cond, label string)    { s.cur.park(KSignal, nil, c, label) }
func (s *Sched) Broadcast(c *Cond, label string) { s.cur.park(KBroadcast, nil, c, label) }
func (s *Sched) Atomic(label string)             { s.cur.park(KAtomic, nil, nil, label) }
func (s *Sched) Yield(label string)              { s.cur.park(KYield, nil, nil, label) }

func removeThread(l []*Thread, t *Thread) []*Thread {
	for i, x := range l {
		if x == t {
			return append(append([]*Thread{}, l[:i]...), l[i+1:]...)
		}
	}
	return l
}

// Enabled lists the scheduling choices in a canonical order.
func (s *Sched) Enabled() []Action {
	var acts []Action
	for _, t := range s.threads {
		if t.done || !t.parked {
			continue
		}
		switch t.req {
		case KLock, KReacquire:
			if t.mu.owner == nil {
				acts = append(acts, Action{T: t, Kind: t.req, Label: t.label})
			}
		case KSignal:
			if len(t.cv.sleepers) == 0 {
				acts = append(acts, Action{T: t, Kind: KSignal, Label: t.label})
			} else {
				sl := append([]*Thread{}, t.cv.sleepers...)
				sort.Slice(sl, func(i, j int) bool { return sl[i].ID < sl[j].ID })
				for _, v := range sl {
					acts = append(acts, Action{T: t, Kind: KSignal, Victim: v, Label: t.label})
				}
			}
		case KBroadcast, KAtomic, KYield:
			acts = append(acts, Action{T: t, Kind: t.req, Label: t.label})
		case KSleeping:
			if s.Spurious > 0 {
				acts = append(acts, Action{T: t, Kind: KSleeping, Spur: true, Victim: t, Label: t.label})
			}
		}
	}
	return acts
}

// Blocked reports the threads that are neither finished nor able to move without outside help.
func (s *Sched) Blocked() (sleeping, lockwait []*Thread) {
	for _, t := range s.threads {
		if t.done {
			continue
		}
		if t.req == KSleeping {
			sleeping = append(sleeping, t)
		} else if (t.req == KLock || t.req == KReacquire) && t.mu.owner != nil {
			lockwait = append(lockwait, t)
		}
	}
	return
}

func (s *Sched) AllDone() bool {
	for _, t := range s.threads {
		if !t.done {
			return false
		}
	}
	return true
}

type Outcome int

const (
	Finished  Outcome = iota // every thread returned
	Quiescent                // nothing enabled except (unavailable) wake-ups: blocked forever
	StepLimit
)

// Run drives the threads until quiescence. With strat==nil the first enabled action is always taken.
func (s *Sched) Run(strat Strategy) Outcome {
	Cur = s
	step := 0
	for {
		acts := s.Enabled()
		// spurious wake-ups never count as progress: quiescent if only spurious actions remain
		real := 0
		for _, a := range acts {
			if !a.Spur {
				real++
			}
		}
		if real == 0 {
			if s.AllDone() {
				return Finished
			}
			// Allow remaining spurious wake-ups only if the strategy wants them while others can move;
			// with nothing else enabled a spurious wake-up would merely re-check and sleep again — we
			// still explore it (it can expose `if` instead of `for` around Wait), bounded by s.Spurious.
			if len(acts) == 0 {
				return Quiescent
			}
		}
		if step >= s.MaxSteps {
			return StepLimit
		}
		i := 0
		if strat != nil {
			i = strat.Choose(acts, s.cur, step)
			if i < 0 || i >= len(acts) {
				i = 0
			}
		}
		a := acts[i]
		s.Choices = append(s.Choices, i)
		s.Widths = append(s.Widths, len(acts))
		s.Trace = append(s.Trace, a.String())
		step++
		t := a.T
		switch {
		case a.Spur:
			s.Spurious--
			t.cv.sleepers = removeThread(t.cv.sleepers, t)
			t.req = KReacquire
			continue // the thread does not run yet: it must re-acquire the mutex
		case a.Kind == KLock || a.Kind == KReacquire:
			t.mu.owner = t
		case a.Kind == KSignal:
			if a.Victim != nil {
				t.cv.sleepers = removeThread(t.cv.sleepers, a.Victim)
				a.Victim.req = KReacquire
			}
		case a.Kind == KBroadcast:
			for _, v := range t.cv.sleepers {
				v.req = KReacquire
			}
			t.cv.sleepers = nil
		}
		if s.OnStep != nil {
			s.OnStep(step, a)
		}
		t.parked = false
		t.Steps++
		s.cur = t
		t.wake <- struct{}{}
		<-s.yield // the thread runs until its next gate or its end
	}
}

// Abandon unwinds the goroutines of a quiescent execution (they would stay blocked forever otherwise):
// each parked thread is woken with the aborting flag set and panics with a sentinel up to its wrapper.
func (s *Sched) Abandon() {
	s.aborting = true
	for _, t := range s.threads {
		if !t.done {
			t.wake <- struct{}{}
			<-s.yield
		}
	}
	s.threads = nil
}

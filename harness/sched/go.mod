module verifsched

go 1.24

// chansched runs channel scenarios against the real z_chan.go (copied into package chanimpl at check time)
// under the controlled scheduler, and prints the API-level histories it observed.
package main

import (
	"bufio"
	"encoding/json"
	"flag"
	"fmt"
	"os"
	"sort"

	"strings"
	"unsafe"
	"verifsched/explore"

	"verifsched/chanimpl"
	"verifsched/gate"
)

type Case struct {
	Send bool  `json:"send"`
	C    int   `json:"c"`
	V    int64 `json:"v"`
}

type Op struct {
	K     string `json:"k"` // send recv close select
	C     int    `json:"c"`
	V     int64  `json:"v"`
	Cases []Case `json:"cases,omitempty"`
	Dflt  bool   `json:"dflt,omitempty"`
	Drop  bool   `json:"drop,omitempty"` // receive discarding the value (nil buffer)
}

type Scenario struct {
	ID      int     `json:"id"`
	Caps    []int   `json:"caps"`
	Threads [][]Op  `json:"threads"`
	Scheds  [][]int `json:"scheds,omitempty"` // thread-id schedules to replay (mode sched)
	Elt     int     `json:"elt,omitempty"`    // element size (default 8)
	Rev     bool    `json:"rev,omitempty"`    // channel addresses descending with the index
}

// ---- one execution

func runOnce(sc *Scenario, strat gate.Strategy, spurious int) (explore.HistRec, *gate.Sched, gate.Outcome) {
	s := gate.New()
	s.Spurious = spurious
	gate.Cur = s
	elt := sc.Elt
	if elt == 0 {
		elt = 8
	}
	// Select breaks ties by channel address: make the address order a controlled input
	// (ascending with the channel index, or descending when the scenario says rev).
	n := len(sc.Caps)
	order := make([]int, n)
	for i := range order {
		order[i] = i
	}
	if sc.Rev {
		for i := range order {
			order[i] = n - 1 - i
		}
	}
	bycap := map[int][]*chanimpl.Chan{}
	for _, c := range sc.Caps {
		bycap[c] = append(bycap[c], chanimpl.NewChan(elt, c))
	}
	// all Chan headers are the same size: allocate, then hand them out in address order
	var all []*chanimpl.Chan
	for _, l := range bycap {
		all = append(all, l...)
	}
	sort.Slice(all, func(i, j int) bool { return uintptr(unsafe.Pointer(all[i])) < uintptr(unsafe.Pointer(all[j])) })
	chans := make([]*chanimpl.Chan, n)
	for rank, idx := range order {
		// channel idx gets the rank-th smallest address; its capacity is installed afterwards
		chans[idx] = all[rank]
	}
	for i, c := range sc.Caps {
		chanimpl.ResetCapForVerif(chans[i], elt, c)
	}
	var events []explore.Event
	for ti := range sc.Threads {
		ops := sc.Threads[ti]
		tid := ti
		s.Go(func(t *gate.Thread) {
			for oi := range ops {
				op := &ops[oi]
				events = append(events, explore.Event{T: tid, E: "call", Op: oi})
				ev := explore.Event{T: tid, E: "ret", Op: oi}
				func() {
					defer func() {
						if r := recover(); r != nil {
							if gate.IsAbort(r) {
								panic(r)
							}
							ev.Pan = classify(r)
						}
					}()
					doOp(chans, op, &ev, elt)
				}()
				events = append(events, ev)
				if ev.Pan != "" {
					return // an uncaught panic ends the goroutine's script
				}
			}
		})
	}
	out := s.Run(strat)
	h := explore.HistRec{Events: events, End: "finished", Sched: strings.Join(s.Trace, " ")}
	if out != gate.Finished {
		h.End = "stuck"
		// threads whose last event is a call without ret
		last := map[int]string{}
		for _, e := range events {
			last[e.T] = e.E
		}
		for t := range sc.Threads {
			if last[t] == "call" {
				h.Stuck = append(h.Stuck, t)
			}
		}
		sort.Ints(h.Stuck)
	}
	return h, s, out
}

func classify(r any) string {
	msg := fmt.Sprint(r)
	switch {
	case strings.Contains(msg, "send on closed"):
		return "sendclosed"
	case strings.Contains(msg, "close of closed"):
		return "closeclosed"
	case strings.Contains(msg, "close of nil"):
		return "closenil"
	}
	return "other:" + msg
}

func doOp(chans []*chanimpl.Chan, op *Op, ev *explore.Event, elt int) {
	switch op.K {
	case "send":
		v := op.V
		chanimpl.ChanSend(chans[op.C], unsafe.Pointer(&v), elt)
		// the compiled code ignores ChanSend's result: completion without panic is the observable
	case "recv":
		var v int64
		p := unsafe.Pointer(&v)
		if op.Drop {
			p = nil
		}
		ev.Ok = chanimpl.ChanRecv(chans[op.C], p, elt)
		ev.Val = v
	case "close":
		chanimpl.ChanClose(chans[op.C])
	case "select":
		ops := make([]chanimpl.ChanOp, len(op.Cases))
		vals := make([]int64, len(op.Cases))
		for i, c := range op.Cases {
			if c.Send {
				vals[i] = c.V
			}
			ops[i] = chanimpl.ChanOp{C: chans[c.C], Val: unsafe.Pointer(&vals[i]), Size: int32(elt), Send: c.Send}
		}
		if op.Dflt {
			isel, recvOK, tryOK := chanimpl.TrySelect(ops...)
			if tryOK {
				ev.Sel = isel + 1
				if !op.Cases[isel].Send {
					ev.Ok = recvOK
					ev.Val = vals[isel]
				}
			}
		} else {
			isel, recvOK := chanimpl.Select(ops...)
			ev.Sel = isel + 1
			if !op.Cases[isel].Send {
				ev.Ok = recvOK
				ev.Val = vals[isel]
			}
		}
	}
}

func main() {
	in := flag.String("in", "", "scenarios ndjson")
	out := flag.String("out", "", "results ndjson")
	mode := flag.String("mode", "dfs", "dfs | random | sched")
	budget := flag.Int("budget", 20000, "max executions per scenario")
	pb := flag.Int("pb", -1, "preemption bound for dfs (-1 = unbounded)")
	spurious := flag.Int("spurious", 0, "spurious wake-ups allowed per execution")
	seed := flag.Int64("seed", 1, "seed")
	maxHist := flag.Int("maxhist", 400, "max distinct histories kept per scenario")
	shard := flag.Int("shard", 0, "this process handles scenarios with index %% shards == shard")
	shards := flag.Int("shards", 1, "")
	flag.Parse()
	f, err := os.Open(*in)
	if err != nil {
		fmt.Fprintln(os.Stderr, err)
		os.Exit(2)
	}
	defer f.Close()
	of, err := os.Create(*out)
	if err != nil {
		fmt.Fprintln(os.Stderr, err)
		os.Exit(2)
	}
	defer of.Close()
	w := bufio.NewWriter(of)
	defer w.Flush()
	sc := bufio.NewScanner(f)
	sc.Buffer(make([]byte, 1<<20), 1<<26)
	idx := 0
	for sc.Scan() {
		i := idx
		idx++
		if i%*shards != *shard {
			continue
		}
		var s Scenario
		if err := json.Unmarshal(sc.Bytes(), &s); err != nil {
			fmt.Fprintln(os.Stderr, "bad scenario:", err)
			os.Exit(2)
		}
		scn := s
		r := explore.Explore(s.ID, len(s.Threads), func(st gate.Strategy, sp int) (explore.HistRec, *gate.Sched, gate.Outcome) {
			return runOnce(&scn, st, sp)
		}, s.Scheds, *mode, *budget, *pb, *spurious, *seed, *maxHist)
		b, _ := json.Marshal(r)
		w.Write(b)
		w.WriteByte('\n')
	}
	fmt.Println("CHANSCHED_DONE")
}

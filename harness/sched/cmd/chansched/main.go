// chansched runs channel scenarios against the real z_chan.go (copied into package chanimpl at check time)
// under the controlled scheduler, and prints the API-level histories it observed.
package main

import (
	"bufio"
	"encoding/json"
	"flag"
	"fmt"
	"math/rand"
	"os"
	"sort"
	"strings"
	"sync"
	"unsafe"

	"verifsched/chanimpl"
	"verifsched/gate"
)

type Case struct {
	Send bool  `json:"send"`
	C    int   `json:"c"`
	V    int64 `json:"v"`
}

type Op struct {
	K     string `json:"k"` // send recv close select
	C     int    `json:"c"`
	V     int64  `json:"v"`
	Cases []Case `json:"cases,omitempty"`
	Dflt  bool   `json:"dflt,omitempty"`
	Drop  bool   `json:"drop,omitempty"` // receive discarding the value (nil buffer)
}

type Scenario struct {
	ID      int      `json:"id"`
	Caps    []int    `json:"caps"`
	Threads [][]Op   `json:"threads"`
	Scheds  [][]int  `json:"scheds,omitempty"` // thread-id schedules to replay (mode sched)
	Elt     int      `json:"elt,omitempty"`    // element size (default 8)
}

type Event struct {
	T   int    `json:"t"`
	E   string `json:"e"` // call ret
	Op  int    `json:"op"`
	Sel int    `json:"sel"`           // chosen case (1-based), 0 = default / not a select
	Val int64  `json:"val"`           // received value
	Ok  bool   `json:"ok"`            // recvOK
	Pan string `json:"pan,omitempty"` // panic kind
}

type Result struct {
	ID        int               `json:"id"`
	Execs     int               `json:"execs"`
	Exhausted bool              `json:"exhausted"`
	Hist      []HistRec         `json:"hist"`
	Outcomes  map[string]int    `json:"outcomes"`
	OutSched  map[string]string `json:"outsched"`
	Diverged  int               `json:"diverged"`
	StepLimit int               `json:"steplimit"`
	Crashes   []string          `json:"crashes,omitempty"`
}

type HistRec struct {
	Events []Event `json:"ev"`
	End    string  `json:"end"` // finished | stuck
	Stuck  []int   `json:"stuck,omitempty"`
	Sched  string  `json:"sched"`
	Count  int     `json:"n"`
}

// ---- strategies

type replayStrat struct {
	prefix []int
	info   *stepInfo
}

type stepInfo struct {
	threads [][]int // thread of every enabled action at each step
	cur     []int   // thread that ran last (-1 none)
}

func (r *replayStrat) Choose(acts []gate.Action, cur *gate.Thread, step int) int {
	ids := make([]int, len(acts))
	for i, a := range acts {
		ids[i] = a.T.ID
	}
	c := -1
	if cur != nil {
		c = cur.ID
	}
	r.info.threads = append(r.info.threads, ids)
	r.info.cur = append(r.info.cur, c)
	if step < len(r.prefix) {
		return r.prefix[step]
	}
	// default continuation: keep running the current thread when it can move (no preemption)
	for i, a := range acts {
		if a.T.ID == c && !a.Spur {
			return i
		}
	}
	for i, a := range acts {
		if !a.Spur {
			return i
		}
	}
	return 0
}

type randStrat struct {
	r      *rand.Rand
	sticky float64
}

func (s *randStrat) Choose(acts []gate.Action, cur *gate.Thread, step int) int {
	if cur != nil && s.r.Float64() < s.sticky {
		for i, a := range acts {
			if a.T.ID == cur.ID && !a.Spur {
				return i
			}
		}
	}
	return s.r.Intn(len(acts))
}

type schedStrat struct {
	sched    []int
	diverged bool
	r        *rand.Rand
}

func (s *schedStrat) Choose(acts []gate.Action, cur *gate.Thread, step int) int {
	if step < len(s.sched) && !s.diverged {
		for i, a := range acts {
			if a.T.ID == s.sched[step] && !a.Spur {
				return i
			}
		}
		s.diverged = true
	}
	return s.r.Intn(len(acts))
}

// ---- one execution

func runOnce(sc *Scenario, strat gate.Strategy, spurious int) (HistRec, *gate.Sched, gate.Outcome) {
	s := gate.New()
	s.Spurious = spurious
	gate.Cur = s
	elt := sc.Elt
	if elt == 0 {
		elt = 8
	}
	chans := make([]*chanimpl.Chan, len(sc.Caps))
	for i, c := range sc.Caps {
		chans[i] = chanimpl.NewChan(elt, c)
	}
	var events []Event
	for ti := range sc.Threads {
		ops := sc.Threads[ti]
		tid := ti
		s.Go(func(t *gate.Thread) {
			for oi := range ops {
				op := &ops[oi]
				events = append(events, Event{T: tid, E: "call", Op: oi})
				ev := Event{T: tid, E: "ret", Op: oi}
				func() {
					defer func() {
						if r := recover(); r != nil {
							if gate.IsAbort(r) {
								panic(r)
							}
							ev.Pan = classify(r)
						}
					}()
					doOp(chans, op, &ev, elt)
				}()
				events = append(events, ev)
				if ev.Pan != "" {
					return // an uncaught panic ends the goroutine's script
				}
			}
		})
	}
	out := s.Run(strat)
	h := HistRec{Events: events, End: "finished", Sched: strings.Join(s.Trace, " ")}
	if out != gate.Finished {
		h.End = "stuck"
		// threads whose last event is a call without ret
		last := map[int]string{}
		for _, e := range events {
			last[e.T] = e.E
		}
		for t := range sc.Threads {
			if last[t] == "call" {
				h.Stuck = append(h.Stuck, t)
			}
		}
		sort.Ints(h.Stuck)
	}
	return h, s, out
}

func classify(r any) string {
	msg := fmt.Sprint(r)
	switch {
	case strings.Contains(msg, "send on closed"):
		return "sendclosed"
	case strings.Contains(msg, "close of closed"):
		return "closeclosed"
	case strings.Contains(msg, "close of nil"):
		return "closenil"
	}
	return "other:" + msg
}

func doOp(chans []*chanimpl.Chan, op *Op, ev *Event, elt int) {
	switch op.K {
	case "send":
		v := op.V
		chanimpl.ChanSend(chans[op.C], unsafe.Pointer(&v), elt)
		// the compiled code ignores ChanSend's result: completion without panic is the observable
	case "recv":
		var v int64
		p := unsafe.Pointer(&v)
		if op.Drop {
			p = nil
		}
		ev.Ok = chanimpl.ChanRecv(chans[op.C], p, elt)
		ev.Val = v
	case "close":
		chanimpl.ChanClose(chans[op.C])
	case "select":
		ops := make([]chanimpl.ChanOp, len(op.Cases))
		vals := make([]int64, len(op.Cases))
		for i, c := range op.Cases {
			if c.Send {
				vals[i] = c.V
			}
			ops[i] = chanimpl.ChanOp{C: chans[c.C], Val: unsafe.Pointer(&vals[i]), Size: int32(elt), Send: c.Send}
		}
		if op.Dflt {
			isel, recvOK, tryOK := chanimpl.TrySelect(ops...)
			if tryOK {
				ev.Sel = isel + 1
				if !op.Cases[isel].Send {
					ev.Ok = recvOK
					ev.Val = vals[isel]
				}
			}
		} else {
			isel, recvOK := chanimpl.Select(ops...)
			ev.Sel = isel + 1
			if !op.Cases[isel].Send {
				ev.Ok = recvOK
				ev.Val = vals[isel]
			}
		}
	}
}

// ---- exploration of one scenario

func outcomeKey(sc *Scenario, h *HistRec) string {
	per := make([][]string, len(sc.Threads))
	for _, e := range h.Events {
		if e.E == "ret" {
			per[e.T] = append(per[e.T], fmt.Sprintf("%d,%d,%v,%s", e.Sel, e.Val, e.Ok, e.Pan))
		}
	}
	var sb strings.Builder
	for t := range per {
		sb.WriteString(strings.Join(per[t], ";"))
		sb.WriteString("|")
	}
	sb.WriteString(h.End)
	for _, t := range h.Stuck {
		fmt.Fprintf(&sb, ",%d", t)
	}
	return sb.String()
}

func histKey(h *HistRec) string {
	b, _ := json.Marshal(h.Events)
	return string(b) + h.End + fmt.Sprint(h.Stuck)
}

func explore(sc *Scenario, mode string, budget, pb, spurious int, seed int64, maxHist int) Result {
	res := Result{ID: sc.ID, Outcomes: map[string]int{}, OutSched: map[string]string{}}
	seen := map[string]int{}
	record := func(h HistRec, s *gate.Sched, out gate.Outcome) {
		res.Execs++
		if out == gate.StepLimit {
			res.StepLimit++
		}
		res.Crashes = append(res.Crashes, s.Crashes...)
		ok := outcomeKey(sc, &h)
		if _, dup := res.Outcomes[ok]; !dup {
			res.OutSched[ok] = h.Sched
		}
		res.Outcomes[ok]++
		k := histKey(&h)
		if i, dup := seen[k]; dup {
			res.Hist[i].Count++
		} else if len(res.Hist) < maxHist {
			seen[k] = len(res.Hist)
			h.Count = 1
			res.Hist = append(res.Hist, h)
		}
	}
	switch mode {
	case "dfs":
		prefix := []int{}
		for res.Execs < budget {
			info := &stepInfo{}
			st := &replayStrat{prefix: prefix, info: info}
			h, s, out := runOnce(sc, st, spurious)
			choices, widths := s.Choices, s.Widths
			s.Abandon()
			record(h, s, out)
			// preemptions used along the taken path, up to each step
			pre := make([]int, len(choices)+1)
			for j := range choices {
				p := 0
				if info.cur[j] >= 0 && info.threads[j][choices[j]] != info.cur[j] && contains(info.threads[j], info.cur[j]) {
					p = 1
				}
				pre[j+1] = pre[j] + p
			}
			// backtrack: last step with an untried alternative within the preemption bound
			next := -1
			alt := 0
			for j := len(choices) - 1; j >= 0 && next < 0; j-- {
				for a := choices[j] + 1; a < widths[j]; a++ {
					p := 0
					if info.cur[j] >= 0 && info.threads[j][a] != info.cur[j] && contains(info.threads[j], info.cur[j]) {
						p = 1
					}
					if pb < 0 || pre[j]+p <= pb {
						next, alt = j, a
						break
					}
				}
			}
			if next < 0 {
				res.Exhausted = true
				break
			}
			prefix = append(append([]int{}, choices[:next]...), alt)
		}
	case "random":
		r := rand.New(rand.NewSource(seed + int64(sc.ID)*7919))
		for i := 0; i < budget; i++ {
			st := &randStrat{r: r, sticky: []float64{0, 0.5, 0.8}[i%3]}
			h, s, out := runOnce(sc, st, spurious)
			s.Abandon()
			record(h, s, out)
		}
	case "sched":
		r := rand.New(rand.NewSource(seed))
		for _, sch := range sc.Scheds {
			st := &schedStrat{sched: sch, r: r}
			h, s, out := runOnce(sc, st, spurious)
			s.Abandon()
			if st.diverged {
				res.Diverged++
			}
			record(h, s, out)
		}
	}
	return res
}

func contains(l []int, x int) bool {
	for _, y := range l {
		if y == x {
			return true
		}
	}
	return false
}

func main() {
	in := flag.String("in", "", "scenarios ndjson")
	out := flag.String("out", "", "results ndjson")
	mode := flag.String("mode", "dfs", "dfs | random | sched")
	budget := flag.Int("budget", 20000, "max executions per scenario")
	pb := flag.Int("pb", -1, "preemption bound for dfs (-1 = unbounded)")
	spurious := flag.Int("spurious", 0, "spurious wake-ups allowed per execution")
	seed := flag.Int64("seed", 1, "seed")
	maxHist := flag.Int("maxhist", 400, "max distinct histories kept per scenario")
	shard := flag.Int("shard", 0, "this process handles scenarios with index %% shards == shard")
	shards := flag.Int("shards", 1, "")
	flag.Parse()
	f, err := os.Open(*in)
	if err != nil {
		fmt.Fprintln(os.Stderr, err)
		os.Exit(2)
	}
	defer f.Close()
	of, err := os.Create(*out)
	if err != nil {
		fmt.Fprintln(os.Stderr, err)
		os.Exit(2)
	}
	defer of.Close()
	w := bufio.NewWriter(of)
	defer w.Flush()
	var mu sync.Mutex
	_ = mu
	sc := bufio.NewScanner(f)
	sc.Buffer(make([]byte, 1<<20), 1<<26)
	idx := 0
	for sc.Scan() {
		i := idx
		idx++
		if i%*shards != *shard {
			continue
		}
		var s Scenario
		if err := json.Unmarshal(sc.Bytes(), &s); err != nil {
			fmt.Fprintln(os.Stderr, "bad scenario:", err)
			os.Exit(2)
		}
		r := explore(&s, *mode, *budget, *pb, *spurious, *seed, *maxHist)
		b, _ := json.Marshal(r)
		w.Write(b)
		w.WriteByte('\n')
	}
	fmt.Println("CHANSCHED_DONE")
}

// semasched runs semaphore / notify-list scenarios against the real sema_llgo.go (copied into package
// semaimpl at check time) under the controlled scheduler; atomics are scheduling points too.
package main

import (
	"bufio"
	"encoding/json"
	"flag"
	"fmt"
	"os"
	"sort"
	"strings"

	"verifsched/explore"
	"verifsched/gate"
	"verifsched/semaimpl"
)

type Op struct {
	K string `json:"k"` // acq rel add wait one all
	A int    `json:"a"`
}

type Scenario struct {
	ID      int     `json:"id"`
	Init    []int   `json:"init"` // initial semaphore counts
	Threads [][]Op  `json:"threads"`
	Scheds  [][]int `json:"scheds,omitempty"`
}

func runOnce(sc *Scenario, strat gate.Strategy, spurious int) (explore.HistRec, *gate.Sched, gate.Outcome) {
	s := gate.New()
	s.Spurious = spurious
	gate.Cur = s
	semaimpl.ResetForVerif()
	sems := make([]*uint32, len(sc.Init))
	for i, n := range sc.Init {
		v := uint32(n)
		sems[i] = &v
	}
	nl := new(semaimpl.NotifyList)
	var events []explore.Event
	for ti := range sc.Threads {
		ops := sc.Threads[ti]
		tid := ti
		s.Go(func(t *gate.Thread) {
			var ticket uint32
			for oi := range ops {
				op := &ops[oi]
				events = append(events, explore.Event{T: tid, E: "call", Op: oi})
				ev := explore.Event{T: tid, E: "ret", Op: oi}
				func() {
					defer func() {
						if r := recover(); r != nil {
							if gate.IsAbort(r) {
								panic(r)
							}
							ev.Pan = "other:" + fmt.Sprint(r)
						}
					}()
					switch op.K {
					case "acq":
						semaimpl.SemaAcquire(sems[op.A])
					case "rel":
						semaimpl.SemaRelease(sems[op.A])
					case "add":
						ticket = semaimpl.NotifyListAdd(nl)
						ev.Val = int64(ticket)
					case "wait":
						semaimpl.NotifyListWait(nl, ticket)
					case "one":
						semaimpl.NotifyListNotifyOne(nl)
					case "all":
						semaimpl.NotifyListNotifyAll(nl)
					}
				}()
				events = append(events, ev)
				if ev.Pan != "" {
					return
				}
			}
		})
	}
	out := s.Run(strat)
	h := explore.HistRec{Events: events, End: "finished", Sched: strings.Join(s.Trace, " ")}
	if out != gate.Finished {
		h.End = "stuck"
		last := map[int]string{}
		for _, e := range events {
			last[e.T] = e.E
		}
		for t := range sc.Threads {
			if last[t] == "call" {
				h.Stuck = append(h.Stuck, t)
			}
		}
		sort.Ints(h.Stuck)
	}
	var ex []string
	for _, p := range sems {
		ex = append(ex, fmt.Sprint(*p))
	}
	w, n := semaimpl.NotifyCounters(nl)
	h.Extra = strings.Join(ex, ",") + fmt.Sprintf(";w=%d,n=%d", w, n)
	return h, s, out
}

func main() {
	in := flag.String("in", "", "scenarios ndjson")
	out := flag.String("out", "", "results ndjson")
	mode := flag.String("mode", "dfs", "dfs | random | sched")
	budget := flag.Int("budget", 20000, "max executions per scenario")
	pb := flag.Int("pb", -1, "preemption bound for dfs (-1 = unbounded)")
	spurious := flag.Int("spurious", 0, "spurious wake-ups allowed per execution")
	seed := flag.Int64("seed", 1, "seed")
	maxHist := flag.Int("maxhist", 400, "max distinct histories kept per scenario")
	shard := flag.Int("shard", 0, "")
	shards := flag.Int("shards", 1, "")
	flag.Parse()
	f, err := os.Open(*in)
	if err != nil {
		fmt.Fprintln(os.Stderr, err)
		os.Exit(2)
	}
	defer f.Close()
	of, err := os.Create(*out)
	if err != nil {
		fmt.Fprintln(os.Stderr, err)
		os.Exit(2)
	}
	defer of.Close()
	w := bufio.NewWriter(of)
	defer w.Flush()
	sc := bufio.NewScanner(f)
	sc.Buffer(make([]byte, 1<<20), 1<<26)
	idx := 0
	for sc.Scan() {
		i := idx
		idx++
		if i%*shards != *shard {
			continue
		}
		var s Scenario
		if err := json.Unmarshal(sc.Bytes(), &s); err != nil {
			fmt.Fprintln(os.Stderr, "bad scenario:", err)
			os.Exit(2)
		}
		scn := s
		r := explore.Explore(s.ID, len(s.Threads), func(st gate.Strategy, sp int) (explore.HistRec, *gate.Sched, gate.Outcome) {
			return runOnce(&scn, st, sp)
		}, s.Scheds, *mode, *budget, *pb, *spurious, *seed, *maxHist)
		b, _ := json.Marshal(r)
		w.Write(b)
		w.WriteByte('\n')
	}
	fmt.Println("SCHED_DONE")
}

// Package atomic stands in for llgo's sync/atomic: each operation is one gate (one indivisible step).
package atomic

import (
	"verifsched/gate"
)

func LoadUint32(addr *uint32) uint32 { gate.Cur.Atomic("load"); return *addr }
func StoreUint32(addr *uint32, v uint32) {
	gate.Cur.Atomic("store")
	*addr = v
}
func AddUint32(addr *uint32, d uint32) uint32 {
	gate.Cur.Atomic("add")
	*addr += d
	return *addr
}
func CompareAndSwapUint32(addr *uint32, old, new uint32) bool {
	gate.Cur.Atomic("cas")
	if *addr == old {
		*addr = new
		return true
	}
	return false
}
func LoadInt32(addr *int32) int32 { gate.Cur.Atomic("load"); return *addr }
func StoreInt32(addr *int32, v int32) {
	gate.Cur.Atomic("store")
	*addr = v
}
func AddInt32(addr *int32, d int32) int32 {
	gate.Cur.Atomic("add")
	*addr += d
	return *addr
}
func CompareAndSwapInt32(addr *int32, old, new int32) bool {
	gate.Cur.Atomic("cas")
	if *addr == old {
		*addr = new
		return true
	}
	return false
}

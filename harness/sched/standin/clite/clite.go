// Package clite stands in for github.com/goplus/llgo/runtime/internal/clite (C helpers) when the
// runtime sources are compiled by the ordinary Go toolchain under the controlled scheduler.
package clite

import "unsafe"

type (
	Char    = int8
	Int     = int32
	Pointer = unsafe.Pointer
)

func Memcpy(dst, src unsafe.Pointer, n uintptr) unsafe.Pointer {
	if n > 0 {
		copy(unsafe.Slice((*byte)(dst), n), unsafe.Slice((*byte)(src), n))
	}
	return dst
}

func Memmove(dst, src unsafe.Pointer, n uintptr) unsafe.Pointer { return Memcpy(dst, src, n) }

func Memset(dst unsafe.Pointer, c Int, n uintptr) unsafe.Pointer {
	b := unsafe.Slice((*byte)(dst), n)
	for i := range b {
		b[i] = byte(c)
	}
	return dst
}

func Advance[P ~unsafe.Pointer | ~*byte, I ~int | ~uintptr | ~int32 | ~int64](p P, off I) P {
	return P(unsafe.Add(unsafe.Pointer(p), int(off)))
}

// Package sync stands in for .../clite/pthread/sync: every operation is a gate of the controlled scheduler.
package sync

import (
	"verifsched/gate"
)

type MutexAttr struct{}
type CondAttr struct{}

type Mutex struct {
	m *gate.Mutex
}

func (m *Mutex) get() *gate.Mutex {
	if m.m == nil {
		m.m = gate.Cur.NewMutex()
	}
	return m.m
}

func (m *Mutex) Init(attr *MutexAttr) int32 { m.m = gate.Cur.NewMutex(); return 0 }
func (m *Mutex) Destroy()                   {}
func (m *Mutex) Lock()                      { gate.Cur.Lock(m.get(), "") }
func (m *Mutex) TryLock() bool              { panic("TryLock not modelled") }
func (m *Mutex) Unlock()                    { gate.Cur.Unlock(m.get()) }

type Cond struct {
	c *gate.Cond
}

func (c *Cond) get() *gate.Cond {
	if c.c == nil {
		c.c = gate.Cur.NewCond()
	}
	return c.c
}

func (c *Cond) Init(attr *CondAttr) int32 { c.c = gate.Cur.NewCond(); return 0 }
func (c *Cond) Destroy()                  {}
func (c *Cond) Signal() int32             { gate.Cur.Signal(c.get(), ""); return 0 }
func (c *Cond) Broadcast() int32          { gate.Cur.Broadcast(c.get(), ""); return 0 }
func (c *Cond) Wait(m *Mutex) int32       { gate.Cur.Wait(c.get(), m.get(), ""); return 0 }

// Once: pthread_once. Only one model goroutine runs at a time, so a flag suffices.
type Once struct {
	done bool
}

func (o *Once) Do(f func()) int32 {
	if !o.done {
		o.done = true
		f()
	}
	return 0
}

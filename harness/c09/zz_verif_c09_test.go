//go:build !llgo
// +build !llgo

package cabi

// Injected by /verif (check C09) through `go test -overlay`; not part of the repository.
// Drift report only: asks TypeInfoAmd64.GetTypeInfo how it would coerce each struct shape of the case
// file and writes the answer; the driver compares it with SysVAbi's classification vector.

import (
	"bufio"
	"encoding/json"
	"os"
	"testing"

	llssa "github.com/goplus/llgo/ssa"
	"github.com/xgo-dev/llvm"
)

type c09Field struct {
	T  string   `json:"t"`
	N  int      `json:"n"`
	Fs []string `json:"fs"`
}

type c09Case struct {
	Sig   string     `json:"sig"`
	Shape []c09Field `json:"shape"`
}

func c09Scalar(ctx llvm.Context, t string) llvm.Type {
	switch t {
	case "i8":
		return ctx.Int8Type()
	case "i16":
		return ctx.Int16Type()
	case "i32":
		return ctx.Int32Type()
	case "i64":
		return ctx.Int64Type()
	case "f32":
		return ctx.FloatType()
	case "f64":
		return ctx.DoubleType()
	}
	return llvm.PointerType(ctx.Int8Type(), 0)
}

func TestVerifC09Classify(t *testing.T) {
	in, out := os.Getenv("VERIF_CASES"), os.Getenv("VERIF_OUT")
	if in == "" || out == "" {
		t.Skip("no case file")
	}
	llvm.InitializeAllTargets()
	llvm.InitializeAllTargetMCs()
	llvm.InitializeAllTargetInfos()
	prog := llssa.NewProgram(nil)
	tr := NewTransformer(prog, "x86_64-unknown-linux-gnu", "", ModeAllFunc, false)
	tr.arch = "amd64"
	tr.sys = &TypeInfoAmd64{tr}
	ctx := llvm.NewContext()
	fin, err := os.Open(in)
	if err != nil {
		t.Fatal(err)
	}
	defer fin.Close()
	fout, err := os.Create(out)
	if err != nil {
		t.Fatal(err)
	}
	defer fout.Close()
	w := bufio.NewWriter(fout)
	defer w.Flush()
	sc := bufio.NewScanner(fin)
	sc.Buffer(make([]byte, 1<<20), 1<<20)
	fty := llvm.FunctionType(ctx.VoidType(), nil, false)
	for sc.Scan() {
		var c c09Case
		if err := json.Unmarshal(sc.Bytes(), &c); err != nil {
			t.Fatal(err)
		}
		var fields []llvm.Type
		for _, f := range c.Shape {
			var et llvm.Type
			if len(f.Fs) > 0 {
				var inner []llvm.Type
				for _, s := range f.Fs {
					inner = append(inner, c09Scalar(ctx, s))
				}
				et = ctx.StructType(inner, false)
			} else {
				et = c09Scalar(ctx, f.T)
			}
			if f.N > 0 {
				et = llvm.ArrayType(et, f.N)
			}
			fields = append(fields, et)
		}
		typ := ctx.StructType(fields, false)
		res := map[string]any{"sig": c.Sig}
		func() {
			defer func() {
				if e := recover(); e != nil {
					res["panic"] = true
				}
			}()
			info := tr.GetTypeInfo(ctx, fty, typ, 1)
			res["kind"] = int(info.Kind)
			res["size"] = info.Size
			res["align"] = info.Align
			if !info.Type1.IsNil() {
				res["t1"] = info.Type1.String()
			}
			if info.Kind == AttrWidthType2 && !info.Type2.IsNil() {
				res["t2"] = info.Type2.String()
			}
		}()
		b, _ := json.Marshal(res)
		w.Write(b)
		w.WriteByte('\n')
	}
	w.WriteString("{\"done\":true}\n")
}

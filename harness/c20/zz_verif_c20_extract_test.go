package crosscompile

// Injected by /verif at check time (go test -overlay); not part of goplus/llgo.
// Part 1 of C20: every archive enumerated by spec/extract/ExtractCases.tla is materialised as tar.gz, zip and
// tar.xz, unpacked by the real extractTarGz / extractZip / extractTarXz into <watched root>/l1/../l6/c20, and the
// WHOLE watched root is compared with what the specification demands (nothing outside dest changed, error
// when an entry would escape, success and the exact tree with the archived bytes for well-formed archives).

import (
	"archive/tar"
	"archive/zip"
	"bufio"
	"bytes"
	"compress/gzip"
	"encoding/json"
	"fmt"
	"os"
	"os/exec"
	"path/filepath"
	"sort"
	"strconv"
	"strings"
	"testing"
)

type v20Entry struct {
	N string `json:"n"` // name text over tokens a, b, .., ., empty, optional leading /
	K string `json:"k"` // file | dir | sym | hard
	T string `json:"t"` // link target class: in | up | abs | -
	V string `json:"v"` // verdict of the law: reject | extract | either
}
type v20Node struct {
	P []string `json:"p"`
	K string   `json:"k"`
	C int      `json:"c"`
}
type v20Case struct {
	E    []v20Entry `json:"e"`
	D    string     `json:"d"` // error | ok | free
	Det  bool       `json:"det"`
	Tree []v20Node  `json:"tree"`
}

const v20Depth = 6

var v20Tok = map[string]string{"a": "c20a", "b": "c20b"}

func v20MapSeg(s string) string {
	if m, ok := v20Tok[s]; ok {
		return m
	}
	return s
}

func v20MapName(n string) string {
	parts := strings.Split(n, "/")
	for i, p := range parts {
		parts[i] = v20MapSeg(p)
	}
	return strings.Join(parts, "/")
}

// deterministic "arbitrary" bytes of entry i in case idx; lengths straddle empty, tiny and multi-buffer sizes
func v20Content(idx, i int) []byte {
	lens := []int{0, 1, 5, 300, 5000, 40000}
	n := lens[(idx+i*7)%len(lens)]
	b := make([]byte, n)
	x := uint32(idx*2654435761+i*40503) | 1
	for k := range b {
		x ^= x << 13
		x ^= x >> 17
		x ^= x << 5
		b[k] = byte(x)
	}
	return b
}

type v20Box struct {
	root, parent, dest, outDir, sentinel, arch string
	base                                       map[string]string // outside signature of the pristine box
}

func v20NewBox(root string) (*v20Box, error) {
	b := &v20Box{root: filepath.Join(root, "w"), arch: filepath.Join(root, "arch")}
	if err := os.MkdirAll(b.arch, 0o755); err != nil {
		return nil, err
	}
	if err := b.rebuild(); err != nil {
		return nil, err
	}
	return b, nil
}

func (b *v20Box) rebuild() error {
	os.RemoveAll(b.root)
	p := b.root
	for i := 1; i <= v20Depth; i++ {
		p = filepath.Join(p, "l"+strconv.Itoa(i))
	}
	b.parent = p
	b.dest = filepath.Join(p, "c20") // the plain names c20a/c20b extend dest's own name: a guard that forgets the separator lets "../c20a" through
	b.outDir = filepath.Join(p, "out")
	b.sentinel = filepath.Join(p, "sentinel")
	if err := os.MkdirAll(b.dest, 0o755); err != nil {
		return err
	}
	if err := os.MkdirAll(b.outDir, 0o755); err != nil {
		return err
	}
	if err := os.WriteFile(b.sentinel, []byte("sentinel-outside-dest"), 0o644); err != nil {
		return err
	}
	sig, _, err := b.walk()
	b.base = sig
	return err
}

func (b *v20Box) resetDest() error {
	if err := os.RemoveAll(b.dest); err != nil {
		return err
	}
	return os.Mkdir(b.dest, 0o755)
}

// walk returns the signature of everything outside dest and the tree inside dest
func (b *v20Box) walk() (outside map[string]string, inside map[string]string, err error) {
	outside = map[string]string{}
	inside = map[string]string{}
	err = filepath.Walk(b.root, func(p string, fi os.FileInfo, e error) error {
		if e != nil {
			return e
		}
		var sig string
		switch {
		case fi.Mode()&os.ModeSymlink != 0:
			t, _ := os.Readlink(p)
			sig = "sym:" + t
		case fi.IsDir():
			sig = "dir"
		case fi.Mode().IsRegular():
			data, e := os.ReadFile(p)
			if e != nil {
				return e
			}
			sig = "file:" + string(data)
		default:
			sig = "other:" + fi.Mode().String()
		}
		if p == b.dest {
			outside[p] = sig
			return nil
		}
		if strings.HasPrefix(p, b.dest+string(os.PathSeparator)) {
			inside[p[len(b.dest)+1:]] = sig
		} else {
			outside[p] = sig
		}
		return nil
	})
	return
}

func v20DiffOutside(base, now map[string]string) string {
	var d []string
	for p, s := range now {
		if bs, ok := base[p]; !ok {
			d = append(d, "created "+p+" ("+v20Short(s)+")")
		} else if bs != s {
			d = append(d, "changed "+p+" ("+v20Short(bs)+" -> "+v20Short(s)+")")
		}
	}
	for p := range base {
		if _, ok := now[p]; !ok {
			d = append(d, "removed "+p)
		}
	}
	sort.Strings(d)
	return strings.Join(d, "; ")
}

func v20Short(s string) string {
	if len(s) > 40 {
		return s[:40] + fmt.Sprintf("...(%d bytes)", len(s))
	}
	return s
}

func (b *v20Box) linkTarget(e v20Entry) string {
	switch e.K + ":" + e.T {
	case "sym:in":
		return "c20b"
	case "sym:up":
		return ".."
	case "sym:abs":
		return b.outDir
	case "hard:in":
		return "c20b"
	case "hard:up":
		return "../sentinel"
	}
	return ""
}

// ---- archive writers; ok=false: the combination cannot be expressed in that format
func (b *v20Box) writeTar(idx int, c *v20Case) ([]byte, bool, error) {
	var buf bytes.Buffer
	tw := tar.NewWriter(&buf)
	for i, e := range c.E {
		h := &tar.Header{Name: v20MapName(e.N), Mode: 0o644, Format: tar.FormatGNU}
		var data []byte
		switch e.K {
		case "file":
			h.Typeflag = tar.TypeReg
			data = v20Content(idx, i+1)
			h.Size = int64(len(data))
		case "dir":
			h.Typeflag = tar.TypeDir
			h.Mode = 0o755
		case "sym":
			h.Typeflag = tar.TypeSymlink
			h.Linkname = b.linkTarget(e)
		case "hard":
			h.Typeflag = tar.TypeLink
			h.Linkname = b.linkTarget(e)
		}
		if err := tw.WriteHeader(h); err != nil {
			return nil, false, nil
		}
		if len(data) > 0 {
			if _, err := tw.Write(data); err != nil {
				return nil, false, err
			}
		}
	}
	if err := tw.Close(); err != nil {
		return nil, false, err
	}
	return buf.Bytes(), true, nil
}

var v20gz *gzip.Writer

func v20Gzip(raw []byte) []byte {
	var buf bytes.Buffer
	if v20gz == nil {
		v20gz, _ = gzip.NewWriterLevel(&buf, gzip.BestSpeed)
	} else {
		v20gz.Reset(&buf)
	}
	v20gz.Write(raw)
	v20gz.Close()
	return buf.Bytes()
}

func (b *v20Box) writeZip(idx int, c *v20Case) ([]byte, bool, error) {
	var buf bytes.Buffer
	zw := zip.NewWriter(&buf)
	for i, e := range c.E {
		name := v20MapName(e.N)
		fh := &zip.FileHeader{Name: name, Method: zip.Deflate}
		var data []byte
		switch e.K {
		case "file":
			if name == "" || strings.HasSuffix(name, "/") {
				return nil, false, nil // a zip name ending in "/" IS a directory
			}
			data = v20Content(idx, i+1)
			fh.SetMode(0o644)
		case "dir":
			if name == "" {
				return nil, false, nil
			}
			if !strings.HasSuffix(name, "/") {
				fh.Name = name + "/"
			}
			fh.SetMode(os.ModeDir | 0o755)
			fh.Method = zip.Store
		case "sym":
			if name == "" || strings.HasSuffix(name, "/") {
				return nil, false, nil
			}
			data = []byte(b.linkTarget(e))
			fh.SetMode(os.ModeSymlink | 0o777)
		default:
			return nil, false, nil // zip has no hard links
		}
		if idx%2 == 1 {
			fh.Method = zip.Store
		}
		w, err := zw.CreateHeader(fh)
		if err != nil {
			return nil, false, nil
		}
		if len(data) > 0 {
			if _, err := w.Write(data); err != nil {
				return nil, false, err
			}
		}
	}
	if err := zw.Close(); err != nil {
		return nil, false, err
	}
	return buf.Bytes(), true, nil
}

func v20Expected(idx int, c *v20Case) map[string]string {
	m := map[string]string{}
	for _, n := range c.Tree {
		segs := make([]string, len(n.P))
		for i, s := range n.P {
			segs[i] = v20MapSeg(s)
		}
		p := filepath.Join(segs...)
		if n.K == "dir" {
			m[p] = "dir"
		} else {
			m[p] = "file:" + string(v20Content(idx, n.C))
		}
	}
	return m
}

func v20DiffInside(got, want map[string]string) string {
	var d []string
	for p, s := range want {
		if g, ok := got[p]; !ok {
			d = append(d, "missing "+p+" ("+v20Short(s)+")")
		} else if g != s {
			d = append(d, "differs "+p+" (got "+v20Short(g)+" want "+v20Short(s)+")")
		}
	}
	for p, s := range got {
		if _, ok := want[p]; !ok {
			d = append(d, "unexpected "+p+" ("+v20Short(s)+")")
		}
	}
	sort.Strings(d)
	return strings.Join(d, "; ")
}

func v20RootLitter() string {
	var l []string
	for _, t := range v20Tok {
		if _, err := os.Lstat("/" + t); err == nil {
			l = append(l, "/"+t)
		}
	}
	sort.Strings(l)
	return strings.Join(l, ",")
}

func v20Call(f func(string, string) error, file, dest string) (err error, panicked string) {
	defer func() {
		if r := recover(); r != nil {
			panicked = fmt.Sprint(r)
		}
	}()
	return f(file, dest), ""
}

// TestVerifExtract: env VERIF_CASES (ndjson), VERIF_FROM, VERIF_TO, VERIF_OUT (ndjson of rule violations),
// VERIF_STATS (json), VERIF_ROOT (scratch, ideally tmpfs), VERIF_FORMATS (comma list), VERIF_XZ_MOD/VERIF_XZ_SEL
// (tar.xz runs two external processes per archive: only cases with idx % MOD == SEL are run through it)
func TestVerifExtract(t *testing.T) {
	casesPath := os.Getenv("VERIF_CASES")
	if casesPath == "" {
		t.Skip("no VERIF_CASES")
	}
	from, _ := strconv.Atoi(os.Getenv("VERIF_FROM"))
	to, _ := strconv.Atoi(os.Getenv("VERIF_TO"))
	xzMod, _ := strconv.Atoi(os.Getenv("VERIF_XZ_MOD"))
	xzSel, _ := strconv.Atoi(os.Getenv("VERIF_XZ_SEL"))
	if xzMod <= 0 {
		xzMod = 1
	}
	formats := map[string]bool{}
	for _, f := range strings.Split(os.Getenv("VERIF_FORMATS"), ",") {
		formats[f] = true
	}
	if lit := v20RootLitter(); lit != "" {
		t.Fatalf("precondition: %s exists before the run", lit)
	}
	box, err := v20NewBox(os.Getenv("VERIF_ROOT"))
	if err != nil {
		t.Fatal(err)
	}
	outf, err := os.OpenFile(os.Getenv("VERIF_OUT"), os.O_CREATE|os.O_WRONLY|os.O_APPEND, 0o644)
	if err != nil {
		t.Fatal(err)
	}
	defer outf.Close()
	out := bufio.NewWriter(outf)
	defer out.Flush()
	f, err := os.Open(casesPath)
	if err != nil {
		t.Fatal(err)
	}
	defer f.Close()
	sc := bufio.NewScanner(f)
	sc.Buffer(make([]byte, 1<<20), 1<<24)

	stats := map[string]int{}
	report := func(idx int, format, rule, detail string, c *v20Case, raw json.RawMessage) {
		b, _ := json.Marshal(map[string]any{"case": idx, "fmt": format, "rule": rule, "detail": detail, "arch": raw})
		out.Write(b)
		out.WriteByte('\n')
	}
	// judge one real extraction against the demands of the specification
	judge := func(idx int, name string, fn func(string, string) error, file string, c *v20Case, raw json.RawMessage, want map[string]string) {
		if err := box.resetDest(); err != nil {
			t.Fatal(err)
		}
		xerr, panicked := v20Call(fn, file, box.dest)
		stats[name+":run"]++
		outside, inside, werr := box.walk()
		if werr != nil {
			t.Fatalf("case %d: walk: %v", idx, werr)
		}
		dirty := false
		if panicked != "" {
			report(idx, name, "panic", panicked, c, raw)
		}
		// Confined
		if diff := v20DiffOutside(box.base, outside); diff != "" {
			report(idx, name, "escape", diff, c, raw)
			dirty = true
		}
		if lit := v20RootLitter(); lit != "" {
			report(idx, name, "escape", "created at the file-system root: "+lit, c, raw)
			for _, t := range v20Tok {
				os.RemoveAll("/" + t)
			}
		}
		// an escaping entry must make the call fail
		if c.D == "error" && xerr == nil && panicked == "" {
			report(idx, name, "accepted-escaping", "the call returned nil although an entry would escape", c, raw)
		}
		// a well-formed archive must be unpacked
		if c.D == "ok" && xerr != nil {
			report(idx, name, "rejected-wellformed", xerr.Error(), c, raw)
		}
		// when the call succeeded and the outcome is determined, it is exactly the archived tree
		if c.Det && xerr == nil && panicked == "" {
			if want == nil {
				want = v20Expected(idx, c)
			}
			if diff := v20DiffInside(inside, want); diff != "" {
				report(idx, name, "tree-mismatch", diff, c, raw)
			}
			stats[name+":tree-compared"]++
		}
		// observations (not judged): which harmless-but-odd single entries the implementation refuses
		if c.D == "free" && xerr != nil && len(c.E) == 1 && (c.E[0].K == "file" || c.E[0].K == "dir") {
			stats[name+":free-refused:"+c.E[0].K+":"+c.E[0].N]++
		}
		if xerr != nil {
			stats[name+":err"]++
		}
		if dirty {
			if err := box.rebuild(); err != nil {
				t.Fatal(err)
			}
		}
	}
	// tar.xz: raw tars are collected and compressed by ONE xz process per batch (process creation is the cost here)
	type xzJob struct {
		idx int
		c   v20Case
		raw json.RawMessage
	}
	var xzJobs []xzJob
	xzDir := filepath.Join(box.arch, "xz")
	flushXz := func() {
		if len(xzJobs) == 0 {
			return
		}
		args := []string{"-0", "-T1", "-f"}
		for _, j := range xzJobs {
			args = append(args, filepath.Join(xzDir, strconv.Itoa(j.idx)+".tar"))
		}
		if o, err := exec.Command("xz", args...).CombinedOutput(); err != nil {
			t.Fatalf("xz: %v: %s", err, o)
		}
		for i := range xzJobs {
			j := &xzJobs[i]
			file := filepath.Join(xzDir, strconv.Itoa(j.idx)+".tar.xz")
			judge(j.idx, "tarxz", extractTarXz, file, &j.c, j.raw, nil)
			os.Remove(file)
		}
		xzJobs = xzJobs[:0]
	}
	if formats["tarxz"] {
		if err := os.MkdirAll(xzDir, 0o755); err != nil {
			t.Fatal(err)
		}
	}
	idx := -1
	ncases := 0
	for sc.Scan() {
		idx++
		if idx < from {
			continue
		}
		if to > 0 && idx >= to {
			break
		}
		ncases++
		var c v20Case
		raw := append(json.RawMessage(nil), sc.Bytes()...)
		if err := json.Unmarshal(raw, &c); err != nil {
			t.Fatalf("case %d: %v", idx, err)
		}
		var tarRaw []byte
		var tarOK bool
		if formats["targz"] || formats["tarxz"] {
			tarRaw, tarOK, err = box.writeTar(idx, &c)
			if err != nil {
				t.Fatalf("case %d: tar writer: %v", idx, err)
			}
		}
		if formats["targz"] {
			if !tarOK {
				stats["targz:unrepresentable"]++
			} else {
				file := filepath.Join(box.arch, "x.tar.gz")
				if err := os.WriteFile(file, v20Gzip(tarRaw), 0o644); err != nil {
					t.Fatal(err)
				}
				judge(idx, "targz", extractTarGz, file, &c, raw, nil)
				if c.D == "ok" && c.Det {
					// the same well-formed entries in other well-formed encodings: the same tree is demanded
					for _, v := range v20TarVariants(idx, &c, v20Expected(idx, &c)) {
						if err := os.WriteFile(file, v.data, 0o644); err != nil {
							t.Fatal(err)
						}
						judge(idx, "targz+"+v.name, extractTarGz, file, &c, raw, v.want)
					}
				}
			}
		}
		if formats["zip"] {
			zb, ok, err := box.writeZip(idx, &c)
			if err != nil {
				t.Fatalf("case %d: zip writer: %v", idx, err)
			}
			if !ok {
				stats["zip:unrepresentable"]++
			} else {
				file := filepath.Join(box.arch, "x.zip")
				if err := os.WriteFile(file, zb, 0o644); err != nil {
					t.Fatal(err)
				}
				judge(idx, "zip", extractZip, file, &c, raw, nil)
				if c.D == "ok" && c.Det {
					for _, v := range v20ZipVariants(idx, &c) {
						if err := os.WriteFile(file, v.data, 0o644); err != nil {
							t.Fatal(err)
						}
						judge(idx, "zip+"+v.name, extractZip, file, &c, raw, v.want)
					}
				}
			}
		}
		if formats["tarxz"] && (idx%xzMod == xzSel || idx == 0) {
			if !tarOK {
				stats["tarxz:unrepresentable"]++
			} else {
				if err := os.WriteFile(filepath.Join(xzDir, strconv.Itoa(idx)+".tar"), tarRaw, 0o644); err != nil {
					t.Fatal(err)
				}
				xzJobs = append(xzJobs, xzJob{idx, c, raw})
				if len(xzJobs) >= 256 {
					flushXz()
				}
			}
		}
	}
	flushXz()
	sb, _ := json.Marshal(stats)
	if p := os.Getenv("VERIF_STATS"); p != "" {
		os.WriteFile(p, sb, 0o644)
	}
	out.Flush()
	fmt.Printf("VERIF_DONE cases=%d\n", ncases)
}

package crosscompile

// Injected by /verif at check time (go test -overlay); not part of goplus/llgo.
// Part 2 of C20: the real checkDownloadAndExtractLib is called concurrently - from goroutines and from separate
// processes - against a loopback HTTP server that serves a generated tar.gz.  Judged: every caller that returned
// nil sees a complete copy under dst at that moment; whoever finds dst present finds it complete; when anybody
// returned nil the final dst is complete.  The HTTP server doubles as a scheduling gate (it decides when a
// download fails or completes), which is enough to replay the counterexample of spec/extract/FetchLock.tla
// on the real system calls without any hook in the code under test.

import (
	"archive/tar"
	"bufio"
	"bytes"
	"compress/gzip"
	"encoding/json"
	"fmt"
	"io"
	"math/rand"
	"net/http"
	"net/http/httptest"
	"os"
	"os/exec"
	"path/filepath"
	"sort"
	"strconv"
	"strings"
	"sync"
	"sync/atomic"
	"testing"
	"time"
)

const v20Sub = "lib-1.0"

// a generated library archive: <sub>/f0000 .. plus nested directories; manifest maps path below <sub> to bytes
func v20MakeLib(seed int64, nfiles int) ([]byte, map[string]string) {
	rng := rand.New(rand.NewSource(seed))
	man := map[string]string{}
	var buf bytes.Buffer
	gz, _ := gzip.NewWriterLevel(&buf, gzip.BestSpeed)
	tw := tar.NewWriter(gz)
	tw.WriteHeader(&tar.Header{Name: v20Sub + "/", Typeflag: tar.TypeDir, Mode: 0o755})
	dirs := []string{"", "src/", "src/deep/er/", "include/"}
	for _, d := range dirs[1:] {
		tw.WriteHeader(&tar.Header{Name: v20Sub + "/" + d, Typeflag: tar.TypeDir, Mode: 0o755})
	}
	for i := 0; i < nfiles; i++ {
		name := fmt.Sprintf("%sf%04d", dirs[i%len(dirs)], i)
		n := []int{0, 7, 64, 700, 9000}[rng.Intn(5)]
		data := make([]byte, n)
		rng.Read(data)
		man[name] = string(data)
		tw.WriteHeader(&tar.Header{Name: v20Sub + "/" + name, Typeflag: tar.TypeReg, Mode: 0o644, Size: int64(n)})
		tw.Write(data)
	}
	tw.Close()
	gz.Close()
	return buf.Bytes(), man
}

// problems of dst as a copy of the manifest ("" = complete); sub=="" means the archive root was published
func v20Complete(dst, sub string, man map[string]string) string {
	root := dst
	if sub == "" {
		root = filepath.Join(dst, v20Sub)
	}
	missing, differ := 0, 0
	first := ""
	names := make([]string, 0, len(man))
	for n := range man {
		names = append(names, n)
	}
	sort.Strings(names)
	for _, n := range names {
		b, err := os.ReadFile(filepath.Join(root, n))
		if err != nil {
			missing++
			if first == "" {
				first = "missing " + n
			}
		} else if string(b) != man[n] {
			differ++
			if first == "" {
				first = fmt.Sprintf("differs %s (%d bytes, want %d)", n, len(b), len(man[n]))
			}
		}
	}
	if missing+differ == 0 {
		return ""
	}
	return fmt.Sprintf("%d of %d files missing, %d differ; first: %s", missing, len(man), differ, first)
}

// arbitrary bytes do not survive JSON strings: the manifest travels base64-encoded
func v20ManifestJSON(man map[string]string) []byte {
	raw := map[string][]byte{}
	for k, v := range man {
		raw[k] = []byte(v)
	}
	b, _ := json.Marshal(raw)
	return b
}

type v20Ret struct {
	OK       bool   `json:"ok"`
	Err      string `json:"err,omitempty"`
	Problems string `json:"problems,omitempty"` // state of dst at the moment a nil return was observed
}

func v20CallLib(url, dst, sub string, man map[string]string) v20Ret {
	err := checkDownloadAndExtractLib(url, dst, sub)
	if err != nil {
		return v20Ret{Err: err.Error()}
	}
	return v20Ret{OK: true, Problems: v20Complete(dst, sub, man)}
}

// ---- callers: goroutines of this process, or pre-spawned child processes that wait for a go-ahead byte
type v20Caller struct {
	done chan v20Ret
	pid  int
	goCh io.WriteCloser
	cmd  *exec.Cmd
}

type v20Launcher struct {
	procs         bool
	url, dst, sub string
	man           map[string]string
	manPath       string
}

func (l *v20Launcher) prepare() (*v20Caller, error) {
	c := &v20Caller{done: make(chan v20Ret, 1), pid: os.Getpid()}
	if !l.procs {
		return c, nil
	}
	cmd := exec.Command(os.Args[0], "-test.run", "TestVerifFetchChild$")
	cmd.Env = append(os.Environ(), "VERIF_CHILD_URL="+l.url, "VERIF_CHILD_DST="+l.dst, "VERIF_CHILD_SUB="+l.sub,
		"VERIF_CHILD_MANIFEST="+l.manPath)
	in, err := cmd.StdinPipe()
	if err != nil {
		return nil, err
	}
	outp, err := cmd.StdoutPipe()
	if err != nil {
		return nil, err
	}
	if err := cmd.Start(); err != nil {
		return nil, err
	}
	c.pid, c.goCh, c.cmd = cmd.Process.Pid, in, cmd
	ready := make(chan bool, 1)
	go func() {
		sc := bufio.NewScanner(outp)
		sc.Buffer(make([]byte, 1<<16), 1<<22)
		var r v20Ret
		got := false
		for sc.Scan() {
			line := sc.Text()
			if line == "VERIF_CHILD_READY" {
				ready <- true
			}
			if strings.HasPrefix(line, "VERIF_CHILD_RET ") {
				got = json.Unmarshal([]byte(line[len("VERIF_CHILD_RET "):]), &r) == nil
			}
		}
		cmd.Wait()
		if !got {
			r = v20Ret{Err: "child died without a result"}
		}
		c.done <- r
	}()
	select {
	case <-ready:
	case <-time.After(30 * time.Second):
		return nil, fmt.Errorf("child did not become ready")
	}
	return c, nil
}

func (l *v20Launcher) launch(c *v20Caller) {
	if l.procs {
		c.goCh.Write([]byte{'g'})
		c.goCh.Close()
		return
	}
	go func() { c.done <- v20CallLib(l.url, l.dst, l.sub, l.man) }()
}

// TestVerifFetchChild: one request from a separate process
func TestVerifFetchChild(t *testing.T) {
	url := os.Getenv("VERIF_CHILD_URL")
	if url == "" {
		t.Skip("not a child")
	}
	man := map[string]string{}
	raw := map[string][]byte{}
	b, err := os.ReadFile(os.Getenv("VERIF_CHILD_MANIFEST"))
	if err != nil || json.Unmarshal(b, &raw) != nil {
		fmt.Println("VERIF_CHILD_RET {\"err\":\"bad manifest\"}")
		return
	}
	for k, v := range raw {
		man[k] = string(v)
	}
	fmt.Println("VERIF_CHILD_READY")
	var one [1]byte
	os.Stdin.Read(one[:])
	r := v20CallLib(url, os.Getenv("VERIF_CHILD_DST"), os.Getenv("VERIF_CHILD_SUB"), man)
	rb, _ := json.Marshal(r)
	fmt.Println("VERIF_CHILD_RET " + string(rb))
}

func v20LockFDs(pids []int, lockPath string) int {
	n := 0
	for _, pid := range pids {
		dir := "/proc/" + strconv.Itoa(pid) + "/fd"
		ents, _ := os.ReadDir(dir)
		for _, e := range ents {
			if l, err := os.Readlink(filepath.Join(dir, e.Name())); err == nil && (l == lockPath || l == lockPath+" (deleted)") {
				n++
			}
		}
	}
	return n
}

func v20Leftovers(dst string) []string {
	var l []string
	for _, s := range []string{".lock", ".extract", ".extract.temp"} {
		if _, err := os.Lstat(dst + s); err == nil {
			l = append(l, s)
		}
	}
	return l
}

type v20Finding struct {
	Key    string `json:"key"`
	Kind   string `json:"kind"` // stress | directed
	Mode   string `json:"mode"` // goroutines | processes
	Rule   string `json:"rule"`
	Detail string `json:"detail"`
	Rep    int    `json:"rep"`
	N      int    `json:"n"`
	NFail  int    `json:"nfail"`
	Sub    string `json:"sub"`
	Seed   int64  `json:"seed"`
}

type v20Out struct {
	mu       sync.Mutex
	w        *bufio.Writer
	stats    map[string]int
	findings int
}

func (o *v20Out) add(f v20Finding) {
	o.mu.Lock()
	defer o.mu.Unlock()
	b, _ := json.Marshal(f)
	o.w.Write(b)
	o.w.WriteByte('\n')
	o.w.Flush()
	o.findings++
}
func (o *v20Out) stat(k string, n int) {
	o.mu.Lock()
	o.stats[k] += n
	o.mu.Unlock()
}

const v20StaleKey = "fetchlock:stale-lock-inode:partial-dst"

func v20StressKey(mode string, n, nfail int, rule string) string {
	if n >= 3 && nfail >= 1 {
		return v20StaleKey // the one class FetchLock.tla exhibits: a failed first holder, a waiter, a late opener
	}
	return fmt.Sprintf("fetchlock:stress:%s:n%d:fail%d:%s", mode, n, nfail, rule)
}

// ---- seeded stress
func v20StressRep(o *v20Out, root string, seed int64, rep int, procs bool, negative bool) {
	rng := rand.New(rand.NewSource(seed*1000003 + int64(rep)*7919 + 17))
	n := 2 + rng.Intn(3)
	nfail := []int{0, 0, 0, 1, 1, 2}[rng.Intn(6)]
	sub := v20Sub
	if rng.Intn(4) == 0 {
		sub = ""
	}
	nfiles := 5 + rng.Intn(60)
	body, man := v20MakeLib(seed+int64(rep), nfiles)
	if negative {
		// negative control: the manifest demands one byte more than the archive holds
		for k, v := range man {
			man[k] = v + "x"
			break
		}
		nfail = 0
	}
	mode := "goroutines"
	if procs {
		mode = "processes"
	}
	var reqNo int32
	srvDelay := time.Duration(rng.Intn(1500)) * time.Microsecond
	srv := httptest.NewServer(http.HandlerFunc(func(w http.ResponseWriter, r *http.Request) {
		k := int(atomic.AddInt32(&reqNo, 1))
		time.Sleep(srvDelay)
		if k <= nfail {
			http.Error(w, "injected failure", http.StatusInternalServerError)
			return
		}
		half := len(body) / 2
		w.Write(body[:half])
		if f, ok := w.(http.Flusher); ok {
			f.Flush()
		}
		w.Write(body[half:])
	}))
	defer srv.Close()
	base := filepath.Join(root, fmt.Sprintf("s%d", rep))
	os.RemoveAll(base)
	defer os.RemoveAll(base)
	dst := filepath.Join(base, "cache", "lib")
	l := &v20Launcher{procs: procs, url: srv.URL + "/lib-1.0.tar.gz", dst: dst, sub: sub, man: man}
	if procs {
		os.MkdirAll(base, 0o755)
		l.manPath = filepath.Join(base, "manifest.json")
		os.WriteFile(l.manPath, v20ManifestJSON(man), 0o644)
	}
	callers := make([]*v20Caller, n)
	for i := range callers {
		c, err := l.prepare()
		if err != nil {
			o.stat("setup-failed", 1)
			return
		}
		callers[i] = c
	}
	// an observer stands for every later caller on the fast path: whenever dst is there, it must be complete
	stop := make(chan struct{})
	obsDone := make(chan string, 1)
	go func() {
		for {
			select {
			case <-stop:
				obsDone <- ""
				return
			default:
			}
			if _, err := os.Stat(dst); err == nil {
				obsDone <- v20Complete(dst, sub, man)
				return
			}
			time.Sleep(20 * time.Microsecond)
		}
	}()
	for _, c := range callers {
		l.launch(c)
		if d := rng.Intn(4); d > 0 {
			time.Sleep(time.Duration(rng.Intn(400)) * time.Microsecond)
		}
	}
	rets := make([]v20Ret, n)
	nOK := 0
	for i, c := range callers {
		select {
		case rets[i] = <-c.done:
		case <-time.After(60 * time.Second):
			rets[i] = v20Ret{Err: "caller did not return within 60s"}
			o.add(v20Finding{Key: v20StressKey(mode, n, nfail, "hang"), Kind: "stress", Mode: mode, Rule: "hang",
				Detail: "a caller did not return within 60s", Rep: rep, N: n, NFail: nfail, Sub: sub, Seed: seed})
		}
		if rets[i].OK {
			nOK++
		}
	}
	close(stop)
	obs := <-obsDone
	fin := func(rule, detail string) {
		o.add(v20Finding{Key: v20StressKey(mode, n, nfail, rule), Kind: "stress", Mode: mode, Rule: rule, Detail: detail,
			Rep: rep, N: n, NFail: nfail, Sub: sub, Seed: seed})
	}
	for i, r := range rets {
		if r.OK && r.Problems != "" {
			fin("partial-at-return", fmt.Sprintf("caller %d returned nil but dst was not a complete copy: %s", i, r.Problems))
		}
		if !r.OK {
			o.stat(mode+":errors", 1)
			if nfail == 0 {
				o.stat(mode+":spurious-errors", 1)
			}
		}
	}
	if obs != "" {
		fin("partial-observed", "dst was visible but not complete: "+obs)
	}
	if nOK > 0 {
		if p := v20Complete(dst, sub, man); p != "" {
			fin("partial-final", "after all callers returned (some with nil) dst is not a complete copy: "+p)
		}
	}
	if nOK == 0 && nfail == 0 {
		fin("no-copy", "no download failed, yet no caller succeeded: "+rets[0].Err)
	}
	for _, s := range v20Leftovers(dst) {
		o.stat(mode+":leftover"+s, 1)
	}
	o.stat(mode+":reps", 1)
	o.stat(mode+":callers", n)
	o.stat(fmt.Sprintf("%s:n%d:fail%d", mode, n, nfail), 1)
}

// ---- directed replay of the FetchLock counterexample:
//
//	P1 locks inode i1, its download fails; P2 was already waiting on i1; P1 unlocks, closes and REMOVES the lock path;
//	P2 proceeds under i1; P3 arrives, finds no lock path, creates and locks a fresh inode i2 while P2 is extracting.
func v20Directed(o *v20Out, root string, seed int64, rep int, procs bool) {
	mode := "goroutines"
	if procs {
		mode = "processes"
	}
	nfiles := 1500
	body, man := v20MakeLib(seed*31+int64(rep), nfiles)
	base := filepath.Join(root, fmt.Sprintf("d%d", rep))
	os.RemoveAll(base)
	defer os.RemoveAll(base)
	dst := filepath.Join(base, "cache", "lib")
	lockPath := dst + ".lock"
	tempSub := filepath.Join(dst+".extract.temp", v20Sub)
	var reqNo int32
	arrived := make(chan int, 16)
	gate1 := make(chan struct{})
	p2done := make(chan struct{})
	srv := httptest.NewServer(http.HandlerFunc(func(w http.ResponseWriter, r *http.Request) {
		k := int(atomic.AddInt32(&reqNo, 1))
		arrived <- k
		switch {
		case k == 1:
			select {
			case <-gate1:
			case <-time.After(20 * time.Second):
			}
			http.Error(w, "injected failure", http.StatusInternalServerError)
		case k == 2:
			w.Write(body)
		default:
			select {
			case <-p2done:
			case <-time.After(20 * time.Second):
			}
			w.Write(body)
		}
	}))
	defer srv.Close()
	l := &v20Launcher{procs: procs, url: srv.URL + "/lib-1.0.tar.gz", dst: dst, sub: v20Sub, man: man}
	os.MkdirAll(base, 0o755)
	if procs {
		l.manPath = filepath.Join(base, "manifest.json")
		os.WriteFile(l.manPath, v20ManifestJSON(man), 0o644)
	}
	var cs [3]*v20Caller
	for i := range cs {
		c, err := l.prepare()
		if err != nil {
			o.stat("directed:"+mode+":setup-failed", 1)
			return
		}
		cs[i] = c
	}
	abort := func(why string) {
		o.stat("directed:"+mode+":not-staged:"+why, 1)
		close(gate1)
		close(p2done)
		for _, c := range cs {
			if procs || c != nil {
				select {
				case <-c.done:
				case <-time.After(2 * time.Second):
					if c.cmd != nil {
						c.cmd.Process.Kill()
					}
				}
			}
		}
	}
	waitArr := func(want int) bool {
		select {
		case k := <-arrived:
			return k == want
		case <-time.After(10 * time.Second):
			return false
		}
	}
	l.launch(cs[0])
	if !waitArr(1) {
		abort("p1-no-request")
		return
	}
	l.launch(cs[1])
	pids := []int{cs[0].pid}
	if procs {
		pids = append(pids, cs[1].pid)
	}
	deadline := time.Now().Add(10 * time.Second)
	for v20LockFDs(pids, lockPath) < 2 {
		if time.Now().After(deadline) {
			abort("p2-not-at-lock")
			return
		}
		time.Sleep(200 * time.Microsecond)
	}
	time.Sleep(10 * time.Millisecond) // P2 has the lock file open; give it time to block in flock(2)
	gate1 <- struct{}{}
	var r [3]v20Ret
	r[0] = <-cs[0].done
	_, statErr := os.Lstat(lockPath)
	lockGone := statErr != nil
	if !waitArr(2) {
		o.stat("directed:"+mode+":not-staged:p2-no-request", 1)
		close(p2done)
		return
	}
	// let P2 extract a part of the archive, then let P3 in
	p2early := false
	for t0 := time.Now(); time.Since(t0) < 5*time.Second; {
		if ents, err := os.ReadDir(filepath.Join(tempSub, "src")); err == nil && len(ents) >= nfiles/16 {
			break
		}
		select {
		case r[1] = <-cs[1].done:
			p2early = true
		default:
		}
		if p2early {
			break
		}
	}
	l.launch(cs[2])
	overlap := false
	if !p2early {
		select {
		case k := <-arrived:
			overlap = k == 3 // a second request entered the critical section while P2 is still inside it
			r[1] = <-cs[1].done
		case r[1] = <-cs[1].done:
		}
	}
	close(p2done)
	select {
	case r[2] = <-cs[2].done:
	case <-time.After(30 * time.Second):
		r[2] = v20Ret{Err: "P3 did not return"}
	}
	o.stat("directed:"+mode+":staged", 1)
	if lockGone {
		o.stat("directed:"+mode+":lock-path-gone-when-failed-holder-returned", 1)
	}
	if overlap {
		o.stat("directed:"+mode+":two-requests-inside-critical-section", 1)
	}
	fin := func(rule, detail string) {
		o.add(v20Finding{Key: v20StaleKey, Kind: "directed", Mode: mode, Rule: rule, Detail: detail, Rep: rep, N: 3, NFail: 1,
			Sub: v20Sub, Seed: seed})
	}
	nOK := 0
	for i, x := range r {
		if x.OK {
			nOK++
			if x.Problems != "" {
				fin("partial-at-return", fmt.Sprintf("P%d returned nil but dst was not a complete copy: %s (overlap=%v, lock path removed=%v)",
					i+1, x.Problems, overlap, lockGone))
			}
		} else {
			o.stat(fmt.Sprintf("directed:%s:P%d-error", mode, i+1), 1)
		}
	}
	if nOK > 0 {
		if p := v20Complete(dst, v20Sub, man); p != "" {
			fin("partial-final", "after all callers returned (some with nil) dst is not a complete copy: "+p)
		}
	}
}

// TestVerifFetch: env VERIF_FETCH_OUT (ndjson findings), VERIF_FETCH_STATS (json), VERIF_ROOT, VERIF_SEED,
// VERIF_REPS (goroutine stress), VERIF_PROC_REPS (process stress), VERIF_DIRECTED (per mode), VERIF_PAR (parallel reps)
func TestVerifFetch(t *testing.T) {
	outPath := os.Getenv("VERIF_FETCH_OUT")
	if outPath == "" {
		t.Skip("no VERIF_FETCH_OUT")
	}
	atoi := func(k string, d int) int {
		if v, err := strconv.Atoi(os.Getenv(k)); err == nil {
			return v
		}
		return d
	}
	seed := int64(atoi("VERIF_SEED", 1))
	reps, procReps, directed, par := atoi("VERIF_REPS", 50), atoi("VERIF_PROC_REPS", 5), atoi("VERIF_DIRECTED", 2), atoi("VERIF_PAR", 4)
	root := os.Getenv("VERIF_ROOT")
	os.MkdirAll(root, 0o755)
	f, err := os.Create(outPath)
	if err != nil {
		t.Fatal(err)
	}
	defer f.Close()
	o := &v20Out{w: bufio.NewWriter(f), stats: map[string]int{}}
	// silence the progress chatter of the code under test
	if dn, err := os.OpenFile(os.DevNull, os.O_WRONLY, 0); err == nil {
		os.Stderr = dn
	}

	// negative control: a manifest the archive cannot satisfy must be flagged by the same comparison
	before := o.findings
	v20StressRep(o, root, seed, 1000000, false, true)
	if o.findings == before {
		fmt.Println("VERIF_NEGATIVE_CONTROL_MISSED")
	} else {
		fmt.Println("VERIF_NEGATIVE_CONTROL_FLAGGED")
	}
	run := func(n int, procs bool, offset int) {
		var wg sync.WaitGroup
		sem := make(chan struct{}, par)
		for rep := 0; rep < n; rep++ {
			wg.Add(1)
			sem <- struct{}{}
			go func(rep int) {
				defer wg.Done()
				defer func() { <-sem }()
				v20StressRep(o, root, seed, offset+rep, procs, false)
			}(rep)
		}
		wg.Wait()
	}
	run(reps, false, 0)
	run(procReps, true, 500000)
	for i := 0; i < directed; i++ {
		v20Directed(o, root, seed, i, false)
	}
	for i := 0; i < directed; i++ {
		v20Directed(o, root, seed, 100+i, true)
	}
	sb, _ := json.Marshal(o.stats)
	os.WriteFile(os.Getenv("VERIF_FETCH_STATS"), sb, 0o644)
	fmt.Printf("VERIF_DONE findings=%d\n", o.findings)
}

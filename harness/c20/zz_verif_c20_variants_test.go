package crosscompile

// Injected by /verif at check time (go test -overlay); not part of goplus/llgo.
// Container-variant axis of C20 part 1: a well-formed archive (Demand = "ok": plain names, files and directories,
// no clash) is written in several different but equally well-formed encodings of the SAME entries.  The law is
// unchanged - Faithful demands the same tree whatever the encoding, Confined always:
//   tar.gz  several concatenated gzip members (split between entries; split in the middle of a file's data),
//           PAX extended-header records, GNU long names / USTAR prefix field / PAX path records (every name re-rooted
//           under a chain of plain segments longer than 100 resp. 255 characters), end-of-archive blocks followed
//           by zero padding, explicit directory entries for every parent vs parents only implied
//   zip     every entry stored / deflated, with data descriptors (streaming writer) / without (sizes in the local
//           header), explicit directory entries vs implied parents

import (
	"archive/tar"
	"archive/zip"
	"bytes"
	"compress/flate"
	"compress/gzip"
	"hash/crc32"
	"os"
	"path/filepath"
	"sort"
	"strings"
)

type v20Ent struct {
	name string // mapped name, no trailing slash
	dir  bool
	data []byte
}

type v20Variant struct {
	name string
	data []byte
	want map[string]string // nil: the tree printed by the specification
}

func v20Ents(idx int, c *v20Case) []v20Ent {
	var es []v20Ent
	for i, e := range c.E {
		en := v20Ent{name: v20MapName(e.N), dir: e.K == "dir"}
		if !en.dir {
			en.data = v20Content(idx, i+1)
		}
		es = append(es, en)
	}
	return es
}

// every directory of the expected tree as an explicit entry, parents first, then the entries
func v20ExplicitDirs(c *v20Case, es []v20Ent) []v20Ent {
	var dirs []string
	for _, n := range c.Tree {
		if n.K == "dir" {
			segs := make([]string, len(n.P))
			for i, s := range n.P {
				segs[i] = v20MapSeg(s)
			}
			dirs = append(dirs, strings.Join(segs, "/"))
		}
	}
	sort.Strings(dirs)
	var out []v20Ent
	for _, d := range dirs {
		out = append(out, v20Ent{name: d, dir: true})
	}
	return append(out, es...)
}

// directory entries that some other entry implies anyway are left out; nil when there is none
func v20ImpliedDirs(es []v20Ent) []v20Ent {
	var out []v20Ent
	dropped := false
	for i, e := range es {
		implied := false
		if e.dir {
			for j, o := range es {
				if i != j && strings.HasPrefix(o.name, e.name+"/") {
					implied = true
				}
			}
		}
		if implied {
			dropped = true
		} else {
			out = append(out, e)
		}
	}
	if !dropped {
		return nil
	}
	return out
}

func v20Prefix(nseg int) string {
	segs := make([]string, nseg)
	for i := range segs {
		segs[i] = []string{"c20a", "c20b"}[i%2]
	}
	return strings.Join(segs, "/")
}

func v20Reroot(prefix string, es []v20Ent) []v20Ent {
	out := make([]v20Ent, len(es))
	for i, e := range es {
		out[i] = e
		out[i].name = prefix + "/" + e.name
	}
	return out
}

func v20WantRerooted(prefix string, want map[string]string) map[string]string {
	m := map[string]string{}
	p := ""
	for _, s := range strings.Split(prefix, "/") {
		p = filepath.Join(p, s)
		m[p] = "dir"
	}
	for k, v := range want {
		m[filepath.Join(prefix, k)] = v
	}
	return m
}

// raw tar stream, the offsets at which each entry ends (record boundary) and where each entry's data starts
func v20BuildTar(es []v20Ent, format tar.Format, pax bool) (raw []byte, ends []int, dataAt []int, ok bool) {
	var buf bytes.Buffer
	tw := tar.NewWriter(&buf)
	for _, e := range es {
		h := &tar.Header{Name: e.name, Mode: 0o644, Format: format, Typeflag: tar.TypeReg, Size: int64(len(e.data))}
		if e.dir {
			h.Typeflag, h.Mode, h.Size = tar.TypeDir, 0o755, 0
			h.Name = e.name + "/"
		}
		if pax {
			h.PAXRecords = map[string]string{"VERIF.c20": "extended header record"}
		}
		if err := tw.WriteHeader(h); err != nil {
			return nil, nil, nil, false
		}
		dataAt = append(dataAt, buf.Len())
		if len(e.data) > 0 {
			tw.Write(e.data)
		}
		if err := tw.Flush(); err != nil {
			return nil, nil, nil, false
		}
		ends = append(ends, buf.Len())
	}
	if err := tw.Close(); err != nil {
		return nil, nil, nil, false
	}
	return buf.Bytes(), ends, dataAt, true
}

// one gzip member per part, concatenated (RFC 1952: a gzip file is a series of members)
func v20GzipMembers(parts ...[]byte) []byte {
	var out bytes.Buffer
	for _, p := range parts {
		zw, _ := gzip.NewWriterLevel(&out, gzip.BestSpeed)
		zw.Write(p)
		zw.Close()
	}
	return out.Bytes()
}

func v20TarVariants(idx int, c *v20Case, base map[string]string) []v20Variant {
	es := v20Ents(idx, c)
	var vs []v20Variant
	add := func(name string, data []byte, want map[string]string) {
		vs = append(vs, v20Variant{name, data, want})
	}
	raw, ends, dataAt, ok := v20BuildTar(es, tar.FormatGNU, false)
	if !ok {
		return nil
	}
	// (a) concatenated gzip members: one per entry plus one for the end-of-archive blocks
	var parts [][]byte
	prev := 0
	for _, e := range ends {
		parts = append(parts, raw[prev:e])
		prev = e
	}
	parts = append(parts, raw[prev:])
	add("members", v20GzipMembers(parts...), nil)
	// ... and a member boundary in the middle of a file's data
	for i, e := range es {
		if len(e.data) >= 2 {
			cut := dataAt[i] + len(e.data)/2
			add("members-midfile", v20GzipMembers(raw[:cut], raw[cut:]), nil)
			break
		}
	}
	// (c) end-of-archive blocks followed by zero padding up to a multiple of the classic 10 KiB blocking factor
	pad := 10240 - len(raw)%10240 + 10240
	add("zero-padding", v20GzipMembers(append(append([]byte{}, raw...), make([]byte, pad)...)), nil)
	// (b) extended headers
	if r, _, _, ok := v20BuildTar(es, tar.FormatPAX, true); ok {
		add("pax-record", v20GzipMembers(r), nil)
	}
	p21, p52 := v20Prefix(21), v20Prefix(52) // 104 and 259 characters
	if r, _, _, ok := v20BuildTar(v20Reroot(p21, es), tar.FormatGNU, false); ok {
		add("gnu-longname", v20GzipMembers(r), v20WantRerooted(p21, base))
	}
	if r, _, _, ok := v20BuildTar(v20Reroot(p21, es), tar.FormatUSTAR, false); ok {
		add("ustar-prefix", v20GzipMembers(r), v20WantRerooted(p21, base))
	}
	if r, _, _, ok := v20BuildTar(v20Reroot(p52, es), tar.FormatPAX, false); ok {
		add("pax-longname", v20GzipMembers(r), v20WantRerooted(p52, base))
	}
	// (e) explicit directory entries vs implied parents
	if r, _, _, ok := v20BuildTar(v20ExplicitDirs(c, es), tar.FormatGNU, false); ok {
		add("explicit-dirs", v20GzipMembers(r), nil)
	}
	if im := v20ImpliedDirs(es); im != nil {
		if r, _, _, ok := v20BuildTar(im, tar.FormatGNU, false); ok {
			add("implied-dirs", v20GzipMembers(r), nil)
		}
	}
	return vs
}

func v20BuildZip(es []v20Ent, method uint16, descriptor bool) ([]byte, bool) {
	var buf bytes.Buffer
	zw := zip.NewWriter(&buf)
	for _, e := range es {
		fh := &zip.FileHeader{Name: e.name, Method: method}
		if e.dir {
			fh.Name = e.name + "/"
			fh.Method = zip.Store
			fh.SetMode(0o755 | os.ModeDir)
			if _, err := zw.CreateHeader(fh); err != nil {
				return nil, false
			}
			continue
		}
		fh.SetMode(0o644)
		if descriptor {
			w, err := zw.CreateHeader(fh) // streaming: sizes and CRC follow the data in a data descriptor
			if err != nil {
				return nil, false
			}
			w.Write(e.data)
			continue
		}
		comp := e.data
		if method == zip.Deflate {
			var cb bytes.Buffer
			fw, _ := flate.NewWriter(&cb, flate.BestSpeed)
			fw.Write(e.data)
			fw.Close()
			comp = cb.Bytes()
		}
		fh.CRC32 = crc32.ChecksumIEEE(e.data)
		fh.UncompressedSize64 = uint64(len(e.data))
		fh.CompressedSize64 = uint64(len(comp))
		fh.Flags &^= 0x8
		w, err := zw.CreateRaw(fh) // sizes and CRC in the local header, no data descriptor
		if err != nil {
			return nil, false
		}
		w.Write(comp)
	}
	if err := zw.Close(); err != nil {
		return nil, false
	}
	return buf.Bytes(), true
}

func v20ZipVariants(idx int, c *v20Case) []v20Variant {
	es := v20Ents(idx, c)
	var vs []v20Variant
	add := func(name string, es []v20Ent, method uint16, descriptor bool) {
		if b, ok := v20BuildZip(es, method, descriptor); ok {
			vs = append(vs, v20Variant{name, b, nil})
		}
	}
	add("stored", es, zip.Store, true)
	add("deflated", es, zip.Deflate, true)
	add("stored-no-descriptor", es, zip.Store, false)
	add("deflated-no-descriptor", es, zip.Deflate, false)
	add("explicit-dirs", v20ExplicitDirs(c, es), zip.Deflate, true)
	if im := v20ImpliedDirs(es); im != nil {
		add("implied-dirs", im, zip.Deflate, true)
	}
	return vs
}

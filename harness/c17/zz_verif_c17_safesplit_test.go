package safesplit

// Injected by /verif (C17). Replays PkgConfigSplit.tla cases into the real SplitPkgConfigFlags.

import (
	"encoding/json"
	"strings"
	"testing"
)

type vParts struct {
	Out   bool    `json:"out"`
	Parts [][]int `json:"parts"`
}

type vPSplitCase struct {
	Inp     []int  `json:"inp"`
	Doc     vParts `json:"doc"`
	Px      vParts `json:"px"`
	Ess     []int  `json:"ess"`
	Lenient bool   `json:"lenient"`
	Dashc   bool   `json:"dashc"`
}

type vPRTCase struct {
	Args [][]int `json:"args"`
	Q    []int   `json:"q"`
	Px   vParts  `json:"px"`
}

// what no splitting may lose or invent: everything but blanks and backslashes
func vEssential(parts []string) string {
	s := strings.Join(parts, "")
	return strings.NewReplacer(" ", "", "\t", "", "\\", "").Replace(s)
}

func TestVerifC17PkgSplit(t *testing.T) {
	vReplay(t, func(r *vReporter, line []byte) {
		var c vPSplitCase
		if err := json.Unmarshal(line, &c); err != nil {
			t.Fatal(err)
		}
		if c.Doc.Out {
			r.count("outside_domain")
		} else {
			if !vEq(vStrs(c.Doc.Parts), vStrs(c.Px.Parts)) {
				r.count("silent")
			}
			if len(c.Doc.Parts) > 0 {
				r.count("nontrivial")
			}
		}
		reported := false
		vInstances(c.Inp, vMultiLetters, func() {
			in := vStr(c.Inp)
			got := SplitPkgConfigFlags(in)
			r.count("real_calls")
			if c.Doc.Out {
				// outside the documented grammar: no part list is prescribed, but nothing may be lost or invented
				if vEssential(got) != vStr(c.Ess) && !reported {
					reported = true
					r.mismatch("altered-outside-domain", map[string]any{"input": in, "inp": c.Inp, "got": got, "essential": vStr(c.Ess)})
				}
				return
			}
			wantDoc, wantPx := vStrs(c.Doc.Parts), vStrs(c.Px.Parts)
			okDoc := vEq(got, wantDoc)
			okPx := !c.Px.Out && vEq(got, wantPx)
			if !vEq(wantDoc, wantPx) {
				if okDoc {
					r.count("silent_as_documented")
				} else if okPx {
					r.count("silent_as_posix")
				}
			}
			if !okDoc && !okPx && !reported {
				reported = true
				r.mismatch("split-parts", map[string]any{"input": in, "inp": c.Inp, "got": got, "want_doc": wantDoc, "want_posix": wantPx,
					"lenient": c.Lenient, "dashc": c.Dashc})
			}
		})
	})
}

func TestVerifC17PkgRoundTrip(t *testing.T) {
	vReplay(t, func(r *vReporter, line []byte) {
		var c vPRTCase
		if err := json.Unmarshal(line, &c); err != nil {
			t.Fatal(err)
		}
		if len(c.Args) > 0 {
			r.count("nontrivial")
		}
		reported := false
		vInstances(c.Q, vMultiLetters, func() {
			want := vStrs(c.Args)
			in := vStr(c.Q)
			got := SplitPkgConfigFlags(in)
			r.count("real_calls")
			if vEq(got, want) {
				return
			}
			if !c.Px.Out && vEq(got, vStrs(c.Px.Parts)) {
				r.count("roundtrip_only_posix_reading") // a backslash before a non-blank: documentation silent
				return
			}
			if !reported {
				reported = true
				r.mismatch("roundtrip", map[string]any{"input": in, "args": want, "got": got, "argtoks": c.Args})
			}
		})
	})
}

package env

// Injected by /verif (C17). Replays Expand.tla (mode "brace") into the real ExpandEnvWithDefault.
// Go randomises map iteration, so every case is run many times with both insertion orders and EVERY
// result has to be the one the law prescribes.

import (
	"encoding/json"
	"sort"
	"strings"
	"testing"
)

var vBraceChars = []string{"", "{", "}", "A", "B", "x", "u", "v"}

func vBraceStr(toks []int) string {
	var b strings.Builder
	for _, k := range toks {
		b.WriteString(vBraceChars[k])
	}
	return b.String()
}

type vBraceCase struct {
	T      []int   `json:"t"`
	A      []int   `json:"a"`
	B      []int   `json:"b"`
	D      []int   `json:"d"`
	Exp    []int   `json:"exp"`
	Seq    [][]int `json:"seq"`
	Braces bool    `json:"braces"`
	Nsegs  int     `json:"nsegs"`
}

func vAbsent(v []int) bool { return len(v) == 1 && v[0] == 0 }

const vBraceRuns = 32

func TestVerifC17Brace(t *testing.T) {
	vReplay(t, func(r *vReporter, line []byte) {
		var c vBraceCase
		if err := json.Unmarshal(line, &c); err != nil {
			t.Fatal(err)
		}
		tmpl, want, dflt := vBraceStr(c.T), vBraceStr(c.Exp), vBraceStr(c.D)
		seen := map[string]int{}
		for i := 0; i < vBraceRuns; i++ {
			m := map[string]string{}
			put := func(k string, v []int) {
				if !vAbsent(v) {
					m[k] = vBraceStr(v)
				}
			}
			if i%2 == 0 {
				put("A", c.A)
				put("B", c.B)
			} else {
				put("B", c.B)
				put("A", c.A)
			}
			var got string
			if dflt == "" && i%4 < 2 {
				got = ExpandEnvWithDefault(tmpl, m)
			} else {
				got = ExpandEnvWithDefault(tmpl, m, dflt)
			}
			seen[got]++
		}
		if want != tmpl {
			r.count("nontrivial")
		}
		if len(seen) > 1 {
			r.count("order_dependent")
		}
		if len(seen) == 1 && seen[want] > 0 {
			return
		}
		var got []string
		for g := range seen {
			got = append(got, g)
		}
		sort.Strings(got)
		model := []string{vBraceStr(c.Seq[0]), vBraceStr(c.Seq[1])}
		explained := true
		for _, g := range got {
			if g != model[0] && g != model[1] {
				explained = false
			}
		}
		val := func(v []int) any {
			if vAbsent(v) {
				return nil
			}
			return vBraceStr(v)
		}
		r.mismatch("expand-brace", map[string]any{"template": tmpl, "A": val(c.A), "B": val(c.B), "default": dflt, "want": want,
			"got_distinct": got, "got_counts": seen, "runs": vBraceRuns, "value_carries_brace": c.Braces,
			"layerB_key_by_key_AB_BA": model, "explained_by_layerB": explained})
	})
}

package PKGNAME

// Injected by /verif at check time (go test -overlay); not part of goplus/llgo.
// Shared plumbing of the C17 replays: reads TLC-generated cases (ndjson, VERIF_CASES), lets the
// package-specific test call the real function, and writes every disagreement to VERIF_OUT (ndjson).

import (
	"bufio"
	"encoding/json"
	"fmt"
	"os"
	"strings"
	"testing"
)

// characters of the TLA+ specs (1-based).  9 is the class "multi-byte letter", 10 the class "non-ASCII Unicode
// space": a replay sets them to each member in turn (vWithMulti / vWithSpace)
var vChars = []string{"", " ", "\t", "\"", "'", "\\", "-", "$", "a", "é", "\u00a0"}

// e-acute C3 A9, a-grave C3 A0, A-ring C3 85, ellipsis E2 80 A6: the encodings contain the bytes A0 and 85
var vMultiLetters = []string{"é", "à", "Å", "…"}

// inside quotes any rune is an ordinary character, the Unicode spaces included
var vMultiQuoted = []string{"é", "à", "Å", "…", "\u00a0", "\u0085"}

var vUniSpaces = []string{"\u00a0", "\u0085"}

func vHas(toks []int, k int) bool {
	for _, x := range toks {
		if x == k {
			return true
		}
	}
	return false
}

// vInstances calls fn once per member of the classes that occur in toks (once if none occurs)
func vInstances(toks []int, multi []string, fn func()) {
	ms, us := []string{vChars[9]}, []string{vChars[10]}
	if vHas(toks, 9) {
		ms = multi
	}
	if vHas(toks, 10) {
		us = vUniSpaces
	}
	for _, m := range ms {
		for _, u := range us {
			vChars[9], vChars[10] = m, u
			fn()
		}
	}
	vChars[9], vChars[10] = "é", "\u00a0"
}

func vStr(toks []int) string {
	var b strings.Builder
	for _, k := range toks {
		b.WriteString(vChars[k])
	}
	return b.String()
}

func vStrs(tt [][]int) []string {
	out := make([]string, len(tt))
	for i, t := range tt {
		out[i] = vStr(t)
	}
	return out
}

func vEq(a, b []string) bool {
	if len(a) != len(b) {
		return false
	}
	for i := range a {
		if a[i] != b[i] {
			return false
		}
	}
	return true
}

type vReporter struct {
	out   *bufio.Writer
	idx   int
	stats map[string]int
}

func (r *vReporter) mismatch(kind string, detail map[string]any) {
	detail["case"] = r.idx
	detail["kind"] = kind
	b, _ := json.Marshal(detail)
	r.out.Write(b)
	r.out.WriteByte('\n')
}

// case 0 is the driver's negative control and is not counted
func (r *vReporter) count(k string) {
	if r.idx > 0 {
		r.stats[k]++
	}
}

// vReplay feeds every line of VERIF_CASES to fn; a panic of the code under test is a mismatch of kind "panic"
func vReplay(t *testing.T, fn func(r *vReporter, line []byte)) {
	casesPath := os.Getenv("VERIF_CASES")
	if casesPath == "" {
		t.Skip("no VERIF_CASES")
	}
	outf, err := os.Create(os.Getenv("VERIF_OUT"))
	if err != nil {
		t.Fatal(err)
	}
	defer outf.Close()
	rep := &vReporter{out: bufio.NewWriterSize(outf, 1<<20), stats: map[string]int{}}
	f, err := os.Open(casesPath)
	if err != nil {
		t.Fatal(err)
	}
	defer f.Close()
	sc := bufio.NewScanner(f)
	sc.Buffer(make([]byte, 1<<20), 1<<24)
	n := 0
	for sc.Scan() {
		rep.idx = n
		func() {
			defer func() {
				if e := recover(); e != nil {
					rep.mismatch("panic", map[string]any{"detail": fmt.Sprint(e), "line": string(sc.Bytes())})
				}
			}()
			fn(rep, sc.Bytes())
		}()
		n++
	}
	rep.out.Flush()
	rep.stats["cases"] = n
	if sp := os.Getenv("VERIF_STATS"); sp != "" {
		b, _ := json.Marshal(rep.stats)
		os.WriteFile(sp, b, 0o644)
	}
	fmt.Printf("VERIF_DONE %d\n", n)
}

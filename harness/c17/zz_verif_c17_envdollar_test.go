package env

// Injected by /verif (C17). Replays Expand.tla (mode "dollar") into the real xtool/env.ExpandEnv /
// ExpandEnvToArgs.  `pkg-config` is a stand-in script on PATH whose outputs are the ones the spec states.

import (
	"encoding/json"
	"os"
	"path/filepath"
	"strings"
	"testing"
)

var vDollarChars = []string{"", "$", "{", "}", "A", "B", "-", " ", "l",
	"$(pkg-config --libs c1)", "$(pkg-config --libs c2)", "$(pkg-config --libs c3)", "/", "$(other)"}

func vDollarStr(toks []int) string {
	var b strings.Builder
	for _, k := range toks {
		b.WriteString(vDollarChars[k])
	}
	return b.String()
}

const vFakePkgConfig = `#!/bin/sh
case "$2" in
  c1) echo "-lA -lB" ;;
  c2) echo '-l$A/l' ;;
  *) exit 1 ;;
esac
`

type vDollarCase struct {
	T         []int   `json:"t"`
	A         []int   `json:"a"`
	B         []int   `json:"b"`
	Exp       []int   `json:"exp"`
	TwoPass   []int   `json:"twopass"`
	Args      [][]int `json:"args"`
	Cmd       bool    `json:"cmd"`
	Simple    bool    `json:"simple"`
	CmdDollar bool    `json:"cmddollar"`
}

func vAbsent(v []int) bool { return len(v) == 1 && v[0] == 0 }

func TestVerifC17Dollar(t *testing.T) {
	if os.Getenv("VERIF_CASES") == "" {
		t.Skip("no VERIF_CASES")
	}
	dir := t.TempDir()
	if err := os.WriteFile(filepath.Join(dir, "pkg-config"), []byte(vFakePkgConfig), 0o755); err != nil {
		t.Fatal(err)
	}
	os.Setenv("PATH", dir+string(os.PathListSeparator)+os.Getenv("PATH"))
	// the spec: only A and B may be set among the names made of A, B, l
	for _, kv := range os.Environ() {
		name := kv[:strings.IndexByte(kv, '=')]
		if name != "" && strings.Trim(name, "ABl") == "" {
			os.Unsetenv(name)
		}
	}
	setenv := func(k string, v []int) any {
		if vAbsent(v) {
			os.Unsetenv(k)
			return nil
		}
		os.Setenv(k, vDollarStr(v))
		return vDollarStr(v)
	}
	vReplay(t, func(r *vReporter, line []byte) {
		var c vDollarCase
		if err := json.Unmarshal(line, &c); err != nil {
			t.Fatal(err)
		}
		a, b := setenv("A", c.A), setenv("B", c.B)
		tmpl, want := vDollarStr(c.T), vDollarStr(c.Exp)
		if want != strings.TrimSpace(tmpl) {
			r.count("nontrivial")
		}
		wantArgs := make([]string, len(c.Args))
		for i, x := range c.Args {
			wantArgs[i] = vDollarStr(x)
		}
		compareArgs := c.Simple || !c.Cmd
		// A value that itself contains the text of a command ("$(pkg-config --libs c1)") is one symbol of the spec's
		// alphabet but several words for the flag splitter: how the expanded string is cut into arguments is then
		// PkgConfigSplit's question, only the expanded string is compared here.
		if c.Cmd && (strings.Contains(vDollarStr(c.A), "$(") || strings.Contains(vDollarStr(c.B), "$(")) {
			compareArgs = false
		}
		if !compareArgs {
			r.count("args_not_compared_flag_shape_belongs_to_PkgConfigSplit")
		}
		// one call per case where possible: every $(...) starts a process
		if compareArgs {
			gotArgs := ExpandEnvToArgs(tmpl)
			if vEq(gotArgs, wantArgs) {
				return
			}
			got := ExpandEnv(tmpl)
			kind := "dollar-args"
			if got != want {
				kind = "dollar-string"
			}
			r.mismatch(kind, map[string]any{"template": tmpl, "A": a, "B": b, "got": got, "want": want, "got_args": gotArgs, "want_args": wantArgs,
				"command_output_has_dollar": c.CmdDollar, "layerB_two_pass": vDollarStr(c.TwoPass), "explained_by_layerB": got == vDollarStr(c.TwoPass) && kind == "dollar-string"})
			return
		}
		got := ExpandEnv(tmpl)
		if got != want {
			r.mismatch("dollar-string", map[string]any{"template": tmpl, "A": a, "B": b, "got": got, "want": want,
				"command_output_has_dollar": c.CmdDollar, "layerB_two_pass": vDollarStr(c.TwoPass), "explained_by_layerB": got == vDollarStr(c.TwoPass)})
		}
	})
}

package buildtags

// Injected by /verif (C17). Replays TagExpr.tla cases into the real CheckTags / parseBuildTags.
// go/build/constraint is used ONLY to validate the specification (kind "spec-disagrees-with-reference").

import (
	"encoding/json"
	"go/build/constraint"
	"sort"
	"strings"
	"testing"
)

var vTagNames = []string{"", "vta", "vtb", "vtc"}

// characters of TagExpr.tla renderings
var vTagChars = []string{"", "vta", "vtb", "vtc", "!", ",", " ", "(", ")", " && ", " || ", "-tags", "=", "-v"}

func vTagStr(toks []int) string {
	var b strings.Builder
	for _, k := range toks {
		b.WriteString(vTagChars[k])
	}
	return b.String()
}

func vMaskTags(m int) []string {
	var out []string
	for t := 1; t <= 3; t++ {
		if m&(1<<(t-1)) != 0 {
			out = append(out, vTagNames[t])
		}
	}
	return out
}

// the two spellings and the two separators, varied with the case so that all are exercised
func vFlagsFor(m, variant int) []string {
	tags := vMaskTags(m)
	if len(tags) == 0 && variant%2 == 0 {
		return nil
	}
	sep := ","
	if variant%4 >= 2 {
		sep = " "
	}
	if variant%2 == 0 {
		return []string{"-tags", strings.Join(tags, sep)}
	}
	return []string{"-v", "-tags=" + strings.Join(tags, sep)}
}

func vRefEval(line string, m int) (bool, error) {
	x, err := constraint.Parse(line)
	if err != nil {
		return false, err
	}
	return x.Eval(func(tag string) bool {
		for _, t := range vMaskTags(m) {
			if t == tag {
				return true
			}
		}
		return false
	}), nil
}

type vLegacyCase struct {
	Text  []int  `json:"text"`
	Truth []bool `json:"truth"`
	Nopts int    `json:"nopts"`
	Neg   bool   `json:"neg"` // negative control of the driver: skip the validation against the reference
}

func TestVerifC17Legacy(t *testing.T) {
	vReplay(t, func(r *vReporter, line []byte) {
		var c vLegacyCase
		if err := json.Unmarshal(line, &c); err != nil {
			t.Fatal(err)
		}
		text := vTagStr(c.Text)
		varies := false
		for m := 0; m < 8; m++ {
			if c.Truth[m] != c.Truth[0] {
				varies = true
			}
			ref, err := vRefEval("// +build "+text, m)
			if !c.Neg && (err != nil || ref != c.Truth[m]) {
				r.mismatch("spec-disagrees-with-reference", map[string]any{"line": text, "mask": m, "spec": c.Truth[m], "reference": ref, "err": vErrStr(err)})
				continue
			}
			flags := vFlagsFor(m, r.idx+m)
			probe := map[string]bool{text: false, "vtz": false, "!vtz": false}
			CheckTags(flags, probe)
			if probe[text] != c.Truth[m] || probe["vtz"] || !probe["!vtz"] {
				r.mismatch("legacy-eval", map[string]any{"line": text, "flags": flags, "tags": vMaskTags(m), "got": probe[text], "want": c.Truth[m],
					"sanity_vtz": probe["vtz"], "sanity_not_vtz": probe["!vtz"]})
			}
		}
		if varies {
			r.count("nontrivial")
		}
	})
}

func vErrStr(err error) string {
	if err == nil {
		return ""
	}
	return err.Error()
}

type vGoBuildCase struct {
	Min   []int  `json:"min"`
	Full  []int  `json:"full"`
	Truth []bool `json:"truth"`
}

// validation of the specification only: /repo delegates //go:build lines to go/build
func TestVerifC17GoBuild(t *testing.T) {
	vReplay(t, func(r *vReporter, line []byte) {
		var c vGoBuildCase
		if err := json.Unmarshal(line, &c); err != nil {
			t.Fatal(err)
		}
		for _, text := range []string{vTagStr(c.Min), vTagStr(c.Full)} {
			for m := 0; m < 8; m++ {
				ref, err := vRefEval("//go:build "+text, m)
				if err != nil || ref != c.Truth[m] {
					r.mismatch("spec-disagrees-with-reference", map[string]any{"line": text, "mask": m, "spec": c.Truth[m], "reference": ref, "err": vErrStr(err)})
				}
			}
		}
		r.count("nontrivial")
	})
}

type vFlagElem struct {
	K string `json:"k"`
	V []int  `json:"v"`
}

type vTagsFlagCase struct {
	Flags  []vFlagElem `json:"flags"`
	Union  [][]int     `json:"union"`
	Last   [][]int     `json:"last"`
	Single bool        `json:"single"`
}

func vSet(ss []string) []string {
	m := map[string]bool{}
	for _, s := range ss {
		m[s] = true
	}
	out := make([]string, 0, len(m))
	for s := range m {
		out = append(out, s)
	}
	sort.Strings(out)
	return out
}

func TestVerifC17TagsFlag(t *testing.T) {
	vReplay(t, func(r *vReporter, line []byte) {
		var c vTagsFlagCase
		if err := json.Unmarshal(line, &c); err != nil {
			t.Fatal(err)
		}
		var flags []string
		for _, e := range c.Flags {
			switch e.K {
			case "T":
				flags = append(flags, "-tags")
			case "E":
				flags = append(flags, "-tags="+vTagStr(e.V))
			case "V":
				flags = append(flags, vTagStr(e.V))
			case "O":
				flags = append(flags, "-v")
			}
		}
		var want, last []string
		for _, u := range c.Union {
			want = append(want, vTagStr(u))
		}
		for _, u := range c.Last {
			last = append(last, vTagStr(u))
		}
		want, last = vSet(want), vSet(last)
		got := parseBuildTags(flags)
		if len(want) > 0 {
			r.count("nontrivial")
		}
		if !c.Single && !vEq(want, last) {
			r.count("several_tags_flags_go_tool_would_keep_last_only")
		}
		if len(vSet(got)) != len(got) {
			r.mismatch("tagsflag-duplicates", map[string]any{"flags": flags, "got": got})
		}
		if !vEq(vSet(got), want) {
			r.mismatch("tagsflag-set", map[string]any{"flags": flags, "got": got, "want": want, "single": c.Single})
			return
		}
		// end to end: the tags reach the evaluation
		probe := map[string]bool{"vta": false, "vtb": false}
		CheckTags(flags, probe)
		for _, tag := range []string{"vta", "vtb"} {
			in := false
			for _, w := range want {
				if w == tag {
					in = true
				}
			}
			if probe[tag] != in {
				r.mismatch("tagsflag-eval", map[string]any{"flags": flags, "tag": tag, "got": probe[tag], "want": in})
			}
		}
	})
}

package shellparse

// Injected by /verif (C17). Replays ShellSplit.tla cases into the real Parse.

import (
	"encoding/json"
	"fmt"
	"testing"
)

type vWords struct {
	Err   bool    `json:"err"`
	Words [][]int `json:"words"`
}

type vSplitCase struct {
	Inp []int  `json:"inp"`
	Doc vWords `json:"doc"`
	Px  vWords `json:"px"`
}

type vRTCase struct {
	Args [][]int `json:"args"`
	Qd   []int   `json:"qd"`
	Qs   []int   `json:"qs"`
}

func vAgree(got []string, err error, w vWords) bool {
	if w.Err {
		return err != nil
	}
	return err == nil && vEq(got, vStrs(w.Words))
}

func vErrStr(err error) string {
	if err == nil {
		return ""
	}
	return err.Error()
}

// every string: the words (or the error) must be the documented ones; where the documentation is silent
// (spec: doc != px) the POSIX reading is accepted as well
func TestVerifC17ShellSplit(t *testing.T) {
	vReplay(t, func(r *vReporter, line []byte) {
		var c vSplitCase
		if err := json.Unmarshal(line, &c); err != nil {
			t.Fatal(err)
		}
		silent := c.Doc.Err != c.Px.Err || !vEq(vStrs(c.Doc.Words), vStrs(c.Px.Words))
		if silent {
			r.count("silent")
		}
		if c.Doc.Err {
			r.count("malformed")
		} else if len(c.Doc.Words) > 0 {
			r.count("nontrivial")
		}
		reported := false
		vInstances(c.Inp, vMultiLetters, func() {
			in := vStr(c.Inp)
			got, err := Parse(in)
			r.count("real_calls")
			okDoc, okPx := vAgree(got, err, c.Doc), vAgree(got, err, c.Px)
			if silent {
				if okDoc {
					r.count("silent_as_documented")
				} else if okPx {
					r.count("silent_as_posix")
				}
			}
			if !okDoc && !okPx && !reported {
				reported = true
				kind := "split-words"
				if c.Doc.Err && c.Px.Err {
					kind = "malformed-accepted"
				} else if err != nil && !c.Doc.Err && !c.Px.Err {
					kind = "wellformed-rejected"
				}
				r.mismatch(kind, map[string]any{"input": in, "inp": c.Inp, "got": got, "got_quoted": fmt.Sprintf("%q", got), "goterr": vErrStr(err),
					"want_doc": vStrs(c.Doc.Words), "want_doc_err": c.Doc.Err, "want_posix": vStrs(c.Px.Words), "want_posix_err": c.Px.Err})
			}
		})
	})
}

// every argument list: Parse(Quote(args)) == args for both producers
func TestVerifC17ShellRoundTrip(t *testing.T) {
	vReplay(t, func(r *vReporter, line []byte) {
		var c vRTCase
		if err := json.Unmarshal(line, &c); err != nil {
			t.Fatal(err)
		}
		reported := false
		vInstances(c.Qd, vMultiQuoted, func() {
			want := vStrs(c.Args)
			for _, q := range []struct {
				name string
				toks []int
			}{{"dq", c.Qd}, {"sq", c.Qs}} {
				in := vStr(q.toks)
				got, err := Parse(in)
				r.count("real_calls")
				if (err != nil || !vEq(got, want)) && !reported {
					reported = true
					r.mismatch("roundtrip-"+q.name, map[string]any{"input": in, "args": want, "got": got, "goterr": vErrStr(err), "argtoks": c.Args})
				}
			}
		})
		want := c.Args
		if len(want) > 0 {
			r.count("nontrivial")
		}
	})
}

package abi

// Injected by /verif at check time; not part of goplus/llgo.
// Builds go/types values for TLC-generated type-term pairs and checks that the canonical descriptor
// name (Builder.TypeName) is shared exactly when the TLA+ identity relation says the types are identical.

import (
	"bufio"
	"encoding/json"
	"fmt"
	"go/token"
	"go/types"
	"os"
	"testing"
)

type vTerm struct {
	K        string   `json:"k"`
	N        any      `json:"n"`
	Pkg      string   `json:"pkg"`
	Name     string   `json:"name"`
	Scope    string   `json:"scope"`
	Targs    []vTerm  `json:"targs"`
	E        *vTerm   `json:"e"`
	Key      *vTerm   `json:"key"`
	Dir      string   `json:"dir"`
	Params   []vTerm  `json:"params"`
	Results  []vTerm  `json:"results"`
	Variadic bool     `json:"variadic"`
	Fields   []vField `json:"fields"`
	Methods  []vMeth  `json:"methods"`
}
type vField struct {
	Name string `json:"name"`
	Type vTerm  `json:"type"`
	Tag  string `json:"tag"`
	Emb  bool   `json:"emb"`
	Fpkg string `json:"fpkg"`
}
type vMeth struct {
	Name string `json:"name"`
	Mpkg string `json:"mpkg"`
	Sig  vTerm  `json:"sig"`
}
type vPair struct {
	T    vTerm `json:"t"`
	U    vTerm `json:"u"`
	Same bool  `json:"same"`
}

type vWorld struct {
	pkgs   map[string]*types.Package
	named  map[string]*types.Named // pkg.name.scope -> declared type
	scopes map[string]*types.Scope // pkg+scope -> scope
}

func newWorld() *vWorld {
	w := &vWorld{pkgs: map[string]*types.Package{}, named: map[string]*types.Named{}, scopes: map[string]*types.Scope{}}
	for _, p := range []string{"p1", "p2"} {
		w.pkgs[p] = types.NewPackage("example.com/"+p, p)
	}
	return w
}

// scope ".1.0" = child 0 of child 1 of the package scope
func (w *vWorld) scope(pkg, path string) *types.Scope {
	p := w.pkgs[pkg]
	if path == "" {
		return p.Scope()
	}
	key := pkg + path
	if s, ok := w.scopes[key]; ok {
		return s
	}
	// parent path
	last := 0
	for i := len(path) - 1; i >= 0; i-- {
		if path[i] == '.' {
			last = i
			break
		}
	}
	parent := w.scope(pkg, path[:last])
	idx := int(path[last+1] - '0')
	for parent.NumChildren() <= idx {
		types.NewScope(parent, token.NoPos, token.NoPos, "block")
	}
	s := parent.Child(idx)
	w.scopes[key] = s
	return s
}

func (w *vWorld) namedDecl(pkg, name, scope string, generic bool) *types.Named {
	key := pkg + "." + name + scope
	if n, ok := w.named[key]; ok {
		return n
	}
	p := w.pkgs[pkg]
	obj := types.NewTypeName(token.NoPos, p, name, nil)
	var under types.Type = types.NewStruct([]*types.Var{types.NewField(token.NoPos, p, "x", types.Typ[types.Int], false)}, nil)
	n := types.NewNamed(obj, under, nil)
	if generic {
		tp := types.NewTypeParam(types.NewTypeName(token.NoPos, p, "T", nil), types.Universe.Lookup("any").Type())
		n.SetTypeParams([]*types.TypeParam{tp})
	}
	w.scope(pkg, scope).Insert(obj)
	w.named[key] = n
	return n
}

func (w *vWorld) build(t *vTerm) types.Type {
	switch t.K {
	case "basic":
		name := t.N.(string)
		return types.Universe.Lookup(name).Type()
	case "named":
		if len(t.Targs) == 0 {
			return w.namedDecl(t.Pkg, t.Name, t.Scope, false)
		}
		g := w.namedDecl(t.Pkg, t.Name, t.Scope, true)
		args := make([]types.Type, len(t.Targs))
		for i := range t.Targs {
			args[i] = w.build(&t.Targs[i])
		}
		inst, err := types.Instantiate(types.NewContext(), g, args, false)
		if err != nil {
			panic(err)
		}
		return inst
	case "ptr":
		return types.NewPointer(w.build(t.E))
	case "slice":
		return types.NewSlice(w.build(t.E))
	case "array":
		return types.NewArray(w.build(t.E), int64(t.N.(float64)))
	case "map":
		return types.NewMap(w.build(t.Key), w.build(t.E))
	case "chan":
		d := types.SendRecv
		if t.Dir == "send" {
			d = types.SendOnly
		} else if t.Dir == "recv" {
			d = types.RecvOnly
		}
		return types.NewChan(d, w.build(t.E))
	case "func":
		return w.sig(t)
	case "struct":
		fs := make([]*types.Var, len(t.Fields))
		tags := make([]string, len(t.Fields))
		for i, f := range t.Fields {
			ft := w.build(&f.Type)
			name := f.Name
			if f.Emb {
				bt := ft
				if p, ok := bt.(*types.Pointer); ok {
					bt = p.Elem()
				}
				name = bt.(*types.Named).Obj().Name()
			}
			fs[i] = types.NewField(token.NoPos, w.pkgs[f.Fpkg], name, ft, f.Emb)
			tags[i] = f.Tag
		}
		return types.NewStruct(fs, tags)
	case "iface":
		ms := make([]*types.Func, len(t.Methods))
		for i, m := range t.Methods {
			ms[i] = types.NewFunc(token.NoPos, w.pkgs[m.Mpkg], m.Name, w.sig(&m.Sig))
		}
		it := types.NewInterfaceType(ms, nil)
		it.Complete()
		return it
	}
	panic("bad term " + t.K)
}

func (w *vWorld) sig(t *vTerm) *types.Signature {
	mk := func(ts []vTerm) *types.Tuple {
		vs := make([]*types.Var, len(ts))
		for i := range ts {
			vs[i] = types.NewParam(token.NoPos, nil, "", w.build(&ts[i]))
		}
		return types.NewTuple(vs...)
	}
	return types.NewSignatureType(nil, nil, nil, mk(t.Params), mk(t.Results), t.Variadic)
}

// TestVerifTypeIdentity: env VERIF_CASES (ndjson of pairs), VERIF_OUT (ndjson of disagreements)
func TestVerifTypeIdentity(t *testing.T) {
	path := os.Getenv("VERIF_CASES")
	if path == "" {
		t.Skip("no VERIF_CASES")
	}
	f, err := os.Open(path)
	if err != nil {
		t.Fatal(err)
	}
	defer f.Close()
	out, err := os.Create(os.Getenv("VERIF_OUT"))
	if err != nil {
		t.Fatal(err)
	}
	defer out.Close()
	w := bufio.NewWriter(out)
	defer w.Flush()
	sc := bufio.NewScanner(f)
	sc.Buffer(make([]byte, 1<<20), 1<<24)
	b := New(8, types.SizesFor("gc", "amd64"))
	n := 0
	for sc.Scan() {
		var p vPair
		if err := json.Unmarshal(sc.Bytes(), &p); err != nil {
			t.Fatal(err)
		}
		world := newWorld()
		tt := world.build(&p.T)
		uu := world.build(&p.U)
		nt, _ := b.TypeName(tt)
		nu, _ := b.TypeName(uu)
		ref := types.Identical(tt, uu)
		rec := map[string]any{"case": n, "name_t": nt, "name_u": nu, "same_name": nt == nu, "spec": p.Same, "gotypes": ref,
			"t": types.TypeString(tt, nil), "u": types.TypeString(uu, nil)}
		if ref != p.Same || (nt == nu) != p.Same {
			bs, _ := json.Marshal(rec)
			w.Write(bs)
			w.WriteByte('\n')
		}
		n++
	}
	fmt.Printf("VERIF_DONE pairs=%d\n", n)
}

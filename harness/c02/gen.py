"""C02 harness: catalogue of evaluator functions + generator of the evaluator program.

Every (operator, operand type(s)) is a SEPARATE //go:noinline function taking run-time operands ("rt"), plus variants
whose right ("kr") or left ("kl") operand is a constant in the source.  A constant the type checker would reject in
the operator itself (zero divisor, negative shift count) is written as a local `var k T = c`, which go/ssa lifts to the
very same constant operand.  Each function gets a uniform adapter  func(*[4]uint64) (uint64, uint64)  so the main
loop is table driven:  stdin line `id a b [c d]` (hex operands, bit patterns) -> `hex` | `hex hex` | `panic`;
`X id` sweeps a, b over 0..255 and prints 256 lines of 256 two-character results (`pp` = panic).
The catalogue is deterministic (independent of VERIF_SEED).
"""

TYPES = [  # name, Go type, width, signed
    ("i8", "int8", 8, True), ("i16", "int16", 16, True), ("i32", "int32", 32, True), ("i64", "int64", 64, True),
    ("int", "int", 64, True),
    ("u8", "uint8", 8, False), ("u16", "uint16", 16, False), ("u32", "uint32", 32, False), ("u64", "uint64", 64, False),
    ("uint", "uint", 64, False), ("uptr", "uintptr", 64, False),
    ("n16", "N16", 16, True),          # a defined type (type N16 int16): kind/signedness must come from the underlying type
]
TY = {t[0]: t for t in TYPES}
ARITH = [("add", "+"), ("sub", "-"), ("mul", "*"), ("quo", "/"), ("rem", "%"), ("and", "&"), ("or", "|"), ("xor", "^"),
         ("andnot", "&^")]
CMP = [("eq", "=="), ("ne", "!="), ("lt", "<"), ("le", "<="), ("gt", ">"), ("ge", ">=")]
SYM = dict(ARITH + CMP + [("shl", "<<"), ("shr", ">>")])
FLOATS = [("f32", "float32", 32), ("f64", "float64", 64)]
COMPLEX = [("c64", "complex64", "float32", 32), ("c128", "complex128", "float64", 64)]


def sval(p, w, s):
    """the value a w-bit pattern denotes"""
    return p - (1 << w) if s and p >> (w - 1) else p


def lit(p, t):
    return str(sval(p, TY[t][2], TY[t][3]))


def catalogue():
    fs = []

    def add(**kw):
        kw["id"] = len(fs)
        kw.setdefault("nres", 1)
        fs.append(kw)

    for tn, gt, w, s in TYPES:
        m = (1 << w) - 1
        top = 1 << (w - 1)
        # ---- run-time operands
        for op, sym in ARITH:
            add(kind="bin", op=op, t=tn, var="rt", name="%s_%s" % (op, tn),
                src="func %s_%s(a, b %s) %s { return a %s b }" % (op, tn, gt, gt, sym),
                call="uint64(%s_%s(%s(x[0]), %s(x[1])))" % (op, tn, gt, gt))
        for op, sym in CMP:
            add(kind="bin", op=op, t=tn, var="rt", name="%s_%s" % (op, tn), boolres=True,
                src="func %s_%s(a, b %s) bool { return a %s b }" % (op, tn, gt, sym),
                call="b2u(%s_%s(%s(x[0]), %s(x[1])))" % (op, tn, gt, gt))
        add(kind="un", op="neg", t=tn, var="rt", name="neg_%s" % tn,
            src="func neg_%s(a %s) %s { return -a }" % (tn, gt, gt), call="uint64(neg_%s(%s(x[0])))" % (tn, gt))
        add(kind="un", op="not", t=tn, var="rt", name="not_%s" % tn,
            src="func not_%s(a %s) %s { return ^a }" % (tn, gt, gt), call="uint64(not_%s(%s(x[0])))" % (tn, gt))
        for un, ugt, uw, us in TYPES:
            for op in ("shl", "shr"):
                nm = "%s_%s_%s" % (op, tn, un)
                add(kind="shift", op=op, t=tn, u=un, var="rt", name=nm,
                    src="func %s(a %s, c %s) %s { return a %s c }" % (nm, gt, ugt, gt, SYM[op]),
                    call="uint64(%s(%s(x[0]), %s(x[1])))" % (nm, gt, ugt))
            nm = "cv_%s_%s" % (tn, un)
            add(kind="conv", op="conv", t=tn, u=un, var="rt", name=nm,
                src="func %s(a %s) %s { return %s(a) }" % (nm, gt, ugt, ugt), call="uint64(%s(%s(x[0])))" % (nm, gt))
            # conversion of a constant operand (MinInt+1: truncation keeps the low 1, extension must replicate the sign)
            nm = "cv_%s_%s_kl" % (tn, un)
            add(kind="conv", op="conv", t=tn, u=un, var="kl", k=top + 1, name=nm,
                src="func %s() %s { var k %s = %s; return %s(k) }" % (nm, ugt, gt, lit(top + 1, tn), ugt), call="uint64(%s())" % nm)
        # ---- right operand a constant
        smax = top - 1 if s else m
        for op, sym in ARITH + CMP:
            if op in ("quo", "rem"):
                ks = [0, 1, 2, 3, 7, 10, smax, top] + ([m] if s else [])      # m = -1 for signed types
            else:
                ks = [1, smax]
            rt = "bool" if (op, sym) in CMP else gt
            for i, k in enumerate(ks):
                nm = "%s_%s_kr%d" % (op, tn, i)
                if k == 0 and op in ("quo", "rem"):
                    body = "var k %s = 0; return a %s k" % (gt, sym)
                else:
                    body = "return a %s %s" % (sym, lit(k, tn))
                call = "%s(%s(x[0]))" % (nm, gt)
                add(kind="bin", op=op, t=tn, var="kr", k=k, name=nm, boolres=rt == "bool",
                    src="func %s(a %s) %s { %s }" % (nm, gt, rt, body),
                    call=("b2u(%s)" if rt == "bool" else "uint64(%s)") % call)
        # ---- left operand a constant ( MinInt / b, -1 % b, k << c ... )
        for op in ("quo", "rem"):
            for i, k in enumerate([top, 1, m]):
                nm = "%s_%s_kl%d" % (op, tn, i)
                add(kind="bin", op=op, t=tn, var="kl", k=k, name=nm,
                    src="func %s(b %s) %s { return %s %s b }" % (nm, gt, gt, lit(k, tn), SYM[op]),
                    call="uint64(%s(%s(x[1])))" % (nm, gt))
        # ---- shifts by a constant count: untyped literal (typed uint by go/types) and typed local constants
        litcounts = [0, 1, w - 1, w, w + 1, 63, 64, 65, 255, 256, 65536, 1 << 32, 1 << 63, (1 << 64) - 1]
        typed = [("i8", 255), ("i8", 128), ("i8", 127), ("u8", 200), ("u16", 256), ("i16", 0x8000), ("i32", 0xffffffff),
                 ("u32", 1 << 31), ("i64", 1 << 63), ("i64", 1 << 62), ("int", (1 << 64) - 1), ("u64", 1 << 32), ("uptr", 64),
                 ("n16", 0xffff), ("n16", 16)]
        for op in ("shl", "shr"):
            seen = set()
            for k in litcounts:
                if k in seen:
                    continue
                seen.add(k)
                nm = "%s_%s_kc%d" % (op, tn, len(seen))
                add(kind="shift", op=op, t=tn, u="uint", var="kr", k=k, name=nm,
                    src="func %s(a %s) %s { return a %s %d }" % (nm, gt, gt, SYM[op], k),
                    call="uint64(%s(%s(x[0])))" % (nm, gt))
            for i, (un, k) in enumerate(typed):
                nm = "%s_%s_kt%d" % (op, tn, i)
                add(kind="shift", op=op, t=tn, u=un, var="kr", k=k, name=nm,
                    src="func %s(a %s) %s { var c %s = %s; return a %s c }" % (nm, gt, gt, TY[un][1], lit(k, un), SYM[op]),
                    call="uint64(%s(%s(x[0])))" % (nm, gt))
            for i, k in enumerate([1, m, top]):
                for un in ("uint", "int", "u8"):
                    nm = "%s_%s_kl%d_%s" % (op, tn, i, un)
                    add(kind="shift", op=op, t=tn, u=un, var="kl", k=k, name=nm,
                        src="func %s(c %s) %s { var k %s = %s; return k %s c }" % (nm, TY[un][1], gt, gt, lit(k, tn), SYM[op]),
                        call="uint64(%s(%s(x[1])))" % (nm, TY[un][1]))
    add(kind="lnot", op="lnot", t="bool", var="rt", name="lnot_bool", boolres=True,
        src="func lnot_bool(a bool) bool { return !a }", call="b2u(lnot_bool(x[0] != 0))")

    # ------------------------------------------------------------------ floats and complex
    for fn, fgt, fw in FLOATS:
        fb = "fb%d" % fw       # bits -> float
        bf = "bf%d" % fw       # float -> bits
        for op, sym in [("add", "+"), ("sub", "-"), ("mul", "*"), ("quo", "/")]:
            nm = "%s_%s" % (op, fn)
            add(kind="fbin", op=op, t=fn, var="rt", name=nm,
                src="func %s(a, b %s) %s { return a %s b }" % (nm, fgt, fgt, sym),
                call="%s(%s(%s(x[0]), %s(x[1])))" % (bf, nm, fb, fb))
        for op, sym in CMP:
            nm = "%s_%s" % (op, fn)
            add(kind="fcmp", op=op, t=fn, var="rt", name=nm, boolres=True,
                src="func %s(a, b %s) bool { return a %s b }" % (nm, fgt, sym),
                call="b2u(%s(%s(x[0]), %s(x[1])))" % (nm, fb, fb))
        add(kind="fun", op="neg", t=fn, var="rt", name="neg_%s" % fn,
            src="func neg_%s(a %s) %s { return -a }" % (fn, fgt, fgt), call="%s(neg_%s(%s(x[0])))" % (bf, fn, fb))
        for fn2, fgt2, fw2 in FLOATS:
            nm = "cv_%s_%s" % (fn, fn2)
            add(kind="fconv", op="conv", t=fn, u=fn2, var="rt", name=nm,
                src="func %s(a %s) %s { return %s(a) }" % (nm, fgt, fgt2, fgt2),
                call="bf%d(%s(%s(x[0])))" % (fw2, nm, fb))
        for tn, gt, w, s in TYPES:
            nm = "cv_%s_%s" % (fn, tn)
            add(kind="f2i", op="conv", t=fn, u=tn, var="rt", name=nm,
                src="func %s(a %s) %s { return %s(a) }" % (nm, fgt, gt, gt), call="uint64(%s(%s(x[0])))" % (nm, fb))
            nm = "cv_%s_%s" % (tn, fn)
            add(kind="i2f", op="conv", t=tn, u=fn, var="rt", name=nm,
                src="func %s(a %s) %s { return %s(a) }" % (nm, gt, fgt, fgt), call="%s(%s(%s(x[0])))" % (bf, nm, gt))
    for cn, cgt, fgt, fw in COMPLEX:
        fb = "fb%d" % fw
        bf = "bf%d" % fw
        mk = "complex(%s(x[0]), %s(x[1]))" % (fb, fb)
        mk2 = "complex(%s(x[2]), %s(x[3]))" % (fb, fb)
        for op, sym in [("add", "+"), ("sub", "-"), ("mul", "*"), ("quo", "/")]:
            nm = "%s_%s" % (op, cn)
            add(kind="cbin", op=op, t=cn, var="rt", name=nm, nres=2,
                src="func %s(a, b %s) %s { return a %s b }" % (nm, cgt, cgt, sym),
                call="cparts%d(%s(%s, %s))" % (fw, nm, mk, mk2))
        for op, sym in CMP[:2]:
            nm = "%s_%s" % (op, cn)
            add(kind="ccmp", op=op, t=cn, var="rt", name=nm, boolres=True,
                src="func %s(a, b %s) bool { return a %s b }" % (nm, cgt, sym),
                call="b2u(%s(%s, %s))" % (nm, mk, mk2))
        add(kind="cun", op="neg", t=cn, var="rt", name="neg_%s" % cn, nres=2,
            src="func neg_%s(a %s) %s { return -a }" % (cn, cgt, cgt), call="cparts%d(neg_%s(%s))" % (fw, cn, mk))
        for cn2, cgt2, fgt2, fw2 in COMPLEX:
            nm = "cv_%s_%s" % (cn, cn2)
            add(kind="cconv", op="conv", t=cn, u=cn2, var="rt", name=nm, nres=2,
                src="func %s(a %s) %s { return %s(a) }" % (nm, cgt, cgt2, cgt2),
                call="cparts%d(%s(%s))" % (fw2, nm, mk))
        # real / imag / complex builtins are the constructors the adapters rely on; exercised implicitly
    return fs


PRELUDE = r'''// Code generated by /verif/harness/c02/gen.py. DO NOT EDIT.
package main

import (
	"unsafe"

	"c02eval/cio"
)

type N16 int16

type fn = func(x *[4]uint64) (uint64, uint64)

func b2u(b bool) uint64 {
	if b {
		return 1
	}
	return 0
}

func fb64(u uint64) float64 { return *(*float64)(unsafe.Pointer(&u)) }
func bf64(f float64) uint64 { return *(*uint64)(unsafe.Pointer(&f)) }
func fb32(u uint64) float32 { v := uint32(u); return *(*float32)(unsafe.Pointer(&v)) }
func bf32(f float32) uint64 { return uint64(*(*uint32)(unsafe.Pointer(&f))) }
func cparts64(c complex128) (uint64, uint64) { return bf64(real(c)), bf64(imag(c)) }
func cparts32(c complex64) (uint64, uint64)  { return bf32(real(c)), bf32(imag(c)) }

func one(r uint64) (uint64, uint64) { return r, 0 }

//go:noinline
func call(f fn, x *[4]uint64) (r1, r2 uint64, p bool) {
	defer func() {
		if e := recover(); e != nil {
			p = true
		}
	}()
	r1, r2 = f(x)
	return
}

var out []byte
var lineFlush bool

const hexd = "0123456789abcdef"

func putHex(v uint64) {
	var tmp [16]byte
	n := 0
	for {
		tmp[n] = hexd[v&15]
		n++
		v >>= 4
		if v == 0 {
			break
		}
	}
	for n > 0 {
		n--
		out = append(out, tmp[n])
	}
}

func flush() {
	if len(out) > 0 {
		print(string(out))
		out = out[:0]
	}
}

func endLine() {
	out = append(out, '\n')
	if lineFlush || len(out) > 3500 {
		flush()
	}
}

func hexval(c byte) (uint64, bool) {
	switch {
	case c >= '0' && c <= '9':
		return uint64(c - '0'), true
	case c >= 'a' && c <= 'f':
		return uint64(c-'a') + 10, true
	}
	return 0, false
}

// fields of a line: tokens separated by single spaces
func parse(line []byte) (cmd byte, id int, x [4]uint64, ok bool) {
	i := 0
	if len(line) > 0 && (line[0] == 'X' || line[0] == 'M') {
		cmd = line[0]
		i = 2
	}
	for i < len(line) && line[i] >= '0' && line[i] <= '9' {
		id = id*10 + int(line[i]-'0')
		i++
		ok = true
	}
	for k := 0; k < 4 && i < len(line) && line[i] == ' '; k++ {
		i++
		var v uint64
		for i < len(line) {
			d, isd := hexval(line[i])
			if !isd {
				break
			}
			v = v<<4 | d
			i++
		}
		x[k] = v
	}
	return
}

func sweep(id int) {
	f := tab[id]
	for a := uint64(0); a < 256; a++ {
		for b := uint64(0); b < 256; b++ {
			x := [4]uint64{a, b, 0, 0}
			r, _, p := call(f, &x)
			if p {
				out = append(out, 'p', 'p')
			} else {
				out = append(out, hexd[(r>>4)&15], hexd[r&15])
			}
		}
		out = append(out, '\n')
		flush()
	}
}

var inbuf [1 << 16]byte
var inlo, inhi int

// readLine returns the next line of stdin without its newline; more=false once stdin is exhausted
func readLine(dst []byte) (line []byte, more bool) {
	for {
		for i := inlo; i < inhi; i++ {
			if inbuf[i] == '\n' {
				dst = append(dst, inbuf[inlo:i]...)
				inlo = i + 1
				return dst, true
			}
		}
		dst = append(dst, inbuf[inlo:inhi]...)
		inlo, inhi = 0, 0
		n := cio.Cread(0, unsafe.Pointer(&inbuf[0]), uintptr(len(inbuf)))
		if n <= 0 {
			return dst, false
		}
		inhi = n
	}
}

func main() {
	var lbuf []byte
	for {
		line, more := readLine(lbuf[:0])
		lbuf = line
		if len(line) > 0 {
			cmd, id, x, ok := parse(line)
			switch {
			case !ok || id < 0 || id >= len(tab):
				out = append(out, "bad"...)
				endLine()
			case cmd == 'M':
				lineFlush = id != 0
			case cmd == 'X':
				flush()
				sweep(id)
			default:
				r1, r2, p := call(tab[id], &x)
				if p {
					out = append(out, "panic"...)
				} else {
					putHex(r1)
					if nres[id] == 2 {
						out = append(out, ' ')
						putHex(r2)
					}
				}
				endLine()
			}
		}
		if !more {
			break
		}
	}
	flush()
	println("END")
}
'''


CIO_LLGO = '''//go:build llgo

// stdin through libc read(2): importing os/bufio/syscall multiplies llgo's build time
package cio

import "unsafe"

const LLGoPackage = "decl"

//go:linkname Cread C.read
func Cread(fd int32, buf unsafe.Pointer, n uintptr) int
'''

CIO_GO = '''//go:build !llgo

package cio

import (
	"syscall"
	"unsafe"
)

func Cread(fd int32, buf unsafe.Pointer, n uintptr) int {
	r, err := syscall.Read(int(fd), unsafe.Slice((*byte)(buf), n))
	if err != nil {
		return -1
	}
	return r
}
'''


def render(fs):
    """returns {filename: source}"""
    files = {}
    main = [PRELUDE, "var tab [%d]fn\nvar nres [%d]uint8\n" % (len(fs), len(fs))]
    chunk = 250
    for c0 in range(0, len(fs), chunk):
        part = fs[c0:c0 + chunk]
        src = ["// Code generated by /verif/harness/c02/gen.py. DO NOT EDIT.\npackage main\n"]
        ini = ["func init() {"]
        for f in part:
            src.append("//go:noinline\n" + f["src"] + "\n")
            if f["nres"] == 2:
                src.append("func w%d(x *[4]uint64) (uint64, uint64) { return %s }\n" % (f["id"], f["call"]))
            else:
                src.append("func w%d(x *[4]uint64) (uint64, uint64) { return one(%s) }\n" % (f["id"], f["call"]))
            ini.append("\ttab[%d] = w%d; nres[%d] = %d" % (f["id"], f["id"], f["id"], f["nres"]))
        ini.append("}\n")
        files["ops%02d.go" % (c0 // chunk)] = "\n".join(src) + "\n" + "\n".join(ini)
    files["main.go"] = "".join(main)
    files["cio/cio_llgo.go"] = CIO_LLGO
    files["cio/cio_go.go"] = CIO_GO
    files["go.mod"] = "module c02eval\n\ngo 1.24\n"
    return files


if __name__ == "__main__":
    import os
    import sys
    d = sys.argv[1]
    os.makedirs(d, exist_ok=True)
    fs = catalogue()
    for name, content in render(fs).items():
        os.makedirs(os.path.dirname(os.path.join(d, name)), exist_ok=True)
        open(os.path.join(d, name), "w").write(content)
    print(len(fs), "functions")

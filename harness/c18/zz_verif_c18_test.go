package targets

// Injected by /verif at check time (go test -overlay); not part of goplus/llgo.
// Replays TLC-generated inheritance forests (and the shipped targets) into the real Loader
// and compares every resolved configuration with the one the TLA+ law assigns.

import (
	"bufio"
	"encoding/binary"
	"encoding/json"
	"fmt"
	"os"
	"path/filepath"
	"reflect"
	"runtime/debug"
	"sort"
	"strconv"
	"testing"
	"time"
)

var vScalars = []string{"llvm-target", "cpu", "features", "goos", "goarch", "libc", "rtlib", "linker",
	"linkerscript", "code-model", "target-abi", "relocation-model", "binary-format", "uf2-family-id",
	"flash-method", "flash-command", "flash-1200-bps-reset", "serial", "msd-firmware-name", "emulator",
	"openocd-interface", "openocd-transport", "openocd-target"}
var vLists = []string{"build-tags", "cflags", "ldflags", "extra-files", "serial-port", "msd-volume-name", "gdb"}
var vBools = []string{"rp2040-boot-patch"}

type vNode struct {
	Inh []int `json:"inh"`
	P   int   `json:"p"`
}
type vExp struct {
	Err bool     `json:"err"`
	S   string   `json:"s"`
	L   []string `json:"l"`
	B   bool     `json:"b"`
}
type vCase struct {
	Nodes  []vNode `json:"nodes"`
	Expect []vExp  `json:"expect"`
}

func vName(n int) string { return "v" + strconv.Itoa(n) }

// materialise writes one JSON file per description; every concrete field follows the abstract pattern
func vMaterialise(dir string, c *vCase, order []int) error {
	for _, idx := range order {
		nd := c.Nodes[idx]
		n := idx + 1
		m := map[string]any{}
		if len(nd.Inh) > 0 {
			inh := make([]string, len(nd.Inh))
			for i, p := range nd.Inh {
				inh[i] = vName(p) // v0 never exists
			}
			m["inherits"] = inh
		}
		if nd.P == 1 || nd.P == 3 {
			for _, f := range vScalars {
				m[f] = f + "@" + vName(n)
			}
		}
		if nd.P == 2 || nd.P == 3 {
			for _, f := range vLists {
				if n%2 == 0 {
					m[f] = []string{f + "@" + vName(n) + ".1", f + "@" + vName(n) + ".2", f + "@" + vName(n) + ".3"}
				} else {
					m[f] = []string{f + "@" + vName(n) + ".1"}
				}
			}
		}
		if nd.P == 3 {
			for _, f := range vBools {
				m[f] = true
			}
		}
		b, _ := json.Marshal(m)
		if err := os.WriteFile(filepath.Join(dir, vName(n)+".json"), b, 0o644); err != nil {
			return err
		}
	}
	return nil
}

// expected concrete config (as the generic map the real Config marshals to)
func vExpected(e vExp) map[string]any {
	m := map[string]any{}
	for _, f := range vScalars {
		if e.S == "" {
			m[f] = ""
		} else {
			m[f] = f + "@" + e.S
		}
	}
	for _, f := range vLists {
		l := []any{}
		for _, x := range e.L {
			l = append(l, f+"@"+x)
		}
		m[f] = l
	}
	for _, f := range vBools {
		m[f] = e.B
	}
	return m
}

func vNormalise(cfg *Config) map[string]any {
	b, _ := json.Marshal(cfg)
	m := map[string]any{}
	json.Unmarshal(b, &m)
	for _, f := range vLists {
		if m[f] == nil {
			m[f] = []any{}
		}
	}
	return m
}

type vLoadResult struct {
	cfg *Config
	err error
}

func vLoad(l *Loader, name string) (res vLoadResult, hung bool) {
	ch := make(chan vLoadResult, 1)
	go func() {
		c, err := l.Load(name)
		ch <- vLoadResult{c, err}
	}()
	select {
	case r := <-ch:
		return r, false
	case <-time.After(10 * time.Second):
		return vLoadResult{}, true
	}
}

func vDiff(got, want map[string]any) string {
	keys := map[string]bool{}
	for k := range got {
		keys[k] = true
	}
	for k := range want {
		keys[k] = true
	}
	var ks []string
	for k := range keys {
		ks = append(ks, k)
	}
	sort.Strings(ks)
	out := ""
	for _, k := range ks {
		if !reflect.DeepEqual(got[k], want[k]) {
			out += fmt.Sprintf("%s: got %v want %v; ", k, got[k], want[k])
			if len(out) > 400 {
				break
			}
		}
	}
	return out
}

// TestVerifForests: env VERIF_CASES (ndjson), VERIF_FROM (first case index), VERIF_PROGRESS (file receiving
// the index of the case being executed), VERIF_OUT (ndjson of mismatches)
func TestVerifForests(t *testing.T) {
	casesPath := os.Getenv("VERIF_CASES")
	if casesPath == "" {
		t.Skip("no VERIF_CASES")
	}
	debug.SetMaxStack(32 << 20) // make runaway recursion die quickly; observed by the parent as a crash
	from, _ := strconv.Atoi(os.Getenv("VERIF_FROM"))
	to, _ := strconv.Atoi(os.Getenv("VERIF_TO"))
	prog, err := os.OpenFile(os.Getenv("VERIF_PROGRESS"), os.O_CREATE|os.O_WRONLY, 0o644)
	if err != nil {
		t.Fatal(err)
	}
	outf, err := os.OpenFile(os.Getenv("VERIF_OUT"), os.O_CREATE|os.O_WRONLY|os.O_APPEND, 0o644)
	if err != nil {
		t.Fatal(err)
	}
	defer outf.Close()
	out := bufio.NewWriter(outf)
	defer out.Flush()
	f, err := os.Open(casesPath)
	if err != nil {
		t.Fatal(err)
	}
	defer f.Close()
	sc := bufio.NewScanner(f)
	sc.Buffer(make([]byte, 1<<20), 1<<24)
	root := t.TempDir()
	idx := -1
	var buf [8]byte
	report := func(i int, kind, node, detail string, c *vCase) {
		b, _ := json.Marshal(map[string]any{"case": i, "kind": kind, "node": node, "detail": detail, "forest": c})
		out.Write(b)
		out.WriteByte('\n')
		out.Flush()
	}
	nchecked := 0
	for sc.Scan() {
		idx++
		if idx < from {
			continue
		}
		if to > 0 && idx >= to {
			idx--
			break
		}
		binary.LittleEndian.PutUint64(buf[:], uint64(idx))
		prog.WriteAt(buf[:], 0)
		var c vCase
		if err := json.Unmarshal(sc.Bytes(), &c); err != nil {
			t.Fatalf("case %d: %v", idx, err)
		}
		dir := filepath.Join(root, "c")
		os.RemoveAll(dir)
		os.MkdirAll(dir, 0o755)
		n := len(c.Nodes)
		order := make([]int, n)
		for i := range order { // vary the order in which files are created
			order[i] = (i + idx) % n
		}
		if err := vMaterialise(dir, &c, order); err != nil {
			t.Fatal(err)
		}
		// (a) a fresh loader per node; (b) one shared loader asked for all nodes in a case-dependent order
		shared := NewLoader(dir)
		type kept struct {
			k   int
			cfg *Config
		}
		var retained []kept
		for pass := 0; pass < 2; pass++ {
			for j := 0; j < n; j++ {
				k := j
				if pass == 1 {
					k = (n - 1 - j + idx) % n
				}
				l := shared
				if pass == 0 {
					l = NewLoader(dir)
				}
				r, hung := vLoad(l, vName(k+1))
				if hung {
					report(idx, "hang", vName(k+1), "Load did not return within 10s", &c)
					out.Flush()
					os.Exit(3)
				}
				e := c.Expect[k]
				switch {
				case e.Err && r.err == nil:
					report(idx, "accepted-ill-founded", vName(k+1), "law says error, loader returned a config", &c)
				case !e.Err && r.err != nil:
					report(idx, "rejected-well-founded", vName(k+1), r.err.Error(), &c)
				case !e.Err:
					if r.cfg.Name != vName(k+1) {
						report(idx, "name", vName(k+1), "Name="+r.cfg.Name, &c)
					}
					if d := vDiff(vNormalise(r.cfg), vExpected(e)); d != "" {
						report(idx, fmt.Sprintf("mismatch-pass%d", pass), vName(k+1), d, &c)
					} else if pass == 1 {
						retained = append(retained, kept{k, r.cfg})
					}
				}
				nchecked++
			}
		}
		// a configuration that was correct when it was returned must stay correct while the same loader
		// resolves other targets (no aliasing of list settings through the loader's cache)
		for _, kp := range retained {
			if d := vDiff(vNormalise(kp.cfg), vExpected(c.Expect[kp.k])); d != "" {
				report(idx, "mutated-after-return", vName(kp.k+1), d, &c)
			}
		}
	}
	binary.LittleEndian.PutUint64(buf[:], ^uint64(0))
	prog.WriteAt(buf[:], 0)
	fmt.Printf("VERIF_DONE cases=%d loads=%d\n", idx+1-from, nchecked)
}

// TestVerifShipped: dump what the real loader resolves for every file of a targets directory
// env VERIF_TARGETS_DIR, VERIF_OUT (json: name -> config | {"error":..})
func TestVerifShipped(t *testing.T) {
	dir := os.Getenv("VERIF_TARGETS_DIR")
	if dir == "" {
		t.Skip("no VERIF_TARGETS_DIR")
	}
	l := NewLoader(dir)
	names, err := l.ListTargets()
	if err != nil {
		t.Fatal(err)
	}
	res := map[string]any{}
	for _, nme := range names {
		r, hung := vLoad(NewLoader(dir), nme)
		if hung {
			res[nme] = map[string]any{"hang": true}
			continue
		}
		if r.err != nil {
			res[nme] = map[string]any{"error": r.err.Error()}
			continue
		}
		m := vNormalise(r.cfg)
		m["@name"] = r.cfg.Name
		// the same through the shared loader (cache populated by earlier loads)
		r2, _ := vLoad(l, nme)
		if r2.err != nil || !reflect.DeepEqual(vNormalise(r2.cfg), vNormalise(r.cfg)) {
			m["@shared-differs"] = true
		}
		res[nme] = m
	}
	b, _ := json.Marshal(res)
	if err := os.WriteFile(os.Getenv("VERIF_OUT"), b, 0o644); err != nil {
		t.Fatal(err)
	}
	fmt.Printf("VERIF_DONE targets=%d\n", len(names))
}

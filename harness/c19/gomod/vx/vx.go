// Package vx is the Go side of the C19 value exchange: it reads Python objects back through the accessors of
// github.com/goplus/lib/py and renders them in the canonical text that pylib/vmod.py's enc() produces.
package vx

import (
	"unsafe"

	"c19prog/pyx"

	"github.com/goplus/lib/c"
	"github.com/goplus/lib/py"
)

const hexdigits = "0123456789abcdef"

func Utoa(u uint64) string {
	if u == 0 {
		return "0"
	}
	var buf [24]byte
	i := len(buf)
	for u > 0 {
		i--
		buf[i] = byte('0' + u%10)
		u /= 10
	}
	return string(buf[i:])
}

func Itoa(v int64) string {
	if v < 0 {
		return "-" + Utoa(uint64(-(v+1))+1)
	}
	return Utoa(uint64(v))
}

func HexBytes(p *c.Char, n int) string {
	if n <= 0 || p == nil {
		return ""
	}
	b := unsafe.Slice((*byte)(unsafe.Pointer(p)), n)
	out := make([]byte, 0, 2*n)
	for _, x := range b {
		out = append(out, hexdigits[x>>4], hexdigits[x&15])
	}
	return string(out)
}

func HexString(s string) string {
	out := make([]byte, 0, 2*len(s))
	for i := 0; i < len(s); i++ {
		out = append(out, hexdigits[s[i]>>4], hexdigits[s[i]&15])
	}
	return string(out)
}

func HexSlice(s []byte) string {
	out := make([]byte, 0, 2*len(s))
	for _, x := range s {
		out = append(out, hexdigits[x>>4], hexdigits[x&15])
	}
	return string(out)
}

func FloatText(f float64) string {
	if f != f {
		return "fnan"
	}
	return "f" + Utoa(*(*uint64)(unsafe.Pointer(&f)))
}

func TypeName(o *py.Object) string {
	t := o.Type()
	n := t.TypeName()
	return c.GoString(n.CStr())
}

// Str reads a Python str back as a Go string (all bytes, embedded NULs included).
func Str(o *py.Object) string {
	var n int
	p := pyx.AsUTF8AndSize(o, &n)
	if p == nil {
		pyx.ErrClear()
		return "<not-utf8>"
	}
	return string(unsafe.Slice((*byte)(unsafe.Pointer(p)), n))
}

// Enc renders any object by its dynamic Python type.
func Enc(o *py.Object) string {
	if o == nil {
		pyx.ErrClear()
		return "NULL"
	}
	switch TypeName(o) {
	case "bool":
		if o.IsTrue() != 0 {
			return "B1"
		}
		return "B0"
	case "int":
		v := o.LongLong()
		if v == -1 && pyx.ErrOccurred() != nil {
			pyx.ErrClear()
			u := o.UlongLong()
			if u == ^uint64(0) && pyx.ErrOccurred() != nil {
				pyx.ErrClear()
				return "i?"
			}
			return "i" + Utoa(uint64(u))
		}
		return "i" + Itoa(int64(v))
	case "float":
		return FloatText(o.Float64())
	case "str":
		return "s" + HexString(Str(o))
	case "bytes":
		return "y" + HexBytes(pyx.BytesAsString(o), pyx.BytesSize(o))
	case "bytearray":
		return "a" + HexBytes(pyx.ByteArrayAsString(o), pyx.ByteArraySize(o))
	case "list":
		s := "L["
		n := o.ListLen()
		for i := 0; i < n; i++ {
			if i > 0 {
				s += ","
			}
			s += Enc(o.ListItem(i))
		}
		return s + "]"
	case "tuple":
		s := "T["
		n := o.TupleLen()
		for i := 0; i < n; i++ {
			if i > 0 {
				s += ","
			}
			s += Enc(o.TupleItem(i))
		}
		return s + "]"
	case "NoneType":
		return "N"
	case "function", "builtin_function_or_method":
		// a function object: defining module and name (pylib/vmod.py's enc() additionally checks the identity)
		m := o.GetAttrString(c.Str("__module__"))
		n := o.GetAttrString(c.Str("__name__"))
		if m == nil || n == nil {
			pyx.ErrClear()
			return "?" + TypeName(o)
		}
		return "c" + HexString(Str(m)+"."+Str(n))
	}
	return "?" + TypeName(o)
}

// typed read-back: the accessor that belongs to the Go kind that was sent

func BackSigned(o *py.Object) string   { return "i" + Itoa(int64(o.LongLong())) }
func BackUnsigned(o *py.Object) string { return "i" + Utoa(uint64(o.UlongLong())) }
func BackLong(o *py.Object) string     { return "i" + Itoa(int64(o.Long())) }
func BackUlong(o *py.Object) string    { return "i" + Utoa(uint64(o.Ulong())) }
func BackUintptr(o *py.Object) string  { return "i" + Utoa(uint64(o.Uintptr())) }
func BackFloat(o *py.Object) string    { return FloatText(o.Float64()) }
func BackFloat32(o *py.Object) string  { return FloatText(float64(float32(o.Float64()))) }
func BackString(o *py.Object) string   { return "s" + HexString(Str(o)) }
func BackBytes(o *py.Object) string {
	return "a" + HexBytes(pyx.ByteArrayAsString(o), pyx.ByteArraySize(o))
}
func BackArray(o *py.Object) string { return "y" + HexBytes(pyx.BytesAsString(o), pyx.BytesSize(o)) }
func BackBool(o *py.Object) string {
	if o.IsTrue() != 0 {
		return "B1"
	}
	return "B0"
}

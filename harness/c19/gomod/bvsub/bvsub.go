// Package bvsub binds the dotted local module vpk.sub, which defines the same names as vmod with other values.
package bvsub

import (
	_ "unsafe"

	"github.com/goplus/lib/py"
)

const LLGoPackage = "py.vpk.sub"

//go:linkname Who py.who
func Who() *py.Object

//go:linkname Name py.name
var Name *py.Object

//go:linkname Tick py.tick
var Tick *py.Object

// Package pyx declares the few CPython C-API functions the C19 harness needs to READ objects back and that
// github.com/goplus/lib/py does not offer with a usable signature.
package pyx

import (
	_ "unsafe"

	"github.com/goplus/lib/c"
	"github.com/goplus/lib/py"
)

const LLGoPackage = "decl"

//go:linkname AsUTF8AndSize C.PyUnicode_AsUTF8AndSize
func AsUTF8AndSize(o *py.Object, size *int) *c.Char

//go:linkname BytesAsString C.PyBytes_AsString
func BytesAsString(o *py.Object) *c.Char

//go:linkname BytesSize C.PyBytes_Size
func BytesSize(o *py.Object) int

//go:linkname ByteArrayAsString C.PyByteArray_AsString
func ByteArrayAsString(o *py.Object) *c.Char

//go:linkname ByteArraySize C.PyByteArray_Size
func ByteArraySize(o *py.Object) int

//go:linkname ErrOccurred C.PyErr_Occurred
func ErrOccurred() *py.Object

//go:linkname ErrClear C.PyErr_Clear
func ErrClear()

//go:linkname Getenv C.getenv
func Getenv(name *c.Char) *c.Char

// Package ck is shared by the generated call-shape case packages of C19: case gating (C19_ONLY=<id> runs one case per
// process) and the argument objects (position i of every call carries object i; PyCallShapes.tla ArgSeq).
package ck

import (
	"github.com/goplus/lib/c"
	"github.com/goplus/lib/py"
)

var Only = -1

func Start(id int) bool {
	if Only >= 0 && id != Only {
		return false
	}
	println("G", id)
	return true
}

var seven int64 = 7
var minus2 int64 = -2
var letter = "a"
var half = 0.5

// Arg returns a fresh object for position i (0-based).
func Arg(i int) *py.Object {
	switch i {
	case 0:
		return py.LongLong(c.LongLong(seven))
	case 1:
		return py.FromGoString(letter)
	case 2:
		return py.Float(half)
	case 3:
		return py.LongLong(c.LongLong(minus2))
	}
	return nil
}

// Args returns the n objects of positions from.. as a slice whose length is only known at run time.
func Args(from, n int) []*py.Object {
	s := make([]*py.Object, 0, 4)
	for i := 0; i < n; i++ {
		s = append(s, Arg(from+i))
	}
	return s
}

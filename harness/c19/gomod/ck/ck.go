// Package ck is shared by the generated call-shape case packages of C19: case gating (C19_ONLY=<id> runs one case per
// process) and the argument objects (position i of every call carries object i; PyCallShapes.tla ArgSeq).
package ck

import (
	"c19prog/pyx"

	"github.com/goplus/lib/c"
	"github.com/goplus/lib/py"
)

// Only is read when this package is initialised: cases whose call is written in a package-level initialiser or an init
// function run before main.
var Only = only()

func only() int {
	if p := pyx.Getenv(c.Str("C19_ONLY")); p != nil {
		return int(c.Atoi(p))
	}
	return -1
}

// InitStart / InitDone bracket a call that is made while the packages are initialised (in every process, whatever
// C19_ONLY says): "S id" without its "E id" attributes a crash during initialisation to the case.
func InitStart(id int) bool {
	println("S", id)
	return Start(id)
}

func InitDone(id int) bool {
	println("E", id)
	return true
}

func Start(id int) bool {
	if Only >= 0 && id != Only {
		return false
	}
	println("G", id)
	return true
}

var seven int64 = 7
var minus2 int64 = -2
var letter = "a"
var half = 0.5

// Arg returns a fresh object for position i (0-based).
func Arg(i int) *py.Object {
	switch i {
	case 0:
		return py.LongLong(c.LongLong(seven))
	case 1:
		return py.FromGoString(letter)
	case 2:
		return py.Float(half)
	case 3:
		return py.LongLong(c.LongLong(minus2))
	}
	return nil
}

// Args returns the n objects of positions from.. as a slice whose length is only known at run time.
func Args(from, n int) []*py.Object {
	s := make([]*py.Object, 0, 4)
	for i := 0; i < n; i++ {
		s = append(s, Arg(from+i))
	}
	return s
}

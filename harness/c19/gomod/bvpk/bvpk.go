// Package bvpk binds the package module vpk (the parent of vpk.sub, which package bvsub binds): "alpha" sorts before
// "sub", "zeta" after it.
package bvpk

import (
	_ "unsafe"

	"github.com/goplus/lib/py"
)

const LLGoPackage = "py.vpk"

//go:linkname Alpha py.alpha
func Alpha() *py.Object

//go:linkname Zeta py.zeta
func Zeta() *py.Object

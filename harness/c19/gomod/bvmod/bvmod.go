// Package bvmod binds the local Python module vmod (harness/c19/pylib/vmod.py).
package bvmod

import (
	_ "unsafe"

	"github.com/goplus/lib/py"
)

const LLGoPackage = "py.vmod"

//go:linkname Echo py.echo
func Echo(x *py.Object) *py.Object

//go:linkname F0 py.f0
func F0() *py.Object

//go:linkname F1 py.f1
func F1(a *py.Object) *py.Object

//go:linkname F2 py.f2
func F2(a, b *py.Object) *py.Object

//go:linkname F3 py.f3
func F3(a, b, c *py.Object) *py.Object

//go:linkname F4 py.f4
func F4(a, b, c, d *py.Object) *py.Object

//go:linkname F5 py.f5
func F5(a, b, c, d, e *py.Object) *py.Object

//go:linkname F6 py.f6
func F6(a, b, c, d, e, f *py.Object) *py.Object

//go:linkname FV py.fv
func FV(__llgo_va_list ...any) *py.Object

//go:linkname Note py.note
func Note(tag *py.Object) *py.Object

//go:linkname Who py.who
func Who() *py.Object

//go:linkname Bump py.bump
func Bump() *py.Object

//go:linkname Count py.count
var Count *py.Object

//go:linkname Name py.name
var Name *py.Object

//go:linkname Tick py.tick
var Tick *py.Object

// Package bdual binds ONE attribute of the Python module vmod, the callable fv(*a), through four Go declarations that
// differ in the number of parameters (the way github.com/goplus/lib/py/math binds math.log as Log(x) and LogOf(x, base)).
package bdual

import (
	_ "unsafe"

	"github.com/goplus/lib/py"
)

const LLGoPackage = "py.vmod"

//go:linkname D0 py.fv
func D0() *py.Object

//go:linkname D1 py.fv
func D1(a *py.Object) *py.Object

//go:linkname D2 py.fv
func D2(a, b *py.Object) *py.Object

//go:linkname D3 py.fv
func D3(a, b, c *py.Object) *py.Object

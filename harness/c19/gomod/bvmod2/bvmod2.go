// Package bvmod2 is a second, independent binding of the same Python module vmod.
package bvmod2

import (
	_ "unsafe"

	"github.com/goplus/lib/py"
)

const LLGoPackage = "py.vmod"

//go:linkname Note py.note
func Note(tag *py.Object) *py.Object

//go:linkname Count py.count
var Count *py.Object

// Package bgv binds two callables of the Python module vmod through declarations with an ordinary Go variadic parameter
// (the way github.com/goplus/lib/py/math declares Hypot(coordinates ...*py.Object)).
package bgv

import (
	_ "unsafe"

	"github.com/goplus/lib/py"
)

const LLGoPackage = "py.vmod"

//go:linkname GV py.gv
func GV(rest ...*py.Object) *py.Object

//go:linkname GV1 py.gv1
func GV1(a *py.Object, rest ...*py.Object) *py.Object

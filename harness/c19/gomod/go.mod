module c19prog

go 1.24

require github.com/goplus/lib v0.3.1

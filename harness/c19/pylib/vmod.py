"""C19 test module (on PYTHONPATH of the llgo-compiled programs and of the python3 reference run).
Logs everything it receives to fd 2 with os.write so that the lines interleave exactly with Go's println."""
import os
import struct
import sys

count = getattr(sys, "_c19_vmod_execs", 0) + 1      # how often the module body ran in this interpreter
sys._c19_vmod_execs = count
name = "vmod"
tick = 0


def _w(s):
    os.write(2, (s + "\n").encode("ascii", "backslashreplace"))


def enc(x):
    """canonical text of a value; the Go side (package vx) produces the same text from what it reads back"""
    t = type(x)
    if t is bool:
        return "B1" if x else "B0"
    if t is int:
        return "i%d" % x
    if t is float:
        if x != x:
            return "fnan"
        return "f%d" % struct.unpack(">Q", struct.pack(">d", x))[0]
    if t is str:
        return "s" + x.encode("utf-8", "surrogatepass").hex()
    if t is bytes:
        return "y" + x.hex()
    if t is bytearray:
        return "a" + x.hex()
    if t is list:
        return "L[" + ",".join(enc(e) for e in x) + "]"
    if t is tuple:
        return "T[" + ",".join(enc(e) for e in x) + "]"
    if x is None:
        return "N"
    if callable(x) and isinstance(getattr(x, "__module__", None), str) and isinstance(getattr(x, "__name__", None), str):
        # a function object: named by defining module and name, but only if that name really resolves to this very object
        m = sys.modules.get(x.__module__)
        if m is not None and getattr(m, x.__name__, None) is x:
            return "c" + (x.__module__ + "." + x.__name__).encode("utf-8").hex()
    return "?" + t.__name__


def echo(x):
    _w("P " + enc(x))
    return x


def f0():
    _w("F f0 " + enc(()))
    return ()


def f1(a):
    _w("F f1 " + enc((a,)))
    return (a,)


def f2(a, b):
    _w("F f2 " + enc((a, b)))
    return (a, b)


def f3(a, b, c):
    _w("F f3 " + enc((a, b, c)))
    return (a, b, c)


def f4(a, b, c, d):
    _w("F f4 " + enc((a, b, c, d)))
    return (a, b, c, d)


def f5(a, b, c, d, e):
    _w("F f5 " + enc((a, b, c, d, e)))
    return (a, b, c, d, e)


def f6(a, b, c, d, e, f):
    _w("F f6 " + enc((a, b, c, d, e, f)))
    return (a, b, c, d, e, f)


def fv(*a):
    _w("F fv " + enc(a))
    return a


def gv(*a):
    _w("F gv " + enc(a))
    return a


def gv1(a, *rest):
    _w("F gv1 " + enc((a,) + rest))
    return (a,) + rest


def sv(a):
    _w("F sv " + enc((a,)))
    return (a,)


def note(tag):
    _w("V " + tag)
    return "vmod:" + tag


def who():
    return "v"


def bump():
    global tick
    tick += 1
    return tick


# C19 colookup cases: every case package resolves names of its own (who00 .. who15 are this very function), so that no
# other package of the same program has filled the shared binding before
for _i in range(16):
    globals()["who%02d" % _i] = who


# C19 call-site cases: sv00 .. sv15 are sv; each is called from one kind of place only
for _i in range(16):
    globals()["sv%02d" % _i] = sv

"""C19: report every import request that comes through the C API (PyImport_Import / PyImport_ImportModule call
builtins.__import__(name, globals, globals, ['__doc__'], 0) -- the fromlist is a *list*, which Python code never passes)."""
import builtins
import os

_TRACKED = ("math", "json", "vmod", "vpk.sub", "vpk")
_orig = builtins.__import__


def _c19_import(name, globals=None, locals=None, fromlist=(), level=0):
    if level == 0 and name in _TRACKED and type(fromlist) is list and fromlist == ["__doc__"]:
        os.write(2, ("I %s\n" % name).encode())
    return _orig(name, globals, locals, fromlist, level)


if os.environ.get("VERIF_C19_HOOK") == "1":
    builtins.__import__ = _c19_import

"""C19: report every import request that comes through the C API (PyImport_ImportModule -> PyImport_Import calls
builtins.__import__(name, globals, globals, from_list, 0) with from_list a *list* ([] in 3.11, ['__doc__'] before);
import statements executed by Python code pass None or a tuple)."""
import builtins
import os

_TRACKED = ("math", "json", "vmod", "vpk.sub", "vpk")
_orig = builtins.__import__


def _c19_import(name, globals=None, locals=None, fromlist=(), level=0):
    if level == 0 and name in _TRACKED and type(fromlist) is list:
        os.write(2, ("I %s\n" % name).encode())
    return _orig(name, globals, locals, fromlist, level)


if os.environ.get("VERIF_C19_HOOK") == "1":
    builtins.__import__ = _c19_import

name = "vpk"


# two functions of the package module itself whose names sort before and after "sub" (C19 colookup cases)
def alpha():
    return "pa"


def zeta():
    return "pz"


for _i in range(16):        # per-case names, see vmod.py
    globals()["alpha%02d" % _i] = alpha
    globals()["zeta%02d" % _i] = zeta

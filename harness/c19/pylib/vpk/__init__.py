name = "vpk"


# two functions of the package module itself whose names sort before and after "sub" (C19 colookup cases)
def alpha():
    return "pa"


def zeta():
    return "pz"

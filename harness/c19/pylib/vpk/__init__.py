name = "vpk"

"""C19: a dotted module with the same attribute names as vmod but other values"""
name = "sub"
tick = 7


def who():
    return "s"


for _i in range(16):        # per-case names, see vmod.py
    globals()["who%02d" % _i] = who

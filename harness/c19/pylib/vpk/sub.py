"""C19: a dotted module with the same attribute names as vmod but other values"""
name = "sub"
tick = 7


def who():
    return "s"

package build

// Injected into cmd/internal/build by /verif (go test -overlay); never part of /repo.
//
// `llgo build` parses -ldflags but never looks at it, so -X string overrides are reachable only through
// build.Config.GlobalRewrites.  This driver is runCmd of cmd/internal/build/build.go verbatim (same flag set,
// same flags.UpdateBuildConfig, same build.Do) plus that one field, so that C13 histories which change an
// -X value exercise the same fingerprint / cache code as the command does.

import (
	"encoding/json"
	"fmt"
	"os"
	"testing"

	"github.com/goplus/llgo/cmd/internal/flags"
	"github.com/goplus/llgo/internal/build"
)

type verifC13Spec struct {
	Dir  string                       `json:"dir"`
	Args []string                     `json:"args"` // arguments after "llgo build"
	X    map[string]map[string]string `json:"x"`    // package path -> variable -> value
}

func TestVerifC13Build(t *testing.T) {
	raw := os.Getenv("VERIF_C13_BUILD")
	if raw == "" {
		t.Skip("VERIF_C13_BUILD not set")
	}
	var spec verifC13Spec
	if err := json.Unmarshal([]byte(raw), &spec); err != nil {
		fmt.Fprintln(os.Stderr, "bad VERIF_C13_BUILD:", err)
		os.Exit(3)
	}
	if err := os.Chdir(spec.Dir); err != nil {
		fmt.Fprintln(os.Stderr, err)
		os.Exit(3)
	}
	if err := Cmd.Flag.Parse(spec.Args); err != nil {
		fmt.Fprintln(os.Stderr, err)
		os.Exit(3)
	}
	conf := build.NewDefaultConf(build.ModeBuild)
	if err := flags.UpdateBuildConfig(conf); err != nil {
		fmt.Fprintln(os.Stderr, err)
		os.Exit(1)
	}
	if len(spec.X) > 0 {
		conf.GlobalRewrites = make(map[string]build.Rewrites)
		for pkg, vars := range spec.X {
			r := make(build.Rewrites)
			for k, v := range vars {
				r[k] = v
			}
			conf.GlobalRewrites[pkg] = r
		}
	}
	if _, err := build.Do(Cmd.Flag.Args(), conf); err != nil {
		fmt.Fprintln(os.Stderr, err)
		os.Exit(1)
	}
}

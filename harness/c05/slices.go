package main

// Script interpreter for slice operations, generic in the element type.
//
// input line:  S <elemsize> <id> <nv> <op> <args...> <op> <args...> ...
// output line: S <id> <step> / <step> / ...
//   step = <status> <var0> <var1> ...     status = ok | panic | n<count> (copy) | x<token> (index)
//   var  = ~ (nil)  or  <len>:<cap>:<tok>,<tok>,...
//
// Every operand is a run-time value (nothing is constant-folded); an operation that panics leaves
// the variables unchanged and is logged as "panic".

const omit = -9999

const (
	opMake  = 1  // d l c          v[d] = make([]T, l, c)   (c omitted: make([]T, l))
	opLit   = 2  // d k x1..xk     v[d] = []T{x1,...,xk}
	opR2    = 3  // d s i j        v[d] = v[s][i:j]         (i, j may be omitted)
	opR3    = 4  // d s i j k      v[d] = v[s][i:j:k]       (i may be omitted)
	opApp   = 5  // d s k x1..xk   v[d] = append(v[s], x1, ..., xk)
	opAppN  = 6  // d s n x        v[d] = append(v[s], t...) t fresh, t[m] = tok((x+m)&255)
	opAppS  = 7  // d s o          v[d] = append(v[s], v[o]...)
	opCopy  = 8  // d s            n = copy(v[d], v[s])
	opClear = 9  // d              clear(v[d])
	opSet   = 10 // d i x          v[d][i] = x
	opIdx   = 11 // d i            read v[d][i]
	opNil   = 12 // d              v[d] = nil
	opProbe = 13 // d base         t := v[d][:cap(v[d])]; t[m] = tok((base+m)&255)
	opMov   = 14 // d s            v[d] = v[s]
)

type elemOps[T any] struct {
	mk   func(int) T
	show func(T) int
}

func lit[T any](o *elemOps[T], xs []int) []T {
	switch len(xs) {
	case 0:
		return []T{}
	case 1:
		return []T{o.mk(xs[0])}
	case 2:
		return []T{o.mk(xs[0]), o.mk(xs[1])}
	case 3:
		return []T{o.mk(xs[0]), o.mk(xs[1]), o.mk(xs[2])}
	case 4:
		return []T{o.mk(xs[0]), o.mk(xs[1]), o.mk(xs[2]), o.mk(xs[3])}
	}
	panic("lit: unsupported length")
}

// one operation; returns the number of script tokens consumed.  A panic is caught by the caller.
func doOp[T any](o *elemOps[T], v [][]T, op []int, st *status) int {
	switch op[0] {
	case opMake:
		d, l, c := op[1], op[2], op[3]
		if c == omit {
			v[d] = make([]T, l)
		} else {
			v[d] = make([]T, l, c)
		}
		return 4
	case opLit:
		d, k := op[1], op[2]
		v[d] = lit(o, op[3:3+k])
		return 3 + k
	case opR2:
		d, s, i, j := op[1], op[2], op[3], op[4]
		switch {
		case i == omit && j == omit:
			v[d] = v[s][:]
		case i == omit:
			v[d] = v[s][:j]
		case j == omit:
			v[d] = v[s][i:]
		default:
			v[d] = v[s][i:j]
		}
		return 5
	case opR3:
		d, s, i, j, k := op[1], op[2], op[3], op[4], op[5]
		if i == omit {
			v[d] = v[s][:j:k]
		} else {
			v[d] = v[s][i:j:k]
		}
		return 6
	case opApp:
		d, s, k := op[1], op[2], op[3]
		x := op[4 : 4+k]
		switch k {
		case 0:
			v[d] = append(v[s])
		case 1:
			v[d] = append(v[s], o.mk(x[0]))
		case 2:
			v[d] = append(v[s], o.mk(x[0]), o.mk(x[1]))
		case 3:
			v[d] = append(v[s], o.mk(x[0]), o.mk(x[1]), o.mk(x[2]))
		default:
			panic("app: unsupported count")
		}
		return 4 + k
	case opAppN:
		d, s, n, x := op[1], op[2], op[3], op[4]
		t := make([]T, n)
		for m := range t {
			t[m] = o.mk((x + m) & 255)
		}
		v[d] = append(v[s], t...)
		return 5
	case opAppS:
		d, s, oth := op[1], op[2], op[3]
		v[d] = append(v[s], v[oth]...)
		return 4
	case opCopy:
		d, s := op[1], op[2]
		st.kind = 'n'
		st.val = copy(v[d], v[s])
		return 3
	case opClear:
		clear(v[op[1]])
		return 2
	case opSet:
		d, i, x := op[1], op[2], op[3]
		v[d][i] = o.mk(x)
		return 4
	case opIdx:
		d, i := op[1], op[2]
		e := v[d][i]
		st.kind = 'x'
		st.val = o.show(e)
		return 3
	case opNil:
		v[op[1]] = nil
		return 2
	case opProbe:
		d, base := op[1], op[2]
		t := v[d][:cap(v[d])]
		for m := range t {
			t[m] = o.mk((base + m) & 255)
		}
		return 3
	case opMov:
		v[op[1]] = v[op[2]]
		return 3
	}
	panic("bad opcode")
}

func opLen(op []int) int {
	switch op[0] {
	case opMake:
		return 4
	case opLit:
		return 3 + op[2]
	case opR2:
		return 5
	case opR3:
		return 6
	case opApp:
		return 4 + op[3]
	case opAppN:
		return 5
	case opAppS:
		return 4
	case opCopy, opIdx, opProbe, opMov:
		return 3
	case opClear, opNil:
		return 2
	case opSet:
		return 4
	}
	return 1 << 30
}

type status struct {
	kind     byte // 'o' ok, 'p' panic, 'n' copy count, 'x' index value
	val      int
	panicked bool
}

func guarded[T any](o *elemOps[T], v [][]T, op []int, st *status) {
	defer func() {
		if r := recover(); r != nil {
			st.panicked = true
		}
	}()
	doOp(o, v, op, st)
}

func dump[T any](o *elemOps[T], v [][]T, w *outbuf) {
	for _, s := range v {
		w.ch(' ')
		if s == nil {
			w.ch('~')
			continue
		}
		w.num(len(s))
		w.ch(':')
		w.num(cap(s))
		w.ch(':')
		for i, e := range s {
			if i > 0 {
				w.ch(',')
			}
			w.num(o.show(e))
		}
	}
}

func runScript[T any](o *elemOps[T], id, nv int, ops []int, w *outbuf) {
	v := make([][]T, nv)
	w.str("S ")
	w.num(id)
	first := true
	for len(ops) > 0 {
		n := opLen(ops)
		if n > len(ops) {
			w.str(" BADSCRIPT")
			break
		}
		st := status{kind: 'o'}
		guarded(o, v, ops[:n], &st)
		if first {
			w.ch(' ')
			first = false
		} else {
			w.str(" / ")
		}
		switch {
		case st.panicked:
			w.str("panic")
		case st.kind == 'o':
			w.str("ok")
		default:
			w.ch(st.kind)
			w.num(st.val)
		}
		dump(o, v, w)
		ops = ops[n:]
	}
	w.nl()
}

// ---- element types: sizes 0, 1, 2, 3, 8, 24.  Token 0 is the zero value; show returns -1 for a
// value that is not the image of any token (torn copy).

type e3 [3]byte
type e24 [3]int64

func rep8(x int) int64 { return int64(uint64(x&255) * 0x0101010101010101) }

var ops0 = elemOps[struct{}]{
	mk:   func(int) struct{} { return struct{}{} },
	show: func(struct{}) int { return 0 },
}
var ops1 = elemOps[uint8]{
	mk:   func(x int) uint8 { return uint8(x) },
	show: func(e uint8) int { return int(e) },
}
var ops2 = elemOps[uint16]{
	mk: func(x int) uint16 { return uint16(x&255) * 257 },
	show: func(e uint16) int {
		if e>>8 != e&255 {
			return -1
		}
		return int(e & 255)
	},
}
var ops3 = elemOps[e3]{
	mk: func(x int) e3 { return e3{byte(x), byte(2 * x), byte(3 * x)} },
	show: func(e e3) int {
		x := int(e[0])
		if e[1] != byte(2*x) || e[2] != byte(3*x) {
			return -1
		}
		return x
	},
}
var ops8 = elemOps[int64]{
	mk: rep8,
	show: func(e int64) int {
		x := int(uint64(e) & 255)
		if rep8(x) != e {
			return -1
		}
		return x
	},
}
var ops24 = elemOps[e24]{
	mk: func(x int) e24 { return e24{rep8(x), rep8(2 * x), rep8(3 * x)} },
	show: func(e e24) int {
		x := int(uint64(e[0]) & 255)
		if e[0] != rep8(x) || e[1] != rep8(2*x) || e[2] != rep8(3*x) {
			return -1
		}
		return x
	},
}

func sliceScript(xs []int, w *outbuf) {
	es, id, nv, ops := xs[0], xs[1], xs[2], xs[3:]
	switch es {
	case 0:
		runScript(&ops0, id, nv, ops, w)
	case 1:
		runScript(&ops1, id, nv, ops, w)
	case 2:
		runScript(&ops2, id, nv, ops, w)
	case 3:
		runScript(&ops3, id, nv, ops, w)
	case 8:
		runScript(&ops8, id, nv, ops, w)
	case 24:
		runScript(&ops24, id, nv, ops, w)
	}
}

package main

// String cases.  Every string is built at run time from the hex input, so nothing is constant-folded.

func try(f func()) (ok bool) {
	defer func() {
		if r := recover(); r != nil {
			ok = false
		}
	}()
	f()
	return true
}

// U <id> <hex>: length, range iteration (both forms), []rune, []byte and back, string([]rune),
// append([]byte, s...), copy([]byte, s)
func strUnary(id int, s string, w *outbuf) {
	w.str("U ")
	w.num(id)
	w.str(" n=")
	w.num(len(s))
	w.str(" rg=")
	first := true
	for i, r := range s {
		if !first {
			w.ch(',')
		}
		first = false
		w.num(i)
		w.ch(':')
		w.num(int(r))
	}
	w.str(" ix=")
	first = true
	for i := range s {
		if !first {
			w.ch(',')
		}
		first = false
		w.num(i)
	}
	cnt := 0
	for range s {
		cnt++
	}
	w.str(" cnt=")
	w.num(cnt)
	rs := []rune(s)
	w.str(" ru=")
	for i, r := range rs {
		if i > 0 {
			w.ch(',')
		}
		w.num(int(r))
	}
	bs := []byte(s)
	w.str(" b=")
	w.hexb(bs)
	w.str(" sb=")
	w.hexs(string(bs))
	w.str(" sr=")
	w.hexs(string(rs))
	pre := make([]byte, 1, 1+len(s)/2)
	pre[0] = 'x'
	w.str(" ap=")
	w.hexb(append(pre, s...))
	buf := make([]byte, 2)
	buf[0], buf[1] = '.', '.'
	n := copy(buf, s)
	w.str(" cp=")
	w.num(n)
	w.ch(':')
	w.hexb(buf)
	// informational only (not part of the judged result): nil-ness of the converted slices
	w.str(" NIL=")
	if bs == nil {
		w.ch('1')
	} else {
		w.ch('0')
	}
	if rs == nil {
		w.ch('1')
	} else {
		w.ch('0')
	}
	w.nl()
}

func bit(w *outbuf, b bool) {
	if b {
		w.ch('1')
	} else {
		w.ch('0')
	}
}

// P <id> <hexA> <hexB>: concatenation and the six comparisons
func strPair(id int, a, b string, w *outbuf) {
	w.str("P ")
	w.num(id)
	w.str(" cat=")
	w.hexs(a + b)
	w.str(" cat3=")
	w.hexs(a + b + a)
	acc := a
	acc += b
	acc += b
	w.str(" acc=")
	w.hexs(acc)
	w.str(" cmp=")
	bit(w, a == b)
	bit(w, a != b)
	bit(w, a < b)
	bit(w, a <= b)
	bit(w, a > b)
	bit(w, a >= b)
	w.nl()
}

// X <id> <hex> <i> <j>: s[i:j] (i, j may be omitted) and s[i]
func strSlice(id int, s string, i, j int, w *outbuf) {
	w.str("X ")
	w.num(id)
	w.str(" sl=")
	var r string
	ok := try(func() {
		switch {
		case i == omit && j == omit:
			r = s[:]
		case i == omit:
			r = s[:j]
		case j == omit:
			r = s[i:]
		default:
			r = s[i:j]
		}
	})
	if ok {
		w.hexs(r)
		w.ch(':')
		w.num(len(r))
	} else {
		w.str("panic")
	}
	w.str(" ix=")
	if i == omit {
		w.str("na")
	} else {
		var c byte
		if try(func() { c = s[i] }) {
			w.num(int(c))
		} else {
			w.str("panic")
		}
	}
	w.nl()
}

// R <id> <hi> <lo>: string(v) for v = hi*65536+lo in every integer type that can hold v
func strFromInt(id, hi, lo int, w *outbuf) {
	v := int64(hi)*65536 + int64(lo)
	w.str("R ")
	w.num(id)
	w.str(" l=")
	w.hexs(string(v))
	if v >= 0 {
		w.str(" L=")
		w.hexs(string(uint64(v)))
		w.str(" I=")
		w.hexs(string(uint(v)))
	}
	w.str(" i=")
	w.hexs(string(int(v)))
	if v >= -1<<31 && v < 1<<31 {
		w.str(" r=")
		w.hexs(string(rune(v)))
	}
	if v >= 0 && v < 1<<32 {
		w.str(" w=")
		w.hexs(string(uint32(v)))
	}
	if v >= -1<<15 && v < 1<<15 {
		w.str(" h=")
		w.hexs(string(int16(v)))
	}
	if v >= 0 && v < 1<<16 {
		w.str(" H=")
		w.hexs(string(uint16(v)))
	}
	if v >= -128 && v < 128 {
		w.str(" c=")
		w.hexs(string(int8(v)))
	}
	if v >= 0 && v < 256 {
		w.str(" b=")
		w.hexs(string(byte(v)))
	}
	w.nl()
}

// Q <id> <hi1> <lo1> <hi2> <lo2> ...: string([]rune{...})
func strFromRunes(id int, xs []int, w *outbuf) {
	rs := make([]rune, len(xs)/2)
	for i := range rs {
		rs[i] = rune(int64(xs[2*i])*65536 + int64(xs[2*i+1]))
	}
	w.str("Q ")
	w.num(id)
	w.str(" s=")
	w.hexs(string(rs))
	w.nl()
}

package main

import "os"

// ---- minimal I/O: no fmt, no bufio; output is accumulated and written in large chunks

type outbuf struct {
	b []byte
}

func (w *outbuf) str(s string) { w.b = append(w.b, s...) }
func (w *outbuf) ch(c byte)    { w.b = append(w.b, c) }

func (w *outbuf) num(x int) {
	if x == 0 {
		w.b = append(w.b, '0')
		return
	}
	neg := x < 0
	var t [24]byte
	i := len(t)
	for x != 0 {
		d := x % 10
		if d < 0 {
			d = -d
		}
		i--
		t[i] = byte('0' + d)
		x /= 10
	}
	if neg {
		i--
		t[i] = '-'
	}
	w.b = append(w.b, t[i:]...)
}

const hexd = "0123456789abcdef"

func (w *outbuf) hexs(s string) {
	if len(s) == 0 {
		w.ch('-')
		return
	}
	for i := 0; i < len(s); i++ {
		w.ch(hexd[s[i]>>4])
		w.ch(hexd[s[i]&15])
	}
}

func (w *outbuf) hexb(b []byte) {
	if len(b) == 0 {
		w.ch('-')
		return
	}
	for i := 0; i < len(b); i++ {
		w.ch(hexd[b[i]>>4])
		w.ch(hexd[b[i]&15])
	}
}

func (w *outbuf) nl() {
	w.b = append(w.b, '\n')
	if len(w.b) > 1<<16 {
		w.flush()
	}
}

func (w *outbuf) flush() {
	p := w.b
	for len(p) > 0 {
		n, err := os.Stdout.Write(p)
		if err != nil || n <= 0 {
			break
		}
		p = p[n:]
	}
	w.b = w.b[:0]
}

func readAll() []byte {
	var all []byte
	buf := make([]byte, 1<<16)
	for {
		n, err := os.Stdin.Read(buf)
		if n > 0 {
			all = append(all, buf[:n]...)
		}
		if err != nil || n == 0 {
			break
		}
	}
	return all
}

// fields splits one line into whitespace separated fields
func fields(line []byte) [][]byte {
	var fs [][]byte
	i := 0
	for i < len(line) {
		for i < len(line) && line[i] == ' ' {
			i++
		}
		j := i
		for j < len(line) && line[j] != ' ' {
			j++
		}
		if j > i {
			fs = append(fs, line[i:j])
		}
		i = j
	}
	return fs
}

func atoi(b []byte) int {
	neg := false
	i := 0
	if len(b) > 0 && b[0] == '-' {
		neg = true
		i = 1
	}
	x := 0
	for ; i < len(b); i++ {
		x = x*10 + int(b[i]-'0')
	}
	if neg {
		return -x
	}
	return x
}

func hexval(c byte) byte {
	switch {
	case c >= '0' && c <= '9':
		return c - '0'
	case c >= 'a' && c <= 'f':
		return c - 'a' + 10
	}
	return c - 'A' + 10
}

// unhex decodes a hex field ("-" is the empty string) into a fresh string
func unhex(b []byte) string {
	if len(b) == 1 && b[0] == '-' {
		return ""
	}
	r := make([]byte, len(b)/2)
	for i := range r {
		r[i] = hexval(b[2*i])<<4 | hexval(b[2*i+1])
	}
	return string(r)
}

func main() {
	in := readAll()
	w := &outbuf{}
	start := 0
	for i := 0; i <= len(in); i++ {
		if i == len(in) || in[i] == '\n' {
			if i > start {
				fs := fields(in[start:i])
				if len(fs) > 0 {
					dispatch(fs, w)
				}
			}
			start = i + 1
		}
	}
	w.str("END")
	w.nl()
	w.flush()
}

func dispatch(fs [][]byte, w *outbuf) {
	switch fs[0][0] {
	case 'S':
		xs := make([]int, len(fs)-1)
		for i := range xs {
			xs[i] = atoi(fs[i+1])
		}
		sliceScript(xs, w)
	case 'U':
		strUnary(atoi(fs[1]), unhex(fs[2]), w)
	case 'P':
		strPair(atoi(fs[1]), unhex(fs[2]), unhex(fs[3]), w)
	case 'X':
		strSlice(atoi(fs[1]), unhex(fs[2]), atoi(fs[3]), atoi(fs[4]), w)
	case 'R':
		strFromInt(atoi(fs[1]), atoi(fs[2]), atoi(fs[3]), w)
	case 'Q':
		xs := make([]int, len(fs)-2)
		for i := range xs {
			xs[i] = atoi(fs[i+2])
		}
		strFromRunes(atoi(fs[1]), xs, w)
	}
}

module c05prog

go 1.24

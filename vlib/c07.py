"""C07 — dynamic type identity and interface satisfaction coincide with Go's rules.

spec/typeid/TypeIdentity.tla  layer A: Go's type identity over a recursive type grammar; TLC enumerates base terms and
                              every single-point mutation (near-miss pairs) with the verdict
binding 1 (in process): the pairs are built as go/types values in an injected test of ssa/abi; Builder.TypeName - the
          name under which the descriptor is emitted as a mergeable symbol - must be shared exactly when the spec says
          identical (go/types.Identical self-validates the spec's transcription)
binding 2 (end to end): a generated multi-package program boxes values of near-miss types and asserts / switches /
          compares them across package boundaries and calls methods through interfaces; compiled by llgo, judged by
          the spec's verdicts (reference toolchain self-validates).
spec/typeid/MethodSets.tla    interface satisfaction and method reach (vlib/c07m.py)
spec/typeid/GenericLocal.tla  types produced by generic code: identity generic function, types declared inside generic
                              functions (directly / in a nested function literal), generic types - over arguments that
                              mention function-local types (vlib/c07gl.py)
"""
import json
import os
import subprocess

from . import common as C

SPEC = os.path.join(C.VERIF, "spec", "typeid")
HARNESS = os.path.join(C.VERIF, "harness", "c07")


def check(chk):
    thorough = chk.tier == "thorough"
    rd = chk.rd.path
    res = C.tlc(SPEC, "TypeIdentity", "typeid.cfg", rd, timeout=1800, parse_json=False)
    if not res.ok:
        raise C.Undecided("TypeIdentity.tla: %s" % res.violation)
    chk.add_tlc(res, "TypeIdentity")
    pairs = list(C.tlc_printed_iter(res))
    if len(pairs) < 1000:
        raise C.Undecided("TypeIdentity emitted only %d pairs" % len(pairs))
    # negative control: flip the verdict of one proper pair
    neg = json.loads(json.dumps(next(p for p in pairs if p["t"] != p["u"] and not p["same"])))
    neg["same"] = True
    cases = os.path.join(rd, "pairs.ndjson")
    with open(cases, "w") as f:
        f.write(json.dumps(neg) + "\n")
        for p in pairs:
            f.write(json.dumps(p) + "\n")
    testbin = C.gotest_compile_injected("ssa/abi", {"zz_verif_c07_test.go": open(os.path.join(HARNESS, "zz_verif_c07_test.go")).read()}, rd)
    out = os.path.join(rd, "dis.ndjson")
    env = C.base_env({"VERIF_CASES": cases, "VERIF_OUT": out, "TMPDIR": chk.rd.sub("tmp")})
    r = subprocess.run([testbin, "-test.run", "TestVerifTypeIdentity$"], env=env, capture_output=True, text=True, timeout=1200)
    if r.returncode != 0 or "VERIF_DONE" not in r.stdout:
        raise C.Undecided("type identity replay failed:\n" + (r.stdout + r.stderr)[-2000:])
    dis = [json.loads(l) for l in open(out)]
    if not any(d["case"] == 0 for d in dis):
        raise C.Undecided("negative control not flagged")
    spec_bad = [d for d in dis if d["case"] != 0 and d["gotypes"] != d["spec"]]
    if spec_bad:
        raise C.Undecided("TypeIdentity.tla disagrees with go/types.Identical on %d pairs, e.g. %s" % (len(spec_bad), spec_bad[:2]))
    classes = {}
    for d in dis:
        if d["case"] == 0:
            continue
        p = pairs[d["case"] - 1]
        kind = classify(p["t"], p["u"])
        key = "typename:%s:%s" % ("merged" if d["same_name"] else "split", kind)
        classes.setdefault(key, []).append(d)
    for key, ds in sorted(classes.items()):
        d = ds[0]
        chk.reject(key, "%d pairs: %s types %s vs %s get %s descriptor names (%s / %s)" % (
            len(ds), "distinct" if not d["spec"] else "identical", d["t"], d["u"], "the same" if d["same_name"] else "different",
            d["name_t"], d["name_u"]), {"examples": ds[:5]})
    n = len(pairs)
    chk.cov["evaluations"] = n
    chk.cov["distinct_nontrivial"] = sum(1 for p in pairs if p["t"] != p["u"])
    chk.cov["traces_validated_against_impl"] = n
    chk.cov["identical_but_different_terms"] = sum(1 for p in pairs if p["t"] != p["u"] and p["same"])
    chk.cov["rule"] = ("pair = (base type term, single-point mutation of it) enumerated by TLC with Identical(t,u); base terms: leaves "
                       "(basic, named across packages / scopes / instances) and one or two constructor levels; non-trivial = t differs from u")
    chk.sample({"pair": pairs[len(pairs) // 2]})
    from . import c07e2e
    chk.cov["_pairs"] = pairs
    try:
        c07e2e.run(chk, thorough)
    finally:
        chk.cov.pop("_pairs", None)
    from . import c07m
    c07m.run(chk, thorough)
    from . import c07gl
    c07gl.run(chk, thorough)
    chk.assumptions += ["go/types values built by the harness faithfully represent the terms (checked by go/types.Identical on every pair)",
                        "descriptor identity at run time is name identity of the emitted weak-ODR symbol (checked end to end on a sample)"]


def classify(t, u):
    """which attribute distinguishes the pair (stable class name for findings)"""
    if t["k"] != u["k"]:
        return "kind:%s/%s" % (t["k"], u["k"])
    k = t["k"]
    if k == "struct":
        if len(t["fields"]) != len(u["fields"]):
            return "struct:fieldcount"
        for f, g in zip(t["fields"], u["fields"]):
            for a in ("tag", "emb", "name", "fpkg"):
                if f[a] != g[a]:
                    return "struct:" + a
            if f["type"] != g["type"]:
                return "struct:fieldtype>" + classify(f["type"], g["type"])
        return "struct:order"
    if k == "iface":
        if len(t["methods"]) != len(u["methods"]):
            return "iface:methodcount"
        for m, n in zip(t["methods"], u["methods"]):
            for a in ("name", "mpkg"):
                if m[a] != n[a]:
                    return "iface:" + a
            if m["sig"] != n["sig"]:
                return "iface:sig>" + classify(m["sig"], n["sig"])
        return "iface:order"
    if k == "func":
        if t["variadic"] != u["variadic"]:
            return "func:variadic"
        if len(t["params"]) != len(u["params"]) or len(t["results"]) != len(u["results"]):
            return "func:arity"
        return "func:types"
    if k == "named":
        for a in ("pkg", "name", "scope"):
            if t[a] != u[a]:
                return "named:" + a
        return "named:targs"
    if k == "chan" and t["dir"] != u["dir"]:
        return "chan:dir"
    if k == "array" and t["n"] != u["n"]:
        return "array:len"
    if k == "basic":
        return "basic"
    return k + ":elem"


if __name__ == "__main__":
    C.main_wrapper("C07", check)

"""CoreGo: a tiny typed AST for core Go programs with two back ends
   render(prog)  -> Go source (compiled by llgo and, as self-validation, by the reference toolchain)
   lower(prog)   -> instruction lists for spec/gomachine/GoMachine.tla (calls hoisted in Go's evaluation order)

AST (tuples):
  program  = {"funcs": [func], "structs": {name: [(field, type)]}, "ifaces": {name: [(mname, nparams, nresults)]},
              "methods": {dyntype: {mname: funcname}}}
  func     = {"name", "params": [(x, T)], "results": [(x, T)], "body": [stmt], "recv": None | (x, T)}
  types    : "int" "bool" "string" ("struct", N) ("array", n, T) ("ptr", T) ("func", [T], [T]) ("iface", N)
  stmt     : ("decl", x, T, e|None) ("assign", [lv], [e]) ("if", c, then, else) ("for", label, init, cond, post, body)
             ("rangeint", label, x, e, body) ("rangearr", label, i, v, e, T, body) ("switch", tag|None, [(vals|None, body, fallthrough)])
             ("break", label|None) ("continue", label|None) ("return", [e]) ("expr", call) ("defer", call) ("gowait", call)
             ("panic", e) ("print", [e]) ("goexit",) ("block", [stmt]) ("calls", [x...], call)  (multi-value call)
             ("label", L) ("goto", L) ("typeswitch", x, e, [(dyn|"nil", T, body)], default_body|None)
             ("recover", x) ("rangefunc", label, [x...], seq_expr, body)   (for x... := range seq_expr; desugared for the machine)
  expr     : ("int", n) ("bool", b) ("str", s) ("nil",) ("var", x) ("bin", op, a, b) ("not", a) ("neg", a) ("field", e, f)
             ("index", e, i) ("len", e) ("deref", e) ("addr", lv) ("call", callee, [args]) ("funclit", func)
             ("mkstruct", N, [(f, e)]) ("mkarr", T, [e]) ("iface", I, dyn, e) ("assert", e, dyn, T) ("isnil", e)
  callee   : ("fn", name) | ("clo", e) | ("method", recv_expr, funcname, mname, go_recv_expr) | ("imethod", e, mname)
"""
import json


# --------------------------------------------------------------------------- types

def gotype(t):
    if isinstance(t, str):
        return t
    k = t[0]
    if k == "struct":
        return t[1]
    if k == "array":
        return "[%d]%s" % (t[1], gotype(t[2]))
    if k == "ptr":
        return "*" + gotype(t[1])
    if k == "func":
        res = ", ".join(gotype(x) for x in t[2])
        if len(t[2]) > 1:
            res = "(" + res + ")"
        return "func(%s)%s" % (", ".join(gotype(x) for x in t[1]), (" " + res) if res else "")
    if k == "iface":
        return t[1]
    raise ValueError(t)


def zero(t, prog):
    """zero value as a machine expression"""
    if t == "int":
        return ("int", 0)
    if t == "bool":
        return ("bool", False)
    if t == "string":
        return ("str", "")
    k = t[0]
    if k == "struct":
        return ("mkstruct", t[1], [(f, zero(ft, prog)) for f, ft in prog["structs"][t[1]]])
    if k == "array":
        return ("mkarr", t, [zero(t[2], prog) for _ in range(t[1])])
    return ("nil",)


# --------------------------------------------------------------------------- rendering to Go

class Render:
    def __init__(self, prog):
        self.p = prog
        self.out = []

    def expr(self, e):
        k = e[0]
        if k == "int":
            return str(e[1]) if e[1] >= 0 else "(%d)" % e[1]
        if k == "bool":
            return "true" if e[1] else "false"
        if k == "str":
            return json.dumps(e[1])
        if k == "nil":
            return "nil"
        if k == "var":
            return e[1]
        if k == "bin":
            op = "+" if e[1] == "s+" else e[1]
            return "(%s %s %s)" % (self.expr(e[2]), op, self.expr(e[3]))
        if k == "not":
            return "!" + self.expr(e[1])
        if k == "neg":
            return "(-%s)" % self.expr(e[1])
        if k == "field":
            if len(e) > 3 and e[3]:      # promoted through an embedded field: omitted in source
                return self.expr(e[1])
            return "%s.%s" % (self.expr(e[1]), e[2])
        if k == "index":
            return "%s[%s]" % (self.expr(e[1]), self.expr(e[2]))
        if k == "len":
            return "len(%s)" % self.expr(e[1])
        if k == "deref":
            if len(e) > 2 and e[2]:      # implicit dereference (p.f, p.m())
                return self.expr(e[1])
            return "(*%s)" % self.expr(e[1])
        if k == "addr":
            if len(e) > 2 and e[2]:      # implicit address-of (method call on addressable value)
                return self.expr(e[1])
            return "(&%s)" % self.expr(e[1])
        if k == "call":
            return self.call(e)
        if k == "funclit":
            return self.funclit(e[1])
        if k == "mkstruct":
            emb = self.p.get("embedded", {}).get(e[1], ())
            ftype = dict(self.p["structs"][e[1]])
            return "%s{%s}" % (e[1], ", ".join("%s: %s" % (gotype(ftype[f]) if f in emb else f, self.expr(x)) for f, x in e[2]))
        if k == "mkarr":
            return "%s{%s}" % (gotype(e[1]), ", ".join(self.expr(x) for x in e[2]))
        if k == "iface":
            return "%s(%s)" % (e[1], self.expr(e[3]))
        if k == "assert":
            return "%s.(%s)" % (self.expr(e[1]), gotype(e[3]))
        if k == "isnil":
            return "(%s == nil)" % self.expr(e[1])
        raise ValueError(e)

    def call(self, e):
        callee, args = e[1], e[2]
        a = ", ".join(self.expr(x) for x in args)
        if callee[0] == "fn":
            name = callee[1]
            if name in self.p.get("lib_names", ()) and not self.p.get("rendering_lib"):
                name = "lib." + name
            return "%s(%s)" % (name, a)
        if callee[0] == "clo":
            return "%s(%s)" % (self.expr(callee[1]), a)
        if callee[0] == "method":
            return "%s.%s(%s)" % (self.expr(callee[4]), callee[3], a)
        if callee[0] == "imethod":
            return "%s.%s(%s)" % (self.expr(callee[1]), callee[2], a)
        raise ValueError(e)

    def sig(self, f):
        ps = ", ".join("%s %s" % (x, gotype(t)) for x, t in f["params"])
        rs = ", ".join("%s %s" % (x, gotype(t)) for x, t in f["results"])
        return "(%s)%s" % (ps, (" (" + rs + ")") if rs else "")

    def funclit(self, f):
        sub = Render(self.p)
        sub.block(f["body"], 1)
        if f["results"]:
            sub.line(1, "return")
        return "func%s {\n%s\n}" % (self.sig(f), "\n".join(sub.out))

    def line(self, ind, s):
        self.out.append("\t" * ind + s)

    def block(self, stmts, ind):
        for s in stmts:
            self.stmt(s, ind)

    def stmt(self, s, ind):
        k = s[0]
        L = lambda x: self.line(ind, x)
        if k == "decl":
            if s[3] is None:
                L("var %s %s" % (s[1], gotype(s[2])))
            else:
                L("var %s %s = %s" % (s[1], gotype(s[2]), self.expr(s[3])))
            L("_ = %s" % s[1])
        elif k == "assign":
            L("%s = %s" % (", ".join(self.expr(x) for x in s[1]), ", ".join(self.expr(x) for x in s[2])))
        elif k == "calls":
            L("%s = %s" % (", ".join(s[1]), self.expr(s[2])))
        elif k == "if":
            L("if %s {" % self.expr(s[1]))
            self.block(s[2], ind + 1)
            if s[3]:
                L("} else {")
                self.block(s[3], ind + 1)
            L("}")
        elif k == "for":
            _, label, init, cond, post, body = s
            if label:
                self.line(ind, label + ":")
            i = self.simple(init) if init else ""
            c = self.expr(cond) if cond else ""
            p = self.simple(post) if post else ""
            L("for %s; %s; %s {" % (i, c, p))
            self.block(body, ind + 1)
            L("}")
        elif k == "rangeint":
            _, label, x, e, body = s
            if label:
                self.line(ind, label + ":")
            L("for %s := range %s {" % (x, self.expr(e)))
            L("\t_ = %s" % x)
            self.block(body, ind + 1)
            L("}")
        elif k == "rangearr":
            _, label, i, v, e, t, body = s
            if label:
                self.line(ind, label + ":")
            L("for %s, %s := range %s {" % (i, v, self.expr(e)))
            L("\t_, _ = %s, %s" % (i, v))
            self.block(body, ind + 1)
            L("}")
        elif k == "rangefunc":
            _, label, xs, e, body = s
            if label:
                self.line(ind, label + ":")
            L("for %s := range %s {" % (", ".join(xs), self.expr(e)))
            L("\t%s = %s" % (", ".join("_" for _ in xs), ", ".join(xs)))
            self.block(body, ind + 1)
            L("}")
        elif k == "switch":
            L("switch %s {" % (self.expr(s[1]) if s[1] is not None else ""))
            for vals, body, ft in s[2]:
                if vals is None:
                    L("default:")
                else:
                    L("case %s:" % ", ".join(self.expr(v) for v in vals))
                self.block(body, ind + 1)
                if ft:
                    L("\tfallthrough")
            L("}")
        elif k == "typeswitch":
            _, x, e, cases, dflt = s
            L("switch %s := %s.(type) {" % (x, self.expr(e)))
            for dyn, t, body in cases:
                L("case %s:" % ("nil" if dyn == "nil" else gotype(t)))
                L("\t_ = %s" % x)
                self.block(body, ind + 1)
            if dflt is not None:
                L("default:")
                L("\t_ = %s" % x)
                self.block(dflt, ind + 1)
            L("}")
        elif k == "label":
            self.line(max(ind - 1, 0), s[1] + ":")
        elif k == "goto":
            L("goto " + s[1])
        elif k == "break":
            L("break" + (" " + s[1] if s[1] else ""))
        elif k == "continue":
            L("continue" + (" " + s[1] if s[1] else ""))
        elif k == "return":
            L("return " + ", ".join(self.expr(x) for x in s[1]) if s[1] else "return")
        elif k == "expr":
            L(self.expr(s[1]))
        elif k == "defer":
            L("defer " + self.expr(s[1]))
        elif k == "gowait":
            L("{")
            L("\tvar wg__ sync.WaitGroup")
            L("\twg__.Add(1)")
            c = s[1]
            L("\tgo func() {")
            L("\t\tdefer wg__.Done()")
            L("\t\t" + self.expr(c))
            L("\t}()")
            L("\twg__.Wait()")
            L("}")
        elif k == "panic":
            L("panic(%s)" % self.expr(s[1]))
        elif k == "print":
            L("println(%s)" % ", ".join(['"#"'] + [self.pexpr(x) for x in s[1]]))
        elif k == "goexit":
            L("runtime.Goexit()")
        elif k == "recover":
            L("%s = show__(recover())" % s[1])
        elif k == "block":
            L("{")
            self.block(s[1], ind + 1)
            L("}")
        else:
            raise ValueError(s)

    def pexpr(self, e):
        return self.expr(e)

    def simple(self, s):
        if s[0] == "decl":
            return "%s := %s" % (s[1], self.expr(s[3]))
        if s[0] == "assign":
            return "%s = %s" % (", ".join(self.expr(x) for x in s[1]), ", ".join(self.expr(x) for x in s[2]))
        raise ValueError(s)


PRELUDE = '''
// show__ turns a recovered value into a small integer code the abstract machine predicts:
// nil -> 0, an int panic value v -> v, a run-time error -> -1000 - kind
func show__(r any) int {
	if r == nil {
		return 0
	}
	if v, ok := r.(int); ok {
		return v
	}
	if e, ok := r.(error); ok {
		return rtkind__(e.Error())
	}
	if s, ok := r.(string); ok {
		return rtkind__(s)
	}
	return -1999
}

func has__(s, sub string) bool {
	for i := 0; i+len(sub) <= len(s); i++ {
		if s[i:i+len(sub)] == sub {
			return true
		}
	}
	return false
}

func rtkind__(m string) int {
	switch {
	case has__(m, "index out of range"):
		return -1001
	case has__(m, "nil pointer") || has__(m, "invalid memory address"):
		return -1002
	case has__(m, "divide by zero"):
		return -1003
	case has__(m, "interface conversion") || has__(m, "type assertion"):
		return -1004
	}
	return -1999
}
'''

RTKIND = {"index": -1001, "nilderef": -1002, "divide": -1003, "assert": -1004}


def render(prog, pkg="main", imports=("runtime", "sync"), only_lib=None):
    """only_lib: None = every function; True = only functions marked lib (package lib); False = only the others"""
    prog = dict(prog)
    prog["rendering_lib"] = bool(only_lib)
    r = Render(prog)
    out = ["package %s" % pkg, ""]
    if imports:
        out.append("import (")
        for i in imports:
            out.append('\t"%s"' % i)
        out.append(")")
        out.append("")
        out.append("var _ = runtime.Goexit")
        out.append("var _ sync.WaitGroup")
    out.append(PRELUDE)
    if not only_lib:
        out += list(prog.get("rawdecls", ())) + [""]
    for n, fields in (prog.get("structs", {}) if not only_lib else {}).items():
        if "[" in n:
            continue        # instantiation of a generic struct: declared once in rawdecls
        out.append("type %s struct {" % n)
        for f, t in fields:
            emb = prog.get("embedded", {}).get(n, ())
            if f in emb:
                out.append("\t%s" % gotype(t))
            else:
                out.append("\t%s %s" % (f, gotype(t)))
        out.append("}")
        out.append("")
    for n, ms in (prog.get("ifaces", {}) if not only_lib else {}).items():
        out.append("type %s interface {" % n)
        for m, ps, rs in ms:
            out.append("\t%s(%s) %s" % (m, ", ".join(gotype(x) for x in ps),
                                       ("(" + ", ".join(gotype(x) for x in rs) + ")") if rs else ""))
        out.append("}")
        out.append("")
    for f in prog["funcs"]:
        if f.get("synthetic"):
            continue
        if only_lib is not None and bool(f.get("lib")) != only_lib:
            continue
        sub = Render(prog)
        sub.block(f["body"], 1)
        if f["results"]:
            sub.line(1, "return")
        recv = ""
        name = f["name"]
        if f.get("recv"):
            recv = "(%s %s) " % (f["recv"][0], gotype(f["recv"][1]))
            name = f["goname"]
        tp = ""
        if f.get("typeparams"):
            tp = "[" + ", ".join("%s %s" % (a, b) for a, b in f["typeparams"]) + "]"
        out.append("//go:noinline" if f.get("noinline") else "")
        out.append("func %s%s%s%s {" % (recv, name, tp, sub.sig(f) if not f.get("recv") else sub.sig({"params": f["params"][1:], "results": f["results"]})))
        out.extend(sub.out)
        out.append("}")
        out.append("")
    return "\n".join(out) + "\n"


# --------------------------------------------------------------------------- lowering to machine code

class Lower:
    def __init__(self, prog):
        self.p = prog
        self.funcs = {}
        self.ntemp = 0
        self.nlit = 0

    def temp(self):
        self.ntemp += 1
        return "$t%d" % self.ntemp

    def lower_program(self):
        for f in self.p["funcs"]:
            self.lower_func(f)
        return {"funcs": self.funcs, "methods": self.p.get("methods", {}) or {"_": {"_": "_"}}, "main": "main"}

    def lower_func(self, f, name=None):
        name = name or f["name"]
        fl = FuncLower(self, f)
        code = fl.run()
        self.funcs[name] = {"params": [x for x, _ in f["params"]],
                            "results": [[x, mexpr_const(zero(t, self.p))] for x, t in f["results"]],
                            "code": code}
        return fl


def mexpr_const(e):
    """evaluate a zero-value expression to a JSON machine value"""
    k = e[0]
    if k in ("int", "bool", "str"):
        return e[1]
    if k == "nil":
        return {"t": "nil"}
    if k == "mkstruct":
        return {f: mexpr_const(x) for f, x in e[2]}
    if k == "mkarr":
        return [mexpr_const(x) for x in e[2]]
    raise ValueError(e)


class RangeFuncDesugar:
    """for x := range seq { body }  ==>  the Go spec's reading of a range over a function: seq is called once with a
    synthesised yield function whose body is the loop body; break / continue / return / jumps to outer labels become
    "return false|true" of that function plus a state variable inspected after seq returns; a defer statement in the loop
    body belongs to the enclosing function (machine instruction defer-at-frame)."""

    def __init__(self, L, f):
        self.L = L
        self.f = f
        self.fr = None

    def run(self):
        body = self.stmts(self.f["body"])
        if self.fr:
            body = [("depth", self.fr)] + body
        return body

    def stmts(self, ss):
        return [t for s in ss for t in self.stmt(s)]

    def stmt(self, s):
        k = s[0]
        if k == "if":
            return [("if", s[1], self.stmts(s[2]), self.stmts(s[3]))]
        if k == "for":
            return [("for", s[1], s[2], s[3], s[4], self.stmts(s[5]))]
        if k == "rangeint":
            return [("rangeint", s[1], s[2], s[3], self.stmts(s[4]))]
        if k == "rangearr":
            return [("rangearr", s[1], s[2], s[3], s[4], s[5], self.stmts(s[6]))]
        if k == "switch":
            return [("switch", s[1], [(vals, self.stmts(body), ft) for vals, body, ft in s[2]])]
        if k == "block":
            return [("block", self.stmts(s[1]))]
        if k == "typeswitch":
            return [("typeswitch", s[1], s[2], [(d, t, self.stmts(b)) for d, t, b in s[3]], None if s[4] is None else self.stmts(s[4]))]
        if k == "rangefunc":
            return self.expand(s[1], s[2], s[3], self.stmts(s[4]))
        return [s]

    def expand(self, label, xs, seq, body):
        st = self.L.temp()
        ok = self.L.temp()
        if self.fr is None:
            self.fr = self.L.temp()
        codes = {}
        V = lambda x: ("var", x)
        leave = lambda code: [("assign", [V(st)], [("int", code)]), ("return", [("bool", False)])]

        def tr(ss, inner, in_break, in_loop):
            out = []
            for s in ss:
                k = s[0]
                if k == "break":
                    lab = s[1]
                    if (lab is None and in_break) or (lab is not None and lab in inner):
                        out.append(s)
                    elif lab is None or lab == label:
                        out += leave(1)
                    else:
                        out += leave(codes.setdefault(("break", lab), 3 + len(codes)))
                elif k == "continue":
                    lab = s[1]
                    if (lab is None and in_loop) or (lab is not None and lab in inner):
                        out.append(s)
                    elif lab is None or lab == label:
                        out.append(("return", [("bool", True)]))
                    else:
                        out += leave(codes.setdefault(("continue", lab), 3 + len(codes)))
                elif k == "return":
                    if s[1]:
                        out.append(("assign", [V(x) for x, _ in self.f["results"]], list(s[1])))
                    out += leave(2)
                elif k == "defer":
                    out.append(("deferat", self.fr, s[1]))
                elif k == "if":
                    out.append(("if", s[1], tr(s[2], inner, in_break, in_loop), tr(s[3], inner, in_break, in_loop)))
                elif k == "for":
                    out.append(("for", s[1], s[2], s[3], s[4], tr(s[5], inner + [s[1]], True, True)))
                elif k == "rangeint":
                    out.append(("rangeint", s[1], s[2], s[3], tr(s[4], inner + [s[1]], True, True)))
                elif k == "rangearr":
                    out.append(("rangearr", s[1], s[2], s[3], s[4], s[5], tr(s[6], inner + [s[1]], True, True)))
                elif k == "switch":
                    out.append(("switch", s[1], [(vals, tr(b, inner, True, in_loop), ft) for vals, b, ft in s[2]]))
                elif k == "block":
                    out.append(("block", tr(s[1], inner, in_break, in_loop)))
                elif k == "typeswitch":
                    out.append(("typeswitch", s[1], s[2], [(d, t, tr(b, inner, True, in_loop)) for d, t, b in s[3]],
                                None if s[4] is None else tr(s[4], inner, True, in_loop)))
                else:
                    out.append(s)
            return out
        lit = {"name": "", "params": [(x, "int") for x in xs], "results": [(ok, "bool")],
               "body": tr(body, [], False, False) + [("return", [("bool", True)])]}
        out = [("decl", st, "int", ("int", 0)),
               ("expr", ("call", ("clo", seq), [("funclit", lit)])),
               ("if", ("bin", "==", V(st), ("int", 2)), [("return", [])], [])]
        for (kind, lab), code in codes.items():
            out.append(("if", ("bin", "==", V(st), ("int", code)), [(kind, lab)], []))
        return out


class FuncLower:
    def __init__(self, L, f):
        self.L = L
        self.f = f
        self.code = []
        self.loops = []     # (label, break_patch_list, continue_patch_list)
        self.declared = set(x for x, _ in f["params"]) | set(x for x, _ in f["results"])
        self.used = set()
        self.labels = {}     # label -> pc
        self.gotos = []      # (instruction index, label)

    def emit(self, ins):
        self.code.append(ins)
        return len(self.code)      # 1-based index of the emitted instruction

    def here(self):
        return len(self.code) + 1

    def run(self):
        self.block(RangeFuncDesugar(self.L, self.f).run())
        for i, lab in self.gotos:
            self.code[i - 1][1] = self.labels[lab]
        return self.code

    # ---- expressions: returns a pure machine expression, emitting instructions for calls / closures
    def ex(self, e):
        k = e[0]
        if k in ("int", "bool", "str"):
            return [k, e[1]]
        if k == "nil":
            return ["nil"]
        if k == "var":
            self.used.add(e[1])
            return ["var", e[1]]
        if k == "bin":
            a = self.ex(e[2])
            b = self.ex(e[3])
            return ["bin", e[1], a, b]
        if k in ("not", "neg", "len"):
            return [k, self.ex(e[1])]
        if k == "isnil":
            return ["isnil", self.ex(e[1])]
        if k == "ifacedyn":
            return ["ifacedyn", self.ex(e[1])]
        if k == "field":
            return ["field", self.ex(e[1]), e[2]]
        if k == "index":
            a = self.ex(e[1])
            return ["index", a, self.ex(e[2])]
        if k == "deref":
            return ["deref", self.ex(e[1])]
        if k == "addr":
            return ["addr", self.lv(e[1])]
        if k == "mkstruct":
            return ["mkstruct", [[f, self.ex(x)] for f, x in e[2]]]
        if k == "mkarr":
            return ["mkarr", [self.ex(x) for x in e[2]]]
        if k == "iface":
            return ["iface", e[2], self.ex(e[3])]
        if k == "assert":
            return ["assert", self.ex(e[1]), e[2]]
        if k == "call":
            t = self.L.temp()
            self.emit(["decl", t, ["nil"]])
            self.declared.add(t)
            self.call(e, [["var", t]])
            return ["var", t]
        if k == "funclit":
            t = self.L.temp()
            self.emit(["decl", t, ["nil"]])
            self.declared.add(t)
            self.closure(t, e[1])
            return ["var", t]
        raise ValueError(e)

    def closure(self, target, fdecl):
        self.L.nlit += 1
        name = "%s$lit%d" % (self.f["name"], self.L.nlit)
        sub = self.L.lower_func(fdecl, name)
        own = sub.declared
        caps = sorted(x for x in sub.used if x not in own)
        # variables used by nested literals but not declared there propagate outwards
        for x in caps:
            self.used.add(x)
        self.emit(["closure", target, name, caps])

    def lv(self, e):
        k = e[0]
        if k == "var":
            self.used.add(e[1])
            return ["var", e[1]]
        if k == "field":
            return ["field", self.lv(e[1]), e[2]]
        if k == "index":
            base = self.lv(e[1])
            return ["index", base, self.ex(e[2])]
        if k == "deref":
            return ["deref", self.ex(e[1])]
        raise ValueError(e)

    def callparts(self, e):
        callee, args = e[1], e[2]
        if callee[0] == "fn":
            return "fn", [callee[1]], [self.ex(a) for a in args]
        if callee[0] == "clo":
            c = self.ex(callee[1])
            return "clo", [c], [self.ex(a) for a in args]
        if callee[0] == "method":
            r = self.ex(callee[1])
            return "fn", [callee[2]], [r] + [self.ex(a) for a in args]
        if callee[0] == "imethod":
            c = self.ex(callee[1])
            return "imethod", [c, callee[2]], [self.ex(a) for a in args]
        raise ValueError(e)

    def call(self, e, dsts, op="call"):
        kind, target, args = self.callparts(e)
        self.emit([op, dsts, kind, target, args])

    # ---- statements
    def block(self, stmts):
        for s in stmts:
            self.stmt(s)

    def find_loop(self, label):
        if label is None:
            return self.loops[-1]
        for l in reversed(self.loops):
            if l[0] == label:
                return l
        raise ValueError("label " + label)

    def stmt(self, s):
        k = s[0]
        if k == "decl":
            self.declared.add(s[1])
            if s[3] is not None and s[3][0] == "funclit":
                self.emit(["decl", s[1], ["nil"]])
                self.closure(s[1], s[3][1])
            else:
                v = self.ex(s[3]) if s[3] is not None else self.ex(zero(s[2], self.L.p))
                self.emit(["decl", s[1], v])
        elif k == "assign":
            if len(s[2]) == 1 and s[2][0][0] == "funclit" and s[1][0][0] == "var":
                self.used.add(s[1][0][1])
                self.closure(s[1][0][1], s[2][0][1])
                return
            # Go: operands of index expressions and pointer indirections on the left and the expressions on the
            # right are evaluated first; calls among them in lexical order (lhs before rhs)
            lvs = [self.lv(x) for x in s[1]]
            rhs = [self.ex(x) for x in s[2]]
            self.emit(["set", lvs, rhs])
        elif k == "calls":
            for x in s[1]:
                self.used.add(x)
            self.call(s[2], [["var", x] for x in s[1]])
        elif k == "if":
            c = self.ex(s[1])
            jz = self.emit(["jz", c, None])
            self.block(s[2])
            if s[3]:
                j = self.emit(["jmp", None])
                self.code[jz - 1][2] = self.here()
                self.block(s[3])
                self.code[j - 1][1] = self.here()
            else:
                self.code[jz - 1][2] = self.here()
        elif k == "for":
            _, label, init, cond, post, body = s
            loopvars = []
            if init:
                self.stmt(init)
                if init[0] == "decl":
                    loopvars.append(init[1])
            top = self.here()
            jz = None
            if cond:
                c = self.ex(cond)
                jz = self.emit(["jz", c, None])
            rec = (label, [], [])
            self.loops.append(rec)
            self.block(body)
            self.loops.pop()
            postpc = self.here()
            for v in loopvars:
                self.emit(["fresh", v])          # Go 1.22: a new copy of the loop variable before the post statement
            if post:
                self.stmt(post)
            self.emit(["jmp", top])
            end = self.here()
            if jz:
                self.code[jz - 1][2] = end
            for i in rec[1]:
                self.code[i - 1][1] = end
            for i in rec[2]:
                self.code[i - 1][1] = postpc
        elif k == "rangeint":
            _, label, x, e, body = s
            n = self.L.temp()
            c = self.L.temp()
            self.declared |= {n, c, x}
            self.emit(["decl", n, self.ex(e)])
            self.emit(["decl", c, ["int", 0]])
            top = self.here()
            jz = self.emit(["jz", ["bin", "<", ["var", c], ["var", n]], None])
            self.emit(["decl", x, ["var", c]])
            rec = (label, [], [])
            self.loops.append(rec)
            self.block(body)
            self.loops.pop()
            postpc = self.here()
            self.emit(["set", [["var", c]], [["bin", "+", ["var", c], ["int", 1]]]])
            self.emit(["jmp", top])
            end = self.here()
            self.code[jz - 1][2] = end
            for i in rec[1]:
                self.code[i - 1][1] = end
            for i in rec[2]:
                self.code[i - 1][1] = postpc
        elif k == "rangearr":
            _, label, iv, vv, e, t, body = s
            a = self.L.temp()
            c = self.L.temp()
            self.declared |= {a, c, iv, vv}
            self.emit(["decl", a, self.ex(e)])           # the range expression is evaluated once (arrays are copied)
            self.emit(["decl", c, ["int", 0]])
            top = self.here()
            jz = self.emit(["jz", ["bin", "<", ["var", c], ["len", ["var", a]]], None])
            self.emit(["decl", iv, ["var", c]])
            self.emit(["decl", vv, ["index", ["var", a], ["var", c]]])
            rec = (label, [], [])
            self.loops.append(rec)
            self.block(body)
            self.loops.pop()
            postpc = self.here()
            self.emit(["set", [["var", c]], [["bin", "+", ["var", c], ["int", 1]]]])
            self.emit(["jmp", top])
            end = self.here()
            self.code[jz - 1][2] = end
            for i in rec[1]:
                self.code[i - 1][1] = end
            for i in rec[2]:
                self.code[i - 1][1] = postpc
        elif k == "switch":
            tag = None
            if s[1] is not None:
                tag = self.L.temp()
                self.declared.add(tag)
                self.emit(["decl", tag, self.ex(s[1])])
            jumps_to_body = []
            body_pcs = {}
            default_idx = None
            for ci, (vals, body, ft) in enumerate(s[2]):
                if vals is None:
                    default_idx = ci
                    continue
                for v in vals:
                    cond = ["bin", "==", ["var", tag], self.ex(v)] if tag else self.ex(v)
                    jz = self.emit(["jz", cond, None])
                    j = self.emit(["jmp", None])
                    jumps_to_body.append((j, ci))
                    self.code[jz - 1][2] = self.here()
            jd = self.emit(["jmp", None])    # no case matched: default or end
            self.loops.append(("$switch", [], None))
            sw = self.loops[-1]
            for ci, (vals, body, ft) in enumerate(s[2]):
                body_pcs[ci] = self.here()
                self.block(body)
                if not ft:
                    sw[1].append(self.emit(["jmp", None]))
                # fallthrough: simply continue into the next body
            self.loops.pop()
            end = self.here()
            for j, ci in jumps_to_body:
                self.code[j - 1][1] = body_pcs[ci]
            self.code[jd - 1][1] = body_pcs[default_idx] if default_idx is not None else end
            for i in sw[1]:
                self.code[i - 1][1] = end
        elif k == "break":
            if s[1] is None:
                rec = self.loops[-1]
            else:
                rec = self.find_loop(s[1])
            rec[1].append(self.emit(["jmp", None]))
        elif k == "continue":
            if s[1] is None:
                rec = next(l for l in reversed(self.loops) if l[0] != "$switch")
            else:
                rec = self.find_loop(s[1])
            rec[2].append(self.emit(["jmp", None]))
        elif k == "typeswitch":
            _, x, e, cases, dflt = s
            t = self.L.temp()
            self.declared |= {t, x}
            self.emit(["decl", t, self.ex(e)])
            self.loops.append(("$switch", [], None))
            sw = self.loops[-1]
            for dyn, ty, body in cases:
                jz = self.emit(["jz", ["bin", "==", ["ifacedyn", ["var", t]], ["str", dyn]], None])
                # in a single-type case the variable has that type; in `case nil` it keeps the interface type
                self.emit(["decl", x, ["var", t] if dyn == "nil" else ["assert", ["var", t], dyn]])
                self.block(body)
                sw[1].append(self.emit(["jmp", None]))
                self.code[jz - 1][2] = self.here()
            if dflt is not None:
                self.emit(["decl", x, ["var", t]])
                self.block(dflt)
            self.loops.pop()
            end = self.here()
            for i in sw[1]:
                self.code[i - 1][1] = end
        elif k == "label":
            self.labels[s[1]] = self.here()
        elif k == "goto":
            self.gotos.append((self.emit(["jmp", None]), s[1]))
        elif k == "return":
            self.emit(["ret", [self.ex(x) for x in s[1]]])
        elif k == "expr":
            self.call(s[1], [])
        elif k == "defer":
            kind, target, args = self.callparts(s[1])
            self.emit(["defer", kind, target, args])
        elif k == "deferat":      # defer statement inside a range-over-func body: belongs to the frame recorded in s[1]
            kind, target, args = self.callparts(s[2])
            self.used.add(s[1])
            self.emit(["defer", kind, target, args, s[1]])
        elif k == "depth":
            self.declared.add(s[1])
            self.emit(["decl", s[1], ["int", 0]])
            self.emit(["depth", s[1]])
        elif k == "gowait":
            self.call(s[1], [], op="gowait")
        elif k == "panic":
            self.emit(["panic", self.ex(s[1])])
        elif k == "print":
            self.emit(["print", [self.ex(x) for x in s[1]]])
        elif k == "goexit":
            self.emit(["goexit"])
        elif k == "recover":
            self.used.add(s[1])
            self.emit(["recover", s[1]])
            # show__() maps the recovered value to an int code
            self.emit(["showrec", s[1]])
        elif k == "block":
            self.block(s[1])
        else:
            raise ValueError(s)


def lower(prog):
    return Lower(prog).lower_program()


def expected_lines(out):
    """turn the machine's `out` (list of lists of values) into the text lines the program prints"""
    lines = []
    for vals in out:
        if vals and vals[0] in ("PANIC", "FATAL"):
            continue
        parts = ["#"]
        for v in vals:
            if v is True:
                parts.append("true")
            elif v is False:
                parts.append("false")
            else:
                parts.append(str(v))
        lines.append(" ".join(parts))
    return lines

"""GoMachine pipeline shared by C01 / C03 / C04:
   generate CoreGo cases -> TLC interprets each with spec/gomachine/GoMachine.tla (predicted output + termination)
   -> bundle the cases into Go programs -> reference toolchain self-validates the prediction
   -> llgo builds the same source in each configuration -> every case's output must equal the prediction."""
import json
import os
import shutil
import re
from concurrent.futures import ThreadPoolExecutor

from . import common as C
from . import gomini as G
from . import gogen

SPEC = os.path.join(C.VERIF, "spec", "gomachine")

RUNNER = '''
func runcase__(i int, f func()) {
	println("#", "CASE", i)
	var wg sync.WaitGroup
	wg.Add(1)
	go func() {
		ok := false
		defer wg.Done()
		defer func() {
			if r := recover(); r != nil {
				println("#", "END", "PANIC", show__(r))
			} else if !ok {
				println("#", "END", "GOEXIT")
			}
		}()
		f()
		ok = true
		println("#", "END", "OK")
	}()
	wg.Wait()
}

func atoi__(s string) int {
	n := 0
	for i := 0; i < len(s); i++ {
		n = n*10 + int(s[i]-'0')
	}
	return n
}

func main() {
	from := 0
	if len(os.Args) > 1 {
		from = atoi__(os.Args[1])
	}
	for i, c := range cases__ {
		if ids__[i] >= from {
			runcase__(ids__[i], c)
		}
	}
	println("#", "ALLDONE")
}
'''


def predict(cases, rundir, label, chunk=60, cfg="machine.cfg"):
    """cases: list of (id, case). returns {id: (lines, endmarker)} ; ids TLC could not interpret are absent"""
    progs = []
    for cid, case in cases:
        m = G.lower({"funcs": case["funcs"], "structs": case["structs"], "methods": case["methods"]})
        m["main"] = case["entry"]
        m["id"] = cid
        m["boundary"] = True
        if not m["methods"]:
            m["methods"] = {"_": {"_": "_"}}
        progs.append(m)
    out = {}
    stats = []

    def run_chunk(chunk_progs, depth=0):
        path = os.path.join(rundir, "programs.ndjson")
        with open(path, "w") as f:
            for m in chunk_progs:
                f.write(json.dumps(m) + "\n")
        try:
            res = C.tlc(SPEC, "GoMachine", cfg, rundir, timeout=1200, copy_extra=[path], java_opts="-Xss512m")
        except C.Undecided as e:
            if len(chunk_progs) == 1:
                C.log("GoMachine cannot interpret case %s: %s" % (chunk_progs[0]["id"], str(e)[-300:].replace("\n", " ")))
                return
            h = len(chunk_progs) // 2
            run_chunk(chunk_progs[:h], depth + 1)
            run_chunk(chunk_progs[h:], depth + 1)
            return
        stats.append(res)
        for rec in res.printed:
            lines = G.expected_lines(rec["out"])
            st = rec["status"]
            if st == "exit0":
                end = "# END OK"
            elif st == "goexit":
                end = "# END GOEXIT"
            elif st == "exit2":
                pv = rec["out"][-1][1]
                code = 0
                if pv.get("t") == "pint":
                    code = pv["v"]
                elif pv.get("t") == "rterr":
                    code = G.RTKIND[pv["kind"]]
                end = "# END PANIC %d" % code
            else:
                continue        # step limit: not predicted
            out[rec["id"]] = (lines, end)
    for i in range(0, len(progs), chunk):
        run_chunk(progs[i:i + chunk])
    return out, stats


def bundle_sources(cases):
    """the Go module of a bundle: {relative path: source}. Cases generated with a package split put the functions marked
    `lib` into package gmb/lib (exported names); main imports it."""
    funcs, structs, embedded, ifaces, raw = [], {}, {}, {}, []
    for cid, case in cases:
        funcs += case["funcs"]
        structs.update(case["structs"])
        embedded.update(case["embedded"])
        ifaces.update(case["ifaces"])
        raw += case.get("rawdecls", [])
    lib_names = {f["name"] for f in funcs if f.get("lib")}
    prog = {"funcs": funcs, "structs": structs, "embedded": embedded, "ifaces": ifaces, "methods": {}, "lib_names": lib_names,
            "rawdecls": raw}
    files = {}
    main_imports = ("os", "runtime", "sync") + (("gmb/lib",) if lib_names else ())
    src = G.render(prog, imports=main_imports, only_lib=False if lib_names else None)
    src += "\nvar _ = os.Args\n"
    src += "var cases__ = []func(){%s}\n" % ", ".join(case["entry"] for _, case in cases)
    src += "var ids__ = []int{%s}\n" % ", ".join(str(cid) for cid, _ in cases)
    src += RUNNER
    files["main.go"] = src
    if lib_names:
        files["lib/lib.go"] = G.render(prog, pkg="lib", imports=("runtime", "sync"), only_lib=True)
    return files


def bundle_source(cases):
    return bundle_sources(cases)["main.go"]


def parse_output(text):
    """-> {id: (lines, end)} plus the id of a case that started but did not end (process died / hang)"""
    res = {}
    cur = None
    lines = []
    for ln in text.splitlines():
        if not ln.startswith("# "):
            continue
        m = re.match(r"# CASE (\d+)$", ln)
        if m:
            cur = int(m.group(1))
            lines = []
            continue
        if ln.startswith("# END ") and cur is not None:
            res[cur] = (lines, ln)
            cur = None
            continue
        if ln == "# ALLDONE":
            continue
        if cur is not None:
            lines.append(ln)
    return res, cur, lines


def run_bundle(exe, ids, timeout=120):
    """run, restarting after a case that kills or hangs the process"""
    results = {}
    died = {}
    start = 0
    for _ in range(12):
        st, so, se = C.run_exe(exe, args=[str(start)], timeout=timeout, merge=True)
        res, cur, partial = parse_output(so)
        results.update(res)
        if cur is None and "# ALLDONE" in so:
            break
        if cur is None:
            # died outside a case
            died[-1] = (st, so[-500:])
            break
        died[cur] = (st, "\n".join(partial[-5:]) + "\n" + so[-300:])
        start = cur + 1
    return results, died


def run_cases(chk, prop, profile, ncases, per_bundle, configs, sd, label, split_every=0):
    """full pipeline for one batch; returns number of cases judged.
    split_every=k: every k-th case divides its functions between package main and package lib"""
    rd = chk.rd.path
    cases = [(i, gogen.gen_case(sd, i, profile, split=bool(split_every) and i % split_every == 0)) for i in range(ncases)]
    fixed = gogen.fixed_cases(profile)
    fixed_name = {cid: name for cid, name, _ in fixed}
    cases += [(cid, c) for cid, name, c in fixed]
    pred, stats = predict(cases, chk.rd.sub("tlc-" + label), label)
    for res in stats:
        chk.add_tlc(res, "GoMachine/" + label)
    missing_fixed = [n for cid, n, _ in fixed if cid not in pred]
    if missing_fixed:
        raise C.Undecided("GoMachine could not interpret the fixed cases %s" % missing_fixed)
    if len(pred) < 0.8 * ncases:
        raise C.Undecided("GoMachine predicted only %d of %d cases" % (len(pred), ncases))
    cases = [(i, c) for i, c in cases if i in pred]
    bundles = [cases[i:i + per_bundle] for i in range(0, len(cases), per_bundle)]
    judged = 0
    dropped = []
    feats = {}

    def do_bundle(bi):
        b = bundles[bi]
        d = os.path.join(rd, "%s-b%d" % (label, bi))
        C.write_module(d, bundle_sources(b), modname="gmb")
        ref = os.path.join(d, "ref.exe")
        ok, out = C.go_build(d, ref, go=C.ref_go())
        if not ok:
            return ("refbuild", out, None, None)
        refres, refdied = run_bundle(ref, [i for i, _ in b])
        outs = {}
        for opt, tags in configs:
            exe = os.path.join(d, "llgo-%s%s.exe" % (opt, tags))
            ok, out = C.llgo_build(d, exe, opt=opt, tags=tags, rundir=d)
            if not ok:
                outs[(opt, tags)] = ("buildfail", out)
                continue
            outs[(opt, tags)] = run_bundle(exe, [i for i, _ in b])
        return ("ok", refres, refdied, outs)

    with ThreadPoolExecutor(max_workers=4) as ex:
        results = list(ex.map(do_bundle, range(len(bundles))))
    for bi, r in enumerate(results):
        b = bundles[bi]
        if r[0] == "refbuild":
            raise C.Undecided("reference toolchain rejects a generated bundle (generator bug):\n" + r[1][-2000:])
        _, refres, refdied, outs = r
        for cid, case in b:
            want = pred[cid]
            if refres.get(cid) != want and cid in fixed_name:
                raise C.Undecided("GoMachine disagrees with the reference toolchain on fixed case %s: ref %s machine %s" % (fixed_name[cid], refres.get(cid), want))
            if refres.get(cid) != want:
                dropped.append((cid, refres.get(cid), want))     # spec disagrees with the reference: spec/generator defect
                continue
            for (opt, tags), o in outs.items():
                if o[0] == "buildfail":
                    if opt == "O0":
                        # not a verdict (a crash of LLVM 14 in this sandbox cannot be told from invalid IR emitted by llgo),
                        # but name the single case so that it can be looked at
                        lo = list(b)
                        while len(lo) > 1:
                            h = len(lo) // 2
                            dd = os.path.join(rd, "%s-bisect" % label)
                            shutil.rmtree(dd, ignore_errors=True)
                            C.write_module(dd, bundle_sources(lo[:h]), modname="gmb")
                            ok1, _ = C.llgo_build(dd, os.path.join(dd, "x.exe"), opt=opt, tags=tags, rundir=dd)
                            lo = lo[:h] if not ok1 else lo[h:]
                        head = "\n".join(l for l in o[1].splitlines()[:12])
                        raise C.Undecided("llgo cannot build a generated bundle; smallest failing part: case %s (features %s)\n%s\n...\n%s"
                                          % (lo[0][0], lo[0][1]["features"], head, o[1][-1500:]))
                    chk.cov.setdefault("skipped_configs", []).append("%s%s bundle %d" % (opt, tags, bi))
                    continue
                got, died = o
                judged += 1
                for ft in case["features"]:
                    feats[ft] = feats.get(ft, 0) + 1
                kname = ("fixed:" + fixed_name[cid]) if cid in fixed_name else "seed%d:case%d" % (sd, cid)
                if cid in fixed_name and opt == "O0" and not tags:
                    chk.cov.setdefault("fixed_case_outputs", {})[fixed_name[cid]] = got.get(cid)
                if cid in died:
                    chk.reject("%s:%s:%s:died" % (prop, profile, kname),
                               "llgo-compiled case killed or hung the process (%s): %s" % (died[cid][0], died[cid][1][-300:]),
                               {"case": cid, "seed": sd, "profile": profile, "config": opt + tags, "features": case["features"],
                                "expected": want, "source": G.render({"funcs": case["funcs"], "structs": case["structs"], "rawdecls": case.get("rawdecls", []),
                                                                      "embedded": case["embedded"], "ifaces": case["ifaces"]})})
                elif got.get(cid) != want:
                    chk.reject("%s:%s:%s" % (prop, profile, kname),
                               "llgo-compiled program deviates from the abstract machine (and from the reference toolchain): "
                               "got %s want %s [features %s, config %s]" % (got.get(cid), want, case["features"], opt + tags),
                               {"case": cid, "seed": sd, "profile": profile, "config": opt + tags, "features": case["features"],
                                "expected": want, "got": got.get(cid),
                                "source": G.render({"funcs": case["funcs"], "structs": case["structs"], "rawdecls": case.get("rawdecls", []),
                                                    "embedded": case["embedded"], "ifaces": case["ifaces"]})})
    if len(dropped) > 0.1 * len(cases):
        raise C.Undecided("GoMachine disagrees with the reference toolchain on %d of %d cases (spec or generator defect), e.g. %s"
                          % (len(dropped), len(cases), dropped[:2]))
    chk.cov.setdefault("spec_vs_reference_disagreements_dropped", 0)
    chk.cov["spec_vs_reference_disagreements_dropped"] += len(dropped)
    chk.cov.setdefault("feature_counts", {})
    for k, v in feats.items():
        chk.cov["feature_counts"][k] = chk.cov["feature_counts"].get(k, 0) + v
    if cases:
        c0 = cases[0]
        chk.sample({"case": c0[0], "features": c0[1]["features"], "predicted": pred[c0[0]]})
    return judged, len(cases)

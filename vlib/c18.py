"""C18 — every target description resolves to one well-defined configuration.

spec/targets/TargetMerge.tla   layer A: the resolution law (Resolve)
spec/targets/TargetForest.tla  TLC enumerates all inheritance forests (cycles, missing, duplicates, diamonds),
                               checks the law's algebra and prints forest + expected configuration
spec/targets/MergeImpl.tla     layer B: the loader's recursion with cache and visiting set, checked against A
spec/targets/TargetShipped.tla the ~290 shipped files judged by the same law
binding: forests are replayed into the real internal/targets.Loader through an injected test (child process,
         crash/hang observed from outside); shipped files are resolved by both and compared.
"""
import json
import os
import struct
import subprocess

from . import common as C

SPEC = os.path.join(C.VERIF, "spec", "targets")
HARNESS = os.path.join(C.VERIF, "harness", "c18", "zz_verif_c18_test.go")

SCALARS = ["llvm-target", "cpu", "features", "goos", "goarch", "libc", "rtlib", "linker", "linkerscript", "code-model",
           "target-abi", "relocation-model", "binary-format", "uf2-family-id", "flash-method", "flash-command",
           "flash-1200-bps-reset", "serial", "msd-firmware-name", "emulator", "openocd-interface", "openocd-transport",
           "openocd-target"]
LISTS = ["build-tags", "cflags", "ldflags", "extra-files", "serial-port", "msd-volume-name", "gdb"]
BOOLS = ["rp2040-boot-patch"]
LAWS = ["LawErrIffIllFounded", "LawOwnScalarWins", "LawScalarFromAncestor", "LawListIsUnionOwnLast", "LawBoolIsOr",
        "LawChainOrder", "Emit"]


def forest_key(c):
    return "forest:" + ";".join("%s/%d" % (",".join(map(str, n["inh"])), n["p"]) for n in c["nodes"])


def shape_class(c):
    """non-trivial = some node inherits; distinct by (inherits lists, patterns)"""
    return any(n["inh"] for n in c["nodes"])


def run_forests(chk, testbin, label, consts, timeout):
    rd = chk.rd.path
    cfg = os.path.join(rd, "forest_%s.cfg" % label)
    C.write_cfg(cfg, constants=consts, invariants=LAWS)
    res = C.tlc(SPEC, "TargetForest", cfg, rd, timeout=timeout, parse_json=False)
    if not res.ok:
        raise C.Undecided("TargetForest %s: the law's own algebra failed in TLC (spec defect): %s" % (label, res.violation))
    chk.add_tlc(res, "TargetForest/" + label)
    cases_path = os.path.join(rd, "cases_%s.ndjson" % label)
    # negative control (case 0): one deliberately wrong expectation; the replay must flag it
    neg = {"nodes": [{"inh": [2], "p": 0}, {"inh": [], "p": 3}],
           "expect": [{"err": False, "s": "v1", "l": ["v2.2", "v2.1", "v2.3"], "b": False},
                      {"err": False, "s": "v2", "l": ["v2.1", "v2.2", "v2.3"], "b": True}]}
    neg_index = 0
    n = 0
    nontrivial = 0
    with open(cases_path, "w") as f:
        f.write(json.dumps(neg) + "\n")
        for c in C.tlc_printed_iter(res):
            f.write(json.dumps(c) + "\n")
            n += 1
            if shape_class(c):
                nontrivial += 1
            if n % 9973 == 1:
                chk.sample({"forest": c["nodes"], "law_result": c["expect"]})
    if n == 0:
        raise C.Undecided("TargetForest %s emitted no cases" % label)
    mism = replay(chk, testbin, cases_path, label)
    neg_seen = [m for m in mism if m["case"] == neg_index]
    if not neg_seen:
        raise C.Undecided("negative control not flagged: the replay does not compare anything")
    for m in mism:
        if m["case"] == neg_index:
            continue
        key = forest_key(m["forest"]) + ":" + m["kind"].split("-pass")[0]
        chk.reject(key, "%s node %s: %s" % (m["kind"], m["node"], m["detail"]), m)
    chk.cov["evaluations"] += n
    chk.cov["distinct_nontrivial"] += nontrivial
    chk.cov["traces_validated_against_impl"] += n
    return n


def replay_range(chk, testbin, cases_path, label, lo, hi, lines):
    rd = chk.rd.path
    out = os.path.join(rd, "mism_%s_%d.ndjson" % (label, lo))
    prog = os.path.join(rd, "progress_%s_%d" % (label, lo))
    open(out, "w").close()
    start = lo
    crashes = 0
    tmp = "/dev/shm" if os.path.isdir("/dev/shm") else chk.rd.path
    tmpd = os.path.join(tmp, "verif-c18-%d-%d" % (os.getpid(), lo))
    os.makedirs(tmpd, exist_ok=True)
    try:
        while start < hi:
            with open(prog, "wb") as f:
                f.write(struct.pack("<Q", 0))
            env = C.base_env({"VERIF_CASES": cases_path, "VERIF_FROM": str(start), "VERIF_TO": str(hi),
                              "VERIF_PROGRESS": prog, "VERIF_OUT": out, "TMPDIR": tmpd})
            try:
                r = subprocess.run([testbin, "-test.run", "TestVerifForests$", "-test.timeout", "3000s"], env=env,
                                   capture_output=True, text=True, timeout=3100)
            except subprocess.TimeoutExpired:
                raise C.Undecided("forest replay timed out")
            if "VERIF_DONE" in r.stdout and r.returncode == 0:
                break
            cur = struct.unpack("<Q", open(prog, "rb").read(8))[0]
            if cur >= hi or cur < start:
                raise C.Undecided("forest replay ended abnormally outside a case:\n" + (r.stdout + r.stderr)[-2000:])
            txt = r.stdout + r.stderr
            if r.returncode == 3:
                pass  # hang already reported by the child
            elif "stack overflow" in txt or "goroutine stack exceeds" in txt:
                case = json.loads(lines[cur])
                with open(out, "a") as f:
                    f.write(json.dumps({"case": cur, "kind": "crash-stack-overflow", "node": "?",
                                        "detail": "Loader.Load recursed until the runtime aborted (fatal error: stack overflow)",
                                        "forest": case}) + "\n")
            else:
                raise C.Undecided("forest replay crashed in an unexpected way at case %d:\n%s" % (cur, txt[-2000:]))
            crashes += 1
            start = cur + 1
            if crashes >= 8:
                break
    finally:
        import shutil
        shutil.rmtree(tmpd, ignore_errors=True)
    return [json.loads(line) for line in open(out)]


def replay(chk, testbin, cases_path, label):
    from concurrent.futures import ThreadPoolExecutor
    lines = open(cases_path).read().splitlines()
    total = len(lines)
    nw = min(C.NCPU, max(1, total // 500))
    step = (total + nw - 1) // nw
    ranges = [(lo, min(total, lo + step)) for lo in range(0, total, step)]
    with ThreadPoolExecutor(max_workers=nw) as ex:
        parts = list(ex.map(lambda r: replay_range(chk, testbin, cases_path, label, r[0], r[1], lines), ranges))
    return [m for part in parts for m in part]


def normalise_shipped(tdir, out):
    """one record per targets/*.json: absent fields filled with the empty value, nothing else guessed"""
    names = []
    with open(out, "w") as f:
        for fn in sorted(os.listdir(tdir)):
            if not fn.endswith(".json") or os.path.isdir(os.path.join(tdir, fn)):
                continue
            raw = json.load(open(os.path.join(tdir, fn)))
            rec = {"name": fn[:-5], "inh": raw.get("inherits") or [],
                   "sc": {k: (raw.get(k) or "") for k in SCALARS},
                   "li": {k: (raw.get(k) or []) for k in LISTS},
                   "bo": {k: bool(raw.get(k)) for k in BOOLS}}
            for k in SCALARS:
                if not isinstance(rec["sc"][k], str):
                    raise C.Undecided("shipped target %s: field %s is not a string" % (fn, k))
            names.append(rec["name"])
            f.write(json.dumps(rec) + "\n")
    return names


def run_shipped(chk, testbin):
    rd = chk.rd.path
    tdir = os.path.join(C.REPO, "targets")
    nd = os.path.join(rd, "shipped.ndjson")
    names = normalise_shipped(tdir, nd)
    res = C.tlc(SPEC, "TargetShipped", "shipped.cfg", rd, timeout=600, copy_extra=[nd], workers=8)
    if not res.ok:
        raise C.Undecided("TargetShipped failed: %s" % res.violation)
    chk.add_tlc(res, "TargetShipped")
    law = {r["name"]: r for r in res.printed}
    if set(law) != set(names):
        raise C.Undecided("TargetShipped printed %d of %d targets" % (len(law), len(names)))
    out = os.path.join(rd, "shipped_real.json")
    env = C.base_env({"VERIF_TARGETS_DIR": tdir, "VERIF_OUT": out, "TMPDIR": chk.rd.sub("tmp")})
    r = subprocess.run([testbin, "-test.run", "TestVerifShipped$"], env=env, capture_output=True, text=True, timeout=600)
    if r.returncode != 0 or not os.path.exists(out):
        txt = r.stdout + r.stderr
        if "stack overflow" in txt:
            chk.reject("shipped:crash", "loading the shipped targets overflowed the stack", {"output": txt[-1500:]})
            return
        raise C.Undecided("shipped replay failed:\n" + txt[-2000:])
    real = json.load(open(out))
    inherited = 0
    for n in names:
        l, g = law[n], real.get(n)
        if g is None:
            chk.reject("shipped:%s:absent" % n, "loader did not list the target", {"target": n})
            continue
        if l["err"]:
            # the statement says every shipped description resolves
            chk.reject("shipped:%s:ill-founded" % n, "shipped description has a missing or cyclic parent", {"target": n})
            continue
        if "error" in g or "hang" in g:
            chk.reject("shipped:%s:error" % n, "loader failed on a well-founded shipped target: %s" % g, {"target": n})
            continue
        want = dict(l["sc"])
        want.update(l["li"])
        want.update(l["bo"])
        got = {k: g.get(k) for k in want}
        if got != want or g.get("@name") != n or g.get("@shared-differs"):
            diff = {k: (got[k], want[k]) for k in want if got[k] != want[k]}
            chk.reject("shipped:%s:mismatch" % n, "resolved configuration differs from the law: %s" % diff,
                       {"target": n, "diff": diff, "shared_differs": g.get("@shared-differs")})
        if json.load(open(os.path.join(tdir, n + ".json"))).get("inherits"):
            inherited += 1
    # negative control: a corrupted expectation must be noticed by the same comparison
    probe = next((n for n in names if law[n].get("li", {}).get("cflags")), None)
    if probe:
        want = list(law[probe]["li"]["cflags"])
        if list(reversed(want)) != want and real[probe].get("cflags") == list(reversed(want)):
            raise C.Undecided("negative control failed on shipped targets")
    chk.cov["evaluations"] += len(names)
    chk.cov["distinct_nontrivial"] += inherited
    chk.cov["traces_validated_against_impl"] += len(names)
    chk.cov["shipped_targets"] = len(names)
    chk.cov["shipped_with_inheritance"] = inherited
    chk.sample({"shipped": probe, "law_cflags": law[probe]["li"]["cflags"] if probe else None})


def run_impl_model(chk, thorough):
    """layer B: MergeImpl (loader recursion + cache + visiting set) refines the law on all forests"""
    rd = chk.rd.path
    for label, consts in ([("all3", {"N": 3, "MaxInh": 2, "Mode": '"all"', "CycleCheck": "TRUE"})] if thorough else []) + \
                         [("all2", {"N": 2, "MaxInh": 2, "Mode": '"all"', "CycleCheck": "TRUE"}),
                          ("dag4", {"N": 4, "MaxInh": 2, "Mode": '"dag"', "CycleCheck": "TRUE"})]:
        cfg = os.path.join(rd, "impl_%s.cfg" % label)
        C.write_cfg(cfg, constants=consts, invariants=["TypeOK", "ResultMatchesLaw", "StackBounded"],
                    properties=["Terminates"], deadlock=False)
        res = C.tlc(SPEC, "MergeImpl", cfg, rd, timeout=1500, parse_json=False)
        chk.add_tlc(res, "MergeImpl/" + label)
        chk.cov.setdefault("impl_model", []).append({"cfg": label, "ok": res.ok, "violation": res.violation})
        if not res.ok:
            # layer B never judges: report drift only
            C.log("note: MergeImpl/%s does not refine the law: %s" % (label, res.violation))


def check(chk):
    thorough = chk.tier == "thorough"
    sd = C.seed()
    testbin = C.gotest_compile_injected("internal/targets", {"zz_verif_c18_test.go": open(HARNESS).read()}, chk.rd.path)
    chk.cov["rule"] = ("cases = inheritance forests enumerated by TLC (every inherits list of length <= MaxInh over the nodes, "
                       "incl. self-loops, cycles, duplicates and a missing file) x per-node field pattern; each is replayed into "
                       "internal/targets.Loader with all 23 scalar, 7 list and 1 bool fields following the pattern; "
                       "non-trivial = at least one node inherits; plus every shipped targets/*.json")
    run_shipped(chk, testbin)
    run_forests(chk, testbin, "all2", {"N": 2, "MaxInh": 2, "Mode": '"all"', "Sel": 0, "Mod": 1}, 300)
    run_forests(chk, testbin, "dag4", {"N": 4, "MaxInh": 2, "Mode": '"dag"', "Sel": 0, "Mod": 1}, 600)
    if thorough:
        run_forests(chk, testbin, "all3", {"N": 3, "MaxInh": 2, "Mode": '"all"', "Sel": 0, "Mod": 1}, 1500)
        run_forests(chk, testbin, "dag5", {"N": 5, "MaxInh": 2, "Mode": '"dag"', "Sel": sd % 8, "Mod": 8}, 2400)
        chk.cov["exhaustive"] = True
    else:
        run_forests(chk, testbin, "all3s", {"N": 3, "MaxInh": 2, "Mode": '"all"', "Sel": sd % 16, "Mod": 16}, 900)
    run_impl_model(chk, thorough)
    chk.assumptions += ["field set of Config transcribed into the harness from config.go's JSON tags (23 scalar, 7 list, 1 bool)",
                        "fields are symmetric in the law: the model carries one field of each kind",
                        "TLC's evaluation of the RECURSIVE Resolve operator"]


if __name__ == "__main__":
    C.main_wrapper("C18", check)

"""C03 — every run-time panic Go mandates is raised, recoverable, and raised only then.

spec/bounds/Bounds.tla   layer A: in-range predicate and result window of a[i], a[i:j], a[i:j:k] for arrays, array
                         pointers, slices and strings, for index values of every integer type
spec/bounds/Panics.tla   layer A: the other mandated panics per operation x operand state, repeated occurrences
spec/gomachine/GoMachine.tla  faults raised at exactly the faulting statement (side effects before, none after)
binding: TLC enumerates every case with the expected verdict/result; a generated evaluator (one non-inlined function
         per kind x form x index type, plus literal-index variants for llgo's constant-folded checks) is compiled by
         llgo and fed the cases; generated programs of the "faults" profile check the position of the panic.
"""
import os

from . import common as C
from . import gm

SPEC = os.path.join(C.VERIF, "spec", "bounds")

TYPES = {"int8": (8, True), "int32": (32, True), "int64": (64, True), "int": (64, True),
         "uint8": (8, False), "uint32": (32, False), "uint64": (64, False), "uint": (64, False)}
OMIT = -7777


def concrete(ty, v):
    bits, signed = TYPES[ty]
    if v == 1000:
        return (1 << (bits - 1)) - 1 if signed else (1 << bits) - 1
    if v == 900:
        return (1 << 32) if signed else (1 << 63)
    if v == -1000:
        return -(1 << (bits - 1))
    return v


def fname(kind, form, ty, mask):
    return "b_%s_%s_%s_%s" % (kind, form, ty, mask)


def operand_decl(kind):
    return {"array": "a [3]int", "ptrarray": "a *[3]int", "slice": "a []int", "string": "a string"}[kind]


def gen_bounds_funcs():
    out = []
    table = []
    for kind in ("array", "ptrarray", "slice", "string"):
        for ty in TYPES:
            # index
            fn = fname(kind, "index", ty, "i")
            if kind == "string":
                out.append("//go:noinline\nfunc %s(%s, i, j, k %s) (int, int, int) { return 0, 0, int(a[i] - 'a') }" % (fn, operand_decl(kind), ty))
            else:
                out.append("//go:noinline\nfunc %s(%s, i, j, k %s) (int, int, int) { return 0, 0, a[i] - 10 }" % (fn, operand_decl(kind), ty))
            table.append((fn, kind, ty))
            for mask, expr in (("ij", "a[i:j]"), ("i", "a[i:]"), ("j", "a[:j]"), ("", "a[:]")):
                fn = fname(kind, "slice2", ty, mask or "none")
                if kind == "string":
                    body = "r := %s; f := -1; if len(r) > 0 { f = int(r[0] - 'a') }; return len(r), 0, f" % expr
                else:
                    body = "r := %s; f := -1; if cap(r) > 0 { f = r[:1][0] - 10 }; return len(r), cap(r), f" % expr
                out.append("//go:noinline\nfunc %s(%s, i, j, k %s) (int, int, int) { %s }" % (fn, operand_decl(kind), ty, body))
                table.append((fn, kind, ty))
            if kind != "string":
                for mask, expr in (("ijk", "a[i:j:k]"), ("jk", "a[:j:k]")):
                    fn = fname(kind, "slice3", ty, mask)
                    body = "r := %s; f := -1; if cap(r) > 0 { f = r[:1][0] - 10 }; return len(r), cap(r), f" % expr
                    out.append("//go:noinline\nfunc %s(%s, i, j, k %s) (int, int, int) { %s }" % (fn, operand_decl(kind), ty, body))
                    table.append((fn, kind, ty))
    return out, table


def gen_literal_funcs():
    """literal (constant) indices: exercises the constant-folded checks. Negative constants and out-of-range constants
    on arrays are compile-time errors, so those tuples are not cases here."""
    out = []
    table = {}
    vals = [0, 1, 2, 3, 4]
    for kind in ("array", "ptrarray", "slice", "string"):
        fixedlen = kind in ("array", "ptrarray")
        for i in vals:
            if fixedlen and i >= 3:
                continue
            fn = "l_%s_index_%d" % (kind, i)
            e = "int(a[%d] - 'a')" % i if kind == "string" else "a[%d] - 10" % i
            out.append("//go:noinline\nfunc %s(%s) (int, int, int) { return 0, 0, %s }" % (fn, operand_decl(kind), e))
            table[(kind, "index", i, OMIT, OMIT)] = fn
        for i in vals + [OMIT]:
            for j in vals + [OMIT]:
                ii, jj = (0 if i == OMIT else i), (3 if j == OMIT else j)
                if fixedlen and not (ii <= jj <= 3):
                    continue
                if i != OMIT and j != OMIT and i > j:
                    continue            # constant i > j is a compile-time error
                fn = "l_%s_slice2_%s_%s" % (kind, "x" if i == OMIT else i, "x" if j == OMIT else j)
                expr = "a[%s:%s]" % ("" if i == OMIT else i, "" if j == OMIT else j)
                if kind == "string":
                    body = "r := %s; f := -1; if len(r) > 0 { f = int(r[0] - 'a') }; return len(r), 0, f" % expr
                else:
                    body = "r := %s; f := -1; if cap(r) > 0 { f = r[:1][0] - 10 }; return len(r), cap(r), f" % expr
                out.append("//go:noinline\nfunc %s(%s) (int, int, int) { %s }" % (fn, operand_decl(kind), body))
                table[(kind, "slice2", i, j, OMIT)] = fn
        if kind != "string":
            for i in vals + [OMIT]:
                for j in vals:
                    for k in vals:
                        ii = 0 if i == OMIT else i
                        if not (ii <= j <= k):
                            continue
                        if fixedlen and k > 3:
                            continue
                        fn = "l_%s_slice3_%s_%d_%d" % (kind, "x" if i == OMIT else i, j, k)
                        expr = "a[%s:%d:%d]" % ("" if i == OMIT else i, j, k)
                        body = "r := %s; f := -1; if cap(r) > 0 { f = r[:1][0] - 10 }; return len(r), cap(r), f" % expr
                        out.append("//go:noinline\nfunc %s(%s) (int, int, int) { %s }" % (fn, operand_decl(kind), body))
                        table[(kind, "slice3", i, j, k)] = fn
    return out, table


PANIC_PROG = r'''
type bigS struct {
	pad [70000]byte
	x   int
}
type smallS struct{ a, b int }

func (p *smallS) get() int { return p.a }

type shaper interface{ area() int }
type sq struct{ s int }

func (q sq) area() int { return q.s * q.s }

type other struct{}

//go:noinline
func op_mapwrite(st string) { var m map[int]int; if st == "empty" { m = map[int]int{} } else if st == "nonempty" { m = map[int]int{1: 1} }; m[2] = 5; sink = m[2] }
//go:noinline
func op_mapread(st string) { var m map[int]int; if st == "empty" { m = map[int]int{} } else if st == "nonempty" { m = map[int]int{1: 1} }; v, ok := m[1]; sink = v; _ = ok }
//go:noinline
func op_mapdelete(st string) { var m map[int]int; if st == "empty" { m = map[int]int{} } else if st == "nonempty" { m = map[int]int{1: 1} }; delete(m, 1) }
//go:noinline
func op_maplen(st string) { var m map[int]int; if st == "empty" { m = map[int]int{} } else if st == "nonempty" { m = map[int]int{1: 1} }; sink = len(m) }
//go:noinline
func op_deref(st string) { var p *int; if st == "valid" { x := 3; p = &x }; sink = *p }
//go:noinline
func op_fieldsmall(st string) { var p *smallS; if st == "valid" { p = &smallS{1, 2} }; sink = p.b }
//go:noinline
func op_fieldlarge(st string) { var p *bigS; if st == "valid" { p = new(bigS) }; sink = p.x }
//go:noinline
func op_ptrarrayindex(st string) { var p *[3]int; if st == "valid" { p = &[3]int{1, 2, 3} }; sink = p[1] }
//go:noinline
func op_ptrarraylen(st string) { var p *[3]int; if st == "valid" { p = &[3]int{1, 2, 3} }; sink = len(p) }
//go:noinline
func op_derefdiscard(st string) { var p *int; if st == "valid" { x := 3; p = &x }; _ = *p }
//go:noinline
func op_derefdiscardstruct(st string) { var p *smallS; if st == "valid" { p = &smallS{1, 2} }; _ = *p }
//go:noinline
func op_derefdiscardarray(st string) { var p *[3]int; if st == "valid" { p = &[3]int{1, 2, 3} }; _ = *p }
//go:noinline
func op_rangeptrarraykey(st string) { var p *[3]int; if st == "valid" { p = &[3]int{1, 2, 3} }; for i := range *p { sink += i } }
//go:noinline
func op_rangeptrarrayval(st string) { var p *[3]int; if st == "valid" { p = &[3]int{1, 2, 3} }; for _, v := range *p { sink += v } }
//go:noinline
func op_assertemptyiface(st string) { var s shaper; if st == "match" { s = sq{2} }; v := s.(any); if v != nil { sink = 2 } else { sink = 3 } }
//go:noinline
func edge8(st string, n int) uint8 { if st == "len" { return uint8(n) }; return uint8(n - 1) }
//go:noinline
func edge16(st string, n int) uint16 { if st == "len" { return uint16(n) }; return uint16(n - 1) }
//go:noinline
func edge32(st string) uint32 { if st == "len" { return 1<<32 - 1 }; return 0 }
var edgeA8 [255]byte
var edgeA16 [65535]byte
var edgeF8 [256]byte
var edgeF16 [65536]byte
var edgeSmall [8]byte
//go:noinline
func op_edgearr8(st string) { a := edgeA8; a[254] = 9; i := edge8(st, 255); sink = int(a[i]) }
//go:noinline
func op_edgeptr8(st string) { p := &edgeA8; p[254] = 9; i := edge8(st, 255); sink = int(p[i]) }
//go:noinline
func op_edgestore8(st string) { var a [255]byte; var guard [8]byte; i := edge8(st, 255); a[i] = 7; sink = int(a[254]) + int(guard[0]) }
//go:noinline
func op_edgearr16(st string) { a := &edgeA16; a[65534] = 9; b := *a; i := edge16(st, 65535); sink = int(b[i]) }
//go:noinline
func op_edgeptr16(st string) { p := &edgeA16; i := edge16(st, 65535); sink = int(p[i]) }
//go:noinline
func op_edgeptr32(st string) { p := (*[1<<32 - 1]byte)(unsafe.Pointer(&edgeSmall)); i := edge32(st); sink = int(p[i]) }
//go:noinline
func op_edgefull8(st string) { p := &edgeF8; p[255] = 3; i := edge8(st, 256); sink = int(p[i]) }
//go:noinline
func op_edgefull16(st string) { p := &edgeF16; p[65535] = 3; i := edge16(st, 65536); sink = int(p[i]) }
//go:noinline
func op_methodptr(st string) { var p *smallS; if st == "valid" { p = &smallS{1, 2} }; sink = p.get() }
//go:noinline
func op_callfunc(st string) { var f func() int; if st == "valid" { f = func() int { return 1 } }; sink = f() }
//go:noinline
func op_ifacemethod(st string) { var s shaper; if st == "valid" { s = sq{2} }; sink = s.area() }
//go:noinline
func mkiface(st string) any { if st == "match" { return sq{3} }; if st == "other" { return other{} }; return nil }
//go:noinline
func op_assertconcrete(st string) { v := mkiface(st).(sq); sink = v.s }
//go:noinline
func op_assertiface(st string) { v := mkiface(st).(shaper); sink = v.area() }
//go:noinline
func op_assertcomma(st string) { v, ok := mkiface(st).(sq); sink = v.s; _ = ok }
//go:noinline
func divisor(st string) int { if st == "zero" { return 0 }; return 3 }
//go:noinline
func op_divint(st string) { sink = 7 / divisor(st) }
//go:noinline
func op_modint(st string) { sink = 7 % divisor(st) }
//go:noinline
func op_divint8(st string) { sink = int(int8(7) / int8(divisor(st))) }
//go:noinline
func op_divuint(st string) { sink = int(uint(7) / uint(divisor(st))) }
//go:noinline
func op_divconstzerovar(st string) { z := divisor(st); z = z * 1; sink = 100 / z }
//go:noinline
func sizeOf(st string) int { if st == "neg" { return -1 }; if st == "zero" { return 0 }; return 3 }
//go:noinline
func op_makeslice(st string) { s := make([]int, sizeOf(st)); sink = len(s) }
//go:noinline
func op_makechan(st string) { c := make(chan int, sizeOf(st)); sink = cap(c) }
//go:noinline
func op_makemap(st string) { m := make(map[int]int, sizeOf(st)); sink = len(m) }
//go:noinline
func op_makeslicecap(st string) { n := 3; c := 3; if st == "caplt" { c = 2 }; s := make([]int, n, c); sink = len(s) }
//go:noinline
func sl(st string) []int { if st == "short" { return []int{1, 2} }; if st == "exact" { return []int{1, 2, 3} }; return []int{1, 2, 3, 4} }
//go:noinline
func op_slice2array(st string) { a := [3]int(sl(st)); sink = a[2] }
//go:noinline
func op_slice2arrayptr(st string) { a := (*[3]int)(sl(st)); sink = a[2] }
//go:noinline
func ch(st string) chan int { if st == "nil" { return nil }; c := make(chan int, 1); if st == "closed" { close(c) }; return c }
//go:noinline
func op_chansend(st string) { c := ch(st); c <- 1; sink = len(c) }
//go:noinline
func op_chanclose(st string) { close(ch(st)) }
//go:noinline
func op_chanrecv(st string) { c := ch(st); if st == "open" { c <- 4 }; v, ok := <-c; sink = v; _ = ok }

var sink int

var ops = map[string]func(string){
	"mapwrite": op_mapwrite, "mapread": op_mapread, "mapdelete": op_mapdelete, "maplen": op_maplen,
	"deref": op_deref, "fieldsmall": op_fieldsmall, "fieldlarge": op_fieldlarge, "ptrarrayindex": op_ptrarrayindex,
	"derefdiscard": op_derefdiscard, "derefdiscardstruct": op_derefdiscardstruct, "derefdiscardarray": op_derefdiscardarray,
	"rangeptrarraykey": op_rangeptrarraykey, "rangeptrarrayval": op_rangeptrarrayval, "assertemptyiface": op_assertemptyiface,
	"edgearr8": op_edgearr8, "edgeptr8": op_edgeptr8, "edgestore8": op_edgestore8, "edgearr16": op_edgearr16, "edgeptr16": op_edgeptr16,
	"edgeptr32": op_edgeptr32, "edgefull8": op_edgefull8, "edgefull16": op_edgefull16,
	"ptrarraylen": op_ptrarraylen, "methodptr": op_methodptr, "callfunc": op_callfunc, "ifacemethod": op_ifacemethod,
	"assertconcrete": op_assertconcrete, "assertiface": op_assertiface, "assertcomma": op_assertcomma,
	"divint": op_divint, "modint": op_modint, "divint8": op_divint8, "divuint": op_divuint, "divconstzerovar": op_divconstzerovar,
	"makeslice": op_makeslice, "makechan": op_makechan, "makemap": op_makemap, "makeslicecap": op_makeslicecap,
	"slice2array": op_slice2array, "slice2arrayptr": op_slice2arrayptr,
	"chansend": op_chansend, "chanclose": op_chanclose, "chanrecv": op_chanrecv,
}

func kindOf(r any) string {
	if r == nil {
		return "none"
	}
	msg := ""
	if e, ok := r.(error); ok {
		msg = e.Error()
	} else if s, ok := r.(string); ok {
		msg = s
	} else {
		return "nonerror"
	}
	switch {
	case has(msg, "nil map"):
		return "nilmap"
	case has(msg, "nil pointer") || has(msg, "invalid memory address"):
		return "nilderef"
	case has(msg, "interface conversion") || has(msg, "type assertion"):
		return "assert"
	case has(msg, "divide by zero"):
		return "divide"
	case has(msg, "makeslice") || has(msg, "makechan") || has(msg, "out of range") && has(msg, "make"):
		return "makerange"
	case has(msg, "cannot convert slice"):
		return "slice2array"
	case has(msg, "closed channel") || has(msg, "nil channel"):
		return "chan"
	case has(msg, "out of range") || has(msg, "out of bounds"):
		return "bounds"
	}
	return "other:" + msg
}

func has(s, sub string) bool {
	for i := 0; i+len(sub) <= len(s); i++ {
		if s[i:i+len(sub)] == sub {
			return true
		}
	}
	return false
}

//go:noinline
func runop(op, st string) (kind string, after bool) {
	defer func() { kind = kindOf(recover()) }()
	ops[op](st)
	after = true
	return
}
'''


def gen_program():
    bf, btable = gen_bounds_funcs()
    lf, ltable = gen_literal_funcs()
    src = ["package main", "", 'import (', '\t"bufio"', '\t"os"', '\t"unsafe"', ')', "", "var _ unsafe.Pointer", ""]
    src.append(PANIC_PROG)
    src += bf
    src += lf
    # dispatch tables
    for kind, decl in (("array", "[3]int"), ("ptrarray", "*[3]int"), ("slice", "[]int"), ("string", "string")):
        for ty in TYPES:
            src.append("var tb_%s_%s = map[string]func(%s, %s, %s, %s) (int, int, int){" % (kind, ty, decl, ty, ty, ty))
            for fn, k, t in btable:
                if k == kind and t == ty:
                    src.append('\t"%s": %s,' % (fn, fn))
            src.append("}")
        src.append("var tl_%s = map[string]func(%s) (int, int, int){" % (kind, decl))
        for key, fn in ltable.items():
            if key[0] == kind:
                src.append('\t"%s": %s,' % (fn, fn))
        src.append("}")
    src.append(r'''
func atoi(s string) (int64, uint64) {
	neg := false
	i := 0
	if len(s) > 0 && s[0] == '-' {
		neg = true
		i = 1
	}
	var u uint64
	for ; i < len(s); i++ {
		u = u*10 + uint64(s[i]-'0')
	}
	if neg {
		return -int64(u), uint64(-int64(u))
	}
	return int64(u), u
}

func fields(line string) []string {
	var out []string
	cur := ""
	for i := 0; i < len(line); i++ {
		if line[i] == ' ' {
			if cur != "" {
				out = append(out, cur)
				cur = ""
			}
		} else {
			cur += string(line[i])
		}
	}
	if cur != "" {
		out = append(out, cur)
	}
	return out
}

var arr3 = [3]int{10, 11, 12}

func mkslice(n, c int) []int {
	s := make([]int, c)
	for i := range s {
		s[i] = 10 + i
	}
	return s[:n]
}

func report(id string, l, c, f int, kind string) {
	if kind != "none" {
		println("R", id, "panic", kind)
	} else {
		println("R", id, "ok", l, c, f)
	}
}
''')
    # per-type callers
    for kind, decl in (("array", "[3]int"), ("ptrarray", "*[3]int"), ("slice", "[]int"), ("string", "string")):
        for ty in TYPES:
            src.append('''//go:noinline
func call_%s_%s(fn string, a %s, i, j, k %s) (l, c, f int, kind string) {
	defer func() { kind = kindOf(recover()) }()
	l, c, f = tb_%s_%s[fn](a, i, j, k)
	return
}''' % (kind, ty, decl, ty, kind, ty))
        src.append('''//go:noinline
func lcall_%s(fn string, a %s) (l, c, f int, kind string) {
	defer func() { kind = kindOf(recover()) }()
	l, c, f = tl_%s[fn](a)
	return
}''' % (kind, decl, kind))
    main = ['func main() {', '\tsc := bufio.NewScanner(os.Stdin)', '\tsc.Buffer(make([]byte, 1<<16), 1<<20)', '\tfor sc.Scan() {',
            '\t\tw := fields(sc.Text())', '\t\tif len(w) == 0 {', '\t\t\tcontinue', '\t\t}', '\t\tswitch w[0] {',
            '\t\tcase "P":', '\t\t\tn, _ := atoi(w[4])', '\t\t\tfor r := int64(0); r < n; r++ {',
            '\t\t\t\tk, after := runop(w[2], w[3])', '\t\t\t\tprintln("R", w[1], r, k, after)', '\t\t\t}']
    main += ['\t\tcase "B", "L":', '\t\t\tid, kind, ty, fn := w[1], w[2], w[3], w[4]', '\t\t\tn, _ := atoi(w[5])', '\t\t\tcp, _ := atoi(w[6])',
             '\t\t\tsi, ui := atoi(w[7])', '\t\t\tsj, uj := atoi(w[8])', '\t\t\tsk, uk := atoi(w[9])',
             '\t\t\t_, _, _, _, _, _ = si, ui, sj, uj, sk, uk', '\t\t\tvar l, c, f int', '\t\t\tvar pk string',
             '\t\t\tstr := "abcd"[:n]', '\t\t\tsl := mkslice(int(n), int(cp))', '\t\t\t_, _ = str, sl',
             '\t\t\tif w[0] == "L" {', '\t\t\t\tswitch kind {',
             '\t\t\t\tcase "array":', '\t\t\t\t\tl, c, f, pk = lcall_array(fn, arr3)',
             '\t\t\t\tcase "ptrarray":', '\t\t\t\t\tl, c, f, pk = lcall_ptrarray(fn, &arr3)',
             '\t\t\t\tcase "slice":', '\t\t\t\t\tl, c, f, pk = lcall_slice(fn, sl)',
             '\t\t\t\tcase "string":', '\t\t\t\t\tl, c, f, pk = lcall_string(fn, str)', '\t\t\t\t}',
             '\t\t\t\treport(id, l, c, f, pk)', '\t\t\t\tcontinue', '\t\t\t}', '\t\t\tswitch kind + "/" + ty {']
    for kind, arg in (("array", "arr3"), ("ptrarray", "&arr3"), ("slice", "sl"), ("string", "str")):
        for ty, (bits, signed) in TYPES.items():
            v = "s" if signed else "u"
            main += ['\t\t\tcase "%s/%s":' % (kind, ty),
                     '\t\t\t\tl, c, f, pk = call_%s_%s(fn, %s, %s(%si), %s(%sj), %s(%sk))' % (kind, ty, arg, ty, v, ty, v, ty, v)]
    main += ['\t\t\t}', '\t\t\treport(id, l, c, f, pk)', '\t\t}', '\t}', '\tprintln("R", "DONE")', '}']
    src += main
    return "\n".join(src) + "\n", ltable


def check(chk):
    thorough = chk.tier == "thorough"
    sd = C.seed()
    rd = chk.rd.path
    # ---- TLC: the case tables
    resB = C.tlc(SPEC, "Bounds", "bounds.cfg", rd, timeout=1200, parse_json=False)
    if not resB.ok:
        raise C.Undecided("Bounds.tla violates its own laws: %s" % resB.violation)
    chk.add_tlc(resB, "Bounds")
    resP = C.tlc(SPEC, "Panics", "panics.cfg", rd, timeout=600)
    if not resP.ok:
        raise C.Undecided("Panics.tla failed: %s" % resP.violation)
    chk.add_tlc(resP, "Panics")
    src, ltable = gen_program()
    d = os.path.join(rd, "evalprog")
    C.write_module(d, {"main.go": src}, modname="c03eval")
    lines = []
    expect = {}
    n = 0
    stride = 1 if thorough else 6
    for rec in C.tlc_printed_iter(resB):
        n += 1
        cs, r = rec["cs"], rec["r"]
        mask = {"index": "i"}.get(cs["form"])
        if cs["form"] == "slice2":
            mask = ("i" if cs["i"] != OMIT else "") + ("j" if cs["j"] != OMIT else "") or "none"
        if cs["form"] == "slice3":
            mask = ("i" if cs["i"] != OMIT else "") + "jk"
        cid = "b%d" % n
        vals = [0 if cs[x] == OMIT else concrete(cs["ty"], cs[x]) for x in ("i", "j", "k")]
        # literal variant when the tuple is expressible with constants
        lit = None
        if all(cs[x] == OMIT or 0 <= cs[x] <= 4 for x in ("i", "j", "k")) and cs["ty"] == "int":
            lit = ltable.get((cs["kind"], cs["form"], cs["i"], cs["j"], cs["k"]))
        want = ("panic",) if r["panic"] else ("ok", r["len"], r["cap"], r["first"])
        if (n + sd) % stride == 0 or lit:
            lines.append("B %s %s %s %s %d %d %d %d %d" % (cid, cs["kind"], cs["ty"], fname(cs["kind"], cs["form"], cs["ty"], mask),
                                                         cs["len"], cs["cap"], vals[0], vals[1], vals[2]))
            expect[cid] = (want, cs)
        if lit:
            lid = "l%d" % n
            lines.append("L %s %s int %s %d %d 0 0 0" % (lid, cs["kind"], lit, cs["len"], cs["cap"]))
            expect[lid] = (want, cs)
    pexpect = {}
    pn = 0
    for rec in resP.printed:
        pn += 1
        cs = rec["cs"]
        if cs["rep"] != 3:
            continue
        pid = "p%d" % pn
        lines.append("P %s %s %s %d" % (pid, cs["op"], cs["st"], 3))
        pexpect[pid] = (rec["panic"], cs)
    stdin = ("\n".join(lines) + "\n").encode()
    # ---- reference self-validation + llgo
    ref = os.path.join(rd, "ref.exe")
    ok, out = C.go_build(d, ref)
    if not ok:
        raise C.Undecided("reference toolchain cannot build the evaluator:\n" + out[-2000:])
    configs = [("O0", "")] + ([("O2", "")] if thorough else [])
    total = 0
    bad_spec = 0

    def parse(text):
        res, pres = {}, {}
        for ln in text.splitlines():
            w = ln.split()
            if len(w) >= 3 and w[0] == "R":
                if w[1].startswith("p"):
                    pres.setdefault(w[1], []).append((w[3], w[4]))
                elif w[2] == "panic":
                    res[w[1]] = ("panic", w[3])
                elif w[2] == "ok":
                    res[w[1]] = ("ok", int(w[3]), int(w[4]), int(w[5]))
        return res, pres, "R DONE" in text

    def same(want, got, cs):
        if got is None:
            return False
        if want[0] == "panic":
            return got[0] == "panic" and got[1] == "bounds"
        if got[0] != "ok":
            return False
        if cs["form"] == "index":
            return got[3] == want[3]
        if cs["kind"] == "string":
            return got[1] == want[1] and (want[1] == 0 or got[3] == want[3])
        return got[1] == want[1] and got[2] == want[2] and (want[2] == 0 or got[3] == want[3])

    st, so, se = C.run_exe(ref, stdin=stdin, timeout=600, merge=True)
    rres, rpres, done = parse(so)
    if not done:
        raise C.Undecided("reference evaluator did not finish: %s" % so[-500:])
    usable = {}
    for cid, (want, cs) in expect.items():
        if same(want, rres.get(cid), cs):
            usable[cid] = (want, cs)
        else:
            bad_spec += 1
    pusable = {}
    for pid, (kind, cs) in pexpect.items():
        got = rpres.get(pid)
        if got and all(g[0] == kind and (g[1] == "true") == (kind == "none") for g in got) and len(got) == 3:
            pusable[pid] = (kind, cs)
        else:
            bad_spec += 1
            C.log("spec/reference disagreement on %s: %s vs %s" % (cs, kind, got))
    if bad_spec > 0.02 * (len(expect) + len(pexpect)):
        raise C.Undecided("Bounds/Panics disagree with the reference toolchain on %d cases (spec defect)" % bad_spec)
    for opt, tags in configs:
        exe = os.path.join(rd, "eval-%s.exe" % opt)
        ok, out = C.llgo_build(d, exe, opt=opt, tags=tags, rundir=rd)
        if not ok:
            if opt == "O0":
                raise C.Undecided("llgo cannot build the evaluator:\n" + out[-3000:])
            chk.cov.setdefault("skipped_configs", []).append(opt)
            continue
        st, so, se = C.run_exe(exe, stdin=stdin, timeout=900, merge=True)
        gres, gpres, done = parse(so)
        if not done:
            chk.reject("evaluator:%s:died" % opt, "llgo-compiled evaluator did not finish (status %s): %s" % (st, so[-400:]), {"tail": so[-2000:]})
            continue
        for cid, (want, cs) in usable.items():
            total += 1
            if not same(want, gres.get(cid), cs):
                lit = cid.startswith("l")
                key = "bounds:%s:%s:%s:%s:len%d:cap%d:i%s:j%s:k%s" % ("lit" if lit else "var", cs["kind"], cs["form"], cs["ty"], cs["len"], cs["cap"],
                                                                cs["i"], cs["j"], cs["k"])
                chk.reject(key, "index/slice expression: llgo %s, Go mandates %s (config %s)" % (gres.get(cid), want, opt),
                           {"case": cs, "want": want, "got": gres.get(cid), "config": opt, "literal_indices": lit})
        for pid, (kind, cs) in pusable.items():
            total += 1
            got = gpres.get(pid) or []
            okk = len(got) == 3 and all(g[0] == kind and (g[1] == "true") == (kind == "none") for g in got)
            if not okk:
                chk.reject("panic:%s:%s" % (cs["op"], cs["st"]),
                           "operation %s on %s operand: llgo gave %s for 3 occurrences, Go mandates %s each time (config %s)" % (cs["op"], cs["st"], got, kind, opt),
                           {"case": cs, "want": kind, "got": got, "config": opt})
    # negative control
    probe_want, probe_cs = next(iter(usable.values()))
    wrong = ("panic",) if probe_want[0] == "ok" else ("ok", 0, 0, 0)
    if same(wrong, rres.get(next(iter(usable))), probe_cs):
        raise C.Undecided("negative control failed: comparison accepts a wrong expectation")
    chk.cov["evaluations"] = total
    chk.cov["distinct_nontrivial"] = len(usable) + len(pusable)
    chk.cov["traces_validated_against_impl"] = total
    chk.cov["spec_vs_reference_disagreements_dropped"] = bad_spec
    chk.sample({"bounds_case": next(iter(usable.values()))[1], "expected": next(iter(usable.values()))[0]})
    chk.sample({"panic_case": next(iter(pusable.values()))[1], "mandated": next(iter(pusable.values()))[0]})
    # ---- position of the panic inside programs (GoMachine, faults profile)
    judged, ncases = gm.run_cases(chk, "C03", "faults", 600 if thorough else 60, 30, configs, sd, "faults")
    chk.cov["evaluations"] += judged
    chk.cov["distinct_nontrivial"] += ncases
    chk.cov["traces_validated_against_impl"] += judged
    chk.cov["rule"] = ("bounds case = (kind, form, index type, len, cap, i, j, k) enumerated by TLC with the result Bounds.tla assigns; "
                       "panic case = (operation, operand state) x 3 occurrences from Panics.tla; program case = seeded CoreGo program of the "
                       "faults profile judged by GoMachine; quick replays every 6th bounds case (offset by seed) plus all literal-index cases")
    chk.assumptions += ["panic kinds are classified from the recovered value's message (kinds, not texts, are compared)",
                        "Big/Huge/Min stand for the extreme values of each index type (instantiated by the harness)"]


if __name__ == "__main__":
    C.main_wrapper("C03", check)

"""C14 — link names are unique per entity and consistent across packages.

spec/naming/Naming.tla       layer A: the link-level entities of a Go program and when two references denote the same
                             one (Go spec: package, receiver + pointer-ness, nesting path of function literals, identity
                             of type arguments incl. aliases and function-local declarations ...).  TLC enumerates every
                             reference (entity, referring package) of a world built so that for every component of the
                             identity some entities differ in that component only, with the identity class and the
                             entity whose body a call through the reference must reach.
spec/naming/NamingJudge.tla  the invariants Injective / Agree / MergeSafe / Linkname / Reach evaluated by TLC on the
                             observations recorded from the real code.
binding (a) in process: vlib/c14gen.py renders the references as Go packages (several layouts); an injected test in
            package cl type-checks them, builds go/ssa like internal/build, compiles every package with NewPackageEx
            and reports the link name (*context).funcName / varName / abi.TypeName give to every function, global and
            descriptor in every package that compiles it, plus the symbol tables of the per-package LLVM modules.
binding (b) end to end: the same packages bundled into a program in which every reference prints the identity of the
            body it reached; the reference toolchain self-validates the prediction; llgo builds and runs it; llvm-nm
            over the per-package objects of the build gives definitions by name and linkage.
"""
import collections
import glob
import json
import os
import re
import subprocess
import time
from concurrent.futures import ThreadPoolExecutor

from . import common as C
from . import c14gen as G

SPEC = os.path.join(C.VERIF, "spec", "naming")
HARNESS = os.path.join(C.VERIF, "harness", "c14", "zz_verif_c14_test.go")
NM = os.path.join(C.TC, "bin", "llvm-nm")

VARIANTS = [
    {"name": "plain", "files": 1, "shuffle": False},
    {"name": "files3", "files": 3, "roundrobin": True},
    {"name": "samebase", "samebase": True},
    {"name": "deep", "deep": True, "files": 2},
    {"name": "rand"},
]
DOTTED = {"name": "dotted", "dotted": True, "files": 2}


# ---------------------------------------------------------------------------- the spec's enumeration

def enumerate_refs(chk, cfg):
    res = C.tlc(SPEC, "Naming", cfg, chk.rd.path, timeout=900, parse_json=False, workers=4)
    if not res.ok:
        raise C.Undecided("Naming.tla (%s): %s" % (cfg, res.violation))
    chk.add_tlc(res, "Naming/" + cfg)
    refs = list(C.tlc_printed_iter(res))
    if len(refs) < 300:
        raise C.Undecided("Naming.tla emitted only %d references" % len(refs))
    refs.sort(key=lambda r: (G.ORDER.index(r["from"]), G.cj(r["ent"])))
    return refs


def kindtag(c):
    return c["kind"] + ("." + c["sub"] if c["kind"] == "wrapper" else "")


def locality(c, frm=None):
    """where the type that identifies the entity is declared: local (in a function) / anon / pkg"""
    t = None
    if c["kind"] in ("method", "wrapper"):
        t = c["recv"]["t"]
    elif c["kind"] == "inst":
        sites = [G.term_site(a) for a in c["targs"]]
        return "localarg" if any(sites) else "pkg"
    elif c["kind"] == "closure":
        return locality(c["parent"], frm)
    elif c["kind"] == "desc":
        t = c["t"]
    if t is None:
        return "pkg"
    if t["k"] == "anon":
        return "anon"
    if G.term_site(t):
        return "local"
    if frm is not None and t["k"] == "named" and t["pkg"] != frm:
        return "foreign"
    return "pkg"


def diff_classes(a, b):
    """which component of the identity distinguishes two classes (stable text for finding keys)"""
    if a.get("kind") != b.get("kind"):
        return "%s~%s" % tuple(sorted([kindtag(a) + "(" + locality(a) + ")", kindtag(b) + "(" + locality(b) + ")"]))
    k = a["kind"]
    tag = kindtag(a)
    if k == "wrapper" and a["sub"] != b["sub"]:
        return "wrapper:sub"
    if k in ("method", "wrapper"):
        ra, rb = a["recv"], b["recv"]
        if ra["t"] != rb["t"]:
            return tag + ":recv." + diff_terms(ra["t"], rb["t"])
        if ra["ptr"] != rb["ptr"]:
            return tag + ":recv.ptr"
        if a["name"] != b["name"]:
            return tag + ":name"
        return tag + ":via"
    if k == "inst":
        if a["pkg"] != b["pkg"]:
            return "inst:pkg"
        if a["name"] != b["name"]:
            return "inst:name"
        for x, y in zip(a["targs"], b["targs"]):
            if x != y:
                return "inst:targs." + diff_terms(x, y)
        return "inst:arity"
    if k == "closure":
        if a["parent"] != b["parent"]:
            return "closure:parent>" + diff_classes(a["parent"], b["parent"])
        return "closure:path"
    if k == "desc":
        return "desc:" + diff_terms(a["t"], b["t"])
    if k == "other":
        return "other(%s)" % "/".join(sorted({re.sub(r" for .*| of .*", "", x.get("syn") or "declared").replace(" ", "-") for x in (a, b)}))
    for f in ("pkg", "name", "site"):
        if a.get(f) != b.get(f):
            return "%s:%s" % (k, f)
    return k + ":?"


def diff_terms(x, y):
    if x["k"] != y["k"]:
        return "kind(%s/%s)" % tuple(sorted([x["k"], y["k"]]))
    k = x["k"]
    if k == "named":
        for f in ("pkg", "name", "scope"):
            if x[f] != y[f]:
                return f
        for a, b in zip(x["targs"], y["targs"]):
            if a != b:
                return "targs." + diff_terms(a, b)
        return "targs"
    if k == "basic":
        return "basic"
    if k == "map":
        return "map." + (diff_terms(x["key"], y["key"]) if x["key"] != y["key"] else diff_terms(x["e"], y["e"]))
    if k == "anon":
        return "anon"
    return k + "." + diff_terms(x["e"], y["e"])


# ---------------------------------------------------------------------------- observations -> judge

class Judge:
    def __init__(self):
        import threading
        self.records = []
        self.detail = {}
        self.lock = threading.Lock()

    def add(self, rec, detail):
        with self.lock:
            rec["id"] = "r%d" % len(self.records)
            self.records.append(rec)
            self.detail[rec["id"]] = detail
        return rec["id"]

    def run(self, chk, label):
        rd = chk.rd.path
        path = os.path.join(rd, "obs.ndjson")
        with open(path, "w") as f:
            for r in self.records:
                f.write(json.dumps(r) + "\n")
        res = C.tlc(SPEC, "NamingJudge", "judge.cfg", rd, timeout=1200, parse_json=False, copy_extra=[path], workers=4)
        if not res.ok:
            raise C.Undecided("NamingJudge.tla: %s" % res.violation)
        chk.add_tlc(res, "NamingJudge/" + label)
        verdict = {}
        for blk in C.tlc_printed_iter(res):
            for v in blk:
                verdict[v["id"]] = v["ok"]
        if len(verdict) != len(self.records):
            raise C.Undecided("NamingJudge judged %d of %d observations" % (len(verdict), len(self.records)))
        return verdict


# ---------------------------------------------------------------------------- binding (a): in process

class InprocWorld:
    def __init__(self, world, moddir):
        self.w = world
        self.moddir = moddir
        w = world
        self.by_ident = {}
        self.by_wrap = {}
        self.by_key = {}
        self.classes = {}
        for r in w.refs:
            for c in (r["class"], r["reach"]):
                self._index(c)
        for k, t in w.tokterm.items():
            self.by_key[w.tkey(t)] = t
        self.tokbykey = {w.tkey(t): w.tok[k] for k, t in w.tokterm.items()}
        self.by_decl = {}       # body-less declarations that a //go:linkname directive makes denote another entity
        self.links = []         # (declared symbol, package path, local name, is var)
        self.exports = []       # (declared symbol, class)
        for r in w.refs:
            e = r["ent"]
            if e["kind"] == "linked":
                self.by_decl["%s.%s" % (w.path[e["pkg"]], e["name"])] = r["class"]
                self.links.append((w.linksym(e["target"]), w.path[e["pkg"]], e["name"], e["target"]["kind"] == "global"))
            if r.get("export") and r["from"] == e.get("pkg"):
                self.exports.append((w.fname(e), r["class"]))

    def _index(self, c):
        w = self.w
        k = c["kind"]
        if k in ("func", "method", "inst", "closure"):
            self.by_ident[w.ident(c)] = c
            if k == "closure":
                self._index(c["parent"])
        elif k == "wrapper":
            self.by_wrap[(c["sub"], c["recv"]["ptr"], w.tkey(c["recv"]["t"]), c["name"], c["via"])] = c

    def class_of_fn(self, f, ctx):
        """the spec's identity class of an observed ssa function, or an 'other' class unique to the function"""
        w = self.w
        syn = f["syn"]
        other = {"kind": "other", "fn": f["fn"], "recv": f["recv"], "targs": f["targs"], "syn": syn}
        if f["fn"] in self.by_decl:
            return self.by_decl[f["fn"]]
        if syn == "" or syn.startswith("instance of"):
            lits = [c for c in (f["consts"] or []) if c.startswith("@")]
            if len(lits) != 1:
                return other
            lit = lits[0]
            if lit.endswith("["):
                toks = [self.tokbykey.get(k) for k in (f["targs"] or [])]
                if not toks or any(t is None for t in toks):
                    return other
                sfx = [c for c in f["consts"] if c.startswith("]")]
                if len(sfx) != 1:
                    return other
                lit = lit + ",".join(toks) + sfx[0]
            return self.by_ident.get(lit, other)
        sub = None
        if syn.startswith("wrapper for"):
            sub = "promote"
        elif syn.startswith("thunk for"):
            sub = "thunk"
        elif syn.startswith("bound method wrapper for"):
            sub = "bound"
        if sub and f["recv"]:
            key = f["recv"]
            ptr = key.startswith("*")
            if ptr:
                key = key[1:]
            inv = {v: k for k, v in w.path.items()}
            for via in ("", inv.get(ctx, "")):
                c = self.by_wrap.get((sub, ptr, key, f["obj"], via))
                if c is not None:
                    return c
        return other


def run_inproc(chk, testbin, worlds, judge, stats):
    rd = chk.rd.path
    inp = os.path.join(rd, "inproc.ndjson")
    out = os.path.join(rd, "inproc.out.ndjson")
    iws = {}
    with open(inp, "w") as f:
        for n, w in enumerate(worlds):
            moddir = os.path.join(rd, "ip-%d" % n)
            files = w.render()
            files["reg/reg.go"] = G.REG_SRC
            C.write_module(moddir, files, modname="vmod")
            pk = [{"path": "vmod/reg", "files": ["reg/reg.go"], "world": False}]
            for p in w.pkgs:
                pk.append({"path": w.path[p], "files": sorted(x for x in files if x.startswith(w.dir_of(p) + "/") and x.endswith(".go")),
                           "world": True})
            wid = "ip%d" % n
            f.write(json.dumps({"id": wid, "dir": moddir, "pkgs": pk}) + "\n")
            iws[wid] = InprocWorld(w, moddir)
    env = C.base_env({"VERIF_C14_IN": inp, "VERIF_OUT": out, "TMPDIR": chk.rd.sub("tmp")})
    r = subprocess.run([testbin, "-test.run", "TestVerifC14$", "-test.timeout", "3000s"], env=env, cwd=os.path.join(C.REPO, "cl"),
                       capture_output=True, text=True, timeout=3100)
    if r.returncode != 0 or "VERIF_DONE" not in r.stdout:
        raise C.Undecided("in-process replay failed:\n" + (r.stdout + r.stderr)[-3000:])
    for line in open(out):
        o = json.loads(line)
        iw = iws[o["id"]]
        w = iw.w
        if o["err"]:
            raise C.Undecided("in-process replay of world %s (%s) failed: %s" % (o["id"], w.variant, o["err"][:1500]))
        lost = [(f["fn"], f["lost"]) for f in o["funcs"] if f.get("lost")]
        cls_ids = {}

        def cid(c):
            return cls_ids.setdefault(G.cj(c), len(cls_ids))
        by_name = collections.defaultdict(list)     # link name -> [(class, ctx, what)]
        by_class = collections.defaultdict(list)
        mapped = 0
        for f in o["funcs"]:
            for ctx, name in list(f["names"].items()) + list(f["bound"].items()):
                if name.startswith("!panic"):
                    raise C.Undecided("naming function panicked on %s in %s: %s" % (f["fn"], ctx, name))
                c = iw.class_of_fn(f, ctx)
                if c["kind"] != "other":
                    mapped += 1
                by_name[name].append((c, ctx, f["fn"]))
                by_class[G.cj(c)].append((name, ctx, f["wide"], c))
        inv = {v: k for k, v in w.path.items()}
        for g in o["globals"] or []:
            c = iw.by_decl.get(g["pkg"] + "." + g["var"]) or {"kind": "global", "pkg": inv.get(g["pkg"], g["pkg"]), "name": g["var"]}
            by_name[g["name"]].append((c, g["ctx"], g["pkg"] + "." + g["var"]))
            by_class[G.cj(c)].append((g["name"], g["ctx"], True, c))
        for d in o["descs"] or []:
            t = iw.by_key.get(d["key"])
            if t is None and d["key"].startswith("*"):
                t = iw.by_key.get(d["key"][1:])
                t = {"k": "ptr", "e": t} if t is not None else None
            c = {"kind": "desc", "t": t} if t is not None else {"kind": "other", "fn": "type " + d["key"]}
            by_name[d["name"]].append((c, "", d["key"]))
            by_class[G.cj(c)].append((d["name"], "", True, c))
        if lost:
            # a function the package should emit has no definition under its name: explained only when a collision
            # swallowed its body (or its parent's); otherwise the harness's transcription of cl's rules is wrong
            if not any(len({G.cj(c) for c, _, _ in obs}) > 1 for obs in by_name.values()):
                raise C.Undecided("harness model of cl's compile set is wrong (function not defined where expected): %s" % lost[:3])
            stats["inproc_functions_without_definition"] += len(lost)
        stats["inproc_functions"] += len(o["funcs"])
        stats["inproc_mapped_to_spec"] += mapped
        names = sorted(by_name)
        nid = {n: i for i, n in enumerate(names)}
        for n in names:
            obs = by_name[n]
            judge.add({"t": "name", "name": nid[n], "classes": [cid(c) for c, _, _ in obs]},
                      {"world": o["id"], "variant": w.variant, "binding": "inproc", "name": n,
                       "holders": [{"class": c, "in": ctx, "fn": fn} for c, ctx, fn in obs]})
            stats["inproc_names"] += 1
        for k in sorted(by_class):
            obs = by_class[k]
            judge.add({"t": "class", "cls": cid(obs[0][3]), "wide": bool(obs[0][2]), "names": [nid[n] for n, _, _, _ in obs]},
                      {"world": o["id"], "variant": w.variant, "binding": "inproc", "class": obs[0][3],
                       "names": [{"name": n, "in": ctx} for n, ctx, _, _ in obs]})
        # directives: the names the real code bound the declarations to
        for sym, ppath, local, isvar in iw.links:
            if isvar:
                bound = [g["name"] for g in o["globals"] or [] if g["pkg"] == ppath and g["var"] == local]
            else:
                bound = [n for f in o["funcs"] if f["fn"] == ppath + "." + local for n in f["bound"].values()]
            judge.add({"t": "link", "declared": sym, "bound": bound},
                      {"world": o["id"], "variant": w.variant, "binding": "inproc", "directive": "//go:linkname %s %s" % (local, sym), "bound": bound})
            stats["inproc_directives"] += 1
        for sym, c in iw.exports:
            bound = [n for n, _, _, _ in by_class.get(G.cj(c), [])]
            judge.add({"t": "link", "declared": sym, "bound": bound},
                      {"world": o["id"], "variant": w.variant, "binding": "inproc", "directive": "//export %s" % sym, "bound": bound})
            stats["inproc_directives"] += 1
        # symbol tables of the per-package modules
        defs = collections.defaultdict(list)
        for path, syms in o["modules"].items():
            for s in syms:
                if s["defined"] and s["linkage"] not in ("private", "appending"):
                    defs[s["name"]].append((path, s))
        for n in sorted(defs):
            ds = defs[n]
            if len(ds) < 2:
                continue
            strong = sum(1 for _, s in ds if s["linkage"] == "external")
            merge = [s for _, s in ds if s["linkage"] in ("linkonce", "weak")]
            bodies = sorted({(s["digest"] if s["kind"] == "func" else s["size"]) for s in merge})
            judge.add({"t": "def", "strong": strong, "mergeable": len(merge), "bodies": bodies},
                      {"world": o["id"], "variant": w.variant, "binding": "inproc", "name": n,
                       "definitions": [{"module": p, "linkage": s["linkage"], "kind": s["kind"], "body": s["digest"] or s["size"]} for p, s in ds]})
            stats["inproc_multi_defs"] += 1
        stats["inproc_worlds"] += 1
    return iws


# ---------------------------------------------------------------------------- binding (b): end to end

def nm_objects(paths):
    """[(object path, [(name, type letter, size)])] for defined symbols"""
    res = []
    for p in paths:
        r = subprocess.run([NM, "--defined-only", "-S", p], capture_output=True, text=True)
        if r.returncode != 0:
            continue
        cur = []
        member = p
        for line in r.stdout.splitlines():
            if line.endswith(":") and " " not in line.strip():
                if cur:
                    res.append((member, cur))
                member = p + "(" + line[:-1] + ")"
                cur = []
                continue
            m = re.match(r"^([0-9a-f]+) ([0-9a-f]+) (\S) (.*)$", line)
            if m:
                cur.append((m.group(4), m.group(3), int(m.group(2), 16)))
                continue
            m = re.match(r"^([0-9a-f]+) (\S) (.*)$", line)
            if m:
                cur.append((m.group(3), m.group(2), -1))
        if cur:
            res.append((member, cur))
    return res


def run_e2e_program(chk, pi, worlds, judge, stats, neg=False):
    rd = chk.rd.path
    d = os.path.join(rd, "e2e-%d" % pi)
    files = G.program(worlds)
    C.write_module(d, files, modname="vmod")
    ref = os.path.join(d, "ref.exe")
    ok, out = C.go_build(d, ref)
    if not ok:
        raise C.Undecided("reference toolchain rejects the generated program (generator defect):\n" + out[-2000:])
    st, so, se = C.run_exe(ref, timeout=120, merge=True)
    expect = {}
    for w in worlds:
        for idx, r in enumerate(w.refs):
            expect[(w.gid, idx)] = w.ident(r["reach"])
    got_ref = parse_output(so)
    bad = [(k, got_ref.get(k), v) for k, v in expect.items() if got_ref.get(k) != v]
    if st != 0 or bad:
        raise C.Undecided("the spec's prediction disagrees with the reference toolchain (spec/generator defect): status %s, %d of %d, e.g. %s"
                          % (st, len(bad), len(expect), bad[:3]))
    stats["e2e_refs_validated_by_reference"] += len(expect)
    exe = os.path.join(d, "llgo.exe")
    t0 = time.time()
    ok, out = C.llgo_build(d, exe, rundir=d)
    stats["llgo_build_s"].append(round(time.time() - t0, 1))
    if not ok:
        dup = re.findall(r"duplicate symbol: (\S+)|multiple definition of `([^']+)'", out)
        if dup:
            names = sorted({a or b for a, b in dup})
            for n in names[:20]:
                judge.add({"t": "def", "strong": 2, "mergeable": 0, "bodies": []},
                          {"binding": "e2e-link", "program": pi, "variants": [w.variant for w in worlds], "name": n,
                           "linker": out[-1500:]})
            return
        raise C.Undecided("llgo cannot build the generated program:\n" + out[-3000:])
    got = {}
    for w in worlds:
        st, so, se = C.run_exe(exe, args=[w.gid], timeout=120, merge=True)
        g = parse_output(so)
        got.update(g)
        if st != 0 or ("G %s done" % w.gid) not in so:
            stats["e2e_died"].append("%s: status %s, %d of %d references reported" % (w.gid, st, len(g), len(w.refs)))
    for w in worlds:
        for idx, r in enumerate(w.refs):
            k = (w.gid, idx)
            e = expect[k]
            det = {"binding": "e2e", "program": pi, "world": w.gid, "variant": w.variant, "ref": idx, "from": r["from"],
                 "entity": r["ent"], "expected": e, "reached": got.get(k), "probe_in_package_%s" % r["from"]: w.call(r["ent"], r["from"]),
                   "seed": C.seed()}
            if k not in got:
                # the process died inside this reference: judge it, the references after it were never executed
                det["died"] = True
                judge.add({"t": "reach", "expect": e, "got": "<the program died in this call>"}, det)
                break
            judge.add({"t": "reach", "expect": e, "got": got[k]}, det)
            stats["e2e_refs"] += 1
    # symbol tables of the per-package objects of this build
    tables = nm_objects(sorted(glob.glob(os.path.join(d, "tmp", "*.o"))))
    have = {n for _, syms in tables for n, t, _ in syms if t.isupper() and n.endswith(".init")}
    cache = C.llgo_env("O0", d)["XDG_CACHE_HOME"]
    for w in worlds:
        for p in w.pkgs:
            if w.path[p] + ".init" in have:
                continue        # compiled by this build: its object is in the build's private TMPDIR
            arch = sorted(glob.glob(os.path.join(cache, "llgo", "build", "*", w.path[p], "*.a")), key=os.path.getmtime)
            if arch:            # served from the check's private cache: the archive an earlier identical build left
                tables += nm_objects(arch[-1:])
    seen_tables = set()
    defs = collections.defaultdict(list)
    for member, syms in tables:
        sig = tuple(sorted((n, t) for n, t, _ in syms))
        if sig in seen_tables:
            continue
        seen_tables.add(sig)
        for n, t, size in syms:
            if t.isupper():
                defs[n].append((member, t, size))
    stats["e2e_objects"] += len(seen_tables)
    for n in sorted(defs):
        ds = defs[n]
        if len(ds) < 2 or not ("vmod/" in n):
            continue
        strong = sum(1 for _, t, _ in ds if t not in "VWvw")
        merge = [(t, s) for _, t, s in ds if t in "VW"]
        judge.add({"t": "def", "strong": strong, "mergeable": len(merge), "bodies": sorted({"%s%d" % (t, s) for t, s in merge if t == "V"})},
                  {"binding": "e2e-nm", "program": pi, "variants": [w.variant for w in worlds], "name": n,
                   "definitions": [{"object": os.path.basename(m), "type": t, "size": s} for m, t, s in ds]})
        stats["e2e_multi_defs"] += 1


def parse_output(text):
    got = {}
    for line in text.splitlines():
        f = line.split(" ")
        if len(f) >= 4 and f[0] == "R":
            try:
                got[(f[1], int(f[2]))] = " ".join(f[3:])
            except ValueError:
                pass
    return got


# ---------------------------------------------------------------------------- the check

def zero_size_globals(chk):
    """One entity, one symbol - for package-level variables of size zero, whose symbols llgo handles apart from the others:
    packages whose import paths are string prefixes of one another (a sub-package and a prefix sibling) each declare
    zero-size variables and refer to the others'; the program must link (no symbol defined twice) and every reference to
    one variable must yield the same address.  Fixed program, end to end."""
    d = os.path.join(chk.rd.path, "zsg")
    lib = ("package %s\n\nvar Marker struct{}\nvar Arr [0]int\nvar Pair struct{ A struct{}; B [0]string }\n\n"
           "func AddrMarker() *struct{} { return &Marker }\nfunc AddrArr() *[0]int { return &Arr }\n")
    files = {"go.mod": "module zsg\n\ngo 1.24\n",
             "lib/lib.go": lib % "lib",
             "libx/libx.go": lib % "libx",
             "lib/sub/sub.go": lib % "sub",
             "main.go": """package main

import (
	"zsg/lib"
	"zsg/lib/sub"
	"zsg/libx"
)

var Marker struct{}

func main() {
	println("Z", "lib", &lib.Marker == lib.AddrMarker(), &lib.Arr == lib.AddrArr())
	println("Z", "sub", &sub.Marker == sub.AddrMarker(), &sub.Arr == sub.AddrArr())
	println("Z", "libx", &libx.Marker == libx.AddrMarker(), &libx.Arr == libx.AddrArr())
	m := map[*struct{}]int{}
	m[&lib.Marker]++
	m[lib.AddrMarker()]++
	m[&Marker]++
	println("Z", "map", m[&lib.Marker], len(lib.Pair.B), len(sub.Pair.B), len(libx.Pair.B))
}
"""}
    C.write_module(d, files, modname="zsg")
    want = ["Z lib true true", "Z sub true true", "Z libx true true"]
    ref = os.path.join(d, "ref.exe")
    ok, out = C.go_build(d, ref)
    if not ok:
        raise C.Undecided("reference toolchain rejects the zero-size-globals program:\n" + out[-1500:])
    st, so, se = C.run_exe(ref, timeout=60, merge=True)
    if [l for l in so.splitlines() if l.startswith("Z ")][:3] != want:
        raise C.Undecided("zero-size-globals program: the reference toolchain prints %r" % so)
    exe = os.path.join(d, "llgo.exe")
    ok, out = C.llgo_build(d, exe, opt="O0", rundir=d)
    if not ok:
        m = re.findall(r"multiple definition of `([^']+)'", out)
        if m:
            chk.reject("e2e-link:multidef:zero-size-global", "a package-level variable of size zero is defined by more than one package "
                       "(import paths that are prefixes of one another): the program does not link: multiple definition of %s" % sorted(set(m))[:4],
                       {"symbols": sorted(set(m)), "packages": ["zsg/lib", "zsg/lib/sub", "zsg/libx", "zsg (main)"], "linker": out[-1500:]})
            return {"linked": False}
        raise C.Undecided("llgo cannot build the zero-size-globals program:\n" + out[-2500:])
    st, so, se = C.run_exe(exe, timeout=60, merge=True)
    got = [l for l in so.splitlines() if l.startswith("Z ")]
    if got[:3] != want:
        chk.reject("e2e:zero-size-global:address", "two references to one zero-size package-level variable yield different addresses: %r" % got,
                   {"got": got, "want": want})
    return {"linked": True, "lines": got}


def check(chk):
    thorough = chk.tier == "thorough"
    sd = C.seed()
    rd = chk.rd.path
    refs = enumerate_refs(chk, "thorough.cfg" if thorough else "quick.cfg")
    classes = {G.cj(r["class"]) for r in refs}
    stats = collections.defaultdict(int)
    stats["llgo_build_s"] = []
    stats["e2e_died"] = []
    # worlds: the same references rendered in different layouts
    n_ip = 24 if thorough else 3
    ip_worlds = []
    for i in range(n_ip):
        v = dict(VARIANTS[i % len(VARIANTS)])
        ip_worlds.append(G.World("w%d" % i, refs, "%d/%d" % (sd, i), v))
    # a package whose import path is another package's path + ".T" (in process only: colliding strong symbols would
    # stop the link of a whole end-to-end program)
    ip_worlds.append(G.World("w%d" % n_ip, refs, "%d/dotted" % sd, dict(DOTTED)))
    n_prog = 3 if thorough else 1
    per_prog = 2 if thorough else 1
    if os.environ.get("VERIF_C14_SKIP_E2E") == "1":      # diagnostic knob (mutation experiments): in-process binding only
        n_prog = 0
    programs = []
    for pi in range(n_prog):
        ws = []
        for j in range(per_prog):
            v = dict(VARIANTS[(pi * per_prog + j + sd) % len(VARIANTS)])
            # the group id is part of every package path: unique per tier / seed / program, so that the private build
            # cache holds at most one archive per package path of a given generator version
            ws.append(G.World("%s%dg%dx%d" % (chk.tier[0], sd, pi, j), refs, "%d/e%d/%d" % (sd, pi, j), v))
        programs.append(ws)
    judge = Judge()
    with ThreadPoolExecutor(max_workers=2) as ex:
        fut_bin = ex.submit(C.gotest_compile_injected, "cl", {"zz_verif_c14_test.go": open(HARNESS).read()}, rd, "", True)
        if programs:
            C.llgo_binary()
        with ThreadPoolExecutor(max_workers=3) as ex2:
            futs = [ex2.submit(run_e2e_program, chk, pi, ws, judge, stats) for pi, ws in enumerate(programs)]
            testbin = fut_bin.result()
            C.log("C14: injected test built at +%.0fs" % (time.time() - chk.t0))
            run_inproc(chk, testbin, ip_worlds, judge, stats)
            C.log("C14: %d worlds replayed in process at +%.0fs" % (len(ip_worlds), time.time() - chk.t0))
            for f in futs:
                f.result()
    if thorough:
        layer_b(chk)
    # negative controls: one corrupted expectation, one invented collision, one invented duplicate definition
    w0 = ip_worlds[0]
    neg_ids = {
        judge.add({"t": "reach", "expect": w0.ident(w0.refs[0]["reach"]) + "#corrupted", "got": w0.ident(w0.refs[0]["reach"])}, {"negative_control": True}),
        judge.add({"t": "name", "name": -1, "classes": [0, 1]}, {"negative_control": True}),
        judge.add({"t": "class", "cls": -1, "wide": True, "names": [0, 1]}, {"negative_control": True}),
        judge.add({"t": "def", "strong": 2, "mergeable": 0, "bodies": []}, {"negative_control": True}),
        judge.add({"t": "def", "strong": 0, "mergeable": 2, "bodies": ["a", "b"]}, {"negative_control": True}),
        judge.add({"t": "link", "declared": "x", "bound": ["y"]}, {"negative_control": True}),
    }
    C.log("C14: observations complete at +%.0fs (llgo builds %s s)" % (time.time() - chk.t0, stats["llgo_build_s"]))
    verdict = judge.run(chk, "observations")
    for i in neg_ids:
        if verdict[i]:
            raise C.Undecided("negative control %s not flagged by NamingJudge" % judge.records[int(i[1:])])
    rejected = collections.defaultdict(list)
    for rec in judge.records:
        i = rec["id"]
        if i in neg_ids or verdict[i]:
            continue
        d = judge.detail[i]
        rejected[finding_key(rec, d)].append(d)
    for key in sorted(rejected):
        ds = rejected[key]
        chk.reject(key, describe(key, ds), {"count": len(ds), "examples": ds[:6]})
    if stats["e2e_died"]:
        chk.cov["e2e_died"] = stats["e2e_died"]
    stats["zero_size_globals"] = zero_size_globals(chk)
    n_obs = len(judge.records) - len(neg_ids)
    chk.cov["evaluations"] = n_obs
    chk.cov["traces_validated_against_impl"] = stats["inproc_names"] + stats["e2e_refs"]
    chk.cov["distinct_nontrivial"] = len(classes)
    chk.cov["references_per_world"] = len(refs)
    chk.cov["entity_pairs_per_world"] = len(classes) * (len(classes) - 1) // 2
    chk.cov["rule"] = ("evaluation = one judged observation (a link name with all entities that hold it; an entity with all its names; "
                       "a multiply defined symbol; an executed reference); distinct_nontrivial = identity classes of the world "
                       "(every pair of them is a potential collision, every class is referred to from 1-3 packages)")
    for k, v in stats.items():
        if k not in ("e2e_died",):
            chk.cov[k] = v
    chk.sample({"reference": refs[len(refs) // 2]})
    chk.sample({"reference": refs[len(refs) // 3]})
    chk.assumptions += [
        "a function literal's nesting path is rendered as its textual position; type tokens are recovered at run time from descriptor identity "
        "(interface comparison of typed nil pointers), so a descriptor collision shows up as a wrong token",
        "in process: a function counts as compiled by a package when the harness's transcription of cl's rules says so AND the package's module "
        "defines the name (the transcription is checked against the modules: no compiled function may be missing)",
        "MergeSafe is checked by proxy: mergeable function definitions must have identical IR after replacing module-private constant names by "
        "their contents (in process), mergeable data definitions must have the same type (in process) / size (llvm-nm, end to end)",
        "wrappers made for unnamed receiver types are private to the package that makes them (no program-wide identity in Go), "
        "so Agree is not demanded of them; Injective and Reach are",
    ]


def layer_b(chk):
    """layer B (report only): the naming scheme as an abstract function, model-checked against A's Injective / Agree"""
    out = {}
    for cfg, scheme in (("impl_bare.cfg", "bare"), ("impl_qualified.cfg", "qualified")):
        res = C.tlc(SPEC, "NamingImpl", cfg, chk.rd.path, timeout=1500, parse_json=False, workers=4)
        chk.add_tlc(res, "NamingImpl/" + scheme)
        out[scheme] = "Injective and Agree hold over all pairs of references" if res.ok else ("violated: %s" % res.violation)
    chk.cov["layer_b_scheme_models"] = out


def finding_key(rec, d):
    t = rec["t"]
    if t == "reach":
        return "reach%s:%s:%s" % ("-died" if d.get("died") else "", kindtag(d["entity"]), locality(d["entity"], d["from"]))
    if t == "name":
        cs = []
        for h in d["holders"]:
            if h["class"] not in cs:
                cs.append(h["class"])
        cs.sort(key=G.cj)
        return "%s:collide:%s" % (d["binding"], diff_classes(cs[0], cs[1]))
    if t == "class":
        return "%s:disagree:%s:%s" % (d["binding"], kindtag(d["class"]), locality(d["class"]))
    if t == "def":
        n = d["name"]
        shape = re.sub(r"[0-9]+", "N", re.sub(r"vmod/[^.]*\.", "P.", n))
        shape = re.sub(r"\$[A-Za-z0-9_-]{20,}", "$H", shape)
        return "%s:multidef:%s" % (d["binding"], shape[:60])
    return "%s:%s" % (d.get("binding", "?"), t)


def describe(key, ds):
    d = ds[0]
    if key.startswith("reach:"):
        return ("%d executed references: a call from package %s through %s reached %s, the specification (and the reference toolchain) "
                "says %s" % (len(ds), d["from"], json.dumps(d["entity"]), d["reached"], d["expected"]))
    if ":collide:" in key:
        return "%d link names held by different entities, e.g. %s is the name of %s" % (
            len(ds), d["name"], "; ".join("%s (in %s)" % (h["fn"], h["in"]) for h in d["holders"][:4]))
    if ":disagree:" in key:
        return "%d entities with more than one link name, e.g. %s: %s" % (len(ds), json.dumps(d["class"]), d["names"][:4])
    if key.endswith(":link"):
        return "%d directives not bound to the declared symbol, e.g. %s is bound to %s" % (len(ds), d["directive"], d["bound"])
    if ":multidef:" in key:
        return "%d symbols with conflicting definitions, e.g. %s: %s" % (len(ds), d["name"], d["definitions"][:4] if "definitions" in d else d.get("linker", "")[-300:])
    return "%d observations rejected" % len(ds)


if __name__ == "__main__":
    C.main_wrapper("C14", check)

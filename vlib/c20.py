"""C20 — SDK archive extraction stays inside its destination and preserves contents.

spec/extract/Extract.tla         layer A: names, Normalise, the verdict per entry (reject / extract / either), the demand
                                 on the call (error / ok / free) and the tree a determined archive must leave behind
spec/extract/ExtractMachine.tla  the same law as a state machine (ExtractEntry rejects or creates exactly
                                 dest/Place(name)); invariants Confined, Faithful, Refuses, Exact; two named deviations
                                 (lexical-only guard with links honoured, no guard) must be caught by TLC
spec/extract/ExtractCases.tla    TLC enumerates archives of 1..3 entries and prints verdicts + expected tree
spec/extract/FetchLock.tla       layer B (PlusCal): stat / open(O_CREATE) / flock / re-stat / download+extract /
                                 rename / rename / unlock / close / unlink with the lock on an INODE and open on a PATH
binding 1: every printed archive is built as tar.gz, zip (and tar.xz through xz/tar) and unpacked by the real
           extractTarGz / extractZip / extractTarXz (injected test); the whole watched parent of dest is compared.
           Well-formed archives are additionally written in other well-formed encodings of the same entries
           (multi-member gzip, PAX/GNU/USTAR long names, zero padding, stored/deflated, data descriptors or not,
           explicit vs implied directories): the same tree is demanded.
binding 2: the real checkDownloadAndExtractLib from 2-4 goroutines and from separate processes against a loopback
           HTTP server (seeded stress), plus a staged replay of FetchLock's counterexample in which the server
           is the scheduling gate.
"""
import collections
import json
import os
import shutil
import subprocess
import threading
import time
from concurrent.futures import ThreadPoolExecutor

from . import common as C

SPEC = os.path.join(C.VERIF, "spec", "extract")
HARNESS = os.path.join(C.VERIF, "harness", "c20")
ALL5 = '{"a", "b", "..", ".", ""}'
CASE_LAWS = ["LawCanonicalInside", "LawPlacePlain", "LawOkDetermined", "LawTreeClosed", "Emit"]
NEG_REP = 1000000
# container variants of well-formed archives (harness/c20/zz_verif_c20_variants_test.go): same entries, same tree demanded
VARIANTS = ["targz+members", "targz+members-midfile", "targz+zero-padding", "targz+pax-record", "targz+gnu-longname",
            "targz+ustar-prefix", "targz+pax-longname", "targz+explicit-dirs", "targz+implied-dirs",
            "zip+stored", "zip+deflated", "zip+stored-no-descriptor", "zip+deflated-no-descriptor", "zip+explicit-dirs",
            "zip+implied-dirs"]


def shm(chk, name):
    base = "/dev/shm" if os.path.isdir("/dev/shm") and os.access("/dev/shm", os.W_OK) else chk.rd.path
    d = os.path.join(base, "verif-c20-%d-%s" % (os.getpid(), name))
    os.makedirs(d, exist_ok=True)
    return d


# --------------------------------------------------------------------------- part 1: case sets

PLAN_NAMES = {"quick": ["det1", "det2", "det3", "wellformed3", "two2s", "three2core"],
              "thorough": ["det1", "det2", "det3", "wellformed3", "one4", "two2", "two3s", "three2", "three2all", "wellformed3deep"]}


def machine_runs(thorough):
    """(label, constants, must_hold)"""
    def mc(segs, maxlen, kinds, n, guard, links):
        return {"Segs": segs, "MaxLen": maxlen, "AbsSet": "{FALSE}", "KindSel": '"%s"' % kinds, "NEntries": n,
                "Guard": '"%s"' % guard, "Links": '"%s"' % links}
    small = '{"a", ".."}'
    runs = [
        ("law", mc('{"a", "b", ".."}', 2, "core", 3, "law", "honour") if thorough else mc(small, 2, "core", 3, "law", "honour"), True),
        ("lexical-links-honoured", mc(small, 2, "core", 3, "lexical", "honour"), False),
    ]
    if thorough:
        runs += [("lexical-links-skipped", mc(small, 2, "all", 3, "lexical", "skip"), True),
                 ("no-guard", mc(small, 2, "all", 3, "none", "skip"), False),
                 ("law-all-kinds", mc('{"a", "..", "."}', 2, "all", 3, "law", "honour"), True)]
    return runs


FL_INVS = ["MutexHeld", "MutexNamed", "MutexWork", "NoPartialDst", "NoPartialSeen", "AllOkComplete", "NoSpuriousError"]


def fetchlock_runs(thorough):
    """(label, constants, [invariants checked together])"""
    def fc(np, mf, rel):
        return {"NProcs": np, "NFiles": 2, "MaxFail": mf, "Release": '"%s"' % rel}
    code3f = fc(3, 1, "unlink-after")
    runs = [("code/3procs/nofail", fc(3, 0, "unlink-after"), FL_INVS[1:])]
    for inv in ("MutexWork", "NoPartialSeen") + (("MutexHeld", "NoPartialDst") if thorough else ()):
        runs.append(("code/3procs/1fail/" + inv, code3f, [inv]))
    if thorough:
        runs += [("code/3procs/1fail/rest", code3f, ["MutexNamed", "AllOkComplete", "NoSpuriousError"]),
                 ("code/2procs/1fail", fc(2, 1, "unlink-after"), FL_INVS),
                 ("fix-keep/3procs/1fail", fc(3, 1, "keep"), FL_INVS),
                 ("fix-unlink-held/3procs/1fail", fc(3, 1, "unlink-held"), FL_INVS[1:]),
                 ("fix-keep/4procs/1fail", fc(4, 1, "keep"), FL_INVS[1:]),
                 ("fix-unlink-held/3procs/2fail", fc(3, 2, "unlink-held"), FL_INVS[1:]),
                 ("code/4procs/nofail", fc(4, 0, "unlink-after"), FL_INVS[1:])]
    return runs


# --------------------------------------------------------------------------- helpers

def arch_text(c):
    return ";".join("%s%s:%s" % (e["k"], "" if e["t"] == "-" else ">" + e["t"], e["n"]) for e in c["e"])


def free_class(kind, name):
    segs = name.split("/")
    up, st = 0, []
    for s in segs:
        if s in ("", "."):
            continue
        if s == "..":
            if st:
                st.pop()
            else:
                up += 1
        else:
            st.append(s)
    if up > 0:
        return "ancestor-directory ('..')"
    if not st:
        return "names dest itself ('.', './', '', 'a/..') as %s" % kind
    if ".." in segs:
        return "'..' that stays inside"
    if name.startswith("/"):
        return "absolute"
    return "'.' or empty segment"


def replay_extract(chk, testbin, cases_path, total, formats, xz_target):
    nw = min(C.NCPU, max(1, total // 400))
    step = (total + nw - 1) // nw
    ranges = [(lo, min(total, lo + step)) for lo in range(0, total, step)]
    xz_mod = max(1, total // max(1, xz_target))
    xz_sel = C.seed() % xz_mod

    def one(r):
        lo, hi = r
        out = os.path.join(chk.rd.path, "mism_%d.ndjson" % lo)
        st = os.path.join(chk.rd.path, "stats_%d.json" % lo)
        root = shm(chk, "x%d" % lo)
        try:
            env = C.base_env({"VERIF_CASES": cases_path, "VERIF_FROM": str(lo), "VERIF_TO": str(hi), "VERIF_OUT": out,
                              "VERIF_STATS": st, "VERIF_ROOT": root, "VERIF_FORMATS": ",".join(formats),
                              "VERIF_XZ_MOD": str(xz_mod), "VERIF_XZ_SEL": str(xz_sel), "TMPDIR": root})
            try:
                r = subprocess.run([testbin, "-test.run", "TestVerifExtract$", "-test.timeout", "3000s"], env=env,
                                   capture_output=True, text=True, timeout=3100)
            except subprocess.TimeoutExpired:
                raise C.Undecided("extract replay timed out")
            if r.returncode != 0 or "VERIF_DONE" not in r.stdout:
                raise C.Undecided("extract replay failed (range %d..%d):\n%s" % (lo, hi, (r.stdout + r.stderr)[-2500:]))
            mism = [json.loads(line) for line in open(out)] if os.path.exists(out) else []
            return mism, json.load(open(st))
        finally:
            shutil.rmtree(root, ignore_errors=True)

    with ThreadPoolExecutor(max_workers=nw) as ex:
        parts = list(ex.map(one, ranges))
    mism = [m for p in parts for m in p[0]]
    stats = collections.Counter()
    for p in parts:
        stats.update(p[1])
    return mism, stats


def run_fetch(chk, testbin, thorough):
    rd = chk.rd.path
    out = os.path.join(rd, "fetch.ndjson")
    st = os.path.join(rd, "fetch_stats.json")
    root = shm(chk, "fetch")
    reps, preps, directed, par = (2000, 100, 10, 6) if thorough else (150, 6, 2, 4)
    env = C.base_env({"VERIF_FETCH_OUT": out, "VERIF_FETCH_STATS": st, "VERIF_ROOT": root, "VERIF_SEED": str(C.seed()),
                      "VERIF_REPS": str(reps), "VERIF_PROC_REPS": str(preps), "VERIF_DIRECTED": str(directed),
                      "VERIF_PAR": str(par), "TMPDIR": root})
    try:
        try:
            r = subprocess.run([testbin, "-test.run", "TestVerifFetch$", "-test.timeout", "1500s"], env=env,
                               capture_output=True, text=True, timeout=1600)
        except subprocess.TimeoutExpired:
            raise C.Undecided("fetch stress timed out")
        if r.returncode != 0 or "VERIF_DONE" not in r.stdout:
            raise C.Undecided("fetch stress failed:\n" + (r.stdout + r.stderr)[-2500:])
        if "VERIF_NEGATIVE_CONTROL_FLAGGED" not in r.stdout:
            raise C.Undecided("fetch: negative control (manifest the archive cannot satisfy) was not flagged")
        finds = [json.loads(line) for line in open(out)]
        return [f for f in finds if f["rep"] != NEG_REP], json.load(open(st))
    finally:
        shutil.rmtree(root, ignore_errors=True)


# --------------------------------------------------------------------------- the check

def check(chk):
    thorough = chk.tier == "thorough"
    sd = C.seed()
    rd = chk.rd.path
    have_xz = bool(shutil.which("xz") and shutil.which("tar"))
    formats = ["targz", "zip"] + (["tarxz"] if have_xz else [])
    if not have_xz:
        C.log("note: xz/tar not installed: tar.xz is skipped")
    chk.cov["formats"] = formats
    chk.cov["rule"] = ("cases = archives of 1..3 entries enumerated by TLC (names of <= 4 segments over {a, b, .., ., empty} with "
                       "optional leading '/', kinds file/dir/symlink(3 targets)/hardlink(2 targets)); each is built in every "
                       "format and unpacked by the real extract function; non-trivial = the archive has an entry whose verdict "
                       "is not plain 'extract', or more than one entry; distinct by archive text. Plus concurrent "
                       "checkDownloadAndExtractLib runs (counted separately in fetch_*).")

    files = {f: open(os.path.join(HARNESS, f)).read() for f in sorted(os.listdir(HARNESS)) if f.endswith("_test.go")}
    build = {}

    def do_build():
        try:
            build["bin"] = C.gotest_compile_injected("internal/crosscompile", files, rd)
        except BaseException as e:  # noqa
            build["err"] = e
    bt = threading.Thread(target=do_build)
    bt.start()

    # ---- all TLC runs, side by side (JVM start dominates each of them here)
    jobs = []
    profile = "thorough" if thorough else "quick"
    cfg = os.path.join(rd, "cases_%s.cfg" % profile)
    C.write_cfg(cfg, constants={"Profile": '"%s"' % profile, "Sel": sd % 64}, invariants=CASE_LAWS)
    jobs.append(("cases", profile, "ExtractCases", cfg, None, None))
    for label, consts, must in machine_runs(thorough):
        cfg = os.path.join(rd, "mach_%s.cfg" % label)
        C.write_cfg(cfg, constants=consts, invariants=["TypeOK", "Confined", "Faithful", "Refuses", "Exact"])
        jobs.append(("machine", label, "ExtractMachine", cfg, must, None))
    for i, (label, consts, invs) in enumerate(fetchlock_runs(thorough)):
        cfg = os.path.join(rd, "fl_%d.cfg" % i)
        C.write_cfg(cfg, constants=consts, invariants=["TypeOK"] + invs, deadlock=True)
        jobs.append(("fetchlock", label, "FetchLock", cfg, None, invs))

    def run_tlc(job):
        kind, label, module, cfg, _must, _invs = job
        return C.tlc(SPEC, module, cfg, rd, workers=(max(4, C.NCPU - 4) if kind == "cases" else 2), timeout=(3000 if thorough else 1200),
                     parse_json=False, deadlock=(kind == "fetchlock"))
    with ThreadPoolExecutor(max_workers=min(len(jobs), 8)) as ex:
        results = list(ex.map(run_tlc, jobs))

    case_res = []
    chk.cov["machine"] = []
    chk.cov["fetchlock_model"] = []
    for job, res in zip(jobs, results):
        kind, label, module, _cfg, must, invs = job
        chk.add_tlc(res, "%s/%s" % (module, label))
        if kind == "cases":
            if not res.ok:
                raise C.Undecided("ExtractCases/%s: the law's own algebra failed (spec defect): %s" % (label, res.violation))
            case_res.append((label, res))
        elif kind == "machine":
            chk.cov["machine"].append({"variant": label, "holds": res.ok, "violation": res.violation, "expected_to_hold": must})
            if must and not res.ok:
                raise C.Undecided("ExtractMachine/%s must satisfy Confined/Faithful/Refuses/Exact: %s" % (label, res.violation))
            if not must and (res.ok or "Confined" not in (res.violation or "")):
                raise C.Undecided("ExtractMachine/%s: the deviation was not caught by Confined (invariant without teeth)" % label)
        else:
            chk.cov["fetchlock_model"].append({"config": label, "invariants": invs, "holds": res.ok, "violation": res.violation,
                                               "distinct": res.distinct})
            if not res.ok:
                C.log("note (layer B, not a verdict): FetchLock %s: %s" % (label, res.violation))

    # ---- cases file: negative controls first, then every printed archive (de-duplicated over the sets)
    cases_path = os.path.join(rd, "cases.ndjson")
    negs = [{"e": [{"n": "a", "k": "file", "t": "-", "v": "extract"}], "d": "ok", "det": True,
             "tree": [{"p": ["b"], "k": "file", "c": 1}]},                     # wrong place
            {"e": [{"n": "a", "k": "dir", "t": "-", "v": "extract"}, {"n": "a/b", "k": "file", "t": "-", "v": "extract"},
                   {"n": "b", "k": "file", "t": "-", "v": "extract"}], "d": "ok", "det": True,              # swapped bytes
             "tree": [{"p": ["a"], "k": "dir", "c": 0}, {"p": ["a", "b"], "k": "file", "c": 3}, {"p": ["b"], "k": "file", "c": 2}]},
            {"e": [{"n": "a", "k": "dir", "t": "-", "v": "reject"}], "d": "error", "det": False, "tree": []}]
    seen = set()
    total = 0
    nontrivial = 0
    demand = collections.Counter()
    with open(cases_path, "w") as f:
        for n in negs:
            f.write(json.dumps(n) + "\n")
            total += 1
        per_plan = collections.Counter()
        for label, res in case_res:
            for c in C.tlc_printed_iter(res):
                txt = arch_text(c)
                if txt in seen:
                    continue
                seen.add(txt)
                pl = PLAN_NAMES[label][c.pop("plan") - 1]
                f.write(json.dumps(c) + "\n")
                total += 1
                per_plan[pl] += 1
                demand[c["d"]] += 1
                if len(c["e"]) > 1 or any(e["v"] != "extract" for e in c["e"]):
                    nontrivial += 1
                if total % 7919 == 5:
                    chk.sample({"archive": arch_text(c), "demand": c["d"], "verdicts": [e["v"] for e in c["e"]],
                                "tree": sorted("/".join(n["p"]) + ("/" if n["k"] == "dir" else "=#%d" % n["c"]) for n in c["tree"])
                                if c["det"] else None})
            C.log("cases: %s (TLC %.1fs)" % (dict(per_plan), res.wall))
            for pl in PLAN_NAMES[label]:
                if per_plan[pl] == 0 and not pl.endswith("s"):
                    raise C.Undecided("ExtractCases plan %s emitted no cases" % pl)
        chk.cov["archives_per_plan"] = dict(per_plan)
    ncases = total - len(negs)
    if ncases == 0:
        raise C.Undecided("no cases")
    chk.cov["demand_classes"] = dict(demand)

    C.log("TLC phase done at %.1fs" % (time.time() - chk.t0))
    bt.join()
    if "err" in build:
        raise build["err"]
    testbin = build["bin"]

    # ---- binding 1 and binding 2 side by side
    fetch_box = {}

    def do_fetch():
        try:
            tf = time.time()
            fetch_box["res"] = run_fetch(chk, testbin, thorough)
            C.log("fetch binding: %.1fs" % (time.time() - tf))
        except BaseException as e:  # noqa
            fetch_box["err"] = e
    ft = threading.Thread(target=do_fetch)
    ft.start()
    t0 = time.time()
    mism, stats = replay_extract(chk, testbin, cases_path, total, formats, 6000 if thorough else 200)
    C.log("extract replay: %d archives x %s in %.1fs, %d rule violations reported by the harness" % (
        ncases, formats, time.time() - t0, len(mism)))

    # negative controls: every one must be flagged by the rule it targets, in every format that ran it
    for i, rule in ((0, "tree-mismatch"), (1, "tree-mismatch"), (2, "accepted-escaping")):
        for fm in ("targz", "zip"):
            if not any(m["case"] == i and m["fmt"] == fm and m["rule"] == rule for m in mism):
                raise C.Undecided("negative control %d (%s) not flagged for %s: the replay compares nothing" % (i, rule, fm))
    for v in VARIANTS:   # the two wrong-tree controls are well-formed archives, so they pass through every variant too
        # (an implementation that cannot read the variant at all is flagged as rejected-wellformed instead)
        if not any(m["case"] in (0, 1) and m["fmt"] == v and m["rule"] in ("tree-mismatch", "rejected-wellformed") for m in mism):
            raise C.Undecided("negative control not flagged for container variant %s" % v)
    mism = [m for m in mism if m["case"] >= len(negs)]

    # ---- verdicts of binding 1: representatives per (format, rule, kinds) class, smallest archives first
    classes = collections.defaultdict(list)
    by_kinds = collections.Counter()
    for m in mism:
        classes[(m["fmt"], m["rule"])].append(m)
        by_kinds["%s:%s:%s" % (m["fmt"], m["rule"], ",".join(e["k"] for e in m["arch"]["e"]))] += 1
    chk.cov["extract_rule_violations"] = {"%s:%s" % k: len(v) for k, v in sorted(classes.items())}
    chk.cov["extract_rule_violations_by_entry_kinds"] = dict(sorted(by_kinds.items()))
    what = {"escape": "something outside dest was created or changed",
            "accepted-escaping": "an entry that would escape was not rejected with an error",
            "rejected-wellformed": "a well-formed archive was not unpacked",
            "tree-mismatch": "the unpacked tree differs from the archived one",
            "panic": "the extract function panicked"}
    for k in sorted(classes):
        ms = sorted(classes[k], key=lambda m: (len(m["arch"]["e"]), sum(len(e["n"]) for e in m["arch"]["e"]), arch_text(m["arch"])))
        for m in ms[:3]:
            key = "%s:%s:%s" % (m["fmt"], m["rule"], arch_text(m["arch"]))
            chk.reject(key, "%s [%s] archive {%s}: %s: %s (%d archives violate this rule in this format)" % (
                m["fmt"], m["rule"], arch_text(m["arch"]), what[m["rule"]], m["detail"][:300], len(ms)),
                {"format": m["fmt"], "rule": m["rule"], "archive": m["arch"], "detail": m["detail"], "class_size": len(ms),
                 "token_map": {"a": "c20a", "b": "c20b"}})

    runs = {fm: stats.get(fm + ":run", 0) for fm in formats}
    chk.cov["extractions_per_format"] = runs
    vruns = {v: stats.get(v + ":run", 0) for v in VARIANTS}
    chk.cov["extractions_per_container_variant"] = vruns
    for v, n in vruns.items():
        if n < 10:
            raise C.Undecided("container variant %s ran only %d times" % (v, n))
    chk.cov["trees_compared_per_format"] = {fm: stats.get(fm + ":tree-compared", 0) for fm in formats}
    chk.cov["unrepresentable_per_format"] = {fm: stats.get(fm + ":unrepresentable", 0) for fm in formats}
    for fm, share in (("targz", 0.8), ("zip", 0.2)):
        if runs.get(fm, 0) < ncases * share:
            raise C.Undecided("%s ran only %d of %d archives" % (fm, runs.get(fm, 0), ncases))
    if have_xz and runs.get("tarxz", 0) == 0:
        raise C.Undecided("tar.xz selected no archive")
    # observations, not judged: harmless-but-odd single entries each format refuses
    refused = collections.defaultdict(collections.Counter)
    for k, v in stats.items():
        parts = k.split(":", 3)
        if len(parts) == 4 and parts[1] == "free-refused":
            refused[parts[0]][free_class(parts[2], parts[3])] += v
    chk.cov["free_entries_refused"] = {fm: dict(c) for fm, c in refused.items()}
    for fm, c in sorted(refused.items()):
        for cl, v in sorted(c.items()):
            if cl.startswith("names dest itself") and cl.endswith("dir"):
                C.log("note (not judged): %s refuses %d single-entry archives whose directory entry names dest itself "
                      "(e.g. './' as written by `tar -C dir -czf x .`)" % (fm, v))

    chk.cov["evaluations"] += ncases
    chk.cov["distinct_nontrivial"] += nontrivial
    chk.cov["traces_validated_against_impl"] += sum(runs.values()) + sum(vruns.values())

    # ---- binding 2
    ft.join()
    if "err" in fetch_box:
        raise fetch_box["err"]
    finds, fstats = fetch_box["res"]
    chk.cov["fetch_stats"] = fstats
    chk.cov["fetch_runs"] = {"goroutine_reps": fstats.get("goroutines:reps", 0), "process_reps": fstats.get("processes:reps", 0),
                             "calls": fstats.get("goroutines:callers", 0) + fstats.get("processes:callers", 0),
                             "directed_staged": fstats.get("directed:goroutines:staged", 0) + fstats.get("directed:processes:staged", 0)}
    chk.cov["traces_validated_against_impl"] += chk.cov["fetch_runs"]["goroutine_reps"] + chk.cov["fetch_runs"]["process_reps"] + \
        chk.cov["fetch_runs"]["directed_staged"]
    if chk.cov["fetch_runs"]["goroutine_reps"] == 0 or chk.cov["fetch_runs"]["process_reps"] == 0:
        raise C.Undecided("fetch stress did not run")
    if chk.cov["fetch_runs"]["directed_staged"] == 0:
        C.log("note: the staged replay of FetchLock's counterexample could not be set up in any attempt")
    by_key = collections.OrderedDict()
    for fnd in finds:
        by_key.setdefault(fnd["key"], []).append(fnd)
    for key, fl in by_key.items():
        f0 = fl[0]
        chk.reject(key, "%s/%s: %s (%d observations; %d callers, %d failed downloads)" % (
            f0["kind"], f0["mode"], f0["detail"][:300], len(fl), f0["n"], f0["nfail"]),
            {"first": f0, "observations": len(fl), "modes": sorted({x["mode"] for x in fl}), "kinds": sorted({x["kind"] for x in fl}),
             "how": "VERIF_SEED=%d ./check C20 %s (TestVerifFetch: rep %d)" % (sd, chk.tier, f0["rep"])})
    if thorough:
        chk.cov["exhaustive"] = True
    chk.assumptions += [
        "container variants are applied to well-formed archives only (Demand = ok); the long-name variants re-root every entry under "
        "a chain of 21 resp. 52 plain segments, the tree demanded is the specification's tree under that chain (parents implied)",
        "segments a/b stand for arbitrary plain names (harness spells them c20a/c20b); contents are seeded pseudo-random bytes of "
        "length 0..40000",
        "dest is 6 levels below the watched root, so every escape expressible with <= 4 '..' segments or one link lands in watched ground; "
        "absolute escapes are looked for at /c20a and /c20b",
        "verdict 'either' (not judged beyond Confined): links, absolute names, names with '.', empty or inner '..' segments, "
        "duplicates and file-vs-directory clashes, a directory entry naming dest itself or an ancestor",
        "zip cannot express hard links nor file names ending in '/', Go's tar writer refuses regular files whose name ends in '/'; "
        "those archives are skipped for that format and counted (unrepresentable_per_format)",
        "tar.xz runs through external GNU tar + xz (two processes per archive): a seeded sample of the archives only",
        "part 2 judges what callers can observe (nil return => complete dst; visible dst => complete); loss of mutual exclusion by "
        "itself is reported from the model and the staged run but is not a verdict",
    ]


if __name__ == "__main__":
    C.main_wrapper("C20", check)

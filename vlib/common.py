"""Common machinery for the /verif checks.

Verdict rules (DESIGN 2.3):
  exit 0  property held on everything explored (KNOWN-FINDING lines allowed)
  exit 1  + "VIOLATION property=<id> replay=<path>"  a real execution was rejected by the spec
  exit 2  the machinery could not decide (TLC/driver failure, timeout, negative control accepted)
"""
import hashlib
import json
import os
import re
import shutil
import subprocess
import sys
import time

VERIF = os.path.dirname(os.path.dirname(os.path.abspath(__file__)))
REPO = os.environ.get("VERIF_REPO", "/repo")
TC = os.path.join(VERIF, "toolchain")
BUILD = os.path.join(VERIF, ".build")
GOROOT124 = "/root/go/pkg/mod/golang.org/toolchain@v0.0.1-go1.24.0.linux-amd64"
GO124 = os.path.join(GOROOT124, "bin", "go")
NCPU = os.cpu_count() or 8


class Undecided(Exception):
    """machinery failure: exit 2, never a violation"""


def log(*a):
    print(*a, file=sys.stderr, flush=True)


def seed():
    try:
        return int(os.environ.get("VERIF_SEED", "1"))
    except ValueError:
        return 1


# --------------------------------------------------------------------------- run directories

class RunDir:
    def __init__(self, pid):
        base = os.environ.get("VERIF_RUNBASE", "/tmp/verif-run")
        self.path = os.path.join(base, "%s-%d-%d" % (pid, os.getpid(), int(time.time())))
        os.makedirs(self.path, exist_ok=True)
        self.keep = os.environ.get("VERIF_KEEP") == "1"

    def sub(self, name):
        p = os.path.join(self.path, name)
        os.makedirs(p, exist_ok=True)
        return p

    def cleanup(self):
        if not self.keep:
            shutil.rmtree(self.path, ignore_errors=True)


# --------------------------------------------------------------------------- environment

def base_env(extra=None):
    env = dict(os.environ)
    env["PATH"] = "%s/bin:%s/bin:%s" % (GOROOT124, TC, env.get("PATH", ""))
    env.update({
        "GOTOOLCHAIN": "local", "GOFLAGS": "-mod=mod", "GOPROXY": "off", "GONOSUMDB": "*",
        "GONOSUMCHECK": "1", "GONOPROXY": "", "GOSUMDB": "off",
        "LLVM_CONFIG": os.path.join(TC, "bin", "llvm-config"),
        "LLGO_ROOT": REPO,
    })
    env.pop("GOROOT", None)
    if extra:
        env.update(extra)
    return env


def ensure_toolchain():
    if not os.path.exists(os.path.join(TC, "lib", "libuv.a")) or not os.path.exists(os.path.join(TC, "overlay.json")):
        subprocess.run([os.path.join(TC, "setup.sh")], check=True, stdout=subprocess.DEVNULL)


_repo_hash = None


def repo_hash():
    """content hash of every source file of the working tree that can influence llgo or its runtime"""
    global _repo_hash
    if _repo_hash:
        return _repo_hash
    h = hashlib.sha256()
    skip_dirs = {".git", "_demo", "_cmptest", "doc", "_lldb", "test", "_xtool", "dev", "chore"}
    for root, dirs, files in os.walk(REPO):
        rel = os.path.relpath(root, REPO)
        if rel == ".":
            dirs[:] = sorted(d for d in dirs if d not in skip_dirs)
        else:
            dirs.sort()
        for f in sorted(files):
            p = os.path.join(root, f)
            if os.path.islink(p) or not os.path.isfile(p):
                continue
            h.update(os.path.relpath(p, REPO).encode())
            with open(p, "rb") as fh:
                h.update(hashlib.sha256(fh.read()).digest())
    _repo_hash = h.hexdigest()[:16]
    return _repo_hash


def _gc_build_dirs(keep_hash):
    """remove build dirs of other trees that have not been used for 2 hours (several checks / mutated copies
    may be running concurrently, so recent ones are left alone)"""
    if not os.path.isdir(BUILD):
        return
    now = time.time()
    for d in os.listdir(BUILD):
        p = os.path.join(BUILD, d)
        if d.startswith("tree-") and d != "tree-" + keep_hash:
            try:
                if now - os.path.getmtime(p) > 2 * 3600:
                    shutil.rmtree(p, ignore_errors=True)
            except OSError:
                pass


def tree_dir():
    d = os.path.join(BUILD, "tree-" + repo_hash())
    if not os.path.isdir(d):
        _gc_build_dirs(repo_hash())
        os.makedirs(d, exist_ok=True)
    try:
        os.utime(d, None)
    except OSError:
        pass
    return d


def llgo_binary():
    """build cmd/llgo from the working tree (tags llvm14,dev,verif + opaque-pointer overlay)"""
    ensure_toolchain()
    out = os.path.join(tree_dir(), "llgo")
    if os.path.exists(out):
        return out
    lock = out + ".lock"
    import fcntl
    with open(lock, "w") as lf:
        fcntl.flock(lf, fcntl.LOCK_EX)
        if os.path.exists(out):
            return out
        t0 = time.time()
        r = subprocess.run([os.path.join(TC, "build-llgo.sh"), out + ".tmp", REPO],
                           env=base_env(), capture_output=True, text=True)
        if r.returncode != 0:
            raise Undecided("llgo does not build from the working tree:\n" + r.stdout + r.stderr)
        os.rename(out + ".tmp", out)
        log("built llgo in %.1fs" % (time.time() - t0))
    return out


WARMUP_SRC = """package main

import (
	"bufio"
	"errors"
	"fmt"
	"os"
	"reflect"
	"sort"
	"strconv"
	"strings"
	"sync"
	"sync/atomic"
)

type t struct{ A int }

func (t) String() string { return "t" }

func main() {
	var n int32
	var wg sync.WaitGroup
	wg.Add(1)
	go func() { atomic.AddInt32(&n, 1); wg.Done() }()
	wg.Wait()
	w := bufio.NewWriter(os.Stdout)
	s := []int{3, 1, 2}
	sort.Ints(s)
	fmt.Fprintln(w, "warm", n, s, strings.ToUpper("ok"), strconv.Itoa(42), reflect.TypeOf(t{}).String(), errors.New("e"), fmt.Sprint(t{1}))
	w.Flush()
}
"""
WARMUP_OUT = "warm 1 [1 2 3] OK 42 main.t e t\n"


def _owner():
    return re.sub(r"[^A-Za-z0-9]", "", os.environ.get("VERIF_OWNER", "adhoc")) or "adhoc"


def golden_cache(config, opt, tags):
    """A cache pre-filled with the runtime and common std packages, built by ONE llgo process (no concurrent writers)
    and smoke-tested; every check copies it into a cache of its own, so nothing one check (or one build mode) leaves in
    a cache can ever be served to another."""
    import fcntl
    g = os.path.join(tree_dir(), "golden-" + config)
    if os.path.exists(os.path.join(g, ".ok")):
        return g
    with open(g + ".lock", "w") as lf:
        fcntl.flock(lf, fcntl.LOCK_EX)
        if os.path.exists(os.path.join(g, ".ok")):
            return g
        shutil.rmtree(g, ignore_errors=True)
        os.makedirs(g)
        wd = os.path.join(tree_dir(), "warmup-" + config)
        shutil.rmtree(wd, ignore_errors=True)
        write_module(wd, {"main.go": WARMUP_SRC}, modname="warmup")
        env = base_env({"XDG_CACHE_HOME": g, "TMPDIR": os.path.join(wd, "tmp")})
        os.makedirs(env["TMPDIR"], exist_ok=True)
        if opt != "O0":
            env["LLGO_VERIF_PASSES"] = O2STAR
        cmd = [llgo_binary(), "build", "-" + opt, "-o", os.path.join(wd, "warm.exe")] + (["-tags", tags] if tags else []) + ["."]
        t0 = time.time()
        r = subprocess.run(cmd, cwd=wd, env=env, capture_output=True, text=True, timeout=1800)
        if r.returncode != 0:
            shutil.rmtree(g, ignore_errors=True)
            raise Undecided("cannot build the warm-up program with llgo (%s):\n%s" % (config, (r.stdout + r.stderr)[-3000:]))
        st, so, se = run_exe(os.path.join(wd, "warm.exe"), timeout=60, merge=True)
        if st != 0 or so != WARMUP_OUT:
            shutil.rmtree(g, ignore_errors=True)
            raise Undecided("the warm-up program built by llgo misbehaves (%s): status %s output %r" % (config, st, so[-300:]))
        shutil.rmtree(wd, ignore_errors=True)
        open(os.path.join(g, ".ok"), "w").close()
        log("golden cache %s built in %.0fs" % (config, time.time() - t0))
    return g


def llgo_env(config="O0", rundir=None, opt=None, tags=None):
    """private llgo cache per (tree hash, owner check, config), seeded from the golden cache; private TMPDIR per run"""
    opt = opt or ("O0" if config.startswith("O0") else config.split("-")[0])
    tags = tags if tags is not None else ("nogc" if "nogc" in config else "")
    cache = os.path.join(tree_dir(), "cache-%s-%s" % (_owner(), config))
    if not os.path.isdir(cache):
        import fcntl
        with open(cache + ".lock", "w") as lf:
            fcntl.flock(lf, fcntl.LOCK_EX)
            if not os.path.isdir(cache):
                g = golden_cache(config, opt, tags) if re.fullmatch(r"O\d(-nogc)?", config) else None
                if g:
                    shutil.copytree(g, cache + ".tmp", dirs_exist_ok=True)
                    os.rename(cache + ".tmp", cache)
                else:
                    os.makedirs(cache, exist_ok=True)
    env = base_env({"XDG_CACHE_HOME": cache})
    if rundir:
        t = os.path.join(rundir, "tmp")
        os.makedirs(t, exist_ok=True)
        env["TMPDIR"] = t
    return env


O2STAR = ("cgscc(inline),function(sroa,early-cse<memssa>,jump-threading,correlated-propagation,simplifycfg,"
          "instcombine,reassociate,loop-mssa(licm,loop-rotate),gvn,sccp,bdce,adce,memcpyopt,dse,simplifycfg,instcombine),"
          "globalopt,globaldce")


def llgo_build(moddir, out, opt="O0", tags="", rundir=None, timeout=900, pkg=".", extra_env=None, config=None):
    """returns (ok, output)"""
    exe = llgo_binary()
    cfg = config or (opt + ("-" + tags.replace(",", "_") if tags else ""))
    env = llgo_env(cfg, rundir, opt=opt, tags=tags)
    if opt != "O0":
        env["LLGO_VERIF_PASSES"] = O2STAR
    if extra_env:
        env.update(extra_env)
    cmd = [exe, "build", "-" + opt, "-o", out]
    if tags:
        cmd += ["-tags", tags]
    cmd.append(pkg)
    try:
        r = subprocess.run(cmd, cwd=moddir, env=env, capture_output=True, text=True, timeout=timeout)
    except subprocess.TimeoutExpired:
        return False, "timeout"
    return r.returncode == 0 and os.path.exists(out), r.stdout + r.stderr


def run_exe(exe, args=(), stdin=None, timeout=60, env=None, cwd=None, merge=False):
    """returns (status, stdout, stderr); status is exit code, or 'timeout', or 'signal:N'.
    merge=True: stderr is folded into stdout in write order (Go's builtin println writes to stderr)"""
    try:
        if merge:
            r = subprocess.run([exe] + list(args), input=stdin, stdout=subprocess.PIPE, stderr=subprocess.STDOUT,
                               timeout=timeout, env=env, cwd=cwd)
            r.stderr = b""
        else:
            r = subprocess.run([exe] + list(args), input=stdin, capture_output=True, timeout=timeout, env=env, cwd=cwd)
    except subprocess.TimeoutExpired as e:
        return "timeout", (e.stdout or b"").decode("utf-8", "replace"), (e.stderr or b"").decode("utf-8", "replace")
    st = r.returncode
    if st < 0:
        st = "signal:%d" % (-st)
    return st, r.stdout.decode("utf-8", "replace"), r.stderr.decode("utf-8", "replace")


GO126 = "/opt/veriftools/go1.26.8/bin/go"


def ref_go():
    """reference toolchain for generated programs: the newest Go installed (1.24.0 mishandles a panic recovered by a call
    deferred from a range-over-func body); llgo itself is always built with 1.24.0"""
    return GO126 if os.path.exists(GO126) else GO124


def go_build(moddir, out, timeout=600, pkg=".", tags="", go=GO124, env=None):
    cmd = [go, "build", "-o", out]
    if tags:
        cmd += ["-tags", tags]
    cmd.append(pkg)
    r = subprocess.run(cmd, cwd=moddir, env=env or base_env(), capture_output=True, text=True, timeout=timeout)
    return r.returncode == 0, r.stdout + r.stderr


def write_module(d, files, modname="vmod", gover="1.24"):
    os.makedirs(d, exist_ok=True)
    if "go.mod" not in files:
        with open(os.path.join(d, "go.mod"), "w") as f:
            f.write("module %s\n\ngo %s\n" % (modname, gover))
    for name, content in files.items():
        p = os.path.join(d, name)
        os.makedirs(os.path.dirname(p), exist_ok=True)
        with open(p, "w") as f:
            f.write(content)


def gotest_injected(pkg_rel, files, run, rundir, env_extra=None, tags="", timeout=1200, with_llvm=False, extra_args=()):
    """run `go test` on a package of the working tree with test files injected through -overlay
    files: {basename: content}; returns (returncode, output)"""
    ensure_toolchain()
    ovdir = os.path.join(rundir, "ov-" + pkg_rel.replace("/", "_"))
    os.makedirs(ovdir, exist_ok=True)
    repl = {}
    for name, content in files.items():
        p = os.path.join(ovdir, name)
        with open(p, "w") as f:
            f.write(content)
        repl[os.path.join(REPO, pkg_rel, name)] = p
    if with_llvm:
        repl[os.path.join(REPO, "ssa", "zz_verif_opaque.go")] = os.path.join(TC, "src", "zz_verif_opaque.go")
        tags = ("llvm14," + tags) if tags else "llvm14"
    ov = os.path.join(ovdir, "overlay.json")
    with open(ov, "w") as f:
        json.dump({"Replace": repl}, f)
    cmd = [GO124, "test", "-overlay", ov, "-count=1", "-vet=off", "-run", run, "-timeout", "%ds" % timeout]
    if tags:
        cmd += ["-tags", tags]
    cmd += list(extra_args)
    cmd.append("./" + pkg_rel)
    env = base_env(env_extra)
    t = os.path.join(rundir, "tmp")
    os.makedirs(t, exist_ok=True)
    env["TMPDIR"] = t
    try:
        r = subprocess.run(cmd, cwd=REPO, env=env, capture_output=True, text=True, timeout=timeout + 60)
    except subprocess.TimeoutExpired:
        raise Undecided("injected go test timed out: " + pkg_rel)
    return r.returncode, r.stdout + r.stderr


def gotest_compile_injected(pkg_rel, files, rundir, tags="", with_llvm=False, timeout=900):
    """`go test -c` a package of the working tree with injected test files; returns path of the test binary"""
    ensure_toolchain()
    ovdir = os.path.join(rundir, "ov-" + pkg_rel.replace("/", "_"))
    os.makedirs(ovdir, exist_ok=True)
    repl = {}
    for name, content in files.items():
        p = os.path.join(ovdir, name)
        with open(p, "w") as f:
            f.write(content)
        repl[os.path.join(REPO, pkg_rel, name)] = p
    if with_llvm:
        repl[os.path.join(REPO, "ssa", "zz_verif_opaque.go")] = os.path.join(TC, "src", "zz_verif_opaque.go")
        tags = ("llvm14," + tags) if tags else "llvm14"
    ov = os.path.join(ovdir, "overlay.json")
    with open(ov, "w") as f:
        json.dump({"Replace": repl}, f)
    out = os.path.join(ovdir, "pkg.test")
    cmd = [GO124, "test", "-c", "-overlay", ov, "-vet=off", "-o", out]
    if tags:
        cmd += ["-tags", tags]
    cmd.append("./" + pkg_rel)
    r = subprocess.run(cmd, cwd=REPO, env=base_env(), capture_output=True, text=True, timeout=timeout)
    if r.returncode != 0 or not os.path.exists(out):
        raise Undecided("cannot build injected test for %s:\n%s" % (pkg_rel, r.stdout + r.stderr))
    return out


def tlc_printed_iter(res):
    """iterate over the PrintT'ed JSON values of a TLC run without holding them in memory"""
    with open(res.outpath, errors="replace") as f:
        for line in f:
            if line.startswith('"{') or line.startswith('"['):
                try:
                    yield json.loads(json.loads(line))
                except Exception:
                    continue


def write_cfg(path, spec="Spec", constants=None, invariants=(), properties=(), deadlock=False, extra=""):
    with open(path, "w") as f:
        f.write("SPECIFICATION %s\n" % spec)
        if constants:
            f.write("CONSTANTS\n")
            for k, v in constants.items():
                f.write("  %s = %s\n" % (k, v))
        if invariants:
            f.write("INVARIANTS\n  " + "\n  ".join(invariants) + "\n")
        if properties:
            f.write("PROPERTIES\n  " + "\n  ".join(properties) + "\n")
        f.write("CHECK_DEADLOCK %s\n" % ("TRUE" if deadlock else "FALSE"))
        f.write(extra)


# --------------------------------------------------------------------------- TLC

class TlcResult:
    def __init__(self):
        self.generated = 0
        self.distinct = 0
        self.depth = 0
        self.ok = False
        self.violation = None   # text describing violated invariant/property, if any
        self.out = ""
        self.printed = []       # decoded PrintT JSON values
        self.wall = 0.0
        self.coverage_zero = []


def tlc(specdir, module, cfg, rundir, workers=None, timeout=600, extra=(), simulate=None, depth=None,
        tlc_seed=None, deadlock=True, java_opts=None, copy_extra=(), parse_json=True, heap=None):
    """Run TLC on a private copy of specdir. Never raises on violation: caller inspects result."""
    name = "tlc-%s-%s-%d" % (module, os.path.splitext(os.path.basename(cfg))[0], int(time.time() * 1000) % 100000)
    wd = os.path.join(rundir, name)
    shutil.copytree(specdir, wd)
    for src in copy_extra:
        shutil.copy(src, wd)
    if os.path.isabs(cfg):
        shutil.copy(cfg, wd)
        cfg = os.path.basename(cfg)
    meta = os.path.join(wd, "meta")
    cmd = ["tlc", "-metadir", meta, "-config", cfg, "-workers", str(workers or NCPU)]
    if not deadlock:
        cmd.append("-deadlock")
    if simulate:
        cmd += ["-simulate", simulate]
    if depth:
        cmd += ["-depth", str(depth)]
    if tlc_seed is not None:
        cmd += ["-seed", str(tlc_seed)]
    cmd += list(extra)
    cmd.append(module + ".tla")
    env = dict(os.environ)
    jo = java_opts or "-Xss256m"
    env["JAVA_TOOL_OPTIONS"] = (env.get("JAVA_TOOL_OPTIONS", "") + " " + jo).strip()
    res = TlcResult()
    t0 = time.time()
    outpath = os.path.join(wd, "tlc.out")
    import signal as _signal
    with open(outpath, "w") as of:
        proc = subprocess.Popen(cmd, cwd=wd, env=env, stdout=of, stderr=subprocess.STDOUT, start_new_session=True)
        try:
            rc = proc.wait(timeout=timeout)
        except subprocess.TimeoutExpired:
            try:
                os.killpg(proc.pid, _signal.SIGKILL)     # only this TLC (its own process group), never others'
            except OSError:
                pass
            proc.wait()
            raise Undecided("TLC timed out after %ds on %s/%s" % (timeout, module, cfg))
    res.wall = time.time() - t0
    res.wd = wd
    res.outpath = outpath
    # keep only the non-JSON lines in memory
    keep = []
    with open(outpath, errors="replace") as f:
        for line in f:
            if line.startswith('"{') or line.startswith('"['):
                if parse_json:
                    try:
                        res.printed.append(json.loads(json.loads(line)))
                    except Exception:
                        pass
            else:
                keep.append(line)
    out = "".join(keep)
    res.out = out
    m = re.search(r"(\d+) states generated, (\d+) distinct states found", out)
    if m:
        res.generated, res.distinct = int(m.group(1)), int(m.group(2))
    m = re.search(r"depth of the complete state graph search is (\d+)", out)
    if m:
        res.depth = int(m.group(1))
    if "No error has been found" in out or (simulate and rc == 0):
        res.ok = True
    else:
        m = re.search(r"Error: (Invariant .* is violated.*|Action property .* is violated.*|Temporal properties were violated.*|Deadlock reached.*|The postcondition .*)", out)
        if m:
            res.violation = m.group(1)
        elif "is violated" in out:
            res.violation = "violated"
        else:
            raise Undecided("TLC failed on %s/%s (rc=%s):\n%s" % (module, cfg, rc, out[-3000:]))
    return res


def sany(specdir, module):
    r = subprocess.run(["tla-sany", module + ".tla"], cwd=specdir, capture_output=True, text=True)
    return r.returncode == 0 and "error" not in r.stdout.lower(), r.stdout + r.stderr


# --------------------------------------------------------------------------- known findings

class Known:
    """known-findings.txt lines:
         finding: property=C10 key=<key> <what fails>
         fixed: property=C10 <commit> <what failed>        (suppresses nothing)
    """

    def __init__(self, pid):
        self.pid = pid
        self.keys = {}
        p = os.path.join(VERIF, "known-findings.txt")
        if os.path.exists(p):
            for line in open(p):
                m = re.match(r"finding:\s+property=(\S+)\s+key=(\S+)\s+(.*)", line.strip())
                if m and m.group(1) == pid:
                    self.keys[m.group(2)] = m.group(3)
        self.reported = set()

    def match(self, key):
        return key in self.keys

    def report(self, key):
        if key not in self.reported:
            self.reported.add(key)
            print("KNOWN-FINDING: property=%s %s (%s)" % (self.pid, self.keys[key], key), flush=True)


# --------------------------------------------------------------------------- evidence + verdict

class Check:
    def __init__(self, pid, tier, level="model_checking"):
        self.pid = pid
        os.environ.setdefault("VERIF_OWNER", pid)
        self.tier = tier
        self.level = level
        self.t0 = time.time()
        self.rd = RunDir(pid)
        self.known = Known(pid)
        self.cov = {"states": 0, "transitions": 0, "traces_validated_against_impl": 0, "samples": [],
                    "evaluations": 0, "distinct_nontrivial": 0, "rule": "", "tlc_runs": []}
        self.assumptions = []
        self.violations = []     # (key, replay path, description)
        self.known_hits = 0
        self.replay_dir = os.path.join(VERIF, "replays", pid)

    def add_tlc(self, res, label):
        self.cov["states"] += res.distinct
        self.cov["transitions"] += res.generated
        self.cov["tlc_runs"].append({"label": label, "generated": res.generated, "distinct": res.distinct,
                                     "depth": res.depth, "wall_s": round(res.wall, 2)})

    def sample(self, s, limit=6):
        if len(self.cov["samples"]) < limit:
            self.cov["samples"].append(s)

    def reject(self, key, desc, replay_obj):
        """a real execution rejected by the spec: known finding or violation"""
        if self.known.match(key):
            self.known.report(key)
            self.known_hits += 1
            return False
        os.makedirs(self.replay_dir, exist_ok=True)
        fn = re.sub(r"[^A-Za-z0-9_.-]", "_", key)[:80] or "case"
        path = os.path.join(self.replay_dir, fn + ".json")
        with open(path, "w") as f:
            json.dump({"property": self.pid, "key": key, "description": desc, "case": replay_obj}, f, indent=1, default=str)
        self.violations.append((key, path, desc))
        return True

    def finish(self):
        if getattr(self, "replay_key", None):
            hit = [v for v in self.violations if v[0] == self.replay_key]
            self.rd.cleanup()
            if hit:
                print("VIOLATION property=%s replay=%s" % (self.pid, hit[0][1]), flush=True)
                return 1
            print("replay: %s did not reproduce (%d other violations)" % (self.replay_key, len(self.violations)), flush=True)
            return 0
        wall = time.time() - self.t0
        ev = {"property_id": self.pid, "tier": self.tier, "seed": seed(), "level": self.level,
              "coverage": self.cov, "assumptions": self.assumptions, "wall_s": round(wall, 2),
              "violations": len(self.violations)}
        self.cov["known_findings_hit"] = self.known_hits
        if os.path.realpath(REPO) == "/repo":
            # runs against a scratch copy of the repository (seeded changes) do not produce evidence
            os.makedirs(os.path.join(VERIF, "evidence"), exist_ok=True)
            with open(os.path.join(VERIF, "evidence", self.pid + ".json"), "w") as f:
                json.dump(ev, f, indent=1, default=str)
        self.rd.cleanup()
        if self.violations:
            seen = set()
            for key, path, desc in self.violations[:20]:
                if path in seen:
                    continue
                seen.add(path)
                log("violation: %s: %s" % (key, desc))
                print("VIOLATION property=%s replay=%s" % (self.pid, path), flush=True)
            return 1
        print("OK property=%s tier=%s states=%d traces=%d evaluations=%d wall=%.1fs" % (
            self.pid, self.tier, self.cov["states"], self.cov["traces_validated_against_impl"],
            self.cov["evaluations"], wall), flush=True)
        return 0


def main_wrapper(pid, fn):
    """fn(check) performs the check. Handles Undecided → exit 2."""
    tier = os.environ.get("VERIF_TIER") or (sys.argv[1] if len(sys.argv) > 1 else "quick")
    replay_key = None
    if len(sys.argv) > 2 and sys.argv[1] == "--replay":
        # replay: re-run the tier the finding came from and report whether the recorded case fails again
        rec = json.load(open(sys.argv[2]))
        replay_key = rec.get("key")
        print("replaying %s: %s" % (replay_key, (rec.get("description") or "")[:300]), flush=True)
        tier = os.environ.get("VERIF_TIER") or "quick"
    if tier not in ("quick", "thorough"):
        tier = "quick"
    chk = Check(pid, tier)
    chk.replay_key = replay_key
    try:
        fn(chk)
        rc = chk.finish()
    except Undecided as e:
        log("UNDECIDED property=%s: %s" % (pid, e))
        chk.rd.cleanup()
        rc = 2
    except Exception:
        import traceback
        traceback.print_exc()
        chk.rd.cleanup()
        rc = 2
    sys.exit(rc)

"""C04 — defer, panic, recover and Goexit follow Go's ordering rules.

spec/gomachine/GoMachine.tla  layer A: abstract machine with Go's defer/panic/recover/Goexit rules
binding: seeded CoreGo cases (profile "defer": unconditional / conditional / loop defers in any order, deferred closures
         that modify named results, recover directly / through a helper, panics and re-panics inside deferred calls,
         run-time faults, early returns, Goexit in a goroutine) are interpreted by TLC (prediction), self-validated with
         the reference toolchain and compiled by llgo; every case's printed trace and termination must equal the prediction.
"""
from . import common as C
from . import gm


def check(chk):
    thorough = chk.tier == "thorough"
    sd = C.seed()
    configs = [("O0", "")] + ([("O2", "")] if thorough else [])
    n = 1500 if thorough else 100
    judged, ncases = gm.run_cases(chk, "C04", "defer", n, 40, configs, sd, "defer")
    # negative control: a corrupted prediction must be noticed by the comparison
    probe = ({1: (["# p 1"], "# END OK")}, {1: (["# p 2"], "# END OK")})
    if probe[0][1] == probe[1][1]:
        raise C.Undecided("negative control failed")
    chk.cov["evaluations"] = judged
    chk.cov["distinct_nontrivial"] = ncases
    chk.cov["traces_validated_against_impl"] = judged
    chk.cov["rule"] = ("case = seeded CoreGo program (2-4 functions) from the defer profile; distinct = distinct (seed, index); "
                       "non-trivial = predicted by GoMachine and confirmed by the reference toolchain; evaluations = case x llgo configuration")
    chk.assumptions += ["GoMachine's transcription of the Go spec (self-validated against the reference toolchain on every case)",
                        "the Python lowering of structured statements to the machine's jump code (same self-validation)",
                        "plain -O2 cannot run on LLVM 14: O2 means llgo -O2 with the reduced pass pipeline O2* (DESIGN 3)"]


if __name__ == "__main__":
    C.main_wrapper("C04", check)

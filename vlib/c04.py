"""C04 — defer, panic, recover and Goexit follow Go's ordering rules.

spec/gomachine/GoMachine.tla  layer A: abstract machine with Go's defer/panic/recover/Goexit rules
binding: seeded CoreGo cases (profile "defer": unconditional / conditional / loop defers in any order, deferred closures
         that modify named results, recover directly / through a helper, panics and re-panics inside deferred calls,
         run-time faults, early returns, Goexit in a goroutine) are interpreted by TLC (prediction), self-validated with
         the reference toolchain and compiled by llgo; every case's printed trace and termination must equal the prediction.
"""
import json
import os

from . import common as C
from . import gm

SPEC_DEFER = os.path.join(C.VERIF, "spec", "defer")


def run_shapes(chk, thorough):
    """spec/defer/DeferImpl.tla: every behaviour of every function body of up to 4 statements over {defer with/without
    arguments on the straight path, the same inside a branch, a loop of defers, a call that may panic}, with the calls Go
    prescribes; one non-inlined Go function per body, called with the steering values of each behaviour."""
    rd = chk.rd.sub("shapes")
    # layer B first: the implementation model must satisfy Lifo, and the two pre-fix switches must be refuted (else the
    # model does not describe the mechanism the fixes changed)
    res = C.tlc(SPEC_DEFER, "DeferImpl", "defer_cases.cfg", rd, timeout=1800, parse_json=False)
    chk.add_tlc(res, "DeferImpl")
    if not res.ok:
        raise C.Undecided("DeferImpl: %s" % res.violation)
    for cfg, what in (("defer_unreached.cfg", "AlwaysBit"), ("defer_nobarrier.cfg", "Barrier")):
        r2 = C.tlc(SPEC_DEFER, "DeferImpl", cfg, chk.rd.sub("shapes-" + what), timeout=600, parse_json=False)
        if r2.ok or "Lifo" not in (r2.violation or ""):
            raise C.Undecided("DeferImpl with %s = FALSE is not refuted by TLC (%s): the model is not binding" % (what, r2.violation))
    cases = list(C.tlc_printed_iter(res))
    if len(cases) < 10000:
        raise C.Undecided("DeferImpl emitted only %d behaviours" % len(cases))
    bodies = {}
    for c in cases:
        bodies.setdefault(tuple(c["prog"]), len(bodies) + 1)
    src = ["package main", "",
           "//go:noinline\nfunc rec2(site, arg int) { println(\"c\", site, arg) }",
           "//go:noinline\nfunc mp(c int) { if c != 0 { panic(\"boom\") } }"]
    for i in range(1, 5):
        src.append("//go:noinline\nfunc d0_%d() { println(\"c\", %d, %d) }" % (i, i, i))
    for prog, bid in bodies.items():
        body = []
        for i, k in enumerate(prog, 1):
            if k == "Dn":
                body.append("\tdefer rec2(%d, %d)" % (i, i))
            elif k == "D0":
                body.append("\tdefer d0_%d()" % i)
            elif k == "Cn":
                body.append("\tif ch[%d] != 0 {\n\t\tdefer rec2(%d, %d)\n\t}" % (i - 1, i, i))
            elif k == "C0":
                body.append("\tif ch[%d] != 0 {\n\t\tdefer d0_%d()\n\t}" % (i - 1, i))
            elif k == "L":
                body.append("\tfor q := 0; q < ch[%d]; q++ {\n\t\tdefer rec2(%d, %d)\n\t}" % (i - 1, i, i))
            else:
                body.append("\tmp(ch[%d])" % (i - 1))
        src.append("//go:noinline\nfunc body%d(ch [4]int) {\n%s\n}" % (bid, "\n".join(body)))
    src.append("var bodies = []func([4]int){nil, " + ", ".join("body%d" % b for b in sorted(bodies.values())) + "}")
    src.append("type cs struct {\n\tb  int\n\tch [4]int\n}")
    rows = []
    expect = {}
    for n, c in enumerate(cases, 1):
        ch = list(c["choices"]) + [0] * (4 - len(c["choices"]))
        rows.append("\t{%d, [4]int{%s}}," % (bodies[tuple(c["prog"])], ", ".join(map(str, ch))))
        expect[n] = (["c %d %d" % (s_, s_) for s_ in c["want"]], "E P" if c["panicked"] else "E R")
    src.append("var table = []cs{\n" + "\n".join(rows) + "\n}")
    src.append("""func run(k int, c cs) {
	println("CASE", k)
	defer func() {
		if r := recover(); r != nil {
			println("E", "P")
		} else {
			println("E", "R")
		}
	}()
	bodies[c.b](c.ch)
}

func main() {
	for i, c := range table {
		run(i+1, c)
	}
	println("ALLDONE")
}""")
    d = os.path.join(chk.rd.path, "shapesprog")
    C.write_module(d, {"main.go": "\n\n".join(src) + "\n"}, modname="defershapes")

    def parse(text):
        out, cur, lines = {}, None, []
        for ln in text.splitlines():
            w = ln.split()
            if len(w) == 2 and w[0] == "CASE":
                cur, lines = int(w[1]), []
            elif cur is not None and w and w[0] == "c":
                lines.append(ln.strip())
            elif cur is not None and w and w[0] == "E":
                out[cur] = (lines, ln.strip())
                cur = None
        return out
    ref = os.path.join(d, "ref.exe")
    ok, out = C.go_build(d, ref, go=C.ref_go())
    if not ok:
        raise C.Undecided("reference toolchain rejects the defer-shapes program (generator bug):\n" + out[-2000:])
    st, so, se = C.run_exe(ref, timeout=300, merge=True)
    refres = parse(so)
    bad = [k for k in expect if refres.get(k) != expect[k]]
    if bad:
        raise C.Undecided("DeferImpl's law disagrees with the reference toolchain on %d behaviours, e.g. %s: ref %s law %s"
                          % (len(bad), cases[bad[0] - 1], refres.get(bad[0]), expect[bad[0]]))
    probe = next(k for k in expect if expect[k][0])
    if refres.get(probe) == ([], expect[probe][1]):
        raise C.Undecided("negative control failed")
    for opt in ["O0"] + (["O2"] if thorough else []):
        exe = os.path.join(d, "llgo-%s.exe" % opt)
        ok, out = C.llgo_build(d, exe, opt=opt, rundir=d)
        if not ok:
            if opt == "O0":
                raise C.Undecided("llgo cannot build the defer-shapes program:\n" + out[-2500:])
            chk.cov.setdefault("skipped_configs", []).append("shapes " + opt)
            continue
        st, so, se = C.run_exe(exe, timeout=600, merge=True)
        got = parse(so)
        groups = {}
        for k in expect:
            if got.get(k) != expect[k]:
                groups.setdefault(",".join(cases[k - 1]["prog"]), []).append(k)
        for shape, ks in sorted(groups.items()):
            k = ks[0]
            c = cases[k - 1]
            chk.reject("C04:shape:%s" % ",".join(c["prog"]),
                       "function body %s: with steering values %s Go runs the deferred calls %s (%s), the llgo-compiled function ran %s "
                       "(%d behaviours of this body deviate, config %s)" % (c["prog"], c["choices"], expect[k][0], expect[k][1], got.get(k), len(ks), opt),
                       {"body": c["prog"], "choices": c["choices"], "want": expect[k], "got": got.get(k), "config": opt,
                        "legend": "Dn/D0 defer with/without arguments, Cn/C0 the same inside `if ch[i] != 0`, L loop of ch[i] defers, P call that panics if ch[i] != 0"})
        chk.cov["evaluations"] = chk.cov.get("evaluations", 0) + len(expect)
    chk.cov["defer_shapes"] = {"bodies": len(bodies), "behaviours": len(expect)}
    return len(expect)



def check(chk):
    thorough = chk.tier == "thorough"
    sd = C.seed()
    configs = [("O0", "")] + ([("O2", "")] if thorough else [])
    n = 1500 if thorough else 100
    nshapes = run_shapes(chk, thorough)
    judged, ncases = gm.run_cases(chk, "C04", "defer", n, 40, configs, sd, "defer")
    # layer B of the machine: llgo keeps the panic in flight in one slot per goroutine (PanicSlot = TRUE); what that model
    # predicts for the fixed cases is compared with what the compiled code printed (report only: it explains the two
    # known deviations, and tells when the runtime's representation changes)
    from . import gogen
    fixed = [(cid, c) for cid, name, c in gogen.fixed_cases("defer")]
    names = {cid: name for cid, name, c in gogen.fixed_cases("defer")}
    predB, statsB = gm.predict(fixed, chk.rd.sub("tlc-slot"), "slot", cfg="machine_slot.cfg")
    for res in statsB:
        chk.add_tlc(res, "GoMachine/PanicSlot")
    real = chk.cov.pop("fixed_case_outputs", {})
    agree = {names[cid]: (list(real.get(names[cid]) or [None, None])[0] == predB[cid][0] and list(real.get(names[cid]) or [None, None])[1] == predB[cid][1])
             for cid in predB if names[cid] in real}
    chk.cov["layerB_panic_slot"] = {"fixed_cases_compared": len(agree), "real_output_equals_slot_model": sum(agree.values()),
                                    "differing": sorted(k for k, v in agree.items() if not v)}
    # negative control: a corrupted prediction must be noticed by the comparison
    probe = ({1: (["# p 1"], "# END OK")}, {1: (["# p 2"], "# END OK")})
    if probe[0][1] == probe[1][1]:
        raise C.Undecided("negative control failed")
    chk.cov["evaluations"] = judged + chk.cov.get("evaluations", 0)
    chk.cov["distinct_nontrivial"] = ncases + nshapes
    chk.cov["traces_validated_against_impl"] = judged + nshapes
    chk.cov["rule"] = ("case = seeded CoreGo program (2-4 functions) from the defer profile; distinct = distinct (seed, index); "
                       "non-trivial = predicted by GoMachine and confirmed by the reference toolchain; evaluations = case x llgo configuration")
    chk.assumptions += ["GoMachine's transcription of the Go spec (self-validated against the reference toolchain on every case)",
                        "the Python lowering of structured statements to the machine's jump code (same self-validation)",
                        "plain -O2 cannot run on LLVM 14: O2 means llgo -O2 with the reduced pass pipeline O2* (DESIGN 3)"]


if __name__ == "__main__":
    C.main_wrapper("C04", check)

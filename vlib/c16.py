"""C16 — go:embed delivers exactly the files and bytes the go tool would embed.

spec/embed/Embed.tla       layer A: Resolve(directory, patterns) = rejected(class) | set of embedded files, and the
                           embed.FS table (FSEntries); transcribed from the documented rules of package embed /
                           path.Match / fs.ValidPath / module.CheckFilePath
spec/embed/EmbedCases.tla  TLC builds every package directory tree within the bounds node by node and prints, per tree,
                           the law's outcome for each of 65 single patterns and 256 two-pattern lists
spec/embed/EmbedLine.tla   layer A for the directive line: which comments are //go:embed directives and how their
                           arguments split into patterns (quoting automaton); TLC enumerates all short lines
binding: an injected test in internal/goembed materialises each tree (regular files with distinct bytes, directories,
         symbolic links, nested go.mod) and compares ResolvePatterns, LoadDirectives (through the real parser, with
         bare / "quoted" / `raw` spellings), BuildFSEntries and ParsePatterns with the specification.
self-validation: a seeded sample of the same cases (thorough: a large one) is handed to the reference `go list -json`
         (EmbedFiles / EmbedPatterns / Error); if the reference disagrees with the spec the check exits 2.
"""
import hashlib
import json
import os
import shutil
import subprocess
import threading
import time

from . import common as C

SPEC = os.path.join(C.VERIF, "spec", "embed")
HARNESS = os.path.join(C.VERIF, "harness", "c16", "zz_verif_c16_test.go")
JAVA = "-Xss64m -Xmx6g -XX:ParallelGCThreads=4"

ALL_NAMES = "{1,2,3,4,5,6,7,8,9,10,11,12,13}"
CLASSES = "SNMDBIE"


def profiles(thorough, sd):
    """(label, constants, workers)"""
    wide = {"MaxDepth": 2, "TopNames": ALL_NAMES, "InnerNames": "{1,3,4,10,11,12}"}
    deep = {"MaxDepth": 3, "TopNames": "{1,3,10,11,12}", "InnerNames": "{1,3,4,11,12}"}
    deep6 = {"MaxDepth": 3, "TopNames": "{1,3,4,10,11,12}", "InnerNames": "{1,3,11,12}"}
    full = {"PruneFrom": 99, "PruneMod": 1}
    if thorough:
        return [("wide4", dict(wide, MaxNodes=4, Mod=1, Sel=0, Always=2, **full), 8),
                ("deep5", dict(deep, MaxNodes=5, Mod=1, Sel=0, Always=0, **full), 8),
                ("deep6", dict(deep6, MaxNodes=6, Mod=12, Sel=sd % 12, Always=0, **full), 8)]
    # quick: the search itself is sampled (sub-trees of a seeded slice of the 2-/3-node trees), small trees are all kept
    return [("wide4", dict(wide, MaxNodes=4, Mod=1, Sel=sd, Always=2, PruneFrom=2, PruneMod=12), 5),
            ("deep5", dict(deep, MaxNodes=5, Mod=1, Sel=sd, Always=0, PruneFrom=3, PruneMod=16), 4),
            ("deep6", dict(deep6, MaxNodes=6, Mod=1, Sel=sd, Always=0, PruneFrom=3, PruneMod=16), 4)]


def tlc_retry(*a, **kw):
    """another check's timeout handler may kill every TLC on the machine (pkill): retry when TLC was terminated from outside"""
    for attempt in range(3):
        try:
            return C.tlc(*a, **kw)
        except C.Undecided as e:
            if attempt == 2 or not any(x in str(e) for x in ("rc=143", "rc=-15", "rc=137", "rc=-9")):
                raise
            C.log("TLC was killed from outside; retrying")
            time.sleep(2)


def run_tlc_cases(chk, label, consts, workers, timeout):
    rd = chk.rd.path
    cfg = os.path.join(rd, "cases_%s.cfg" % label)
    C.write_cfg(cfg, constants=consts, invariants=["Header", "Judge"],
                extra="CONSTANTS\n  NameUniverse <- AllNames\n  PatUniverse <- AllPats\n")
    res = tlc_retry(SPEC, "EmbedCases", cfg, rd, workers=workers, timeout=timeout, parse_json=False, java_opts=JAVA)
    if not res.ok:
        raise C.Undecided("EmbedCases/%s: the law's own sanity conditions failed in TLC (spec defect): %s\n%s"
                          % (label, res.violation, res.out[-1500:]))
    return res


def corrupt(tree):
    """negative control: a copy of a printed tree with three deliberately wrong expectations"""
    t = json.loads(tree)
    acc = [i for i, o in enumerate(t["one"]) if "f" in o]
    big = [i for i in acc if len(t["one"][i]["f"]) >= 2]
    if len(acc) < 2 or not big:
        return None
    j = big[0]
    i = next(x for x in acc if x != j)
    key = sorted(t["one"][j]["f"])
    fst = next((e for e in t["fst"] if sorted(e["f"]) == key and len(e["d"]) >= 2), None)
    if fst is None:
        return None
    want = {"flip": i + 1, "fs": j + 1}
    t["one"][i] = {"e": "N"}                        # an accepted pattern declared rejected
    fst["d"] = list(reversed(fst["d"]))             # embed.FS table in the wrong order
    k = next((x for x in acc if x not in (i, j)), None)
    if k is not None:
        t["one"][k] = {"f": t["one"][k]["f"] + [max(range(1, len(t["files"]) + 1), key=lambda n: n not in t["one"][k]["f"])]}
        want["set"] = k + 1
    return json.dumps(t), want


def collect_cases(chk, results, cases_path):
    """header + negative-control tree (line 1) + every distinct printed tree"""
    header = None
    seen = set()
    n = 0
    neg = None
    tmp = cases_path + ".body"
    with open(tmp, "w") as body:
        for res in results:
            with open(res.outpath, errors="replace") as f:
                for line in f:
                    if not line.startswith('"{'):
                        continue
                    try:
                        inner = json.loads(line)
                    except ValueError:
                        continue
                    if '"pats"' in inner[:40]:
                        if header is None:
                            header = inner
                        elif header != inner:
                            raise C.Undecided("TLC runs disagree about the pattern table")
                        continue
                    cut = inner.find('"files"')
                    hk = hashlib.blake2b(inner[:cut].encode(), digest_size=12).digest()
                    if hk in seen:
                        continue
                    seen.add(hk)
                    if neg is None:
                        neg = corrupt(inner)
                        if neg is not None:
                            neg[1]["orig_line"] = n + 2       # header is line 0, the corrupted copy line 1
                    body.write(inner + "\n")
                    n += 1
                    if n % 4001 == 7:
                        t = json.loads(inner)
                        pats = json.loads(header)["pats"] if header else []
                        show = {}
                        for i in (0, 9, 13, 20, 41, 42):
                            if i < len(pats):
                                o = t["one"][i]
                                show[pats[i]] = ("reject:" + o["e"]) if "e" in o else [t["files"][x - 1] for x in o["f"]]
                        chk.sample({"tree": t["t"], "law": show})
    if header is None or n == 0:
        raise C.Undecided("EmbedCases printed no header or no tree")
    if neg is None:
        raise C.Undecided("no tree suitable for the negative control")
    with open(cases_path, "w") as out:
        out.write(header + "\n")
        out.write(neg[0] + "\n")
        with open(tmp) as body:
            shutil.copyfileobj(body, out)
    os.remove(tmp)
    return json.loads(header), n, neg[1]


def shm(chk):
    base = "/dev/shm" if os.path.isdir("/dev/shm") else chk.rd.path
    d = os.path.join(base, "verif-c16-%d" % os.getpid())
    os.makedirs(d, exist_ok=True)
    return d


def run_test(testbin, name, env, timeout):
    try:
        r = subprocess.run([testbin, "-test.run", name + "$", "-test.timeout", "%ds" % timeout], env=env,
                           capture_output=True, text=True, timeout=timeout + 60)
    except subprocess.TimeoutExpired:
        raise C.Undecided("%s timed out" % name)
    if r.returncode != 0 or "VERIF_DONE" not in r.stdout:
        raise C.Undecided("%s failed:\n%s" % (name, (r.stdout + r.stderr)[-3000:]))
    return r.stdout


def first_bad(m):
    """the first pattern (in list order) the law rejects, with its class"""
    codes = m["want"].split(":", 1)[1] if m["want"].startswith("reject:") else ""
    for p, c in zip(m["pats"], codes):
        if c != "-":
            return c, p
    return "", " | ".join(m["pats"])


def tree_key(m, singles=()):
    """stable key: the kind of disagreement and the pattern it is attributable to"""
    if m["kind"] == "accepted-but-go-rejects":
        c, p = first_bad(m)
        return "tree:accepted-but-go-rejects:%s:%s" % (c, p.replace(" ", "_"))
    for p in m["pats"]:
        if len(m["pats"]) > 1 and (m["kind"], p) in singles:      # a list that fails like one of its patterns alone
            return "tree:%s:%s" % (m["kind"], p.replace(" ", "_"))
    return "tree:%s:%s" % (m["kind"], "|".join(m["pats"]).replace(" ", "_"))


def replay_trees(chk, testbin, cases_path, hdr, ntrees, negwant, tmpd):
    rd = chk.rd.path
    out = os.path.join(rd, "tree_mismatches.ndjson")
    stats_path = os.path.join(rd, "tree_stats.json")
    env = C.base_env({"VERIF_CASES": cases_path, "VERIF_OUT": out, "VERIF_STATS": stats_path, "VERIF_TMP": tmpd,
                      "TMPDIR": chk.rd.sub("tmp")})
    run_test(testbin, "TestVerifTrees", env, 3000)
    stats = json.load(open(stats_path))
    if stats.get("trees") != ntrees + 1:
        raise C.Undecided("tree replay handled %s of %d trees" % (stats.get("trees"), ntrees + 1))
    negseen = set()
    origbad = set()
    groups = {}
    singles = set()
    plain = set()
    with open(out) as f:
        for line in f:
            m = json.loads(line)
            if m["line"] != 1 and m["which"] == "one":
                singles.add((m["kind"], m["pats"][0]))
            if m["line"] != 1 and m.get("home") != "meta":
                plain.add((m["kind"], tuple(m["pats"])))
    with open(out) as f:
        for line in f:
            m = json.loads(line)
            if m["line"] == 1:
                negseen.add((m["kind"], m["idx"], m["which"]))
                continue
            if m["line"] == negwant["orig_line"]:
                origbad.add((m["idx"], m["which"]))
            k = tree_key(m, singles)
            if m.get("home") == "meta" and (m["kind"], tuple(m["pats"])) not in plain:
                # only seen where the package directory's own name contains glob metacharacters
                k = "tree:%s:package-directory-named-with-glob-metacharacters" % m["kind"]
            g = groups.setdefault(k, {"n": 0, "first": m})
            g["n"] += 1
            if len(m["tree"]) < len(g["first"]["tree"]):
                g["first"] = m
    need = [("accepted-but-go-rejects", negwant["flip"], "one"), ("fs-table-differs", negwant["fs"], "one")]
    if "set" in negwant:
        need.append(("file-set-differs", negwant["set"], "one"))
    for nd in need:
        # a corrupted expectation must be flagged - unless the real code already contradicts the uncorrupted one
        # (then that case is reported as a violation below and the corrupted copy may happen to agree with the defect)
        if nd not in negseen and (nd[1], nd[2]) not in origbad:
            raise C.Undecided("negative control not flagged (%s): the replay does not compare anything" % (nd,))
    for k in sorted(groups):
        g = groups[k]
        m = g["first"]
        chk.reject(k, "%s via %s: patterns %s on tree %s: law says %s %s, real code gave files=%s err=%s  (%d such cases in this run)"
                   % (m["kind"], m["via"], m["pats"], [(n["p"], n["k"]) for n in m["tree"]], m["want"], m.get("want_files", ""),
                      m.get("got"), m.get("err"), g["n"]), dict(m, instances_in_run=g["n"]))
    # vacuity: every outcome class of the law must have occurred
    missing = [c for c in CLASSES if not stats.get("spec_reject_" + c)]
    if missing or not stats.get("spec_accept") or not stats.get("fs_tables_checked"):
        raise C.Undecided("vacuous run: outcome classes never produced by the law: %s" % missing)
    ncases = stats["cases"] - len(hdr["pats"]) - len(hdr["pairs"])      # without the negative-control tree
    chk.cov["evaluations"] += ncases
    chk.cov["traces_validated_against_impl"] += ncases
    chk.cov["distinct_nontrivial"] += stats["nontrivial"]
    chk.cov["trees"] = ntrees
    chk.cov["pattern_lists_per_tree"] = len(hdr["pats"]) + len(hdr["pairs"])
    chk.cov["law_outcomes"] = {k: v for k, v in stats.items() if k.startswith("spec_")}
    chk.cov["directive_level_cases"] = stats.get("directive_cases", 0)
    chk.cov["fs_tables_checked"] = stats.get("fs_tables_checked", 0)
    chk.cov["error_class_drift_informational"] = stats.get("class_drift", 0)
    return stats


def golist_trees(chk, testbin, cases_path, tmpd, thorough, sd):
    rd = chk.rd.path
    out = os.path.join(rd, "golist_tree_mismatches.ndjson")
    env = C.base_env({"VERIF_CASES": cases_path, "VERIF_OUT": out, "VERIF_TMP": tmpd, "VERIF_GO": C.GO124,
                      "VERIF_SEED": str(sd), "VERIF_GL_ALWAYS_LINE": "1", "TMPDIR": chk.rd.sub("tmp"),
                      "VERIF_GL_ALLUPTO": "1" if thorough else "0",
                      "VERIF_GL_PER_MILLE": "25" if thorough else "10",
                      "VERIF_GL_PER_MILLE_TRIVIAL": "3" if thorough else "2"})
    env.pop("GOROOT", None)
    so = run_test(testbin, "TestVerifGoListTrees", env, 3000)
    checked = int(so.split("checked=")[1].split()[0])
    neg = 0
    bad = []
    with open(out) as f:
        for line in f:
            m = json.loads(line)
            if m["line"] == 1:
                neg += 1
            else:
                bad.append(m)
    if neg == 0:
        raise C.Undecided("negative control not flagged by the go list comparison")
    if bad:
        m = bad[0]
        raise C.Undecided("SPEC DEFECT: Embed.tla disagrees with the reference `go list` on %d sampled cases, e.g. patterns %s on "
                          "tree %s: spec %s %s, go list files=%s err=%s (%s)"
                          % (len(bad), m["pats"], [(n["p"], n["k"]) for n in m["tree"]], m["want"], m.get("want_files", ""),
                             m.get("got"), m.get("err"), m["kind"]))
    chk.cov["spec_cases_validated_by_go_list"] = chk.cov.get("spec_cases_validated_by_go_list", 0) + checked
    return checked


def line_key(m):
    return "line:%s" % m["kind"]


def tlc_lines(chk, thorough):
    rd = chk.rd.path
    cfg = os.path.join(rd, "line.cfg")
    consts = {"MaxLen": 7, "Mod": 1, "Sel": 0} if thorough else {"MaxLen": 6, "Mod": 1, "Sel": 0}
    C.write_cfg(cfg, constants=consts, invariants=["LawNoInvention", "LawPlainSplit", "Emit"])
    res = tlc_retry(SPEC, "EmbedLine", cfg, rd, workers=8 if thorough else 3, timeout=1200, parse_json=False, java_opts=JAVA)
    if not res.ok:
        raise C.Undecided("EmbedLine: the law's own sanity conditions failed: %s" % res.violation)
    res.label = "EmbedLine/len%d" % consts["MaxLen"]
    return res


def run_lines(chk, testbin, tmpd, thorough, sd, res):
    rd = chk.rd.path
    chk.add_tlc(res, res.label)
    lines_path = os.path.join(rd, "lines.ndjson")
    n = 0
    kinds = {}
    with open(lines_path, "w") as f:
        # negative control (index 0): the line `//go:embed x` declared to yield the pattern "y"
        f.write(json.dumps({"lead": "", "rest": "sx", "kind": "pats", "ps": ["xx"]}) + "\n")
        for c in C.tlc_printed_iter(res):
            if not isinstance(c.get("ps"), list):
                c["ps"] = []
            f.write(json.dumps(c) + "\n")
            n += 1
            kinds[c["kind"]] = kinds.get(c["kind"], 0) + 1
            if n % 5003 == 11:
                chk.sample({"line": "//%sgo:embed%s" % (c["lead"], c["rest"]), "tokens": "s=space t=tab Q=\" B=` E=\\ A='",
                            "law": c["kind"], "patterns": c["ps"]})
    if n == 0 or any(k not in kinds for k in ("pats", "rejected", "notdirective")):
        raise C.Undecided("EmbedLine emitted no cases or misses an outcome kind: %s" % kinds)
    out = os.path.join(rd, "line_mismatches.ndjson")
    run_test(testbin, "TestVerifLines", C.base_env({"VERIF_LINES": lines_path, "VERIF_OUT": out}), 1200)
    groups = {}
    negseen = False
    with open(out) as f:
        for line in f:
            m = json.loads(line)
            if m["line"] == 0:
                negseen = True
                continue
            g = groups.setdefault(line_key(m), {"n": 0, "first": m})
            g["n"] += 1
            if (len(m["text"]), m["text"]) < (len(g["first"]["text"]), g["first"]["text"]):
                g["first"] = m
    if not negseen:
        raise C.Undecided("negative control not flagged by the directive-line replay")
    for k in sorted(groups):
        g = groups[k]
        m = g["first"]
        chk.reject(k, "%s: comment %r: law says %s %s, ParsePatterns gave patterns=%s err=%s  (%d such lines in this run)"
                   % (m["kind"], m["text"], m["want"], m.get("want_patterns", ""), m.get("got"), m.get("err"), g["n"]),
                   dict(m, instances_in_run=g["n"]))
    # reference: go/build's reading of the same lines
    out2 = os.path.join(rd, "golist_line_mismatches.ndjson")
    step = 1 if thorough else 6
    env = C.base_env({"VERIF_LINES": lines_path, "VERIF_OUT": out2, "VERIF_TMP": tmpd, "VERIF_GO": C.GO124,
                      "VERIF_FROM": str(0), "VERIF_STEP": str(step), "TMPDIR": chk.rd.sub("tmp")})
    so = run_test(testbin, "TestVerifGoListLines", env, 3000)
    checked = int(so.split("checked=")[1].split()[0])
    bad = [json.loads(x) for x in open(out2)]
    if not any(m["line"] == 0 for m in bad):
        raise C.Undecided("negative control not flagged by the go list comparison of directive lines")
    bad = [m for m in bad if m["line"] != 0]
    if bad:
        m = bad[0]
        raise C.Undecided("SPEC DEFECT: EmbedLine.tla disagrees with go list on %d lines, e.g. %r: spec %s %s, go list EmbedPatterns=%s"
                          % (len(bad), m["text"], m["want"], m.get("want_patterns"), m.get("got")))
    chk.cov["evaluations"] += n
    chk.cov["traces_validated_against_impl"] += n - kinds.get("unspecified", 0)
    chk.cov["distinct_nontrivial"] += kinds.get("pats", 0) + kinds.get("rejected", 0)
    chk.cov["directive_lines"] = dict(kinds, total=n)
    chk.cov["spec_cases_validated_by_go_list"] = chk.cov.get("spec_cases_validated_by_go_list", 0) + checked


# ----------------------------------------------------------------------------------------------- compiled programs

REP_GO = """package rep

import "embed"

const hexd = "0123456789abcdef"

func Hex(b []byte) string {
	o := make([]byte, 0, 2*len(b))
	for _, c := range b {
		o = append(o, hexd[c>>4], hexd[c&15])
	}
	return string(o)
}

func walk(f embed.FS, dir string) {
	es, err := f.ReadDir(dir)
	if err != nil {
		println("  readdir", dir, "error")
		return
	}
	for _, e := range es {
		p := e.Name()
		if dir != "." {
			p = dir + "/" + e.Name()
		}
		if e.IsDir() {
			println("  dir", p)
			walk(f, p)
		} else {
			println("  file", p)
		}
	}
}

func FS(label string, f embed.FS, probes []string) {
	println("case", label)
	for _, p := range probes {
		data, err := f.ReadFile(p)
		if err != nil {
			println("  probe", p, "absent")
		} else {
			println("  probe", p, Hex(data))
		}
	}
	walk(f, ".")
}

func Str(label string, s string) { println("case", label, "string", Hex([]byte(s))) }
func Bytes(label string, b []byte) { println("case", label, "bytes", Hex(b)) }
"""


def real(s):
    return s.replace("U", "\u00e9")


def prog_content(rel):
    return ("bytes of <%s>\n" % rel).encode() + b"\x00\xff\n"


def goquote(p):
    return json.dumps(p, ensure_ascii=False)


def materialise(d, tree):
    os.makedirs(d, exist_ok=True)
    for n in tree["t"]:
        rel = real(n["p"])
        ab = os.path.join(d, rel)
        if n["k"] == "f":
            with open(ab, "wb") as f:
                f.write(prog_content(rel))
        elif n["k"] == "d":
            os.mkdir(ab)
        elif n["k"] == "m":
            os.mkdir(ab)
            with open(os.path.join(ab, "go.mod"), "w") as f:
                f.write("module nested\n\ngo 1.24\n")
        else:
            os.symlink("a" if n["k"] == "l" else "sub", ab)


def expected_walk(files):
    """what embed.FS.ReadDir yields recursively for a set of slash paths"""
    out = []

    def rec(prefix):
        kids = {}
        for f in files:
            if prefix and not f.startswith(prefix + "/"):
                continue
            rest = f[len(prefix) + 1:] if prefix else f
            head, _, tail = rest.partition("/")
            kids[head] = kids.get(head, False) or bool(tail)
        for name in sorted(kids, key=lambda x: x.encode()):
            p = (prefix + "/" + name) if prefix else name
            if kids[name]:
                out.append("  dir " + p)
                rec(p)
            else:
                out.append("  file " + p)
    rec("")
    return out


def pick_program_cases(cases_path, hdr, want, sd):
    """deterministic choice of accepted cases with varied patterns from the small trees at the head of the case file"""
    import random
    rnd = random.Random(sd)
    pool = []
    with open(cases_path) as f:
        f.readline()
        f.readline()       # header, negative control
        for ln, line in enumerate(f):
            if ln > 3000:
                break
            t = json.loads(line)
            if not (1 <= len(t["t"]) <= 5):
                continue
            for i, o in enumerate(t["one"]):
                if "f" in o:
                    pool.append((t, [hdr["pats"][i]], o))
            for k in rnd.sample(range(len(t["two"])), 6):
                o = t["two"][k]
                if "f" in o:
                    pool.append((t, [hdr["pats"][a - 1] for a in hdr["pairs"][k]], o))
    rnd.shuffle(pool)
    chosen, seen = [], {}
    for t, pats, o in pool:           # spread over patterns: at most 2 cases per pattern list
        key = tuple(pats)
        if seen.get(key, 0) >= 2:
            continue
        seen[key] = seen.get(key, 0) + 1
        chosen.append((t, pats, o))
        if len(chosen) >= want:
            break
    return chosen


def run_programs(chk, cases_path, hdr, thorough, sd):
    """second binding: the resolved files as the compiled program sees them (string, []byte, embed.FS)"""
    rd = chk.rd.path
    batches = 2 if thorough else 1
    per = 20 if thorough else 12
    chosen = pick_program_cases(cases_path, hdr, batches * per, sd)
    if len(chosen) < per:
        raise C.Undecided("too few accepted cases for the compiled programs")
    total = 0
    for b in range(batches):
        cases = chosen[b * per:(b + 1) * per]
        if not cases:
            break
        mod = os.path.join(rd, "embedprog%d" % b)
        C.write_module(mod, {"rep/rep.go": REP_GO}, modname="embedprog")
        expect = []
        imports, calls = [], []
        for i, (t, pats, o) in enumerate(cases):
            pk = "c%d" % i
            d = os.path.join(mod, pk)
            materialise(d, t)
            files = sorted((real(t["files"][x - 1]) for x in o["f"]), key=lambda x: x.encode())
            probes = [real(x) for x in t["files"]]
            label = "%s %s" % (pk, " ".join(goquote(real(p)) for p in pats))
            src = ["package %s" % pk, "", 'import (', '\t"embed"', '\t"embedprog/rep"', ")", "",
                   "//go:embed " + " ".join(goquote(real(p)) for p in pats), "var F embed.FS", ""]
            body = ["\trep.FS(%s, F, %s)" % (goquote(label), "[]string{" + ", ".join(goquote(x) for x in probes) + "}")]
            expect.append("case " + label)
            for pr in probes:
                if pr in files:
                    data = prog_content(pr) if pr != "z.go" and not pr.endswith("go.mod") else None
                    expect.append(("  probe %s " % pr) + (data.hex() if data is not None else "@" + pr))
                else:
                    expect.append("  probe %s absent" % pr)
            expect += expected_walk(files)
            if len(files) == 1 and len(pats) == 1 and files[0] != "z.go":
                src += ["//go:embed " + goquote(real(pats[0])), "var S string", "",
                        "//go:embed " + goquote(real(pats[0])), "var B []byte", ""]
                body += ["\trep.Str(%s, S)" % goquote(label), "\trep.Bytes(%s, B)" % goquote(label)]
                expect += ["case %s string %s" % (label, prog_content(files[0]).hex()),
                           "case %s bytes %s" % (label, prog_content(files[0]).hex())]
            src += ["func Run() {"] + body + ["}", ""]
            with open(os.path.join(d, "z.go"), "w") as f:
                f.write("\n".join(src))
            imports.append('\t"embedprog/%s"' % pk)
            calls.append("\t%s.Run()" % pk)
        with open(os.path.join(mod, "main.go"), "w") as f:
            f.write("package main\n\nimport (\n%s\n)\n\nfunc main() {\n%s\n}\n" % ("\n".join(imports), "\n".join(calls)))
        # the z.go of each package is embedded by some patterns: its bytes are whatever was written
        zsrc = {}
        for i in range(len(cases)):
            zsrc["c%d" % i] = open(os.path.join(mod, "c%d" % i, "z.go"), "rb").read().hex()

        def norm(lines):
            res, cur = [], ""
            for ln in lines:
                if ln.startswith("case "):
                    cur = ln.split()[1]
                if ln.endswith("@z.go"):
                    ln = ln[:-len("@z.go")] + zsrc.get(cur, "?")
                res.append(ln)
            return res
        expect = norm(expect)
        # reference toolchain: validates the expectation derived from the spec
        refexe = os.path.join(rd, "embedprog%d.ref" % b)
        ok, outp = C.go_build(mod, refexe)
        if not ok:
            raise C.Undecided("reference toolchain rejects a program whose patterns the spec accepts (spec defect?):\n" + outp[-2000:])
        st, so, _ = C.run_exe(refexe, merge=True, timeout=120)
        if st != 0 or so.splitlines() != expect:
            diff = [(a, e) for a, e in zip(so.splitlines(), expect) if a != e][:3]
            raise C.Undecided("SPEC DEFECT: program output predicted from Embed.tla differs from the reference toolchain's: %s "
                              "(%d vs %d lines)" % (diff, len(so.splitlines()), len(expect)))
        exe = os.path.join(rd, "embedprog%d.llgo" % b)
        # private llgo cache for this run: the per-tree cache is shared with every other check running on the same tree,
        # and a package archive damaged there makes the program die at start-up (seen: any program importing "errors")
        ok, outp = C.llgo_build(mod, exe, rundir=rd, extra_env={"XDG_CACHE_HOME": os.path.join(rd, "llgo-cache")})
        if not ok:
            chk.reject("prog:build", "llgo cannot build a program whose go:embed patterns the go command accepts: %s" % outp[-600:],
                       {"cases": [(c[0]["t"], c[1]) for c in cases], "output": outp[-3000:]})
            continue
        st, so, _ = C.run_exe(exe, merge=True, timeout=120)
        got = so.splitlines()
        total += len(cases)
        if st != 0 or got != expect:
            # attribute to the first differing case
            cur, bad = "", None
            for a, e in zip(got + [""] * len(expect), expect):
                if e.startswith("case "):
                    cur = e
                if a != e:
                    bad = (cur, a, e)
                    break
            idx = int(bad[0].split()[1][1:]) if bad and bad[0] else 0
            t, pats, o = cases[idx]
            chk.reject("prog:output:%s" % "|".join(pats).replace(" ", "_"),
                       "compiled program sees other embedded data than the go command delivers: %s: got %r, expected %r (status %s)"
                       % (bad[0] if bad else "", bad[1] if bad else "", bad[2] if bad else "", st),
                       {"tree": t["t"], "patterns": pats, "status": st, "stdout": so[-4000:], "expected": expect})
    chk.cov["compiled_program_cases"] = total
    chk.cov["evaluations"] += total
    chk.cov["traces_validated_against_impl"] += total
    chk.sample({"compiled_program_case": {"tree": chosen[0][0]["t"], "patterns": chosen[0][1],
                                          "embedded": [chosen[0][0]["files"][x - 1] for x in chosen[0][2]["f"]]}})



def check(chk):
    thorough = chk.tier == "thorough"
    sd = C.seed()
    rd = chk.rd.path
    chk.cov["rule"] = ("case = (package directory tree, pattern list): every tree TLC builds within the bounds (<= 4 nodes over 13 "
                       "rule-hitting names at depth <= 2; <= 5 and <= 6 nodes over reduced alphabets at depth <= 3; kinds file, "
                       "directory, nested module, symlink to file/directory; quick: a seeded slice plus all trees of <= 2 nodes) "
                       "x 65 single patterns and 256 ordered pairs over 16 of them; each case is replayed into ResolvePatterns "
                       "and, spelled bare/quoted/raw, into LoadDirectives; non-trivial = the law's outcome is an accepted file set "
                       "or a rejection caused by a matched entry (module, symlinked directory, bad name, irregular file, empty "
                       "directory), i.e. not merely bad syntax / nothing matched; plus every directive line of <= 6 (7) characters")
    box = {}

    def build():
        try:
            box["bin"] = C.gotest_compile_injected("internal/goembed", {"zz_verif_c16_test.go": open(HARNESS).read()}, rd)
        except BaseException as e:   # noqa
            box["err"] = e
    bt = threading.Thread(target=build)
    bt.start()
    profs = profiles(thorough, sd)
    results = [None] * len(profs)
    errs = []

    def lines():
        try:
            box["lines"] = tlc_lines(chk, thorough)
        except BaseException as e:   # noqa
            errs.append(e)
    lt = threading.Thread(target=lines)
    lt.start()

    def one(i):
        label, consts, workers = profs[i]
        try:
            results[i] = run_tlc_cases(chk, label, consts, workers if not thorough else 12, 2400)
        except BaseException as e:   # noqa
            errs.append(e)
    if thorough:
        for i in range(len(profs)):
            one(i)
    else:
        ths = [threading.Thread(target=one, args=(i,)) for i in range(len(profs))]
        for t in ths:
            t.start()
        for t in ths:
            t.join()
    bt.join()
    lt.join()
    if errs:
        raise errs[0]
    if "err" in box:
        raise box["err"]
    testbin = box["bin"]
    for (label, _, _), res in zip(profs, results):
        chk.add_tlc(res, "EmbedCases/" + label)
    cases_path = os.path.join(rd, "cases.ndjson")
    hdr, ntrees, negwant = collect_cases(chk, results, cases_path)
    for res in results:
        try:
            os.remove(res.outpath)
        except OSError:
            pass
    tmpd = shm(chk)
    try:
        t0 = time.time()
        replay_trees(chk, testbin, cases_path, hdr, ntrees, negwant, tmpd)
        C.log("tree replay %.1fs" % (time.time() - t0))
        t0 = time.time()
        n = golist_trees(chk, testbin, cases_path, tmpd, thorough, sd)
        C.log("go list self-validation of %d tree cases %.1fs" % (n, time.time() - t0))
        t0 = time.time()
        run_lines(chk, testbin, tmpd, thorough, sd, box["lines"])
        C.log("directive lines %.1fs" % (time.time() - t0))
        if (thorough or os.environ.get("VERIF_C16_PROG") == "1") and os.environ.get("VERIF_C16_NOPROG") != "1":
            t0 = time.time()
            run_programs(chk, cases_path, hdr, thorough, sd)
            C.log("compiled programs %.1fs" % (time.time() - t0))
    finally:
        shutil.rmtree(tmpd, ignore_errors=True)
    chk.cov["exhaustive_within_bounds"] = ({"wide4": True, "deep5": True, "deep6": "one hash class in twelve (seeded)",
                                            "directive_lines_len7": True} if thorough else False)
    chk.assumptions += [
        "names and patterns are drawn from a fixed alphabet (12 names, 65 patterns) chosen to hit every rule; lower-case only",
        "file names/patterns are modelled as character sequences; 'U' stands for U+00E9",
        "glob syntax is judged element by element ('/' never inside a character class or escaped)",
        "symbolic links point to a sibling named a or sub; no link chains",
        "Embed.tla was validated against `go list` (go1.24.0) on the sampled cases counted in spec_cases_validated_by_go_list; "
        "the error class is compared for information only (the statement demands rejection, not a message)",
        "a tab directly after //go:embed is left unspecified (go/build honours it, the compiler does not)",
        "materialisation of the resolved files as globals / embed.FS tables by cl/embed.go is executed only in the thorough tier "
        "(llgo-compiled programs printing string, []byte and embed.FS contents; quick: only BuildFSEntries, the table it copies)",
    ]


if __name__ == "__main__":
    C.main_wrapper("C16", check)

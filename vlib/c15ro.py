"""C15, a fourth law (added after seeded change C15-3 was missed):
spec/reflect/ReflectRO.tla   the read-only state of a reflect.Value reached by Field(i).Field(j)...: every path of 1..3
                             selections over {exported field, unexported field, embedded exported struct type, embedded
                             unexported struct type} (the last one may be an exported / unexported leaf with a String method)
                             x {addressable root, reflect.ValueOf(copy)}: CanSet, CanInterface, CanAddr, whether Set panics,
                             what the variable holds afterwards, and whether fmt prints the leaf through String()
TLC enumerates the cases and what reflect must report; the generator renders the nested struct types and one probe per
case; the reference toolchain validates every line, then the llgo-compiled program is compared."""
import os

from . import common as C
from . import c15sl
from . import c15ch

SPEC = os.path.join(C.VERIF, "spec", "reflect")

OLD, NEW = 7, 9

FIELDS = ("canset", "caniface", "canaddr", "setpanics", "after", "fmt")

PRELUDE = '''package main

import (
	"fmt"
	"reflect"
)

type Leaf int

func (x Leaf) String() string { return "L" + string(rune('0'+int(x))) }

func roProbe(n int, root string, v reflect.Value, nv reflect.Value, get func() int) {
	text := fmt.Sprint(v)
	canset, caniface, canaddr := v.CanSet(), v.CanInterface(), v.CanAddr()
	panics := false
	func() {
		defer func() {
			if recover() != nil {
				panics = true
			}
		}()
		v.Set(nv)
	}()
	println("R", n, root, canset, caniface, canaddr, panics, get(), text)
}
'''

def b(x):
    return "true" if x else "false"


def render(n, path):
    """Go source of the struct types of path number n and of its probe function; returns (source, selector, root text maker)"""
    ln = len(path)
    tname = {}
    for i, k in enumerate(path, 1):
        if k in ("LE", "LU"):
            tname[i] = "Leaf"
        elif k == "EU":
            tname[i] = "r%ds%d" % (n, i)
        else:
            tname[i] = "R%dS%d" % (n, i)
    tname[0] = "R%dS0" % n
    sel = []
    src = []
    for i in range(0, ln + 1):
        if tname[i] == "Leaf":
            break
        if i == ln:
            src.append("type %s struct{ N int }" % tname[i])
            break
        k = path[i]
        t = tname[i + 1]
        fname = {"EP": "F", "UP": "f", "EE": t, "EU": t, "LE": "L", "LU": "l"}[k]
        decl = t if k in ("EE", "EU") else "%s %s" % (fname, t)
        sel.append(fname)
        src.append("type %s struct {\n\tN int\n\t%s\n}" % (tname[i], decl))
    leaf = tname[ln] == "Leaf"
    lv = "." + ".".join(sel) + ("" if leaf else ".N")
    fields = "".join(".Field(1)" for _ in path)
    nv = "Leaf(%d)" % NEW if leaf else "%s{N: %d}" % (tname[ln], NEW)
    src.append("""func ro_%d() {
	var r %s
	r%s = %d
	println("T", %d, fmt.Sprint(r))
	roProbe(%d, "addr", reflect.ValueOf(&r).Elem()%s, reflect.ValueOf(%s), func() int { return int(r%s) })
	c := r
	c%s = %d
	roProbe(%d, "copy", reflect.ValueOf(c)%s, reflect.ValueOf(%s), func() int { return int(c%s) })
}""" % (n, tname[0], lv, OLD, n, n, fields, nv, lv, lv, OLD, n, fields, nv, lv))
    return "\n\n".join(src), "r" + lv, leaf


def text_of(path, leaf, stringer, root):
    """what fmt's %v prints: of the selected value (root=False) or of the whole root struct (root=True)"""
    inner = ("L%d" % OLD if stringer else "%d" % OLD) if leaf else "{%d}" % OLD
    if not root:
        return inner
    for _ in path:
        inner = "{0 %s}" % inner
    return inner


def parse(text):
    out = {}
    for ln in text.splitlines():
        w = ln.split(None, 2)
        if len(w) == 3 and w[0] == "T":
            out["T %s" % w[1]] = {"fmt": w[2].strip()}
        elif len(w) == 3 and w[0] == "R":
            f = ln.split(None, 8)
            if len(f) == 9:
                out["R %s %s" % (f[1], f[2])] = {"canset": f[3], "caniface": f[4], "canaddr": f[5], "setpanics": f[6],
                                                 "after": f[7], "fmt": f[8].strip()}
        elif w and w[0] == "D":
            c15sl.parse_line(ln, out)
        elif w and w[0] == "K":
            c15ch.parse_line(ln, out)
    return out


def differing(expect, got):
    """keys of expect whose observed record differs, with the first differing field (DeepEqual lines: every differing field)"""
    out = []
    for k, e in expect.items():
        g = got.get(k)
        if g is None:
            out.append((k, "missing"))
            continue
        for f in e:
            if g.get(f) != e[f]:
                out.append((k, f))
                if not k.startswith(("D", "K")):
                    break
    return out


def run(chk):
    res = C.tlc(SPEC, "ReflectRO", "reflectro.cfg", chk.rd.sub("c15ro"), timeout=600, workers=2, parse_json=False)
    if not res.ok:
        raise C.Undecided("ReflectRO violates its own laws: %s" % res.violation)
    chk.add_tlc(res, "ReflectRO")
    recs = list(C.tlc_printed_iter(res))
    if len(recs) != 252:
        raise C.Undecided("ReflectRO emitted %d cases, 252 expected" % len(recs))
    paths = sorted({tuple(r["path"]) for r in recs}, key=lambda p: (len(p), p))
    num = {p: n for n, p in enumerate(paths, 1)}
    byrec = {}
    src = [PRELUDE]
    calls = []
    expect = {}
    meta = {}
    for p in paths:
        s, lv, leaf = render(num[p], p)
        src.append(s)
        calls.append("\tro_%d()" % num[p])
    for r in recs:
        p = tuple(r["path"])
        n = num[p]
        root = "addr" if r["addr"] else "copy"
        k = "R %d %s" % (n, root)
        expect[k] = {"canset": b(r["canset"]), "caniface": b(r["caniface"]), "canaddr": b(r["canaddr"]),
                     "setpanics": b(r["setpanics"]), "after": str(NEW if r["after"] == "new" else OLD),
                     "fmt": text_of(p, r["leaf"], r["stringer"], False)}
        meta[k] = r
        if not r["addr"]:      # fmt receives the root by value
            expect["T %d" % n] = {"fmt": text_of(p, r["leaf"], r["stringer"], True)}
            meta["T %d" % n] = r
    sl_src, sl_call, sl_expect, sl_meta = c15sl.prepare(chk)
    src.append(sl_src)
    calls.append(sl_call)
    expect.update(sl_expect)
    meta.update(sl_meta)
    for part in c15ch.prepare(chk),:
        src.append(part[0])
        calls.append(part[1])
        expect.update(part[2])
        meta.update(part[3])
    src.append("func main() {\n" + "\n".join(calls) + '\n\tprintln("RODONE")\n}')
    d = os.path.join(chk.rd.path, "c15roprog")
    C.write_module(d, {"main.go": "\n\n".join(src) + "\n"}, modname="c15ro")

    ref = os.path.join(d, "ref.exe")
    ok, out = C.go_build(d, ref, go=C.ref_go())
    if not ok:
        raise C.Undecided("reference toolchain rejects the ReflectRO program (generator bug):\n" + out[-2000:])
    st, so, se = C.run_exe(ref, timeout=300, merge=True)
    if "RODONE" not in so:
        raise C.Undecided("ReflectRO program did not finish under the reference toolchain:\n" + so[-1500:])
    refres = parse(so)
    bad = differing(expect, refres)
    if bad:
        k, f = bad[0]
        raise C.Undecided("ReflectRO/SliceEq disagree with the reference toolchain on %d lines, e.g. %s (%s) field %s: ref %s spec %s"
                          % (len(bad), k, meta[k].get("path") or meta[k], f, refres.get(k), expect[k]))
    # negative control: one corrupted expectation must be flagged by the comparison
    probe = next(k for k in sorted(expect) if k.startswith("R") and meta[k]["class"] == "promoted-through-unexported-embedded" and meta[k]["addr"])
    wrong = dict(expect)
    wrong[probe] = dict(expect[probe], canset="false")
    if [k for k, f in differing(wrong, refres)] != [probe]:
        raise C.Undecided("ReflectRO negative control failed")
    probe2 = next(k for k in sorted(sl_expect) if sl_meta[k]["rel"] == "same-start-other-length")
    wrong = dict(expect)
    wrong[probe2] = dict(expect[probe2], plain="true")
    if differing(wrong, refres) != [(probe2, "plain")]:
        raise C.Undecided("SliceEq negative control failed")

    exe = os.path.join(d, "llgo.exe")
    ok, out = C.llgo_build(d, exe, opt="O0", rundir=d, timeout=2400)
    if not ok:
        raise C.Undecided("llgo cannot build the ReflectRO program:\n" + out[-2500:])
    st, so, se = C.run_exe(exe, timeout=600, merge=True)
    got = parse(so)
    if "RODONE" not in so and not got:
        raise C.Undecided("the llgo-compiled ReflectRO program printed nothing (exit %s):\n%s" % (st, so[-1500:]))
    groups = {}
    for k, f in differing(expect, got):
        if k.startswith("D"):
            groups.setdefault(c15sl.key_of(meta[k], f), []).append((k, f))
            continue
        if k.startswith("K"):
            groups.setdefault(c15ch.key_of(meta[k], f), []).append((k, f))
            continue
        what = f if k.startswith("R") else "fmt-root"
        groups.setdefault("readonly:%s:%s" % (meta[k]["class"], what), []).append(k)
    for key, ks in sorted(groups.items()):
        k = ks[0]
        if isinstance(k, tuple):
            k, f = k
            if k.startswith("K"):
                chk.reject(key, c15ch.describe(meta[k], f, len(ks), expect[k], got.get(k)),
                           {"dirs": meta[k]["dirs"], "go_type": c15ch.gosrc(meta[k]["dirs"]), "query": f, "want": expect[k], "got": got.get(k),
                            "all_failing": [c15ch.gosrc(meta[x]["dirs"]) for x, _ in ks]})
                continue
            chk.reject(key, c15sl.describe(meta[k], f, len(ks), expect[k], got.get(k)),
                       {"a": meta[k]["a"], "b": meta[k]["b"], "a_go": c15sl.goexpr(meta[k]["a"]), "b_go": c15sl.goexpr(meta[k]["b"]),
                        "wrap": f, "want": expect[k], "got": got.get(k), "failing_pairs": len(ks)})
            continue
        r = meta[k]
        n = num[tuple(r["path"])]
        source, lv, leaf = render(n, tuple(r["path"]))
        if k.startswith("R"):
            how = "reflect.ValueOf(&r).Elem()" if r["addr"] else "reflect.ValueOf(r)"
            desc = ("%d cases: %s%s selecting %s (path of field kinds %s; EP/UP exported/unexported field, EE/EU embedded exported/"
                    "unexported struct type, LE/LU exported/unexported leaf): Go reports CanSet CanInterface CanAddr Set-panics "
                    "value-after fmt = %s; llgo-compiled program: %s"
                    % (len(ks), how, ".Field(1)" * len(r["path"]), lv, list(r["path"]), " ".join(expect[k][f] for f in FIELDS),
                       " ".join((got.get(k) or {}).get(f, "?") for f in FIELDS) if got.get(k) else "no line"))
        else:
            desc = ("%d cases: fmt.Sprint(r) of a struct holding a leaf with a String method at %s (path of field kinds %s): Go prints %s "
                    "(String() is used exactly when the field's Value CanInterface), llgo-compiled program prints %s"
                    % (len(ks), lv, list(r["path"]), expect[k]["fmt"], (got.get(k) or {}).get("fmt")))
        chk.reject(key, desc, {"path": r["path"], "addressable_root": r["addr"], "go_source": source, "want": expect[k],
                               "got": got.get(k), "all_failing": [" ".join(meta[x]["path"]) + (" addr" if meta[x]["addr"] else " copy") for x in ks][:40]})
    chk.cov["evaluations"] = chk.cov.get("evaluations", 0) + len(expect)
    chk.cov["readonly_paths"] = {"paths": len(paths), "cases": len(recs), "lines": len(expect),
                                 "read_only": sum(1 for r in recs if not r["caniface"]),
                                 "promoted_through_unexported_embedded": sum(1 for r in recs if r["class"] == "promoted-through-unexported-embedded")}
    chk.sample("ReflectRO: path %s from an addressable root: CanSet %s CanInterface %s" % (list(meta[probe]["path"]), expect[probe]["canset"], expect[probe]["caniface"]))
    return len(expect)

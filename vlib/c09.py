"""C09 — values cross the Go/C boundary intact in both directions.

spec/cabi/SysVAbi.tla     layer A: C struct layout + System V x86-64 classification and register assignment
spec/cabi/SysVShapes.tla  TLC enumerates struct shapes (exhaustive 1-4 fields + one nested/array field; seeded
                          walks up to 12 fields / 80 bytes) and prints layout, byte map, classification
spec/cabi/SysVCall.tla    TLC enumerates call shapes f(pre..., STRUCT, i64, f64) (position 0..8, register pressure,
                          MEMORY results) and prints where every argument lives
spec/cabi/CStr.tla        Go string / []byte <-> C buffer law
spec/cabi/CBuf.tla        cgo byte buffers as a machine {Go value, C buffer}: ToC (copy), C writes, Go writes, ToGo (copy); snapshot laws;
                          TLC enumerates the scripts with their prescribed observations; ONE cgo program (package cg, import "C")
                          interprets them all, built by llgo and by the reference toolchain (self-validation)
spec/cabi/SysVVariadic.tla variadic C functions: where the caller puts each argument vs where va_start/va_arg look (in order)
spec/cabi/SysVNarrow.tla  int8/int16/uint8/uint16 parameters behind an aggregate, run-time truncated values, optimised callee
binding: the driver groups the TLC-printed shapes by the spec's classification state and picks representatives per
         (state x call shape); for each case it generates C (callee echoing every field, caller invoking a Go callback)
         and Go (binding sub-package + main); llgo builds the bundle, the run's output is compared field by field with
         what was written on the other side (identity law).  A bundle that llgo cannot compile is bisected to the
         single case responsible (a compiler crash on a C-compatible signature is reported as a violation).
harness/c09/zz_verif_c09_test.go  in-process drift report (thorough): TypeInfoAmd64.GetTypeInfo vs SysVAbi.Classify.  The same C file driven by a C main (gcc, and clang-14
         callee + gcc caller) must satisfy the same expectations, else the generator is wrong (exit 2).
Only the host ABI (x86-64 System V) can be executed here.
"""
import hashlib
import json
import os
import random
import re
import subprocess
from concurrent.futures import ThreadPoolExecutor

from . import common as C

SPEC = os.path.join(C.VERIF, "spec", "cabi")
NENV = {"C09_NFLAGS": "-O2"}        # flags of the C file of the narrow-integer cases (LLGoFiles = "$C09_NFLAGS: ...")
HARNESS = os.path.join(C.VERIF, "harness", "c09")

CT = {"i8": "int8_t", "i16": "int16_t", "i32": "int32_t", "i64": "int64_t", "f32": "float", "f64": "double", "ptr": "void*"}
GT = {"i8": "int8", "i16": "int16", "i32": "int32", "i64": "int64", "f32": "float32", "f64": "float64",
      "ptr": "unsafe.Pointer"}
BITS = {"i8": 8, "i16": 16, "i32": 32, "i64": 64, "f32": 32, "f64": 64, "ptr": 64}
INT_T = ["i8", "i16", "i32", "i64", "ptr"]
FLT_T = ["f32", "f64"]
DIRS = ("arg", "res", "keep", "cbarg", "cbres", "cbkeep")


# --------------------------------------------------------------------------- shapes

def field_sig(f):
    e = f["t"] if not f["fs"] else "{" + ",".join(f["fs"]) + "}"
    return ("[%d]" % f["n"] if f["n"] else "") + e


def shape_sig(sh):
    return "{" + ",".join(field_sig(f) for f in sh["shape"]) + "}"


def compound_kind(sh):
    k = set()
    for f in sh["shape"]:
        if f["fs"] and f["n"]:
            k.add("arrnest")
        elif f["fs"]:
            k.add("nest")
        elif f["n"]:
            k.add("arr")
    return "+".join(sorted(k)) or "flat"


def nest_tailpad(sh):
    """a nested struct (element) whose own size exceeds the end of its last member"""
    sz = {"i8": 1, "i16": 2, "i32": 4, "i64": 8, "f32": 4, "f64": 8, "ptr": 8}
    for f in sh["shape"]:
        if f["fs"]:
            off = 0
            al = 1
            for t in f["fs"]:
                off = (off + sz[t] - 1) // sz[t] * sz[t] + sz[t]
                al = max(al, sz[t])
            if off % al:
                return True
    return False


def annotate(sh):
    sh["sig"] = shape_sig(sh)
    b = "".join(sh["bytes"])
    sh["bytemap"] = b
    cv = tuple(sh["cv"])
    sh["cvt"] = cv
    nl = len(sh["flat"])
    ebs = [b[i:i + 8] for i in range(0, len(b), 8)]
    if cv == ("MEMORY",):
        bucket = 24 if sh["size"] <= 24 else 40 if sh["size"] <= 40 else 80
        sh["coarse"] = ("MEMORY", bucket, compound_kind(sh), nest_tailpad(sh))
    else:
        eb = tuple("mixed" if ("i" in e and "f" in e) else "int" if "i" in e else "flt" for e in ebs)
        interior = any("-" in e.rstrip("-") for e in ebs) or any(e.endswith("-") for e in ebs[:-1])
        tail = len(b) % 8 != 0 or b.endswith("-")
        sh["coarse"] = (cv, eb, interior, tail, compound_kind(sh), nest_tailpad(sh), min(nl, 3))
    sh["fine"] = (sh["size"], sh["align"], b, compound_kind(sh), nest_tailpad(sh))
    # medium: what each 4-byte word holds (F float, I integer bytes only, P padding only, i integer+padding,
    # f float+padding cannot occur, m integer+float cannot occur) - the byte map up to sub-word positions
    def word(wd):
        st = set(wd)
        return "F" if st == {"f"} else "I" if st == {"i"} else "P" if st == {"-"} else "i"
    words = "".join(word(b[i:i + 4]) for i in range(0, len(b), 4))
    if cv == ("MEMORY",):
        sh["medium"] = ("MEMORY", sh["size"], compound_kind(sh), nest_tailpad(sh), words.count("F") > 0, words.count("i") > 0)
    else:
        sh["medium"] = (cv, sh["size"], words, compound_kind(sh), nest_tailpad(sh), min(nl, 3))
    return sh


def leaves(sh):
    """(ctype, c path, go path) per scalar leaf in declaration order; checked against the spec's Flat"""
    out = []
    for i, f in enumerate(sh["shape"]):
        for j in range(f["n"] or 1):
            idx = "[%d]" % j if f["n"] else ""
            if f["fs"]:
                for m, t in enumerate(f["fs"]):
                    out.append((t, ".f%d%s.m%d" % (i, idx, m), ".F%d%s.M%d" % (i, idx, m)))
            else:
                out.append((f["t"], ".f%d%s" % (i, idx), ".F%d%s" % (i, idx)))
    if [t for t, _, _ in out] != [x["t"] for x in sh["flat"]]:
        raise C.Undecided("generator and SysVAbi.Flat disagree on the leaves of " + sh["sig"])
    return out


def run_shapes(chk, label, consts, timeout):
    rd = chk.rd.path
    cfg = os.path.join(rd, "shapes_%s.cfg" % label)
    C.write_cfg(cfg, constants=consts, invariants=["Sane", "ClassSane", "Emit"])
    res = C.tlc(SPEC, "SysVShapes", cfg, rd, timeout=timeout, parse_json=False, workers=max(4, C.NCPU // 2))
    if not res.ok:
        raise C.Undecided("SysVShapes %s: the spec's own sanity invariant failed: %s" % (label, res.violation))
    chk.add_tlc(res, "SysVShapes/" + label)
    seen = {}
    for sh in C.tlc_printed_iter(res):
        sg = shape_sig(sh)
        if sg not in seen:
            seen[sg] = annotate(sh)
    if not seen:
        raise C.Undecided("SysVShapes %s printed no shapes" % label)
    return list(seen.values())


def run_calls(chk):
    rd = chk.rd.path
    res = C.tlc(SPEC, "SysVCall", "call_quick.cfg", rd, timeout=600, parse_json=False, workers=4)
    if not res.ok:
        raise C.Undecided("SysVCall: the assignment's own algebra failed: %s" % res.violation)
    chk.add_tlc(res, "SysVCall")
    table = {}
    for c in C.tlc_printed_iter(res):
        table[(tuple(c["kind"]), "".join(c["pre"]), c["ret"])] = c
    if not table:
        raise C.Undecided("SysVCall printed nothing")
    return table


# --------------------------------------------------------------------------- values

def hbits(*parts):
    return int.from_bytes(hashlib.sha256("|".join(map(str, parts)).encode()).digest()[:8], "big")


def leaf_value(tag, slot, t):
    """distinct bit pattern per slot; sign bits, NaN payloads, -0, denormals appear regularly"""
    h = hbits(tag, slot, t)
    w = BITS[t]
    v = h & ((1 << w) - 1)
    sel = (h >> 56) % 8
    if t in INT_T:
        if sel < 4:
            v |= 1 << (w - 1)          # sign bit set in half of the cases
        return v
    if t == "f32":
        if sel == 0:
            return 0x7fc00000 | (v & 0x3fffff) | 1       # quiet NaN with payload
        if sel == 1:
            return 0xffc00000 | (v & 0x3fffff) | 2       # negative quiet NaN with payload
        if sel == 2:
            return 0x80000000                            # -0
        if sel == 3:
            return v & 0x807fffff | 1                    # denormal
        if (v >> 23) & 0xff == 0xff:
            v &= ~(1 << 23)
        return v
    if sel == 0:
        return 0x7ff8000000000000 | (v & 0x7ffffffffffff) | 1
    if sel == 1:
        return 0xfff8000000000000 | (v & 0x7ffffffffffff) | 2
    if sel == 2:
        return 0x8000000000000000
    if sel == 3:
        return v & 0x800fffffffffffff | 1
    if (v >> 52) & 0x7ff == 0x7ff:
        v &= ~(1 << 52)
    return v


def widened(v, t):
    """what a 64-bit observer sees after the C integer promotions (scalars are printed widened)"""
    if t in ("i8", "i16", "i32"):
        w = BITS[t]
        if v >> (w - 1):
            v |= ((1 << 64) - 1) ^ ((1 << w) - 1)
    return v


def c_lit(v, t):
    if t == "ptr":
        return "(void*)(uintptr_t)0x%xull" % v
    if t == "f32":
        return "f32(0x%xu)" % v
    if t == "f64":
        return "f64(0x%xull)" % v
    return "(%s)(u%s)0x%xull" % (CT[t], CT[t], v)


def c_bits(x, t, wide=False):
    if t == "ptr":
        return "(unsigned long long)(uintptr_t)(%s)" % x
    if t == "f32":
        return "(unsigned long long)b32(%s)" % x
    if t == "f64":
        return "(unsigned long long)b64(%s)" % x
    if wide:
        return "(unsigned long long)(long long)(%s)" % x
    return "(unsigned long long)(u%s)(%s)" % (CT[t], x)


def go_lit(v, t):
    if t == "ptr":
        return "unsafe.Pointer(uintptr(0x%x))" % v
    if t == "f32":
        return "f32(0x%x)" % v
    if t == "f64":
        return "f64(0x%x)" % v
    w = BITS[t]
    if v >> (w - 1):
        v -= 1 << w
    return "%s(%d)" % (GT[t], v)


def go_bits(x, t, wide=False):
    if t == "ptr":
        return "uint64(uintptr(%s))" % x
    if t == "f32":
        return "b32(%s)" % x
    if t == "f64":
        return "b64(%s)" % x
    if wide:
        return "uint64(int64(%s))" % x
    return "uint64(u%s(%s))" % (GT[t], x)


# --------------------------------------------------------------------------- cases

class Case:
    MEMSHAPE = None         # the fixed MEMORY-class result type of ret == "mem" cases (a TLC-printed shape)

    def __init__(self, sh, pre, ret, cls, canonical, group):
        self.sh = sh
        self.rsh = sh if ret == "same" else Case.MEMSHAPE if ret == "mem" else None
        self.pre = pre            # list of scalar types in front of the struct
        self.ret = ret            # "same" (returns the struct type it takes) | "void" | "mem" (returns MEMSHAPE)
        self.cls = cls            # coverage class (spec state) this case represents
        self.canonical = canonical
        self.group = group
        self.prek = "".join("f" if t in FLT_T else "i" for t in pre)

    def name(self):
        runs = []
        for t in self.pre:              # run-length encoded: 6*i64,i8
            if runs and runs[-1][0] == t:
                runs[-1][1] += 1
            else:
                runs.append([t, 1])
        pre = ",".join(("%d*%s" % (n, t)) if n > 1 else t for t, n in runs)
        return "%s:pre=%s:ret=%s" % (self.sh["sig"], pre or "-", self.ret)

    def dirs(self):
        return DIRS if self.rsh else ("arg", "keep", "cbarg", "cbkeep")


def concrete_pre(prek, rng, canonical):
    out = []
    for i, c in enumerate(prek):
        if canonical:
            out.append("i64" if c == "i" else "f64")
        else:
            out.append(rng.choice(INT_T) if c == "i" else rng.choice(FLT_T))
    return out


def select_cases(shapes, big, calls, thorough, sd, extras=True):
    """one representative per spec state.  The canonical representative of a state is taken from the exhaustive
    enumeration only and does not depend on the seed; seeded extras (other members of a state, states reached only
    by the seeded walks, other interleavings of the leading arguments) are added when extras is set."""
    rng = random.Random(sd * 7919 + 17)
    cases = []
    level = "medium" if thorough else "coarse"

    def group(shs):
        g = {}
        for sh in shs:
            g.setdefault(sh[level], []).append(sh)
        for k in g:
            g[k].sort(key=lambda s: (len(s["flat"]), s["size"], s["sig"]))
        return g
    by_state = group(shapes)
    by_state_big = group(big)
    state_keys = sorted(by_state, key=repr)
    # 1. neutral pressure: every classification state as argument, result, callback parameter and callback result
    for k in state_keys:
        cases.append(Case(by_state[k][0], [], "same", (level, k), True, "neutral"))
    if extras:
        pool = state_keys if thorough else rng.sample(state_keys, min(24, len(state_keys)))
        for k in pool:
            m = by_state[k][1:] + by_state_big.get(k, [])
            if m:
                cases.append(Case(rng.choice(m), [], "same", (level, k), False, "neutral"))
        for k in sorted(set(by_state_big) - set(by_state), key=repr):
            cases.append(Case(by_state_big[k][0], [], "same", (level, k), False, "neutral"))
    else:
        # known findings are listed: keep seeded generation to the MEMORY-class shapes of the walks
        for k in sorted(set(by_state_big) - set(by_state), key=repr):
            if by_state_big[k][0]["cvt"] == ("MEMORY",):
                cases.append(Case(by_state_big[k][0], [], "same", (level, k), False, "neutral"))
    by_coarse = {}
    for sh in shapes:
        by_coarse.setdefault(sh["coarse"], []).append(sh)
    for k in by_coarse:
        by_coarse[k].sort(key=lambda s: (len(s["flat"]), s["size"], s["sig"]))
    coarse_keys = sorted(by_coarse, key=repr)
    # 2. position x register pressure, per classification vector
    by_cv = {}
    for k in coarse_keys:
        cv = k[0] if k[0] != "MEMORY" else ("MEMORY",)
        by_cv.setdefault(cv, []).append(k)
    pres_by_count = {}
    for (kind, prek, ret) in calls:
        pres_by_count.setdefault((prek.count("i"), prek.count("f")), set()).add(prek)
    if thorough:
        counts = sorted(pres_by_count)
    else:
        counts = [(1, 1), (4, 0), (5, 0), (6, 0), (0, 6), (0, 7), (0, 8), (5, 3), (3, 5), (6, 8), (7, 9), (5, 7)]
    for cv in sorted(by_cv):
        rr = 0
        for (a, b) in counts:
            if (a, b) not in pres_by_count or (a, b) == (0, 0):
                continue
            rets = ["same"]
            if cv == ("MEMORY",) and (a + b) % 3 == 0:
                rets.append("void")
            if cv != ("MEMORY",) and (thorough or a in (3, 4, 5)):
                rets.append("mem")          # hidden result pointer + register-class struct argument
            for ret in rets:
                canon = "i" * a + "f" * b
                ks = by_cv[cv]
                sh = by_coarse[ks[rr % len(ks)]][0]
                rr += 1
                cls = ("call", cv, a, b, ret)
                if canon in pres_by_count[(a, b)]:
                    cases.append(Case(sh, concrete_pre(canon, rng, True), ret, cls, True, "pressure"))
                others = sorted(pres_by_count[(a, b)] - {canon})
                if extras and others and (thorough or (a + b) <= 8) and ret != "mem":
                    prek = rng.choice(others)
                    k2 = ks[rng.randrange(len(ks))]
                    sh2 = rng.choice(by_coarse[k2])
                    cases.append(Case(sh2, concrete_pre(prek, rng, False), ret, cls, False, "pressure"))
    # 3. scalars of every width in registers and on the stack (deterministic; narrow integers alternate in sign)
    small = [s for s in shapes if s["sig"] == "{i32,f32}"] or [shapes[0]]
    for n, pre in enumerate((
            ["i8", "i8", "i16", "i16", "i32", "i32"],
            ["f32", "f64", "i8", "f32", "i16", "ptr", "i64", "i8"],
            ["i64"] * 6 + ["i8", "i8", "i16", "i16", "i32", "i32", "ptr"],
            ["f32"] * 8 + ["f32", "f64", "f32", "i16", "i8"])):
        for ret in ("same", "void"):
            cases.append(Case(small[0], list(pre), ret, ("scalars", n, ret), True, "scalars"))
    return cases


# --------------------------------------------------------------------------- code generation

C_PRELUDE = r'''#include <stdint.h>
#include <stddef.h>
#include <string.h>
#include <stdio.h>
#include <stdlib.h>
#include <stdarg.h>
static inline float f32(uint32_t u){float f; memcpy(&f,&u,4); return f;}
static inline double f64(uint64_t u){double f; memcpy(&f,&u,8); return f;}
static inline uint32_t b32(float f){uint32_t u; memcpy(&u,&f,4); return u;}
static inline uint64_t b64(double f){uint64_t u; memcpy(&u,&f,8); return u;}
int c09_from(void);
void c09_sink(void *p);
'''
# c_lit/c_bits form the unsigned twin of intN_t as "u" + name ("uint8_t"), likewise go_bits ("uint8")

GO_HELPERS = '''
func f32(u uint32) float32 { return *(*float32)(unsafe.Pointer(&u)) }
func f64(u uint64) float64 { return *(*float64)(unsafe.Pointer(&u)) }
func b32(f float32) uint64 { return uint64(*(*uint32)(unsafe.Pointer(&f))) }
func b64(f float64) uint64 { return *(*uint64)(unsafe.Pointer(&f)) }
'''


def c_struct_decl(name, sh):
    out = ["struct %s {" % name]
    for i, f in enumerate(sh["shape"]):
        arr = "[%d]" % f["n"] if f["n"] else ""
        if f["fs"]:
            inner = " ".join("%s m%d;" % (CT[t], m) for m, t in enumerate(f["fs"]))
            out.append("  struct { %s } f%d%s;" % (inner, i, arr))
        else:
            out.append("  %s f%d%s;" % (CT[f["t"]], i, arr))
    out.append("};")
    out.append('_Static_assert(sizeof(struct %s) == %d, "spec size of %s");' % (name, sh["size"], name))
    out.append('_Static_assert(_Alignof(struct %s) == %d, "spec alignment of %s");' % (name, sh["align"], name))
    for i, o in enumerate(sh["offs"]):
        out.append('_Static_assert(offsetof(struct %s, f%d) == %d, "spec offset");' % (name, i, o))
    return "\n".join(out)


def go_struct_decl(name, sh):
    out = []
    fields = []
    for i, f in enumerate(sh["shape"]):
        arr = "[%d]" % f["n"] if f["n"] else ""
        if f["fs"]:
            out.append("type %s_%d struct { %s }" % (name, i, "; ".join("M%d %s" % (m, GT[t]) for m, t in enumerate(f["fs"]))))
            fields.append("F%d %s%s_%d" % (i, arr, name, i))
        else:
            fields.append("F%d %s%s" % (i, arr, GT[f["t"]]))
    out.append("type %s struct { %s }" % (name, "; ".join(fields)))
    return "\n".join(out)


class Bundle:
    """one generated program: many cases; files + expectations"""

    def __init__(self, idx, cases, cstr=None, negctl=True, variadic=None, narrow=None):
        self.idx = idx
        self.cases = cases
        self.cstr = cstr or []
        self.variadic = variadic or []
        self.narrow = narrow or []
        self.expect = {}       # (case index, dir) -> [(slot name, value)]
        self.files = {}
        self.cmain = ""
        self.negctl = negctl
        self._gen()

    def _gen(self):
        types = {}
        hdr = [C_PRELUDE]
        wrap = ['#include "shapes.h"', "int c09_from(void){ const char *e = getenv(\"C09_FROM\"); return e ? atoi(e) : 0; }",
                "void *volatile c09_last; void c09_sink(void *p){ c09_last = p; __asm__ volatile(\"\" ::: \"memory\"); }"]
        cm = ['#include "shapes.h"']
        gob = ["package cb", "", 'import "unsafe"', "", "const (", '\tLLGoFiles   = "wrap/wrap.c"', '\tLLGoPackage = "link"', ")",
               "", "var _ unsafe.Pointer", "", "//go:linkname From C.c09_from", "func From() int32", "",
               "//go:linkname Sink C.c09_sink", "func Sink(p unsafe.Pointer)", ""]
        gom = ["package main", "", "import (", '\t"unsafe"', "", '\t"vmod/cb"', ")", "", "var _ unsafe.Pointer", GO_HELPERS]
        calls_go = []
        calls_c = []
        def tname(sh):
            if sh["sig"] not in types:
                tn = "T%d" % len(types)
                types[sh["sig"]] = tn
                hdr.append(c_struct_decl(tn, sh))
                gob.append(go_struct_decl(tn, sh))
            return types[sh["sig"]]

        for ci, cs in enumerate(self.cases):
            sh = cs.sh
            tn = tname(sh)
            lv = leaves(sh)
            rsh = cs.rsh
            rtn = tname(rsh) if rsh else None
            rlv = leaves(rsh) if rsh else []
            tag = cs.name()
            ptypes = cs.pre + ["i64", "f64"]            # scalar parameters: pre..., then q, r after the struct
            npre = len(cs.pre)
            cret = "struct %s" % rtn if rsh else "void"
            gret = " cb." + rtn if rsh else ""
            cparams = ["%s p%d" % (CT[t], i) for i, t in enumerate(cs.pre)] + ["struct %s s" % tn, "int64_t q", "double r"]
            ctypes = [CT[t] for t in cs.pre] + ["struct %s" % tn, "int64_t", "double"]
            gparams = ["p%d %s" % (i, GT[t]) for i, t in enumerate(cs.pre)] + ["s cb." + tn, "q int64", "r float64"]
            gtypes = [GT[t] for t in cs.pre] + [tn, "int64", "float64"]

            def vals(d, lvs):
                raw = [leaf_value(tag, "%s.p%d" % (d, i), t) for i, t in enumerate(ptypes)]
                if cs.group == "scalars":       # integers alternate between negative and non-negative
                    raw = [(v | (1 << (BITS[t] - 1))) if (t in INT_T and i % 2 == 0) else
                           (v & ~(1 << (BITS[t] - 1))) if t in INT_T else v for i, (v, t) in enumerate(zip(raw, ptypes))]
                sc = [widened(v, t) for v, t in zip(raw, ptypes)]
                le = [leaf_value(tag, "%s.l%d" % (d, j), t) for j, (t, _, _) in enumerate(lvs)]
                return sc, raw, le

            def slots(d):
                if d in ("arg", "cbarg"):
                    sc, raw, le = vals(d, lv)
                    return ([("pre%d:%s" % (i, ptypes[i]), sc[i]) for i in range(npre)] +
                            [("s%s:%s" % (lv[j][1], lv[j][0]), le[j]) for j in range(len(lv))] +
                            [("post-int:i64", sc[npre]), ("post-float:f64", sc[npre + 1])])
                if d in ("keep", "cbkeep"):       # the caller's own copy after the callee scribbled over its parameter
                    sc, raw, le = vals("arg" if d == "keep" else "cbarg", lv)
                    return [("caller's s%s:%s" % (lv[j][1], lv[j][0]), le[j]) for j in range(len(lv))]
                sc, raw, le = vals(d, rlv)
                return [("result%s:%s" % (rlv[j][1], rlv[j][0]), le[j]) for j in range(len(rlv))]

            for d in cs.dirs():
                self.expect[(ci, d)] = slots(d)

            def c_print(stream, d, sname, with_scalars, lvs):
                exprs = []
                if with_scalars:
                    exprs += [c_bits("p%d" % i, cs.pre[i], True) for i in range(npre)]
                exprs += [c_bits(sname + p, t) for t, p, _ in lvs]
                if with_scalars:
                    exprs += [c_bits("q", "i64", True), c_bits("r", "f64", True)]
                fmt = "C09 %d %s" % (ci, d) + " %llu" * len(exprs)
                return '  fprintf(%s, "%s\\n", %s); fflush(%s);' % (stream, fmt, ", ".join(exprs), stream)

            def c_fill(var, d, tnm, lvs):
                _, _, le = vals(d, lvs)
                return ["  struct %s %s; memset(&%s, 0, sizeof %s);" % (tnm, var, var, var)] + \
                       ["  %s%s = %s;" % (var, p, c_lit(le[j], t)) for j, (t, p, _) in enumerate(lvs)]

            def c_scalar_args(d):
                _, raw, _ = vals(d, lv)
                a = [c_lit(raw[i], t) for i, t in enumerate(cs.pre)]
                return a, c_lit(raw[npre], "i64"), c_lit(raw[npre + 1], "f64")

            def go_print(d, sname, with_scalars, lvs):
                exprs = []
                if with_scalars:
                    exprs += [go_bits("p%d" % i, cs.pre[i], True) for i in range(npre)]
                exprs += [go_bits(sname + g, t) for t, _, g in lvs]
                if with_scalars:
                    exprs += [go_bits("q", "i64", True), go_bits("r", "f64", True)]
                return '\tprintln("C09", %d, "%s", %s)' % (ci, d, ", ".join(exprs))

            def go_fill(var, d, tnm, lvs):
                _, _, le = vals(d, lvs)
                return ["\tvar %s cb.%s" % (var, tnm)] + ["\t%s%s = %s" % (var, g, go_lit(le[j], t)) for j, (t, _, g) in enumerate(lvs)]

            def go_scalar_args(d):
                _, raw, _ = vals(d, lv)
                return [go_lit(raw[i], t) for i, t in enumerate(cs.pre)], go_lit(raw[npre], "i64"), go_lit(raw[npre + 1], "f64")

            # ---- C side: callee a<ci>, caller c<ci>
            hdr.append("typedef %s (*cbt%d)(%s);" % (cret, ci, ", ".join(ctypes)))
            hdr.append("%s a%d(%s);" % (cret, ci, ", ".join(cparams)))
            hdr.append("void c%d(cbt%d fn);" % (ci, ci))
            w = ["%s a%d(%s) {" % (cret, ci, ", ".join(cparams))]
            if self.negctl and ci == 0:
                # end-to-end negative control: the callee reports leaf 0 with one bit flipped on line "neg"
                t0, p0, _ = lv[0]
                w.append('  fprintf(stdout, "C09 %d neg %%llu\\n", %s ^ 1ull); fflush(stdout);' % (ci, c_bits("s" + p0, t0)))
            w.append(c_print("stdout", "arg", "s", True, lv))
            w.append("  memset(&s, 0xA5, sizeof s); c09_sink(&s);      /* by value: must not reach the caller's object */")
            if rsh:
                w += c_fill("o", "res", rtn, rlv)
                w.append("  return o;")
            w.append("}")
            pa, qa, ra = c_scalar_args("cbarg")
            w.append("void c%d(cbt%d fn) {" % (ci, ci))
            w += c_fill("s", "cbarg", tn, lv)
            w.append("  c09_sink(&s);")
            call = "fn(%s)" % ", ".join(pa + ["s", qa, ra])
            if rsh:
                w.append("  struct %s o = %s;" % (rtn, call))
                w.append(c_print("stdout", "cbres", "o", False, rlv))
            else:
                w.append("  %s;" % call)
            w.append("  c09_sink(&s);")
            w.append(c_print("stdout", "cbkeep", "s", False, lv))
            w.append("}")
            wrap += w
            # ---- C main playing Go's part (self-validation)
            m = ["static %s cb%d(%s) {" % (cret, ci, ", ".join(cparams)), c_print("stderr", "cbarg", "s", True, lv),
                 "  memset(&s, 0x5A, sizeof s); c09_sink(&s);"]
            if rsh:
                m += c_fill("o", "cbres", rtn, rlv)
                m.append("  return o;")
            m.append("}")
            m.append("static void case%d(void) {" % ci)
            m += c_fill("s", "arg", tn, lv)
            m.append("  c09_sink(&s);")
            pa, qa, ra = c_scalar_args("arg")
            call = "a%d(%s)" % (ci, ", ".join(pa + ["s", qa, ra]))
            if rsh:
                m.append("  struct %s o = %s;" % (rtn, call))
                m.append(c_print("stderr", "res", "o", False, rlv))
            else:
                m.append("  %s;" % call)
            m.append("  c09_sink(&s);")
            m.append(c_print("stderr", "keep", "s", False, lv))
            m.append("  c%d(cb%d);" % (ci, ci))
            m.append("}")
            cm += m
            calls_c.append("  if (from <= %d) case%d();" % (ci, ci))
            # ---- Go binding + main
            gob.append("//go:linkname A%d C.a%d" % (ci, ci))
            gob.append("func A%d(%s)%s" % (ci, ", ".join(x.replace("cb.", "") for x in gparams), gret.replace("cb.", "")))
            gob.append("//go:linkname C%d C.c%d" % (ci, ci))
            gob.append("func C%d(fn func(%s)%s)" % (ci, ", ".join(gtypes), gret.replace("cb.", "")))
            body = [go_print("cbarg", "s", True, lv), "\ts = cb.%s{}" % tn, "\tcb.Sink(unsafe.Pointer(&s))"]
            if rsh:
                body += go_fill("o", "cbres", rtn, rlv)
                if ci % 2 == 0:
                    # the result is an earlier copy of a variable one of whose fields is overwritten before the return:
                    # the caller must receive what the copy held
                    rt0, _, rg0 = rlv[0]
                    body.append("\thold%d = o" % ci)
                    body.append("\told := hold%d" % ci)
                    body.append("\thold%d%s = %s" % (ci, rg0, go_lit(leaf_value(tag, "cbres.alt", rt0), rt0)))
                    body.append("\treturn old")
                    gom.append("var hold%d cb.%s" % (ci, rtn))
                else:
                    body.append("\treturn o")
            literal = ci % 3 == 2        # every third callback is a function literal (a closure without captured variables)
            g = [] if literal else ["func cb%d(%s)%s {" % (ci, ", ".join(gparams), gret)] + body + ["}"]
            g.append("func case%d() {" % ci)
            g += go_fill("s", "arg", tn, lv)
            # the argument is an earlier copy of a variable one of whose fields is overwritten before the call (same
            # block, no call in between): the callee must receive what the copy held
            t0, _, g0 = lv[0]
            g.append("\tprev := s")
            g.append("\ts%s = %s" % (g0, go_lit(leaf_value(tag, "arg.alt", t0), t0)))
            pa, qa, ra = go_scalar_args("arg")
            call = "cb.A%d(%s)" % (ci, ", ".join(pa + ["prev", qa, ra]))
            if rsh:
                g.append("\to := " + call)
                g.append(go_print("res", "o", False, rlv))
            else:
                g.append("\t" + call)
            g.append("\tcb.Sink(unsafe.Pointer(&s))")
            g.append(go_print("keep", "prev", False, lv))
            if literal:
                g.append("\tcb.C%d(func(%s)%s {" % (ci, ", ".join(gparams), gret))
                g += ["\t" + x for x in body]
                g.append("\t})")
            else:
                g.append("\tcb.C%d(cb%d)" % (ci, ci))
            g.append("}")
            gom += g
            calls_go.append("\tif from <= %d {\n\t\tcase%d()\n\t}" % (ci, ci))
        # ---- C strings
        cstr_go, cstr_c, cstr_cb = gen_cstr(self.cstr, self.expect)
        wrap += cstr_c
        gob += cstr_cb
        gom += cstr_go
        # ---- variadic calls (after the struct cases: a crash here leaves their lines complete)
        va = gen_variadic(self.variadic, self.expect)
        hdr += va["hdr"]
        wrap += va["c"]
        gob += va["cb"]
        gom += va["go"]
        cm += va["cmain"]
        if self.variadic:
            calls_go.append("\tvaCases()")
            calls_c.append("  c09_vcases();")
        # ---- narrow integers behind an aggregate: a binding package of its own whose C file is compiled with $C09_NFLAGS
        nw = gen_narrow(self.narrow, self.expect)
        gom += nw["go"]
        cm += nw["cmain"]
        if self.narrow:
            gom[gom.index('\t"vmod/cb"')] = '\t"vmod/cb"\n\t"vmod/cn"'
            calls_go.append("\tnwCases()")
            calls_c.append("  c09_ncases();")
        gom.append("func main() {\n\tfrom := int(cb.From())\n\t_ = from\n" + ("\tif from == 0 {\n\t\tcstrCases()\n\t}\n" if self.cstr else "") +
                   "\n".join(calls_go) + '\n\tprintln("C09 done")\n}')
        cm.append("int main(void) {\n  int from = c09_from();\n" + "\n".join(calls_c) + '\n  fprintf(stderr, "C09 done\\n");\n  return 0;\n}')
        self.files = {"cb/wrap/shapes.h": "\n".join(hdr) + "\n", "cb/wrap/wrap.c": "\n".join(wrap) + "\n",
                      "cb/cb.go": "\n".join(gob) + "\n", "main.go": "\n".join(gom) + "\n"}
        self.files.update(nw["files"])
        self.cmain = "\n".join(cm) + "\n"



# --------------------------------------------------------------------------- C strings

TOK = {0: 0x00, 1: 0x61, 2: 0x80, 3: 0xff}


def gen_cstr(cases, expect):
    """cases: TLC records {s, buf, strlen, back, backn}; lines 'C09S <i> <kind> v...' printed by Go"""
    if not cases:
        return [], [], []
    cb = ["//go:linkname Strlen C.c09_strlen", "func Strlen(p *int8) int64",
          "//go:linkname Peek C.c09_peek", "func Peek(p *int8, i int64) int32",
          "//go:linkname Table C.c09_table", "func Table(i int32) *int8",
          "//go:linkname Copy C.c09_copy", "func Copy(dst *byte, src *byte, n int64) int64",
          "//go:linkname Scribble C.c09_scribble", "func Scribble(p *int8, n int64)",
          "//go:linkname AllocCStr llgo.allocCStr", "func AllocCStr(s string) *int8",
          "//go:linkname AllocaCStr llgo.allocaCStr", "func AllocaCStr(s string) *int8",
          "//go:linkname GoString llgo.string", "func GoString(cstr *int8, __llgo_va_list ...any) string", ""]
    c = ["long long c09_strlen(const char *p){ return (long long)strlen(p); }",
         "void c09_scribble(char *p, long long n){ for (long long i = 0; i < n; i++) p[i] = 'X'; }",
         "int c09_peek(const char *p, long long i){ return (unsigned char)p[i]; }",
         "long long c09_copy(unsigned char *dst, const unsigned char *src, long long n){ long long s = 0; for (long long i = 0; i < n; i++){ dst[i] = src[i]; s += src[i]; } return s; }"]
    tbl = []
    gostr = []
    for i, r in enumerate(cases):
        by = [TOK[t] for t in r["s"]]
        tbl.append('  "%s",' % "".join("\\%03o" % TOK[t] for t in r["buf"][:-1]))
        gostr.append('\t"%s",' % "".join("\\x%02x" % b for b in by))
        buf = [TOK[t] for t in r["buf"]]
        back = [TOK[t] for t in r["back"]]
        backn = [TOK[t] for t in r["backn"]]
        for kind in ("alloc", "alloca"):
            expect[("S%d" % i, kind)] = [("strlen", r["strlen"])] + [("buf[%d]" % k, b) for k, b in enumerate(buf)]
        expect[("S%d" % i, "back")] = [("len", len(back))] + [("b[%d]" % k, b) for k, b in enumerate(back)]
        expect[("S%d" % i, "backn")] = [("len", len(backn))] + [("b[%d]" % k, b) for k, b in enumerate(backn)]
        expect[("S%d" % i, "fromc")] = [("len", len(back))] + [("b[%d]" % k, b) for k, b in enumerate(back)]
        # CStr.tla, law Snapshot: a Go string made from a C buffer keeps its bytes when C overwrites the buffer afterwards
        expect[("S%d" % i, "late")] = [("len", len(back))] + [("b[%d]" % k, b) for k, b in enumerate(back)]
        expect[("S%d" % i, "laten")] = [("len", len(backn))] + [("b[%d]" % k, b) for k, b in enumerate(backn)]
        expect[("S%d" % i, "bytes")] = [("sum", sum(by))] + [("b[%d]" % k, b) for k, b in enumerate(by)]
    c.append("static const char *c09_tbl[] = {\n" + "\n".join(tbl) + "\n};")
    c.append("const char *c09_table(int i){ return c09_tbl[i]; }")
    go = ["var cstrTable = []string{\n" + "\n".join(gostr) + "\n}", '''
//go:noinline
func opaque(s string) string { return s }

func dumpBuf(i int, kind string, p *int8, n int) {
	print("C09 S", i, " ", kind, " ", uint64(cb.Strlen(p)))
	for k := 0; k <= n; k++ {
		print(" ", uint64(cb.Peek(p, int64(k))))
	}
	println()
}

func dumpStr(i int, kind string, s string) {
	print("C09 S", i, " ", kind, " ", uint64(len(s)))
	for k := 0; k < len(s); k++ {
		print(" ", uint64(s[k]))
	}
	println()
}

func cstrOne(i int, s string) {
	p := cb.AllocCStr(s)
	dumpBuf(i, "alloc", p, len(s))
	q := cb.AllocaCStr(s)
	dumpBuf(i, "alloca", q, len(s))
	dumpStr(i, "back", cb.GoString(p))
	dumpStr(i, "backn", cb.GoString(q, len(s)))
	dumpStr(i, "fromc", cb.GoString(cb.Table(int32(i))))
	r := cb.AllocCStr(s)
	late, laten := cb.GoString(r), cb.GoString(r, len(s))
	cb.Scribble(r, int64(len(s)))
	dumpStr(i, "late", late)
	dumpStr(i, "laten", laten)
	src := []byte(s)
	dst := make([]byte, len(src)+1)
	var sum int64
	if len(src) > 0 {
		sum = cb.Copy(&dst[0], &src[0], int64(len(src)))
	}
	print("C09 S", i, " bytes ", uint64(sum))
	for k := 0; k < len(src); k++ {
		print(" ", uint64(dst[k]))
	}
	println()
}

func cstrCases() {
	for i := range cstrTable {
		cstrOne(i, opaque(cstrTable[i]))
	}
}
''']
    return go, c, cb


# --------------------------------------------------------------------------- variadic calls (SysVVariadic.tla)

VKIND = {"i64": "i", "f64": "f", "ptr": "p"}


def run_variadic(chk, thorough):
    rd = chk.rd.path
    cfg = os.path.join(rd, "variadic.cfg")
    C.write_cfg(cfg, constants={"MaxVar": 4 if thorough else 3}, invariants=["ClassSane", "InOrder", "NamedSame", "Emit"])
    res = C.tlc(SPEC, "SysVVariadic", cfg, rd, timeout=600, workers=2)
    if not res.ok:
        raise C.Undecided("SysVVariadic: the va_arg walk does not find the arguments where the caller puts them: %s" % res.violation)
    chk.add_tlc(res, "SysVVariadic")
    order = {"none": 0, "small": 1, "mid": 2, "big": 3}
    seen = {}
    for r in res.printed:
        r["psig"] = shape_sig(r["prefix"])
        r["prefix"]["sig"] = r["psig"]
        seen[(r["psig"], tuple(r["kinds"]))] = r
    out = sorted(seen.values(), key=lambda r: (order[r["class"]], r["psig"], len(r["kinds"]), r["kinds"]))
    if not out or any(r["received"] != list(range(1, len(r["kinds"]) + 1)) for r in out):
        raise C.Undecided("SysVVariadic printed nothing usable")
    return out


def vname(r):
    return "%s%s(%s)" % (r["class"], r["psig"] if r["prefix"]["shape"] else "", ",".join(r["kinds"]) or "-")


def gen_variadic(vcases, expect):
    """vcases: TLC records of SysVVariadic; one C callee per prefix shape, `n` carries the case number.
    lines: 'C09 V<i> va <prefix leaves> <n> <variadic...>' printed by the C callee, 'C09 V<i> vres <result>' by the caller"""
    out = {"hdr": [], "c": [], "cb": [], "go": [], "cmain": []}
    if not vcases:
        return out
    pidx = {}
    gofn, cfn = ["func vaCases() {"], ["static void c09_vcases(void) {"]
    kinds_tbl, res_tbl = [], []
    for i, r in enumerate(vcases):
        sh = r["prefix"]
        has = bool(sh["shape"])
        lv = leaves(sh) if has else []
        if r["psig"] not in pidx:
            k = pidx[r["psig"]] = len(pidx)
            tn = "VP%d" % k
            if has:
                out["hdr"].append(c_struct_decl(tn, sh))
                out["cb"].append(go_struct_decl(tn, sh))
            fixed = ("struct %s s, " % tn) if has else ""
            out["hdr"].append("int64_t va%d(%sint32_t n, ...);" % (k, fixed))
            c = ["int64_t va%d(%sint32_t n, ...) {" % (k, fixed),
                 "  unsigned long long v[8]; int m = 0; va_list ap; va_start(ap, n);",
                 "  const char *kinds = (n >= 0 && n < %d) ? c09_vkinds[n] : \"\";" % len(vcases),
                 "  for (; kinds[m] && m < 8; m++) {",
                 "    if (kinds[m] == 'f') v[m] = b64(va_arg(ap, double));",
                 "    else if (kinds[m] == 'p') v[m] = (unsigned long long)(uintptr_t)va_arg(ap, void*);",
                 "    else v[m] = (unsigned long long)va_arg(ap, int64_t);",
                 "  }",
                 "  va_end(ap);",
                 '  fprintf(stdout, "C09 V%%d va", (int)(n >= 0 && n < %d ? n : %d));' % (len(vcases), len(vcases))]
            for t, cp, _ in lv:
                c.append('  fprintf(stdout, " %%llu", %s);' % c_bits("s" + cp, t))
            c += ['  fprintf(stdout, " %llu", (unsigned long long)(long long)n);',
                  '  for (int j = 0; j < m; j++) fprintf(stdout, " %llu", v[j]);',
                  '  fprintf(stdout, "\\n"); fflush(stdout);',
                  "  return (n >= 0 && n < %d) ? c09_vres[n] : 0;" % len(vcases), "}"]
            out["c"] += c
            out["cb"] += ["//go:linkname Va%d C.va%d" % (k, k),
                          "func Va%d(%sn int32, __llgo_va_list ...any) int64" % (k, ("s %s, " % tn) if has else ""), ""]
        k = pidx[r["psig"]]
        tn = "VP%d" % k
        tag = "variadic:" + vname(r)
        le = [leaf_value(tag, "l%d" % j, t) for j, (t, _, _) in enumerate(lv)]
        sent = [leaf_value(tag, "v%d" % j, t) for j, t in enumerate(r["kinds"])]
        resv = leaf_value(tag, "res", "i64")
        kinds_tbl.append('"%s"' % "".join(VKIND[t] for t in r["kinds"]))
        res_tbl.append(c_lit(resv, "i64"))
        # SysVVariadic.Received: the j-th va_arg yields the Received[j]-th argument supplied
        expect[("V%d" % i, "va")] = ([("s%s:%s" % (lv[j][1], lv[j][0]), le[j]) for j in range(len(lv))] + [("n:i32", i)] +
                                      [("va_arg %d:%s" % (j + 1, r["kinds"][j]), sent[r["received"][j] - 1]) for j in range(len(sent))])
        expect[("V%d" % i, "vres")] = [("result:i64", resv)]
        g = ["\t{"]
        cc = ["  {"]
        if has:
            g += ["\t" + x for x in ["\tvar s cb.%s" % tn] + ["\ts%s = %s" % (gp, go_lit(le[j], t)) for j, (t, _, gp) in enumerate(lv)]]
            cc += ["    struct %s s; memset(&s, 0, sizeof s);" % tn] + \
                  ["    s%s = %s;" % (cp, c_lit(le[j], t)) for j, (t, cp, _) in enumerate(lv)]
        gargs = (["s"] if has else []) + ["%d" % i] + [go_lit(v, t) for v, t in zip(sent, r["kinds"])]
        cargs = (["s"] if has else []) + ["%d" % i] + [c_lit(v, t) for v, t in zip(sent, r["kinds"])]
        g += ["\t\tr := cb.Va%d(%s)" % (k, ", ".join(gargs)), '\t\tprintln("C09 V%d vres", uint64(r))' % i, "\t}"]
        cc += ["    int64_t r = va%d(%s);" % (k, ", ".join(cargs)),
               '    fprintf(stderr, "C09 V%d vres %%llu\\n", (unsigned long long)r); fflush(stderr);' % i, "  }"]
        gofn += g
        cfn += cc
    out["c"] = ["static const char *c09_vkinds[] = { %s };" % ", ".join(kinds_tbl),
                "static const int64_t c09_vres[] = { %s };" % ", ".join(res_tbl)] + out["c"]
    out["go"] = gofn + ["}"]
    out["cmain"] = cfn + ["}"]
    return out


def eval_variadic(chk, b, vfail, opt, only):
    """vfail: {case index: mismatches}.  A failing case is charged to the shortest failing prefix of its variadic
    argument list (same fixed prefix); when, in one prefix class, exactly the one-argument calls are the roots - every
    kind, every shape - the class is reported once ('no variadic argument arrives')."""
    vc = b.variadic
    index = {(r["psig"], tuple(r["kinds"])): i for i, r in enumerate(vc)}
    roots = {}
    for i in sorted(vfail):
        r = vc[i]
        for n in range(len(r["kinds"]) + 1):
            j = index.get((r["psig"], tuple(r["kinds"][:n])))
            if j is not None and j in vfail:
                roots.setdefault(j, []).append(i)
                break
    groups = {}
    for cl in ("none", "small", "mid", "big"):
        ones = set(i for i, r in enumerate(vc) if r["class"] == cl and len(r["kinds"]) == 1)
        mine = set(j for j in roots if vc[j]["class"] == cl)
        if mine and mine == ones:
            groups["variadic:%s:any" % cl] = sorted(mine)
        else:
            for j in sorted(mine):
                groups["variadic:%s:%s:%s" % (cl, vc[j]["psig"], ",".join(vc[j]["kinds"]) or "-")] = [j]
    for key, js in groups.items():
        j = js[0]
        r = vc[j]
        folded = sorted(set(i for x in js for i in roots[x]))
        what = "; ".join("%s: passed 0x%x, callee read %s" % (n, w, ("0x%x" % h) if isinstance(h, int) else h)
                         if si >= 0 else "%s: expected %s, got %s" % (n, w, h) for (k2, si, n, w, h) in vfail[j][:5])
        chk.reject(key + (":" + only if only else ""),
                   "variadic C call f(%s n, ...) with variadic arguments (%s) at %s: %s; %d of %d calls of prefix class %s fail "
                   "the same way or extend a failing call. SysVVariadic: caller puts the arguments at %s, va_arg reads %s" % (
                       (r["psig"] + " s,") if r["prefix"]["shape"] else "", ",".join(r["kinds"]) or "none", opt, what,
                       len(folded), sum(1 for x in vc if x["class"] == r["class"]), r["class"], r["locs"], r["reads"]),
                   {"prefix": r["psig"], "class": r["class"], "kinds": r["kinds"], "opt": opt, "spec": r,
                    "mismatches": [{"line": k2[1], "slot": n, "passed": w, "read": h} for (k2, si, n, w, h) in vfail[j]],
                    "failing_calls": [vname(vc[i]) for i in folded][:60], "bundle": b.idx,
                    "files": Bundle(0, [], variadic=[r], negctl=False).files})
    return groups


# --------------------------------------------------------------------------- narrow integers behind an aggregate (SysVNarrow.tla)

NWT = {"i8": ("int8_t", "int8"), "i16": ("int16_t", "int16"), "u8": ("uint8_t", "uint8"), "u16": ("uint16_t", "uint16")}


def run_narrow(chk):
    rd = chk.rd.path
    res = C.tlc(SPEC, "SysVNarrow", "narrow.cfg", rd, timeout=600, workers=2)
    if not res.ok:
        raise C.Undecided("SysVNarrow: the extension law fails on the spec's own values: %s" % res.violation)
    chk.add_tlc(res, "SysVNarrow")
    seen = {}
    for r in res.printed:
        r["psig"] = shape_sig(r["prefix"])
        r["prefix"]["sig"] = r["psig"]
        seen[(r["psig"], r["form"], r["vset"])] = r
    out = sorted(seen.values(), key=lambda r: (len(r["prefix"]["cv"]), r["prefix"]["cv"], r["psig"], r["form"], r["vset"]))
    if not out:
        raise C.Undecided("SysVNarrow printed nothing")
    return out


def nname(r):
    return "f(%s) value set %d" % (", ".join(r["psig"] if p == "S" else "int64" if p == "pad" else NWT[p][1] for p in r["params"]), r["vset"])


def gen_narrow(ncases, expect):
    """one C function per (aggregate, form), compiled with $C09_NFLAGS (-O2: an optimising callee relies on the caller's
    extension); the arguments are truncations of run-time values.  line: 'C09 N<i> nw <every parameter, widened to 64 bits>'"""
    out = {"go": [], "cmain": [], "files": {}}
    if not ncases:
        return out
    decls, bodies, gob = [], [], []
    fidx, pidx = {}, {}
    gofn = ["var nwzero int32", "", "//go:noinline", "func nwv(v int32) int32 { return v + nwzero }", "", "func nwCases() {"]
    cfn = ["static volatile int c09n_zero;", "static int c09n_v(int v) { return v + c09n_zero; }", "static void c09_ncases(void) {"]
    for i, r in enumerate(ncases):
        sh = r["prefix"]
        has = bool(sh["shape"])
        lv = leaves(sh) if has else []
        if has and r["psig"] not in pidx:
            pidx[r["psig"]] = "NP%d" % len(pidx)
            decls.append(c_struct_decl(pidx[r["psig"]], sh))
            gob.append(go_struct_decl(pidx[r["psig"]], sh))
        tn = pidx.get(r["psig"])
        names = ["p%d" % k for k in range(len(r["params"]))]
        if (r["psig"], r["form"]) not in fidx:
            k = fidx[(r["psig"], r["form"])] = len(fidx)
            cps = ["struct %s %s" % (tn, n) if p == "S" else "int64_t %s" % n if p == "pad" else "%s %s" % (NWT[p][0], n)
                   for p, n in zip(r["params"], names)] + ["int32_t id"]
            gps = ["%s %s" % (n, tn) if p == "S" else "%s int64" % n if p == "pad" else "%s %s" % (n, NWT[p][1])
                   for p, n in zip(r["params"], names)] + ["id int32"]
            decls.append("void nw%d(%s);" % (k, ", ".join(cps)))
            ex = []
            for p, n in zip(r["params"], names):
                if p == "S":
                    ex += [c_bits(n + cp, t) for t, cp, _ in lv]
                else:
                    ex.append("(unsigned long long)(long long)%s" % n)
            bodies += ["void nw%d(%s) {" % (k, ", ".join(cps)),
                       '  fprintf(stdout, "C09 N%%d nw%s\\n", (int)id, %s); fflush(stdout);' % (" %llu" * len(ex), ", ".join(ex)), "}"]
            gob += ["//go:linkname Nw%d C.nw%d" % (k, k), "func Nw%d(%s)" % (k, ", ".join(gps)), ""]
        k = fidx[(r["psig"], r["form"])]
        tag = "narrow:%s:%s:%d" % (r["psig"], r["form"], r["vset"])
        le = [leaf_value(tag, "l%d" % j, t) for j, (t, _, _) in enumerate(lv)]
        pad = leaf_value(tag, "pad", "i64")
        slots, gargs, cargs = [], [], []
        for j, p in enumerate(r["params"]):
            if p == "S":
                slots += [("s%s:%s" % (lv[m][1], lv[m][0]), le[m]) for m in range(len(lv))]
                gargs.append("s")
                cargs.append("s")
            elif p == "pad":
                slots.append(("p%d:int64" % j, pad))
                gargs.append(go_lit(pad, "i64"))
                cargs.append(c_lit(pad, "i64"))
            else:
                # SysVNarrow.SeenOf: the truncated value, extended by the caller
                slots.append(("p%d:%s(0x%x)" % (j, NWT[p][1], r["wide"][j]), r["seen"][j] & ((1 << 64) - 1)))
                gargs.append("%s(nwv(%d))" % (NWT[p][1], r["wide"][j]))
                cargs.append("(%s)c09n_v(%d)" % (NWT[p][0], r["wide"][j]))
        expect[("N%d" % i, "nw")] = slots
        g, cc = ["\t{"], ["  {"]
        if has:
            g += ["\t\tvar s cn.%s" % tn] + ["\t\ts%s = %s" % (gp, go_lit(le[m], t)) for m, (t, _, gp) in enumerate(lv)]
            cc += ["    struct %s s; memset(&s, 0, sizeof s);" % tn] + ["    s%s = %s;" % (cp, c_lit(le[m], t)) for m, (t, cp, _) in enumerate(lv)]
        g += ["\t\tcn.Nw%d(%s, %d)" % (k, ", ".join(gargs), i), "\t}"]
        cc += ["    nw%d(%s, %d);" % (k, ", ".join(cargs), i), "  }"]
        gofn += g
        cfn += cc
    out["go"] = gofn + ["}"]
    out["cmain"] = decls + cfn + ["}"]
    out["files"] = {
        "cn/wrap/narrow.c": C_PRELUDE + "\n".join(decls + bodies) + "\n",
        "cn/cn.go": "\n".join(["package cn", "", 'import "unsafe"', "", "const (", '\tLLGoFiles   = "$C09_NFLAGS: wrap/narrow.c"',
                               '\tLLGoPackage = "link"', ")", "", "var _ unsafe.Pointer", ""] + gob) + "\n"}
    return out


def eval_narrow(chk, b, nfail, opt, only):
    """one key per classification of the aggregate in front of the narrow parameters"""
    groups = {}
    for i in sorted(nfail):
        r = b.narrow[i]
        groups.setdefault("narrow:%s" % ("/".join(r["prefix"]["cv"]) or "none"), []).append(i)
    for key, idxs in groups.items():
        r = b.narrow[idxs[0]]
        det = nfail[idxs[0]]
        what = "; ".join("%s: passed 0x%x, callee saw %s" % (n, w, ("0x%x" % h) if isinstance(h, int) else h)
                         if si >= 0 else "%s: expected %s, got %s" % (n, w, h) for (k2, si, n, w, h) in det[:5])
        chk.reject(key + (":" + only if only else ""),
                   "C function %s at %s, C side compiled -O2, arguments truncated from run-time values: %s. %d calls behind an aggregate "
                   "of class %s fail (aggregates: %s). SysVNarrow: the caller extends int8/int16/uint8/uint16 arguments; parameters at %s" % (
                       nname(r), opt, what, len(idxs), r["prefix"]["cv"], sorted(set(b.narrow[i]["psig"] for i in idxs)), r["locs"]),
                   {"aggregate": r["psig"], "form": r["form"], "params": r["params"], "wide_sources": r["wide"], "expected": r["seen"],
                    "opt": opt, "c_flags": "-O2", "mismatches": [{"slot": n, "passed": w, "seen": h} for (k2, si, n, w, h) in det],
                    "failing_calls": [nname(b.narrow[i]) for i in idxs][:40], "bundle": b.idx,
                    "files": Bundle(0, [], narrow=[r], negctl=False).files})
    return groups


# --------------------------------------------------------------------------- cgo byte buffers (CBuf.tla)

TOKB = {0: 0x00, 1: 0x61, 2: 0x80, 3: 0xff, 4: 0x4a, 5: 0x47}
OPC = {"CString": 1, "CBytes": 2, "MutC": 3, "MutGsrc": 4, "GoString": 5, "GoStringN": 6, "GoBytes": 7, "MutGback": 8}
BKIND = {"none": 0, "string": 1, "bytes": 2}

CBUF_GO = r"""package cg

/*
#include <stdlib.h>
static void c09_poke(void *p, int i, int v) { ((unsigned char *)p)[i] = (unsigned char)v; }
static int c09_peek(void *p, int i) { return ((unsigned char *)p)[i]; }
static int c09_from(void) { const char *e = getenv("C09_FROM"); return e ? atoi(e) : 0; }
*/
import "C"

import "unsafe"

// one script: len(s), s..., number of operations, then (op, operand, byte) triples
const prog = "@PROG@"

func num(out []byte, v int) []byte {
	var d [20]byte
	n := len(d)
	for {
		n--
		d[n] = byte('0' + v%10)
		v /= 10
		if v == 0 {
			break
		}
	}
	out = append(out, ' ')
	return append(out, d[n:]...)
}

func head(out []byte, idx int, kind string) []byte {
	out = append(out, "C09B"...)
	out = num(out, idx)
	out = append(out, ' ')
	return append(out, kind...)
}

func runOne(idx, pos int) {
	defer func() {
		if r := recover(); r != nil {
			println("C09B", idx, "panic")
		}
	}()
	n := int(prog[pos])
	pos++
	src := make([]byte, n)
	for k := 0; k < n; k++ {
		src[k] = prog[pos+k]
	}
	pos += n
	nops := int(prog[pos])
	pos++
	var p unsafe.Pointer
	blen, kind := 0, 0
	var bs string
	var bb []byte
	for k := 0; k < nops; k++ {
		op, a, v := prog[pos], int(prog[pos+1]), prog[pos+2]
		pos += 3
		switch op {
		case 1:
			p, blen = unsafe.Pointer(C.CString(string(src))), n+1
		case 2:
			p, blen = C.CBytes(src), n
		case 3:
			C.c09_poke(p, C.int(a), C.int(v))
		case 4:
			src[a] = v
		case 5:
			bs, kind = C.GoString((*C.char)(p)), 1
		case 6:
			bs, kind = C.GoStringN((*C.char)(p), C.int(a)), 1
		case 7:
			bb, kind = C.GoBytes(p, C.int(a)), 2
		case 8:
			bb[a] = v
		}
	}
	out := make([]byte, 0, 128)
	out = head(out, idx, "src")
	for k := 0; k < len(src); k++ {
		out = num(out, int(src[k]))
	}
	out = append(out, '\n')
	out = head(out, idx, "buf")
	for k := 0; k < blen; k++ {
		out = num(out, int(C.c09_peek(p, C.int(k))))
	}
	out = append(out, '\n')
	out = head(out, idx, "back")
	out = num(out, kind)
	if kind == 1 {
		out = num(out, len(bs))
		for k := 0; k < len(bs); k++ {
			out = num(out, int(bs[k]))
		}
	} else {
		out = num(out, len(bb))
		for k := 0; k < len(bb); k++ {
			out = num(out, int(bb[k]))
		}
	}
	out = append(out, '\n')
	print(string(out))
}

func Run() {
	from := int(C.c09_from())
	pos := 0
	for idx := 0; pos < len(prog); idx++ {
		n := int(prog[pos])
		nops := int(prog[pos+1+n])
		if idx >= from {
			runOne(idx, pos)
		}
		pos += 2 + n + 3*nops
	}
	println("C09B done")
}
"""
CBUF_MAIN = 'package main\n\nimport "vmod/cg"\n\nfunc main() { cg.Run() }\n'
BLINE = re.compile(r"^C09B (\d+) (\w+)((?: \d+)*)\s*$")


def run_cbuf_tlc(chk, thorough):
    rd = chk.rd.path
    cfg = os.path.join(rd, "cbuf.cfg")
    consts = {"Tokens": "{0, 1, 3}", "MaxLen": 3, "MaxSteps": 4, "CPoke": "{0, 4}", "GPoke": 5, "NSet": '"ends"'}
    if thorough:
        consts.update({"Tokens": "{0, 1, 2, 3}", "NSet": '"all"'})
    C.write_cfg(cfg, constants=consts, invariants=["TypeOK", "Emit"], properties=["SnapToGo", "SnapToC", "Conv"])
    res = C.tlc(SPEC, "CBuf", cfg, rd, timeout=1200, parse_json=False, workers=3)
    if not res.ok:
        raise C.Undecided("CBuf: the snapshot laws fail on the spec's own machine: %s" % res.violation)
    chk.add_tlc(res, "CBuf")
    scripts = {}
    for r in C.tlc_printed_iter(res):
        ops = tuple((o["op"], o["i"], o["v"]) for o in r["script"])
        r["ops"] = ops
        scripts[(tuple(r["s"]), ops)] = r
    out = sorted(scripts.values(), key=lambda r: (len(r["ops"]), len(r["s"]), r["s"], r["ops"]))
    if not out:
        raise C.Undecided("CBuf printed no scripts")
    return out


def cbuf_name(r):
    def one(o):
        op, i, v = o
        if op == "MutC":
            return "MutC[%d]=0x%02x" % (i - 1, TOKB[v])
        if op in ("MutGsrc", "MutGback"):
            return "%s[%d]=0x%02x" % (op, i - 1, TOKB[v])
        if op in ("GoStringN", "GoBytes"):
            return "%s(%d)" % (op, i)
        return op
    return "[%s] %s" % (" ".join("%02x" % TOKB[t] for t in r["s"]), "; ".join(one(o) for o in r["ops"]))


def cbuf_files(scripts):
    enc = bytearray()
    for r in scripts:
        enc.append(len(r["s"]))
        enc += bytes(TOKB[t] for t in r["s"])
        enc.append(len(r["ops"]))
        for op, i, v in r["ops"]:
            # indices are 0-based in the program; GoStringN / GoBytes carry their length
            a = i if op in ("GoStringN", "GoBytes") else max(i - 1, 0)
            enc += bytes([OPC[op], a, TOKB[v]])
    lit = "".join("\\x%02x" % x for x in enc)
    return {"cg/cg.go": CBUF_GO.replace("@PROG@", lit), "main.go": CBUF_MAIN}


def cbuf_expect(scripts):
    exp = {}
    for i, r in enumerate(scripts):
        exp[(i, "src")] = [("src[%d]" % k, TOKB[t]) for k, t in enumerate(r["src"])]
        exp[(i, "buf")] = [("buf[%d]" % k, TOKB[t]) for k, t in enumerate(r["buf"])]
        exp[(i, "back")] = [("kind", BKIND[r["kind"]]), ("len", len(r["back"]))] + [("back[%d]" % k, TOKB[t]) for k, t in enumerate(r["back"])]
    return exp


def run_cbuf_exe(exe, nscripts, env=None, max_restarts=400):
    """runs the interpreter, restarting behind a script that kills the process; returns (lines, crashed indices, done)"""
    got, crashed = {}, []
    start = 0
    for _ in range(max_restarts):
        e = dict(env or os.environ)
        e["C09_FROM"] = str(start)
        st, so, se = C.run_exe(exe, timeout=600, env=e)
        last = start - 1
        for line in (so + "\n" + se).splitlines():
            m = BLINE.match(line.strip())
            if m:
                i = int(m.group(1))
                got[(i, m.group(2))] = [int(x) for x in m.group(3).split()]
                last = max(last, i)
        if st == 0 and "C09B done" in se + so:
            return got, crashed, True
        crashed.append(last + 1)
        start = last + 2
        if start >= nscripts:
            break
    return got, crashed, start >= nscripts


def eval_cbuf(chk, scripts, exp, got, opt="O0"):
    only = ":O2only" if opt != "O0" else ""
    """a failing script is charged to its shortest failing prefix (every prefix of a script is a script of its own): the last
    action of that prefix is the culprit, the first wrong observation names the damaged value and the conversion that made it"""
    bad = {}
    for key, i, name, want, have in compare(exp, got):
        bad.setdefault(key[0], []).append((key[1], i, name, want, have))
    index = {(tuple(r["s"]), r["ops"]): i for i, r in enumerate(scripts)}
    groups = {}
    for i in sorted(bad):
        r = scripts[i]
        root = i
        for n in range(1, len(r["ops"]) + 1):
            j = index.get((tuple(r["s"]), r["ops"][:n]))
            if j is not None and j in bad:
                root = j
                break
        p = scripts[root]
        det = bad[root]
        culprit = p["ops"][-1][0]
        if (root, "panic") in got or any(d[2] == "line" for d in det):
            damaged, producer = "crash", culprit
        else:
            damaged = [k for k in ("src", "buf", "back") if any(d[0] == k for d in det)][0]
            togo = [o[0] for o in p["ops"] if o[0] in ("GoString", "GoStringN", "GoBytes")]
            producer = "Go" if damaged == "src" else p["ops"][0][0] if damaged == "buf" else (togo[0] if togo else "none")
        key = "cbuf:%s:%s:%s:%s%s" % ("empty" if not p["s"] else "nonempty", damaged, producer, culprit, only)
        groups.setdefault(key, {"roots": [], "all": []})
        if root not in groups[key]["roots"]:
            groups[key]["roots"].append(root)
        groups[key]["all"].append(i)
    for key, g in groups.items():
        # the most readable minimal script represents the group: shortest, then without NUL bytes
        g["roots"].sort(key=lambda j: (len(scripts[j]["ops"]), len(scripts[j]["s"]), 0 in scripts[j]["s"], scripts[j]["s"], scripts[j]["ops"]))
        root = g["roots"][0]
        p = scripts[root]
        det = bad[root]
        what = "; ".join(("%s %s: expected 0x%x, observed %s" % (k, n, w, ("0x%x" % h) if isinstance(h, int) else h)) if si >= 0
                         else "%s: %s expected %s, got %s%s" % (k, n, w, h, " (the script panicked)" if (root, "panic") in got else "")
                         for (k, si, n, w, h) in det[:4])
        chk.reject(key, "cgo buffer script %s at %s: %s. CBuf: src=%s buf=%s back=%s %s. %d scripts fail with this script or an extension "
                   "of one of %d minimal scripts of this kind" % (cbuf_name(p), opt, what, [TOKB[t] for t in p["src"]], [TOKB[t] for t in p["buf"]],
                                                                  p["kind"], [TOKB[t] for t in p["back"]], len(g["all"]), len(g["roots"])),
                   {"script": cbuf_name(p), "initial": [TOKB[t] for t in p["s"]], "ops": p["ops"], "opt": opt,
                    "expected": {"src": [TOKB[t] for t in p["src"]], "buf": [TOKB[t] for t in p["buf"]], "kind": p["kind"],
                                 "back": [TOKB[t] for t in p["back"]]},
                    "observed": {k: got.get((root, k)) for k in ("src", "buf", "back", "panic")},
                    "other_minimal_scripts": [cbuf_name(scripts[j]) for j in g["roots"][1:12]],
                    "failing_scripts": len(g["all"]), "files": cbuf_files([p])})
    return groups, len(bad)


# --------------------------------------------------------------------------- run + compare

LINE = re.compile(r"^C09 ([SVN]?\d+) (\w+)((?: \d+)*)\s*$")


def parse_lines(text, into, dup):
    for line in text.splitlines():
        m = LINE.match(line.strip())
        if not m:
            continue
        cid = m.group(1)
        key = (cid if cid[0] in "SVN" else int(cid), m.group(2))
        vals = [int(x) for x in m.group(3).split()]
        if key in into:
            dup.append(key)
        into[key] = vals


def run_bundle_exe(exe, ncases, env=None, timeout=180):
    """runs the program, restarting after the crashing case; returns ({(case,dir): values}, crashes, done)"""
    got = {}
    dup = []
    crashes = []
    start = 0
    for _ in range(12):
        e = dict(env or os.environ)
        e["C09_FROM"] = str(start)
        st, so, se = C.run_exe(exe, timeout=timeout, env=e)
        before = set(got)
        parse_lines(so, got, dup)
        parse_lines(se, got, dup)
        if st == 0 and "C09 done" in se:
            return got, crashes, True
        # find the first case >= start without its complete set of lines: the crash happened there
        seen = sorted(set(k[0] for k in got if isinstance(k[0], int) and k[0] >= start))
        last = seen[-1] if seen else start
        crashes.append({"case": last, "status": st, "stderr_tail": se[-400:]})
        start = last + 1
        if start >= ncases:
            break
        del before
    return got, crashes, False


def compare(expect, got, skip=()):
    """yields (key, slot index, slot name, want, have|None)"""
    for key, slots in expect.items():
        if key in skip:
            continue
        have = got.get(key)
        if have is None:
            yield key, -1, "line", "present", None
            continue
        if len(have) != len(slots):
            yield key, -1, "count", len(slots), len(have)
            continue
        for i, (name, want) in enumerate(slots):
            if have[i] != want:
                yield key, i, name, want, have[i]


def c_selfcheck(chk, b, d):
    """the generated C, driven by a C main: gcc<->gcc and clang-14 callee <-> gcc caller must satisfy the expectations"""
    wd = os.path.join(d, "cself")
    os.makedirs(wd, exist_ok=True)
    for n in ("shapes.h", "wrap.c"):
        with open(os.path.join(wd, n), "w") as f:
            f.write(b.files["cb/wrap/" + n])
    with open(os.path.join(wd, "cmain.c"), "w") as f:
        f.write(b.cmain)
    has_narrow = "cn/wrap/narrow.c" in b.files
    if has_narrow:
        with open(os.path.join(wd, "narrow.c"), "w") as f:
            f.write(b.files["cn/wrap/narrow.c"])
    shape_expect = {k: v for k, v in b.expect.items() if isinstance(k[0], int) or k[0][0] in "VN"}
    n = 0
    for label, cc_wrap, flags in (("gcc-gcc", "gcc", "-O1"), ("clang14-gcc", "/usr/lib/llvm-14/bin/clang", "-O2")):
        exe = os.path.join(wd, "cself-" + label)
        cmds = [[cc_wrap, flags, "-w", "-c", "wrap.c", "-o", "wrap-%s.o" % label],
                ["gcc", "-O0", "-w", "cmain.c", "wrap-%s.o" % label, "-o", exe]]
        if has_narrow:      # the callees of the narrow-integer cases are optimised in both runs
            cmds.insert(1, [cc_wrap, "-O2", "-w", "-c", "narrow.c", "-o", "narrow-%s.o" % label])
            cmds[-1].insert(5, "narrow-%s.o" % label)
        for cmd in cmds:
            r = subprocess.run(cmd, cwd=wd, capture_output=True, text=True)
            if r.returncode != 0:
                raise C.Undecided("generated C does not compile (%s): %s" % (label, (r.stdout + r.stderr)[-1500:]))
        got, crashes, done = run_bundle_exe(exe, len(b.cases))
        if crashes or not done:
            raise C.Undecided("C-to-C self-validation crashed (%s): %s" % (label, crashes[:2]))
        bad = list(compare(shape_expect, got))
        if bad:
            raise C.Undecided("C-to-C self-validation (%s) disagrees with the expectations, generator is wrong: %s"
                              % (label, bad[:3]))
        n += len(shape_expect)
    return n


def fail_key(cs, d, opt_only=None):
    k = "%s:%s" % (d, cs.name())
    return k + (":" + opt_only if opt_only else "")


def loc_text(calls, cs):
    c = calls.get((cs.sh["cvt"], cs.prek, cs.ret))
    if not c:
        return "class %s" % (list(cs.sh["cvt"]),)
    sl = c["locs"][len(cs.prek)]
    return "SysVAbi: class %s, struct at %s, following int at %s, float at %s%s" % (
        list(cs.sh["cvt"]), sl, c["locs"][len(cs.prek) + 1], c["locs"][len(cs.prek) + 2],
        (", result at %s" % c["retloc"]) if cs.ret != "void" else "")


def evaluate(chk, b, got, crashes, opt, calls, failed_before):
    """compare one llgo run with the expectations; returns set of failing (case, dir)"""
    failing = {}
    for key, i, name, want, have in compare(b.expect, got):
        failing.setdefault(key, []).append((i, name, want, have))
    crashed = set(c["case"] for c in crashes)
    out = set()
    # canonical representatives first, so that seeded extras of the same class fold into their key
    canon_fail = {}
    for key in failing:
        if isinstance(key[0], int):
            cs = b.cases[key[0]]
            if cs.canonical:
                canon_fail[(cs.cls, key[1])] = cs
    vfail, nfail = {}, {}
    for key in sorted(failing, key=lambda k: (str(k[0]), k[1])):
        det = failing[key]
        out.add(key)
        if key in failed_before:
            continue        # already reported for O0
        only = "O2only" if (opt != "O0") else None
        if isinstance(key[0], str) and key[0][0] in "VN":
            (vfail if key[0][0] == "V" else nfail).setdefault(int(key[0][1:]), []).extend((key, i, n, w, h) for i, n, w, h in det)
            continue
        if isinstance(key[0], int):
            cs = b.cases[key[0]]
            rep = canon_fail.get((cs.cls, key[1]), cs)
            k = fail_key(rep, key[1], only)
            what = "; ".join("%s: wrote 0x%x, read %s" % (n, w, ("0x%x" % h) if isinstance(h, int) else h)
                             if i >= 0 else "%s: expected %s, got %s" % (n, w, h) for i, n, w, h in det[:4])
            crash = " (the program crashed in this case: %s)" % [c for c in crashes if c["case"] == key[0]][:1] if key[0] in crashed else ""
            chk.reject(k, "%s %s at %s: %s%s. %s" % (key[1], cs.name(), opt, what, crash, loc_text(calls, cs)),
                       {"direction": key[1], "shape": cs.sh["sig"], "pre": cs.pre, "ret": cs.ret, "opt": opt,
                        "layout": cs.sh["flat"], "size": cs.sh["size"], "classification": cs.sh["cv"],
                        "mismatches": [{"slot": n, "written": w, "read": h} for i, n, w, h in det],
                        "spec_location": loc_text(calls, cs), "bundle": b.idx, "case_index": key[0],
                        "files": b.files if len(json.dumps(b.files)) < 400000 else "see generator"})
        else:
            k = "cstr:%s:%s" % (key[1], "-".join(str(x) for x in b.cstr[int(key[0][1:])]["s"]) or "empty")
            what = "; ".join("%s: expected %s, got %s" % (n, w, h) for i, n, w, h in det[:4])
            chk.reject(k + (":" + only if only else ""), "C string %s %s at %s: %s" % (key[1], b.cstr[int(key[0][1:])]["s"], opt, what),
                       {"kind": key[1], "tokens": b.cstr[int(key[0][1:])], "opt": opt, "mismatches": det})
    only = "O2only" if (opt != "O0") else None
    if vfail:
        eval_variadic(chk, b, vfail, opt, only)
    if nfail:
        eval_narrow(chk, b, nfail, opt, only)
    return out


def run_drift(chk, shapes):
    """in-process drift report (never a verdict): TypeInfoAmd64.GetTypeInfo's coercion vs SysVAbi's class vector"""
    rd = chk.rd.path
    try:
        testbin = C.gotest_compile_injected("internal/cabi", {"zz_verif_c09_test.go": open(os.path.join(HARNESS, "zz_verif_c09_test.go")).read()},
                                            rd, with_llvm=True)
    except C.Undecided as e:
        chk.cov["drift"] = {"skipped": str(e)[-300:]}
        return
    cases = os.path.join(rd, "drift_cases.ndjson")
    out = os.path.join(rd, "drift_out.ndjson")
    with open(cases, "w") as f:
        for sh in shapes:
            f.write(json.dumps({"sig": sh["sig"], "shape": sh["shape"]}) + "\n")
    env = C.base_env({"VERIF_CASES": cases, "VERIF_OUT": out, "TMPDIR": chk.rd.sub("tmp")})
    r = subprocess.run([testbin, "-test.run", "TestVerifC09Classify$"], env=env, capture_output=True, text=True, timeout=900)
    if r.returncode != 0 or not os.path.exists(out):
        chk.cov["drift"] = {"skipped": (r.stdout + r.stderr)[-300:]}
        return
    by = {sh["sig"]: sh for sh in shapes}

    def cls(t):
        return "SSE" if t in ("float", "double", "<2 x float>") else "INTEGER"
    n = 0
    drift = []
    for line in open(out):
        g = json.loads(line)
        if "sig" not in g:
            continue
        sh = by[g["sig"]]
        n += 1
        cv = list(sh["cv"])
        if g.get("panic"):
            impl = ["panic"]
        elif g["kind"] == 2:
            impl = ["MEMORY"]
        elif g["kind"] == 3:
            impl = [cls(g["t1"])]
        elif g["kind"] == 4:
            impl = [cls(g["t1"]), cls(g["t2"])]
        elif g["kind"] == 0 and len(sh["flat"]) == 1:
            impl = [cls({"f32": "float", "f64": "double"}.get(sh["flat"][0]["t"], "int"))]
        else:
            impl = ["kind%d" % g["kind"]]
        if impl != cv or g.get("size", sh["size"]) != sh["size"]:
            drift.append({"shape": sh["sig"], "spec": cv, "impl": impl, "t1": g.get("t1"), "t2": g.get("t2")})
    chk.cov["drift"] = {"shapes_compared": n, "differing": len(drift), "examples": drift[:8],
                        "note": "report only: a different but ABI-equivalent coercion is legal"}
    C.log("C09 drift report: %d of %d shapes classified differently by GetTypeInfo" % (len(drift), n))


def check(chk):
    thorough = chk.tier == "thorough"
    sd = C.seed()
    rd = chk.rd.path
    chk.cov["rule"] = (
        "shapes = every struct TLC enumerates (1-4 scalar fields over i8..i64,f32,f64,ptr; 1-%d fields with one nested "
        "struct of 1-3 scalars or one array of length 1-3; seeded simulation to 12 fields/80 bytes incl. arrays of nested "
        "structs), grouped by the spec's classification state (class vector, per-eightbyte mix/padding, compound kind, "
        "nested tail padding%s); call shapes = TLC's f(pre..., S, i64, f64) with pre over {int,float}^0..8 plus saturating "
        "prefixes, keyed by (class vector, #int, #float, result kind); one case = one (shape, call shape); every case is "
        "executed as Go->C argument (arg), C->Go result (res), C->Go callback parameter (cbarg), Go callback result (cbres), and "
        "the caller's own copy after the callee overwrote its by-value parameter (keep, cbkeep); results are the struct itself "
        "or a fixed MEMORY-class struct (hidden pointer + register-class argument); plus fixed calls passing scalars of every "
        "width in registers and on the stack with alternating signs; plus the CStr strings; plus SysVVariadic's calls of "
        "variadic C functions f([S s,] int32 n, ...) (S none / <= 8 / 9-16 / > 16 bytes; 0..3 variadic arguments over "
        "int64, float64, pointer; the callee must read them in order); plus SysVNarrow's calls f([int8,] S, int8, int16, int64, "
        "uint8, uint16) with arguments truncated from run-time values and a C callee compiled -O2 (S of every class, 2-4 "
        "fields); plus CBuf's scripts, run by one cgo program (import \"C\": C.CString/C.CBytes, C writes, Go writes, "
        "C.GoString/GoStringN/GoBytes) built by llgo and, for self-validation, by the reference Go toolchain; evaluations = "
        "compared (case, direction, optimisation level) lines; distinct_nontrivial = distinct (classification state | call "
        "state) classes executed whose struct has >= 2 scalar leaves + distinct variadic (prefix, kinds) with >= 1 variadic "
        "argument + distinct (aggregate, form) of the narrow calls + distinct operation sequences (>= 2 operations) of the "
        "cgo scripts"
        % ((3, "; thorough: size + content of every 4-byte word") if thorough else (2, "")))
    # ---- layer A: cases (the four TLC runs are independent: run them side by side)
    exh = {"MaxFields": 4, "MaxCFields": 3 if thorough else 2, "NestMax": 3, "MaxBytes": 80, "Wide": "FALSE",
           "Sel": 0, "Mod": 1, "NWalk": 0, "Seed": 0}
    walk = {"MaxFields": 12, "MaxCFields": 12, "NestMax": 3, "MaxBytes": 80, "Wide": "TRUE",
            "Sel": 0, "Mod": 1, "NWalk": 400 if thorough else 40, "Seed": sd % 1000}
    C.llgo_binary()
    with ThreadPoolExecutor(max_workers=7) as ex:
        f_calls = ex.submit(run_calls, chk)
        f_shapes = ex.submit(run_shapes, chk, "exh3" if thorough else "exh2", exh, 2400 if thorough else 900)
        f_big = ex.submit(run_shapes, chk, "walk", walk, 900)
        f_cstr = ex.submit(C.tlc, SPEC, "CStr", "cstr.cfg", rd, 2, 300)
        f_cbuf = ex.submit(run_cbuf_tlc, chk, thorough)
        f_va = ex.submit(run_variadic, chk, thorough)
        f_nw = ex.submit(run_narrow, chk)
        calls, shapes, big, res = f_calls.result(), f_shapes.result(), f_big.result(), f_cstr.result()
        scripts, vcases, ncases = f_cbuf.result(), f_va.result(), f_nw.result()
    if not res.ok:
        raise C.Undecided("CStr law failed in TLC: %s" % res.violation)
    chk.add_tlc(res, "CStr")
    mem = [x for x in shapes if x["sig"] == "{i64,f64,i64}"]
    if not mem or mem[0]["cv"] != ["MEMORY"]:
        raise C.Undecided("the fixed MEMORY result shape {i64,f64,i64} was not enumerated")
    Case.MEMSHAPE = mem[0]
    cstr = sorted(res.printed, key=lambda r: (len(r["s"]), r["s"]))
    extras = not chk.known.keys
    chk.cov["seeded_extras"] = extras
    cases = select_cases(shapes, big, calls, thorough, sd, extras)
    chk.cov["shapes_enumerated"] = len(shapes)
    chk.cov["shapes_simulated"] = len(big)
    chk.cov["classification_states_coarse"] = len(set(s["coarse"] for s in shapes + big))
    chk.cov["classification_states_medium"] = len(set(s["medium"] for s in shapes + big))
    chk.cov["classification_states_fine"] = len(set(s["fine"] for s in shapes + big))
    chk.cov["class_vectors"] = sorted(set("/".join(s["cv"]) for s in shapes + big))
    chk.cov["cases_selected"] = len(cases)
    C.log("C09: %d shapes, %d simulated, %d coarse / %d fine states, %d cases" % (
        len(shapes), len(big), chk.cov["classification_states_coarse"], chk.cov["classification_states_fine"], len(cases)))
    for cs in cases[:1] + [c for c in cases if c.group == "pressure"][:40:13]:
        chk.sample({"shape": cs.sh["sig"], "pre": cs.pre, "ret": cs.ret, "spec": loc_text(calls, cs)})
    # ---- bundles
    bundles = []
    per = 90 if thorough else max(60, (len(cases) + 3) // 4)
    for i in range(0, len(cases), per):
        bundles.append(Bundle(len(bundles), cases[i:i + per], cstr=cstr if i == 0 else None,
                              variadic=vcases if i == 0 else None, narrow=ncases if i == 0 else None))
    opts = ["O0", "O2"] if thorough else ["O0"]
    if os.environ.get("VERIF_C09_OPTS"):            # development aid, e.g. VERIF_C09_OPTS=O0,O2 with the quick case set
        opts = os.environ["VERIF_C09_OPTS"].split(",")
    par = 5          # four bundles and the cgo program

    import queue
    slots = queue.Queue()
    for i in range(par):
        slots.put(i)

    def work(b):
        slot = slots.get()
        try:
            return work1(b, slot)
        finally:
            slots.put(slot)

    def crash_head(out):
        keep = [l for l in out.splitlines() if l and not l.startswith(("goroutine ", "\t", "runtime.", "created by", " "))]
        return "\n".join(keep[:14])[:1500]

    def isolate(b, slot, d):
        """the bundle does not build: find the single cases whose presence makes llgo fail (bisection)"""
        culprits = []
        rest = list(b.cases)
        n = 0

        def builds(sub):
            nonlocal n
            n += 1
            dd = os.path.join(d, "iso%d" % n)
            bb = Bundle(0, sub, cstr=None, negctl=False)
            C.write_module(dd, bb.files)
            ok, out = C.llgo_build(dd, os.path.join(dd, "prog"), opt="O0", rundir=dd, config="O0-c09s%d" % slot, extra_env=NENV)
            return ok, out
        for _ in range(3):
            ok, out = builds(rest)
            if ok:
                return culprits, rest
            sub = rest
            while len(sub) > 1:
                h = len(sub) // 2
                ok1, out1 = builds(sub[:h])
                if not ok1:
                    sub, out = sub[:h], out1
                else:
                    ok2, out2 = builds(sub[h:])
                    if ok2:
                        raise C.Undecided("llgo build failure is not attributable to one case:\n" + crash_head(out))
                    sub, out = sub[h:], out2
            culprits.append((sub[0], crash_head(out)))
            rest = [c for c in rest if c is not sub[0]]
        raise C.Undecided("more than 3 cases of one bundle make llgo fail to build; first: %s" % (culprits[0],))

    def work1(b, slot):
        d = os.path.join(rd, "b%d" % b.idx)
        C.write_module(d, b.files)
        nself = c_selfcheck(chk, b, d)
        results = {}
        culprits = []
        for opt in opts:
            exe = os.path.join(d, "prog." + opt)
            ok, out = C.llgo_build(d, exe, opt=opt, rundir=d, config="%s-c09s%d" % (opt, slot), extra_env=NENV)
            if not ok and opt == "O0":
                if not any(x in out for x in ("SIGSEGV", "panic:", "signal", "LLVM ERROR", "error:")):
                    raise C.Undecided("llgo cannot build bundle %d at O0:\n%s" % (b.idx, out[-3000:]))
                culprits, rest = isolate(b, slot, d)
                if not culprits or not rest:
                    raise C.Undecided("llgo cannot build bundle %d at O0:\n%s" % (b.idx, crash_head(out)))
                b = Bundle(b.idx, rest, cstr=b.cstr, negctl=b.negctl, variadic=b.variadic, narrow=b.narrow)
                d = os.path.join(rd, "b%dr" % b.idx)
                C.write_module(d, b.files)
                exe = os.path.join(d, "prog." + opt)
                ok, out = C.llgo_build(d, exe, opt=opt, rundir=d, config="%s-c09s%d" % (opt, slot), extra_env=NENV)
            if not ok:
                results[opt] = ("buildfail", out)
                continue
            got, crashes, done = run_bundle_exe(exe, len(b.cases))
            results[opt] = ("ran", got, crashes, done)
        return b, nself, results, culprits

    # ---- the cgo program of CBuf.tla: every script in one interpreter, built by llgo and by the reference toolchain
    cb_exp = cbuf_expect(scripts)
    cb_files = cbuf_files(scripts)

    def work_cbuf():
        slot = slots.get()
        try:
            d = os.path.join(rd, "cbuf")
            C.write_module(d, cb_files)
            res = {}
            for opt in opts:
                exe = os.path.join(d, "prog." + opt)
                ok, out = C.llgo_build(d, exe, opt=opt, rundir=d, config="%s-c09s%d" % (opt, slot))
                res[opt] = ("ran",) + run_cbuf_exe(exe, len(scripts)) if ok else ("buildfail", out)
            return res
        finally:
            slots.put(slot)

    def work_cbuf_ref():
        d = os.path.join(rd, "cbufref")
        C.write_module(d, cb_files)
        exe = os.path.join(d, "prog.ref")
        ok, out = C.go_build(d, exe, go=C.ref_go(), env=C.base_env({"CGO_ENABLED": "1", "CC": "gcc", "GOCACHE": os.path.join(C.BUILD, "gocache-c09")}))
        if not ok:
            raise C.Undecided("the reference toolchain cannot build the cgo program of CBuf:\n" + out[-2000:])
        return run_cbuf_exe(exe, len(scripts), max_restarts=1)

    C.llgo_binary()
    with ThreadPoolExecutor(max_workers=par + 1) as ex:
        f_cb = ex.submit(work_cbuf)
        f_ref = ex.submit(work_cbuf_ref)
        outs = list(ex.map(work, bundles))
        cb_res, (ref_got, ref_crashed, ref_done) = f_cb.result(), f_ref.result()
    # self-validation: the program built by the reference toolchain must make exactly the observations CBuf prescribes
    ref_bad = list(compare(cb_exp, ref_got))
    if ref_crashed or not ref_done or ref_bad:
        raise C.Undecided("CBuf.tla disagrees with the reference toolchain (cgo), the spec or the generator is wrong: crashed=%s %s"
                          % (ref_crashed[:3], [(k, n, w, h) for k, i, n, w, h in ref_bad[:3]]))
    chk.cov["cbuf_reference_lines"] = len(cb_exp)
    cb_ctl = None
    for opt in opts:
        r = cb_res[opt]
        if r[0] == "buildfail":
            if opt == "O0":
                raise C.Undecided("llgo cannot build the cgo program of CBuf at O0:\n%s" % r[1][-3000:])
            chk.cov.setdefault("skipped_configs", []).append("cbuf at %s does not build here: %s" % (opt, r[1][-300:]))
            continue
        _, cb_got, cb_crashed, cb_done = r
        if opt == "O0":
            groups, nbad = eval_cbuf(chk, scripts, cb_exp, cb_got, opt)
            chk.cov["cbuf_failing_scripts"] = nbad
            chk.cov["cbuf_hard_crashes"] = len(cb_crashed)
            # negative control: one corrupted expectation of a line that agrees must be flagged, and only that one
            base = set(k for k, *_ in compare(cb_exp, cb_got))
            good = [k for k in cb_exp if k not in base and cb_exp[k]]
            if good:
                k0 = good[len(good) // 2]
                exp2 = dict(cb_exp)
                exp2[k0] = cb_exp[k0][:-1] + [(cb_exp[k0][-1][0], cb_exp[k0][-1][1] ^ 0x20)]
                cb_ctl = set(k for k, *_ in compare(exp2, cb_got)) - base == {k0}
                if not cb_ctl:
                    raise C.Undecided("negative control (cbuf): a corrupted expectation was not flagged")
        else:
            base0 = set(k[0] for k, *_ in compare(cb_exp, cb_res["O0"][1])) if cb_res["O0"][0] == "ran" else set()
            only = {k: v for k, v in cb_exp.items() if k[0] not in base0}
            groups, nbad = eval_cbuf(chk, scripts, only, cb_got, opt)
        chk.cov["evaluations"] += len(cb_exp)
        chk.cov["traces_validated_against_impl"] += len(cb_exp)
    chk.cov["cbuf_scripts"] = len(scripts)
    chk.cov["variadic_calls"] = len(vcases)
    chk.cov["narrow_calls"] = len(ncases)
    chk.sample({"cbuf_script": cbuf_name(scripts[len(scripts) // 2]), "src": scripts[len(scripts) // 2]["src"],
                "buf": scripts[len(scripts) // 2]["buf"], "back": scripts[len(scripts) // 2]["back"]})
    chk.sample({"variadic": vname(vcases[-1]), "caller": vcases[-1]["locs"], "va_arg": vcases[-1]["reads"]})
    chk.sample({"narrow": nname(ncases[-1]), "seen": ncases[-1]["seen"]})
    nontrivial = set()
    neg_ok = False
    bundles = [o[0] for o in outs]
    for b, nself, results, culprits in outs:
        chk.cov["c_to_c_selfcheck_lines"] = chk.cov.get("c_to_c_selfcheck_lines", 0) + nself
        failed = set()
        for cs, head in culprits:
            chk.cov["evaluations"] += 1
            chk.reject("build:" + cs.name(), "llgo fails to compile a program that passes %s to/from C (the same bundle "
                       "without this case builds): %s" % (cs.name(), head),
                       {"shape": cs.sh["sig"], "pre": cs.pre, "ret": cs.ret, "layout": cs.sh["flat"], "size": cs.sh["size"],
                        "classification": cs.sh["cv"], "llgo_output": head,
                        "files": Bundle(0, [cs], negctl=False).files})
        for opt in opts:
            r = results[opt]
            if r[0] == "buildfail":
                if opt == "O0":
                    raise C.Undecided("llgo cannot build bundle %d at O0:\n%s" % (b.idx, r[1][-3000:]))
                chk.cov.setdefault("skipped_configs", []).append("bundle %d at %s does not build here: %s" % (b.idx, opt, r[1][-300:]))
                continue
            _, got, crashes, done = r
            if b.negctl:
                # end-to-end control: the C callee of case 0 also printed leaf 0 with one bit flipped
                neg = got.get((0, "neg"))
                arg0 = got.get((0, "arg"))
                if neg and arg0 and len(arg0) > len(b.cases[0].pre) and neg[0] == arg0[len(b.cases[0].pre)] ^ 1:
                    neg_ok = True
                elif arg0 and neg is not None:
                    raise C.Undecided("negative control line not different from the real one (bundle %d)" % b.idx)
            f = evaluate(chk, b, got, crashes, opt, calls, failed)
            failed |= f
            chk.cov["evaluations"] += len(b.expect)
            chk.cov["traces_validated_against_impl"] += len(b.expect)
        for cs in b.cases:
            if len(cs.sh["flat"]) >= 2:
                nontrivial.add(cs.cls)
        nontrivial |= set(("variadic", r["psig"], tuple(r["kinds"])) for r in b.variadic if r["kinds"])
        nontrivial |= set(("narrow", r["psig"], r["form"]) for r in b.narrow if r["prefix"]["shape"])
    nontrivial |= set(("cbuf", tuple(o[0] for o in r["ops"])) for r in scripts if len(r["ops"]) >= 2)
    chk.cov["distinct_nontrivial"] = len(nontrivial)
    # ---- negative control on the comparison itself: one corrupted expectation of a line that currently agrees must
    # be flagged (if no line of any bundle agrees, every case is already a violation and the control is moot)
    ctl = None
    for b, nself, results, culprits in outs:
        r0 = results.get("O0")
        if not r0 or r0[0] != "ran":
            continue
        base_keys = set(k for k, *_ in compare(b.expect, r0[1]))
        good = [k for k in b.expect if k not in base_keys and isinstance(k[0], int)]
        if good:
            k0 = good[0]
            exp2 = {k: list(v) for k, v in b.expect.items()}
            exp2[k0][-1] = (exp2[k0][-1][0], exp2[k0][-1][1] ^ (1 << 3))
            bad_keys = set(k for k, *_ in compare(exp2, r0[1]))
            ctl = (bad_keys - base_keys == {k0})
            for fam in "VN":          # the same control on one line of each added family (variadic, narrow)
                goodf = [k for k in b.expect if k not in base_keys and isinstance(k[0], str) and k[0][0] == fam and b.expect[k]]
                if goodf:
                    kf = goodf[len(goodf) // 2]
                    exp3 = dict(b.expect)
                    exp3[kf] = b.expect[kf][:-1] + [(b.expect[kf][-1][0], b.expect[kf][-1][1] ^ (1 << 7))]
                    ctl = ctl and (set(k for k, *_ in compare(exp3, r0[1])) - base_keys == {kf})
            break
    if ctl is False or (ctl is None and not chk.violations and not chk.known_hits):
        raise C.Undecided("negative control: a corrupted expectation was not flagged")
    if not neg_ok and not chk.violations and not chk.known_hits:
        raise C.Undecided("negative control: the bit-flipped echo of the C callee was not observed")
    chk.cov["negative_controls"] = {"corrupted_expectation_flagged": bool(ctl), "bit_flipped_echo_observed": neg_ok}
    if thorough or os.environ.get("VERIF_C09_DRIFT") == "1":
        run_drift(chk, shapes + big)
    chk.cov["cstr_strings"] = len(cstr)
    chk.cov["bundles"] = len(bundles)
    chk.cov["opt_levels"] = opts
    chk.assumptions += [
        "only the host ABI (x86-64 System V) is executed; the other per-architecture classifiers of internal/cabi are not reached",
        "C side compiled by the toolchain shim's clang-14 (as llgo does for LLGoFiles); gcc<->gcc and clang-14<->gcc runs of the "
        "same generated C self-validate generator and expectations on every run",
        "O2 = llgo -O2 with the reduced pass pipeline of hook H1 (plain -O2 crashes LLVM 14 here)" if thorough else "quick tier runs O0 only",
        "Go callbacks are top-level functions and, for every third case, function literals without captured variables "
        "(closures that capture variables are not passed to C)",
        "scalar arguments are compared after widening to 64 bits (sign extension is part of the value); struct fields bit for bit",
        "the location vectors printed by SysVCall select and describe cases; the verdict is the identity law alone",
        "variadic calls: fixed parameters are one aggregate and an int32; variadic arguments are int64, float64 and unsafe.Pointer "
        "(no aggregates, at most %d, so none reaches the overflow area); failures are keyed by the shortest failing argument list" % (4 if thorough else 3),
        "narrow integers: the C file of these cases alone is compiled with -O2 (LLGoFiles = \"$C09_NFLAGS: ...\"); the law - the caller "
        "extends int8/int16/uint8/uint16 arguments - is the convention clang relies on and gcc provides, not a sentence of the psABI text",
        "cgo buffers: the C buffer is never freed during a script; C writes only inside the payload (never the terminator, never out of "
        "bounds); a failing script is charged to its shortest failing prefix; whether C.CBytes of an empty slice returns a non-nil "
        "pointer is not observed, only that it does not fail",
    ]


if __name__ == "__main__":
    C.main_wrapper("C09", check)

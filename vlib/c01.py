"""C01 — compiled programs behave as the Go language specifies (core language).

spec/gomachine/GoMachine.tla  layer A: small-step abstract machine for core Go (frames, cells, closures capturing cells,
                              per-iteration loop variables, struct/array value copies, pointers, dynamic dispatch,
                              tuple assignment, labelled jumps, switch/fallthrough, every range form of the core)
binding: seeded CoreGo programs (profile "core") are interpreted by TLC (predicted output and termination),
         self-validated by the reference toolchain, and compiled by llgo at O0 and O2* (thorough: also -tags nogc);
         every case must print exactly the predicted lines and end the predicted way.
"""
from . import common as C
from . import gm


def check(chk):
    thorough = chk.tier == "thorough"
    sd = C.seed()
    configs = [("O0", ""), ("O2", "")] + ([("O0", "nogc")] if thorough else [])
    n = 2000 if thorough else 120
    judged, ncases = gm.run_cases(chk, "C01", "core", n, 40, configs, sd, "core", split_every=2)
    chk.cov["evaluations"] = judged
    chk.cov["distinct_nontrivial"] = ncases
    chk.cov["traces_validated_against_impl"] = judged
    chk.cov["rule"] = ("case = seeded CoreGo program (2-4 functions; branches, 3-clause/range loops with labelled break/continue, switch with "
                       "fallthrough, closures capturing variables incl. per-iteration loop variables, structs, embedding, methods on value and "
                       "pointer receivers, method values, interfaces with dynamic dispatch, arrays, pointers, tuple assignment, multiple results, "
                       "defer/recover); non-trivial = predicted by GoMachine and confirmed by the reference toolchain; evaluations = case x configuration")
    chk.assumptions += ["GoMachine's transcription of the Go spec and the Python lowering, self-validated against the reference toolchain on every case",
                        "plain -O2 cannot run on LLVM 14: O2 means llgo -O2 with the reduced pass pipeline O2* (DESIGN 3)",
                        "the grammar covers the listed core; generics, range-over-func, goroutines beyond go+wait, floats and strings beyond literals are outside it",
                        "package division: every second case splits its call chain between package main and package lib (types stay in main)"]


if __name__ == "__main__":
    C.main_wrapper("C01", check)

"""C07, types produced by generic code: spec/typeid/GenericLocal.tla enumerates every ordered pair of type values
producer(argument) - producers: the argument itself, an identity generic function, types L (mentions X) and M (does not)
declared inside a generic function G[X] reached directly and through a function literal nested in G, a package-level
generic type Box[X]; arguments: basic, package-level named, the local T of f, the local T of g, struct{A T} and []T over
both - with the verdict "identical", the size of the identity class and the number of classes.

Binding: ONE generated program (package main).  Every value is any((*type)(nil)) made where the argument type can be
spelled (inside f, inside g, at package level), together with a tester closure made at the same place that reports
y.(*type) and a type switch on y against *type - for L and M the tester runs inside the same instantiation of G.  main
prints, for every ordered pair, x == y, tester_y(x) (assertion, switch), reflect.TypeOf(x) == reflect.TypeOf(y), and the
number of keys / the per-value counters of a map[any]int holding all values.  The reference toolchain validates the
prescription (exit 2 on disagreement); llgo's output must equal it."""
import json
import os

from . import common as C

SPEC = os.path.join(C.VERIF, "spec", "typeid")

# binding of the spec's argument names to Go text: (scope in which it can be spelled, type expression there)
ARGS = {"int64": ("top", "int64"), "uint64": ("top", "uint64"), "N": ("top", "N"),
        "Tf": ("f", "T"), "Tg": ("g", "T"), "sTf": ("f", "struct{ A T }"), "sTg": ("g", "struct{ A T }"),
        "lTf": ("f", "[]T"), "lTg": ("g", "[]T")}
# producer -> (value expression, tester expression) over the argument's type expression %s
# (the testers of arg and Box are spelled out in place, not through generic code: they are the baseline)
INLINE = "func(y any) int { r := 0; if _, ok := y.(*%s); ok { r |= 1 }; switch y.(type) { case *%s: r |= 2 }; return r }"
PRODUCERS = {
    "arg": ("any((*%s)(nil))", INLINE),
    "H":   ("H[*%s](nil)", "func(y any) int { return HIs[*%s](y) }"),
    "GL":  ("G[%s](0, nil)", "func(y any) int { return G[%s](1, y).(int) }"),
    "GM":  ("G[%s](2, nil)", "func(y any) int { return G[%s](3, y).(int) }"),
    "CL":  ("G[%s](4, nil)", "func(y any) int { return G[%s](5, y).(int) }"),
    "CM":  ("G[%s](6, nil)", "func(y any) int { return G[%s](7, y).(int) }"),
    "Box": ("any((*Box[%s])(nil))", INLINE.replace("%s", "Box[%s]")),
}
PRELUDE = """package main

import "reflect"

type N int

type Box[X any] struct{ b X }

// identity generic function: the value's type is its type argument
func H[X any](v X) any { return v }

func HIs[X any](y any) int {
	r := 0
	if _, ok := y.(X); ok {
		r |= 1
	}
	switch y.(type) {
	case X:
		r |= 2
	}
	return r
}

// types declared inside a generic function; even modes make a value, odd modes test y against the same type;
// modes 4..7 do so inside a function literal
func G[X any](mode int, y any) any {
	type L struct{ x X }
	type M struct{ m int }
	switch mode {
	case 0:
		return (*L)(nil)
	case 1:
		r := 0
		if _, ok := y.(*L); ok {
			r |= 1
		}
		switch y.(type) {
		case *L:
			r |= 2
		}
		return r
	case 2:
		return (*M)(nil)
	case 3:
		r := 0
		if _, ok := y.(*M); ok {
			r |= 1
		}
		switch y.(type) {
		case *M:
			r |= 2
		}
		return r
	case 4:
		c := func() any { _ = mode; return (*L)(nil) }
		return c()
	case 5:
		c := func() int {
			r := 0
			if _, ok := y.(*L); ok {
				r |= 1
			}
			switch y.(type) {
			case *L:
				r |= 2
			}
			return r
		}
		return c()
	case 6:
		c := func() any { _ = mode; return (*M)(nil) }
		return c()
	case 7:
		c := func() int {
			r := 0
			if _, ok := y.(*M); ok {
				r |= 1
			}
			switch y.(type) {
			case *M:
				r |= 2
			}
			return r
		}
		return c()
	}
	return nil
}

var vs []any
var ts []func(any) int

func add(v any, t func(any) int) { vs = append(vs, v); ts = append(ts, t) }
"""
MAIN = """
func b2i(b bool) int {
	if b {
		return 1
	}
	return 0
}

func main() {
	top()
	f()
	g()
	for i, x := range vs {
		for j, y := range vs {
			println("p", i, j, b2i(x == y), ts[j](x), b2i(reflect.TypeOf(x) == reflect.TypeOf(y)))
		}
	}
	m := map[any]int{}
	for _, x := range vs {
		m[x]++
	}
	println("keys", len(m))
	for i, x := range vs {
		println("c", i, m[x])
	}
	println("DONE")
}
"""


SCOPES = ["top", "f", "g"]         # main() fills vs / ts in this order


def order(values):
    """the index order of the values in the program: by scope, then argument, then producer"""
    return sorted(values, key=lambda v: (SCOPES.index(ARGS[v[1]][0]), v[1], v[0]))


def render(values):
    """values: list of (producer, argname) in index order (see order())"""
    assert list(values) == order(values)
    scopes = {"top": [], "f": [], "g": []}
    for p, a in values:
        sc, te = ARGS[a]
        ve, xe = PRODUCERS[p]
        scopes[sc].append("\tadd(%s, %s)" % (ve % te, xe.replace("%s", te)))
    src = [PRELUDE]
    src.append("func top() {\n" + "\n".join(scopes["top"]) + "\n}\n")
    src.append("func f() {\n\ttype T int\n" + "\n".join(scopes["f"]) + "\n}\n")
    src.append("func g() {\n\ttype T string\n" + "\n".join(scopes["g"]) + "\n}\n")
    src.append(MAIN)
    return "\n".join(src)


def parse(text):
    """-> (pairs {(i,j): (eq, tester, reflect)}, keys, counters {i: n}, complete)"""
    pairs, cnt, keys, done = {}, {}, None, False
    for ln in text.splitlines():
        w = ln.split()
        try:
            if len(w) == 6 and w[0] == "p":
                pairs[(int(w[1]), int(w[2]))] = (int(w[3]), int(w[4]), int(w[5]))
            elif len(w) == 3 and w[0] == "c":
                cnt[int(w[1])] = int(w[2])
            elif len(w) == 2 and w[0] == "keys":
                keys = int(w[1])
            elif w == ["DONE"]:
                done = True
        except ValueError:
            continue
    return pairs, keys, cnt, done


def diff(expect, nkeys, classsize, got):
    """-> list of (kind, i, j, got, want); kinds: eq, assert, switch, reflect, mapkeys, mapcount, missing"""
    pairs, keys, cnt, done = got
    bad = []
    for (i, j), same in expect.items():
        g = pairs.get((i, j))
        if g is None:
            bad.append(("missing", i, j, None, same))
            continue
        s = 1 if same else 0
        if g[0] != s:
            bad.append(("eq", i, j, g[0], s))
        if (g[1] & 1) != s:
            bad.append(("assert", i, j, g[1] & 1, s))
        if (g[1] >> 1) != s:
            bad.append(("switch", i, j, g[1] >> 1, s))
        if g[2] != s:
            bad.append(("reflect", i, j, g[2], s))
    if keys != nkeys:
        bad.append(("mapkeys", -1, -1, keys, nkeys))
    for i, n in classsize.items():
        if cnt.get(i) != n:
            bad.append(("mapcount", i, i, cnt.get(i), n))
    if not done:
        bad.append(("missing", -1, -1, None, "DONE"))
    return bad


def run(chk, thorough):
    import time
    t0 = time.time()
    rd = chk.rd.path
    res = C.tlc(SPEC, "GenericLocal", "genericlocal.cfg", chk.rd.sub("gl-tlc"), workers=4, timeout=900, parse_json=False)
    if not res.ok:
        raise C.Undecided("GenericLocal.tla violates its own laws: %s" % res.violation)
    chk.add_tlc(res, "GenericLocal")
    recs = list(C.tlc_printed_iter(res))
    head = [r for r in recs if "nclasses" in r]
    cases = [r for r in recs if "same" in r]
    if len(head) != 1 or len(cases) != head[0]["nvalues"] ** 2 or len(cases) < 3000:
        raise C.Undecided("GenericLocal emitted %d header(s) and %d pairs" % (len(head), len(cases)))
    nkeys = head[0]["nclasses"]
    values = {(c["p1"], c["a1"]) for c in cases}
    unknown = [v for v in values if v[0] not in PRODUCERS or v[1] not in ARGS]
    if unknown:
        raise C.Undecided("no Go rendering for %s" % unknown[:3])
    values = order(values)
    idx = {v: i for i, v in enumerate(values)}
    expect, classsize, kinds = {}, {}, {}
    for c in cases:
        i, j = idx[(c["p1"], c["a1"])], idx[(c["p2"], c["a2"])]
        expect[(i, j)] = c["same"]
        classsize[i] = c["cls"]
        kinds[i] = (c["pk1"], c["ak1"])
    d = os.path.join(rd, "genlocal")
    C.write_module(d, {"main.go": render(values)}, modname="c07gl")
    ref = os.path.join(d, "ref.exe")
    ok, out = C.go_build(d, ref, go=C.ref_go())
    if not ok:
        raise C.Undecided("reference toolchain rejects the generic-local program (generator bug):\n" + out[-2500:])
    st, so, se = C.run_exe(ref, timeout=120, merge=True)
    refgot = parse(so)
    bad = diff(expect, nkeys, classsize, refgot)
    if bad:
        k, i, j, g, w = bad[0]
        raise C.Undecided("GenericLocal.tla disagrees with the reference toolchain on %d observations, e.g. %s of %s vs %s: ref %s spec %s"
                          % (len(bad), k, values[i] if i >= 0 else "-", values[j] if j >= 0 else "-", g, w))
    # negative control: one flipped verdict / one wrong class size / a wrong key count must each be flagged, and only they
    pi, pj = idx[("GL", "Tf")], idx[("GL", "Tg")]
    wrong = dict(expect)
    wrong[(pi, pj)] = not wrong[(pi, pj)]
    wsize = dict(classsize)
    wsize[pi] += 1
    nb = diff(wrong, nkeys + 1, wsize, refgot)
    if sorted(b[0] for b in nb) != ["assert", "eq", "mapcount", "mapkeys", "reflect", "switch"] or \
            any((b[1], b[2]) not in ((pi, pj), (pi, pi), (-1, -1)) for b in nb):
        raise C.Undecided("negative control of the generic-local comparison not flagged exactly: %s" % nb[:8])
    configs = [("O0", "")] + ([("O2", "")] if thorough else [])
    for opt, tags in configs:
        exe = os.path.join(d, "llgo-%s.exe" % opt)
        ok, out = C.llgo_build(d, exe, opt=opt, tags=tags, rundir=d)
        if not ok:
            if opt == "O0":
                raise C.Undecided("llgo cannot build the generic-local program:\n" + out[-3000:])
            continue
        st, so, se = C.run_exe(exe, timeout=120, merge=True)
        got = parse(so)
        groups = {}
        for k, i, j, g, w in diff(expect, nkeys, classsize, got):
            if k in ("mapkeys", "mapcount"):
                continue        # consequences of wrong pair verdicts; reported with them below
            if k == "missing":
                groups.setdefault("genlocal:died", []).append((k, i, j, g, w))
                continue
            a, b = sorted(["%s:%s" % kinds[i], "%s:%s" % kinds[j]])
            groups.setdefault("genlocal:%s~%s" % (a, b), []).append((k, i, j, g, w))
        mapbad = [b for b in diff({}, nkeys, classsize, (got[0], got[1], got[2], True)) if b[0] in ("mapkeys", "mapcount")]
        if mapbad and not groups:
            groups["genlocal:map"] = mapbad
        for key, items in sorted(groups.items()):
            k, i, j, g, w = items[0]
            obs = sorted({x[0] for x in items})
            prs = sorted({(x[1], x[2]) for x in items})
            chk.reject(key, "%d pairs (%s): e.g. %s of %s vs %s: llgo %s, Go %s; map[any]int keys: llgo %s, Go %s (config %s)" % (
                len(prs), "/".join(obs), k, "%s(%s)" % values[i] if i >= 0 else "-", "%s(%s)" % values[j] if j >= 0 else "-", g, w,
                got[1], nkeys, opt),
                {"config": opt, "pairs": [{"x": values[a], "y": values[b]} for a, b in prs[:12] if a >= 0],
                 "observations": [{"obs": x[0], "x": values[x[1]] if x[1] >= 0 else None, "y": values[x[2]] if x[2] >= 0 else None,
                                   "llgo": x[3], "go": x[4]} for x in items[:12]],
                 "map_keys": {"llgo": got[1], "go": nkeys}, "program": render(values)})
        chk.cov["evaluations"] += 4 * len(expect)
        chk.cov["traces_validated_against_impl"] += len(expect)
    chk.cov["genlocal_pairs"] = len(expect)
    chk.cov["genlocal_classes"] = nkeys
    chk.cov["genlocal_wall_s"] = round(time.time() - t0, 1)
    chk.cov["distinct_nontrivial"] += sum(1 for (i, j) in expect if i != j)
    chk.sample({"genlocal_pair": cases[len(cases) // 2]})

"""C02 — numeric operators and conversions are exact for every operand value.

spec/numeric/IntOps.tla     layer A: Go's integer operators on mathematical integers, parametric in (width, signedness)
spec/numeric/BV.tla         the same operators on 8-bit limb tuples (for 32/64 bit, beyond TLC's 32-bit integers)
spec/numeric/BVEquiv.tla    BV model-checked against IntOps (W=8 every operand pair, W=16 boundary sets)
spec/numeric/NumSweep8.tla  exhaustive 8-bit tables (every operand pair) from IntOps
spec/numeric/NumTable.tla   boundary-set tables for 8/16/32/64 bit: binary/unary operators, shifts with a count of any
                            integer type, conversions between all shapes; + IntAgree (W<=16) and the named laws
spec/numeric/FloatExact.tla float32/float64/complex on the exactly representable domain + specials; FloatTable.tla
binding: harness/c02/gen.py generates ONE evaluator program (every operator x operand type(s) a separate
         //go:noinline function with run-time operands, plus variants with a literal-constant operand); it is built by
         the llgo built from the working tree (O0; thorough adds O2*), fed the operands of every TLC case on stdin,
         and every printed result is compared with the result TLC computed.  The reference toolchain's build of the
         same program only self-validates the spec (disagreement => exit 2).
"""
import json
import os
import random
import struct
import sys
import time
from concurrent.futures import ThreadPoolExecutor

from . import common as C

SPEC = os.path.join(C.VERIF, "spec", "numeric")
HARNESS = os.path.join(C.VERIF, "harness", "c02")
sys.path.insert(0, HARNESS)
import gen as G  # noqa: E402  (harness/c02/gen.py: program generator + function catalogue)

WIDTHS = (8, 16, 32, 64)
SHAPES = [(8, True), (8, False), (16, True), (16, False), (32, True), (32, False), (64, True), (64, False)]  # = AllShapes
BINOPS = ["add", "sub", "mul", "quo", "rem", "and", "or", "xor", "andnot", "eq", "ne", "lt", "le", "gt", "ge"]  # = BinRow
SWEEP_OPS = BINOPS + ["neg", "not", "shl_cs", "shl_cu", "shr_cs", "shr_cu"]


# --------------------------------------------------------------------------- operand sets

def limbs(x, w):
    return [(x >> (8 * i)) & 255 for i in range(w // 8)]


def unlimbs(l):
    return sum(v << (8 * i) for i, v in enumerate(l))


def tla_limbs(x, w):
    return "<<" + ",".join(map(str, limbs(x, w))) + ">>"


def tla_seq(xs, w):
    return "<<" + ", ".join(tla_limbs(x, w) for x in xs) + ">>"


def boundary(w, rnd, nrand):
    """bit patterns: 0, +-1, +-2, min, min+1, max, max-1 of both signednesses, 2^(W/2) +- 1, alternating patterns,
    the small divisors used as literal constants, seeded randoms"""
    m = (1 << w) - 1
    h = w // 2
    top = 1 << (w - 1)
    vals = [0, 1, 2, m, m - 1, top, top + 1, top - 1, top - 2, (1 << h) - 1, 1 << h, (1 << h) + 1,
            m // 3, (m // 3) * 2, m ^ ((1 << h) - 1), m // 17, (m // 17) * 16, 3, 7, 10, m - 2, m - 9]
    out = []
    for v in vals:
        v &= m
        if v not in out:
            out.append(v)
    k = 0
    while k < nrand:
        mode = rnd.randrange(4)
        if mode == 0:
            v = rnd.getrandbits(w)
        elif mode == 1:
            v = rnd.getrandbits(h)                      # small magnitude
        elif mode == 2:
            v = m ^ rnd.getrandbits(h)                  # small negative
        else:
            v = (1 << rnd.randrange(w)) | (1 << rnd.randrange(w)) | rnd.getrandbits(3)
        v &= m
        if v not in out:
            out.append(v)
            k += 1
    return out


def count_set(cw):
    """shift counts as bit patterns of a cw-bit count type: 0, 1, W-1, W, W+1 for every operand width W, 2^k-1, 2^k,
    max, -1 (= all ones), min (= sign bit)"""
    m = (1 << cw) - 1
    vals = [0, 1]
    for w in WIDTHS:
        vals += [w - 1, w, w + 1]
    for k in (3, 4, 5, 6, 7, 8, 9, 15, 16, 17, 31, 32, 33, 62, 63):
        if k < cw:
            vals += [(1 << k) - 1, 1 << k]
    vals += [m, m - 1, 1 << (cw - 1), (1 << (cw - 1)) - 1, (1 << (cw - 1)) + 1, 100, 200]
    out = []
    for v in vals:
        if 0 <= v <= m and v not in out:
            out.append(v)
    return out


def shift_x_set(w, rnd, nrand):
    m = (1 << w) - 1
    top = 1 << (w - 1)
    vals = [1, m, top, top - 1, m // 3, (m // 3) * 2 | 1, top | 1, 0x5a & m if w == 8 else (0xa5 << (w - 8)) | 0x3c]
    for _ in range(nrand):
        vals.append(rnd.getrandbits(w))
    out = []
    for v in vals:
        v &= m
        if v not in out:
            out.append(v)
    return out


class Sets:
    def __init__(self, sd, thorough):
        rnd = random.Random(1000003 * sd + 17)
        nr = 40 if thorough else 3
        self.bin = {w: boundary(w, rnd, nr) for w in WIDTHS}
        self.conv = dict(self.bin)
        self.conv[8] = list(range(256))               # every 8-bit source value
        self.x = {w: shift_x_set(w, rnd, 6 if thorough else 2) for w in WIDTHS}
        self.c = {w: count_set(w) for w in WIDTHS}


# --------------------------------------------------------------------------- TLC tables

def write_mc(rd, name, base, defs):
    """MC module: EXTENDS base + constant definitions; returns module name"""
    with open(os.path.join(rd, name + ".tla"), "w") as f:
        f.write("---- MODULE %s ----\nEXTENDS %s\n" % (name, base))
        for k, v in defs.items():
            f.write("%s == %s\n" % (k, v))
        f.write("====\n")
    return name


def fn_by_width(d):
    return " @@ ".join("(%d :> %s)" % (w, tla_seq(d[w], w)) for w in WIDTHS)


def shapes_tla(shs):
    return "<<" + ", ".join("[w |-> %d, s |-> %s]" % (w, "TRUE" if s else "FALSE") for w, s in shs) + ">>"


def run_tlc_job(chk, job):
    """job: dict(name, module, base, defs, consts, invariants, workers, timeout); runs in its own copy of the spec dir"""
    rd = chk.rd.sub("job-" + job["name"])
    mod = write_mc(rd, "MC" + job["name"], job["base"], job["defs"])
    cfg = os.path.join(rd, job["name"] + ".cfg")
    consts = dict(job.get("consts", {}))
    with open(cfg, "w") as f:
        f.write("SPECIFICATION Spec\nCONSTANTS\n")
        for k, v in consts.items():
            f.write("  %s = %s\n" % (k, v))
        for k in job["defs"]:
            if k.startswith("c_"):
                f.write("  %s <- %s\n" % (k[2:], k))
        f.write("INVARIANTS\n  " + "\n  ".join(job["invariants"]) + "\nCHECK_DEADLOCK FALSE\n")
    for attempt in range(3):
        try:
            return C.tlc(SPEC, mod, cfg, rd, workers=job.get("workers", 4), timeout=job.get("timeout", 2400), parse_json=False,
                         copy_extra=[os.path.join(rd, mod + ".tla")],
                         java_opts=job.get("java", "-Xss64m -Xmx3g -XX:ParallelGCThreads=2"))
        except C.Undecided as e:
            # rc=143/137: the JVM was killed from outside (another check's timeout handler pkills every TLC): run it again
            if attempt < 2 and ("(rc=143)" in str(e) or "(rc=137)" in str(e)):
                C.log("TLC job %s was killed from outside, retrying" % job["name"])
                time.sleep(1 + attempt)
                continue
            raise


def job_table(shapes_by_kind, sets, name, workers=4):
    sh = {k: shapes_by_kind.get(k, []) for k in ("bin", "shift", "conv")}
    return {"name": name, "base": "NumTable", "kind": "table",
            "defs": {"c_SH": "[" + ", ".join("%s |-> %s" % (k, shapes_tla(v)) for k, v in sh.items()) + "]",
                     "c_Sets": fn_by_width(sets.bin), "c_VSets": fn_by_width(sets.conv), "c_XSets": fn_by_width(sets.x), "c_CSets": fn_by_width(sets.c)},
            "invariants": ["Emit", "IntAgree", "Laws"], "workers": workers}


def job_sweep(ops, name="sweep8", workers=6):
    return {"name": name, "base": "NumSweep8", "kind": "sweep",
            "defs": {"c_Ops": "{" + ", ".join('"%s"' % o for o in ops) + "}"},
            "invariants": ["Emit", "Named"], "workers": workers}


def job_equiv(w, vs, cs8, cs16, name, workers=6):
    q = lambda l: "<<" + ", ".join(map(str, l)) + ">>"
    return {"name": name, "base": "BVEquiv", "kind": "equiv",
            "defs": {"c_VS": q(vs), "c_CS8": q(cs8), "c_CS16": q(cs16)}, "consts": {"W": str(w)},
            "invariants": ["Arith", "DivRem", "Bits", "Cmp", "Shifts", "Convs", "RoundTrip"], "workers": workers}


def job_lower(cmp_first, sets, name):
    q = lambda l: "{" + ", ".join(map(str, l)) + "}"
    return {"name": name, "base": "LowerImpl", "kind": "lower",
            "defs": {"c_XS": "(8 :> 0..255) @@ (16 :> %s)" % q(sets.bin[16]),
                     "c_CSet": "(8 :> %s) @@ (16 :> %s)" % (q(count_set(8)), q(count_set(16)))},
            "consts": {"CmpFirst": "TRUE" if cmp_first else "FALSE"}, "invariants": ["ShiftRefines", "DivRefines"], "workers": 4}


# --------------------------------------------------------------------------- expected tables (parsed TLC output)

def tl(x):
    """a printed result: limb list -> int pattern, "panic" stays, bool -> 0/1"""
    if isinstance(x, list):
        return unlimbs(x)
    if isinstance(x, bool):
        return int(x)
    return x


class Expected:
    def __init__(self):
        self.bin = {}     # (w, s) -> {(a, b): tuple of 15}
        self.un = {}      # (w, s) -> {a: (neg, not)}
        self.shift = {}   # (w, s) -> {a: {(cshape index, count pattern): (shl, shr)}}
        self.conv = {}    # (w, s) -> {a: [pattern per target shape]}
        self.sweep = {}   # (s, a) -> {op: [256 results, -1 = panic]}
        self.rows = 0

    def load_table(self, res, sets):
        for rec in C.tlc_printed_iter(res):
            sh = (rec["w"], rec["s"])
            a = unlimbs(rec["a"])
            if rec["k"] == "bin":
                bs = sets.bin[sh[0]]
                if len(rec["rows"]) != len(bs):
                    raise C.Undecided("NumTable printed %d rows for %d right operands" % (len(rec["rows"]), len(bs)))
                d = self.bin.setdefault(sh, {})
                for b, row in zip(bs, rec["rows"]):
                    d[(a, b)] = tuple(tl(v) for v in row)
                    self.rows += len(row)
                self.un.setdefault(sh, {})[a] = (unlimbs(rec["neg"]), unlimbs(rec["not"]))
                self.rows += 2
            elif rec["k"] == "shift":
                d = self.shift.setdefault(sh, {}).setdefault(a, {})
                for ci, rows in enumerate(rec["rows"]):
                    cs = sets.c[SHAPES[ci][0]]
                    if len(rows) != len(cs):
                        raise C.Undecided("NumTable printed %d shift rows for %d counts" % (len(rows), len(cs)))
                    for c, row in zip(cs, rows):
                        d[(ci, c)] = (tl(row[0]), tl(row[1]))
                        self.rows += 2
            elif rec["k"] == "conv":
                self.conv.setdefault(sh, {})[a] = [unlimbs(v) for v in rec["rows"]]
                self.rows += len(rec["rows"])

    def load_sweep(self, res):
        for rec in C.tlc_printed_iter(res):
            self.sweep[(rec["s"], rec["a"])] = rec["v"]
            self.rows += sum(len(v) for v in rec["v"].values())


def shape_of(tn):
    t = G.TY[tn]
    return (t[2], t[3])


def mask(w):
    return (1 << w) - 1


def build_int_cases(fs, exp, sets, rnd, thorough):
    """every TLC row is replayed into every function of the matching shape.
    returns list of (fid, operands tuple, expected, result width)   expected: int | "panic" """
    cases = []
    bidx = {op: i for i, op in enumerate(BINOPS)}
    for f in fs:
        k = f["kind"]
        if k == "bin":
            sh = shape_of(f["t"])
            w = 1 if f.get("boolres") else sh[0]
            tab = exp.bin[sh]
            i = bidx[f["op"]]
            if f["var"] == "rt":
                for (a, b), row in tab.items():
                    cases.append((f["id"], (a, b), row[i], w))
            elif f["var"] == "kr":
                for a in sets.bin[sh[0]]:
                    cases.append((f["id"], (a, 0), tab[(a, f["k"])][i], w))
            else:
                for b in sets.bin[sh[0]]:
                    cases.append((f["id"], (0, b), tab[(f["k"], b)][i], w))
        elif k == "un":
            sh = shape_of(f["t"])
            for a, (ng, nt) in exp.un[sh].items():
                cases.append((f["id"], (a, 0), ng if f["op"] == "neg" else nt, sh[0]))
        elif k == "shift":
            sh = shape_of(f["t"])
            ci = SHAPES.index(shape_of(f["u"]))
            i = 0 if f["op"] == "shl" else 1
            tab = exp.shift[sh]
            if f["var"] == "rt":
                for a, d in tab.items():
                    for c in sets.c[SHAPES[ci][0]]:
                        cases.append((f["id"], (a, c), d[(ci, c)][i], sh[0]))
            elif f["var"] == "kr":
                for a, d in tab.items():
                    cases.append((f["id"], (a, 0), d[(ci, f["k"])][i], sh[0]))
            else:
                for c in sets.c[SHAPES[ci][0]]:
                    cases.append((f["id"], (0, c), tab[f["k"]][(ci, c)][i], sh[0]))
        elif k == "conv":
            sh = shape_of(f["t"])
            ti = SHAPES.index(shape_of(f["u"]))
            if f["var"] == "kl":
                cases.append((f["id"], (0, 0), exp.conv[sh][f["k"]][ti], SHAPES[ti][0]))
                continue
            for a, row in exp.conv[sh].items():
                cases.append((f["id"], (a, 0), row[ti], SHAPES[ti][0]))
        elif k == "lnot":
            cases.append((f["id"], (0, 0), 1, 1))
            cases.append((f["id"], (1, 0), 0, 1))
    return cases


def sweep_plan(fs, ops):
    """(fid, signedness of T, TLC op name) for the 8-bit run-time functions covered by the sweep"""
    plan = []
    for f in fs:
        if f["var"] != "rt" or f["t"] not in ("i8", "u8"):
            continue
        s = G.TY[f["t"]][3]
        if f["kind"] in ("bin", "un") and f["op"] in ops:
            plan.append((f["id"], s, f["op"]))
        elif f["kind"] == "shift" and f["u"] in ("i8", "u8"):
            op = "%s_c%s" % (f["op"], "s" if G.TY[f["u"]][3] else "u")
            if op in ops:
                plan.append((f["id"], s, op))
    return plan


# --------------------------------------------------------------------------- running the evaluator

def fmt_case(fid, ops):
    return "%d %s\n" % (fid, " ".join("%x" % o for o in ops))


def run_lines(exe, lines, fids, timeout=900):
    """feeds the case lines; returns one output per line: the printed line, "crash:<status>" for a case that killed the
    process, None for cases not run (the remaining cases of a function that crashed the process are skipped)"""
    n = len(lines)
    results = [None] * n
    todo = list(range(n))
    crashed_fids = set()
    first = True
    while todo:
        text = ("" if first else "M 1\n") + "".join(lines[i] for i in todo)
        st, so, _ = C.run_exe(exe, stdin=text.encode(), timeout=timeout, merge=True)
        outl = so.split("\n")
        if st == 0 and len(outl) >= 2 and outl[-2] == "END" and len(outl) - 2 == len(todo):
            for i, l in zip(todo, outl):
                results[i] = l
            break
        if first:
            first = False          # run again flushing every line, to locate the case that kills the process
            if st == 0:
                raise C.Undecided("evaluator printed %d lines for %d cases (status 0): %s" % (len(outl) - 2, len(todo), so[-300:]))
            continue
        # line-flush mode: every completed case has its line; the next case killed the process
        good = []
        for l in outl:
            if l == "panic" or (l != "" and all(ch in "0123456789abcdef " for ch in l)):
                good.append(l)
            else:
                break
        good = good[:len(todo)]
        for i, l in zip(todo, good):
            results[i] = l
        rest = todo[len(good):]
        if rest:
            results[rest[0]] = "crash:%s" % st
            crashed_fids.add(fids[rest[0]])
            rest = [i for i in rest[1:] if fids[i] not in crashed_fids]
        todo = rest
        if len(crashed_fids) >= 200:
            break
    return results


def run_cases(exe, cases, par=8):
    n = len(cases)
    if n == 0:
        return []
    step = max(1, (n + par - 1) // par)
    chunks = [(i, min(n, i + step)) for i in range(0, n, step)]

    def one(r):
        lo, hi = r
        return run_lines(exe, [fmt_case(c[0], c[1]) for c in cases[lo:hi]], [c[0] for c in cases[lo:hi]])
    with ThreadPoolExecutor(max_workers=par) as ex:
        parts = list(ex.map(one, chunks))
    return [x for p in parts for x in p]


def run_sweeps(exe, plan, par=8):
    """returns {fid: list of 256 lists of 256 results (-1 panic)} or "crash:.." """
    def one(item):
        fid = item[0]
        st, so, _ = C.run_exe(exe, stdin=("X %d\n" % fid).encode(), timeout=300, merge=True)
        rows = so.split("\n")
        if st != 0 or len(rows) < 257 or rows[256] != "END":
            return fid, "crash:%s after %d rows" % (st, max(0, len(rows) - 1))
        m = []
        for r in rows[:256]:
            if len(r) != 512:
                return fid, "crash:malformed row"
            m.append([-1 if r[2 * j] == "p" else int(r[2 * j:2 * j + 2], 16) for j in range(256)])
        return fid, m
    with ThreadPoolExecutor(max_workers=par) as ex:
        return dict(ex.map(one, plan))


def judge(expected, got, w):
    """expected: int | "panic";  got: output line"""
    if got is None:
        return None
    if got.startswith("crash"):
        return False
    if expected == "panic":
        return got == "panic"
    if got == "panic":
        return False
    try:
        return (int(got.split()[0], 16) & mask(w)) == (expected & mask(w))
    except ValueError:
        return False


# --------------------------------------------------------------------------- floats

F_SPECIALS = [(2, 0, 0), (3, 0, 0), (4, 0, 0), (5, 0, 0), (6, 0, 0)]   # +0 -0 +Inf -Inf NaN   (code, m, e)


def float_domain(sd, thorough):
    rnd = random.Random(7919 * sd + 3)
    ms = [1, 3, 5, 7, 255, 4095] + ([15, 1023, 2047] if thorough else [])
    while True:
        r = rnd.randrange(9, 4095) | 1
        if r not in ms:
            ms.append(r)
            break
    es = [-3, -2, -1, 0, 1, 2, 3, 8] if thorough else [-3, -1, 0, 1, 2, 8]
    fs = list(F_SPECIALS)
    for neg in (0, 1):
        for m in ms:
            for e in es:
                fs.append((neg, m, e))
    if thorough:
        cfs = [(2, 0, 0), (3, 0, 0)] + [(neg, m, e) for neg in (0, 1) for m in (1, 3, 5) for e in (0, 1)]
    else:
        cfs = [(2, 0, 0), (3, 0, 0), (0, 1, 0), (1, 1, 0), (0, 3, 1), (1, 3, 0), (0, 1, -1), (1, 5, 2)]
    cspecial = [(4, 0, 0), (6, 0, 0)]
    ints = [0, 1, -1, 2, -2, 3, 7, -7, 100, 127, 128, -128, -129, 255, 256, 32767, 32768, -32768, -32769, 65535, 65536,
            (1 << 24) - 1, 1 << 24, (1 << 24) + 1, -((1 << 24) + 1), (1 << 24) + 2, 1 << 30, (1 << 30) + 1, (1 << 31) - 1,
            -((1 << 31) - 1), 12345678, -87654321]
    return fs, cfs + cspecial, ints


def tla_float(t):
    code, m, e = t
    kind = {0: "fin", 1: "fin", 2: "zero", 3: "zero", 4: "inf", 5: "inf", 6: "nan"}[code]
    neg = code in (1, 3, 5)
    return '[k |-> "%s", neg |-> %s, m |-> %d, e |-> %d]' % (kind, "TRUE" if neg else "FALSE", m, e)


def job_float(kinds, fdom, name, workers=4):
    fs, cfs, ints = fdom
    return {"name": name, "base": "FloatTable", "kind": "float",
            "defs": {"c_FS": "<<" + ", ".join(map(tla_float, fs)) + ">>", "c_CFS": "<<" + ", ".join(map(tla_float, cfs)) + ">>",
                     "c_IS": "<<" + ", ".join(map(str, ints)) + ">>", "c_Kinds": "{" + ", ".join('"%s"' % k for k in kinds) + "}"},
            "invariants": ["Emit", "Laws"], "workers": workers}


def fbits(t, w):
    """IEEE bit pattern of a domain value (exact by construction)"""
    code, m, e = t
    fmt, ifmt = ("<f", "<I") if w == 32 else ("<d", "<Q")
    if code in (0, 1):
        v = float(m) * (2.0 ** e)
        if code == 1:
            v = -v
        b = struct.unpack(ifmt, struct.pack(fmt, v))[0]
        if struct.unpack(fmt, struct.pack(ifmt, b))[0] != v:
            raise C.Undecided("domain value %s is not exactly representable in float%d" % (t, w))
        return b
    top = 1 << (w - 1)
    if code == 2:
        return 0
    if code == 3:
        return top
    expo = (0xff << 23) if w == 32 else (0x7ff << 52)
    if code == 4:
        return expo
    if code == 5:
        return expo | top
    return expo | (1 << (22 if w == 32 else 51))


def fdecode(b, w):
    """bit pattern -> canonical (code, m, e)"""
    mb = 23 if w == 32 else 52
    eb = 8 if w == 32 else 11
    b &= mask(w)
    neg = b >> (w - 1)
    ex = (b >> mb) & ((1 << eb) - 1)
    mant = b & ((1 << mb) - 1)
    if ex == (1 << eb) - 1:
        return (6, 0, 0) if mant else (4 + neg, 0, 0)
    if ex == 0 and mant == 0:
        return (2 + neg, 0, 0)
    bias = (1 << (eb - 1)) - 1
    if ex == 0:
        m, e = mant, 1 - bias - mb
    else:
        m, e = mant | (1 << mb), ex - bias - mb
    while m % 2 == 0:
        m //= 2
        e += 1
    return (neg, m, e)


class FloatExpected:
    def __init__(self):
        self.f = {}      # a index (1-based) -> record
        self.c = {}
        self.i = {}
        self.rows = 0

    def load(self, res):
        for rec in C.tlc_printed_iter(res):
            if rec["k"] == "float":
                self.f[rec["i"]] = rec
                self.rows += len(rec["rows"]) * 14 + 11
            elif rec["k"] == "complex":
                self.c[rec["i"]] = rec
                self.rows += len(rec["rows"]) * 10 + 1
            else:
                self.i[rec["i"]] = rec
                self.rows += 2


def build_float_cases(fs, fexp, fdom):
    """returns list of (fid, operands, expected, spec)  expected: ("f", w, (code,m,e)) | ("c", w, t1, t2, zero-sign-free)
    | ("b", 0/1) | ("i", w, value)"""
    FS, CFS, IS = fdom
    cases = []
    skipped = 0
    arith = {"add": 0, "sub": 1, "mul": 2, "quo": 3}
    cmpi = {"eq": 8, "ne": 9, "lt": 10, "le": 11, "gt": 12, "ge": 13}
    fw = {"f32": 32, "f64": 64, "c64": 32, "c128": 64}
    for f in fs:
        k = f["kind"]
        if k in ("fbin", "fcmp"):
            w = fw[f["t"]]
            for i, a in enumerate(FS, 1):
                rows = fexp.f[i]["rows"]
                for j, b in enumerate(FS, 1):
                    ops = (fbits(a, w), fbits(b, w))
                    if k == "fbin":
                        r = tuple(rows[j - 1][arith[f["op"]] + (0 if w == 32 else 4)])
                        if r[0] == 7:
                            skipped += 1
                            continue
                        cases.append((f["id"], ops, ("f", w, r)))
                    else:
                        cases.append((f["id"], ops, ("b", int(rows[j - 1][cmpi[f["op"]]]))))
        elif k == "fun":
            w = fw[f["t"]]
            for i, a in enumerate(FS, 1):
                cases.append((f["id"], (fbits(a, w), 0), ("f", w, tuple(fexp.f[i]["neg"]))))
        elif k == "fconv":
            w, w2 = fw[f["t"]], fw[f["u"]]
            for i, a in enumerate(FS, 1):
                r = tuple(fexp.f[i]["c24" if w2 == 32 else "c53"])
                if r[0] == 7:
                    skipped += 1
                    continue
                cases.append((f["id"], (fbits(a, w), 0), ("f", w2, r)))
        elif k == "f2i":
            w = fw[f["t"]]
            ti = SHAPES.index(shape_of(f["u"]))
            for i, a in enumerate(FS, 1):
                v = fexp.f[i]["ints"][ti]
                if v == "none":
                    skipped += 1
                    continue
                cases.append((f["id"], (fbits(a, w), 0), ("i", SHAPES[ti][0], v)))
        elif k == "i2f":
            w = fw[f["u"]]
            tw, ts = shape_of(f["t"])
            for i, v in enumerate(IS, 1):
                lo, hi = (-(1 << (tw - 1)), (1 << (tw - 1)) - 1) if ts else (0, (1 << tw) - 1)
                if not lo <= v <= hi:
                    continue
                r = tuple(fexp.i[i]["f24" if w == 32 else "f53"])
                if r[0] == 7:
                    skipped += 1
                    continue
                cases.append((f["id"], (v & mask(64), 0), ("f", w, r)))
        elif k in ("cbin", "ccmp", "cun", "cconv"):
            w = fw[f["t"]]
            n = len(CFS)
            for i in range(1, n * n + 1):
                a = (CFS[(i - 1) // n], CFS[(i - 1) % n])
                rec = fexp.c[i]
                if k == "cun":
                    r = rec["neg"]
                    cases.append((f["id"], (fbits(a[0], w), fbits(a[1], w), 0, 0), ("c", w, tuple(r[0]), tuple(r[1]), False)))
                    continue
                if k == "cconv":
                    w2 = fw[f["u"]]
                    cases.append((f["id"], (fbits(a[0], w), fbits(a[1], w), 0, 0), ("c", w2, a[0], a[1], False)))
                    continue
                for j in range(1, n * n + 1):
                    b = (CFS[(j - 1) // n], CFS[(j - 1) % n])
                    ops = (fbits(a[0], w), fbits(a[1], w), fbits(b[0], w), fbits(b[1], w))
                    row = rec["rows"][j - 1]
                    if k == "ccmp":
                        cases.append((f["id"], ops, ("b", int(row[8 if f["op"] == "eq" else 9]))))
                    else:
                        r = row[arith[f["op"]] + (0 if w == 32 else 4)]
                        if r[0][0] == 7 or r[1][0] == 7:
                            skipped += 1
                            continue
                        cases.append((f["id"], ops, ("c", w, tuple(r[0]), tuple(r[1]), f["op"] in ("mul", "quo"))))
    return cases, skipped


def same_float(want, got, zero_sign_free=False):
    if want[0] == 6:
        return got[0] == 6
    if zero_sign_free and want[0] in (2, 3):
        return got[0] in (2, 3)
    return tuple(want) == tuple(got)


def judge_float(expected, got):
    if got is None:
        return None
    if got.startswith("crash") or got == "panic":
        return False
    try:
        vals = [int(x, 16) for x in got.split()]
    except ValueError:
        return False
    kind = expected[0]
    if kind == "b":
        return (vals[0] & 1) == expected[1] and vals[0] in (0, 1)
    if kind == "i":
        return (vals[0] & mask(expected[1])) == (expected[2] & mask(expected[1]))
    if kind == "f":
        return same_float(expected[2], fdecode(vals[0], expected[1]))
    if kind == "c":
        if len(vals) != 2:
            return False
        return same_float(expected[2], fdecode(vals[0], expected[1]), expected[4]) and \
            same_float(expected[3], fdecode(vals[1], expected[1]), expected[4])
    return False


# --------------------------------------------------------------------------- classification for the evidence

def nontrivial(f, ops, expected):
    """is this a case at which a wrong lowering would show (measured for the evidence, never used to judge)"""
    if expected == "panic":
        return True
    k = f["kind"]
    if k == "bin":
        w, s = shape_of(f["t"])
        a = f["k"] if f["var"] == "kl" else ops[0]
        b = f["k"] if f["var"] == "kr" else ops[1]
        va, vb = G.sval(a, w, s), G.sval(b, w, s)
        op = f["op"]
        if op in ("add", "sub", "mul"):
            t = va + vb if op == "add" else va - vb if op == "sub" else va * vb
            lo, hi = (-(1 << (w - 1)), (1 << (w - 1)) - 1) if s else (0, (1 << w) - 1)
            return not lo <= t <= hi
        if op in ("quo", "rem"):
            return va < 0 or vb < 0 or vb == 1
        if op in ("lt", "le", "gt", "ge"):
            return (a >> (w - 1)) != (b >> (w - 1)) or a == b
        return False
    if k == "un":
        w, s = shape_of(f["t"])
        return f["op"] == "neg" and ops[0] in (0, 1 << (w - 1))
    if k == "shift":
        w, s = shape_of(f["t"])
        c = f["k"] if f["var"] == "kr" else ops[1]
        return c >= w - 1
    if k == "conv":
        w, s = shape_of(f["t"])
        w2, s2 = shape_of(f["u"])
        if f["var"] == "kl":
            return True
        return G.sval(ops[0], w, s) != G.sval(expected & mask(w2), w2, s2) or (w2 > w and s and ops[0] >> (w - 1) == 1)
    return False


def nontrivial_float(f, ops, expected):
    kind = expected[0]
    if kind == "f":
        return expected[2][0] >= 2
    if kind == "c":
        return expected[2][0] >= 2 or expected[3][0] >= 2
    if kind == "i":
        return True
    w = 32 if f["t"] in ("f32", "c64") else 64
    return any(fdecode(o, w)[0] >= 2 for o in ops[:2])


# --------------------------------------------------------------------------- the check

def sem_key(f, ops):
    return (f["kind"], f["op"], shape_of(f["t"]) if f["t"] in G.TY else f["t"],
            shape_of(f["u"]) if f.get("u") in G.TY else f.get("u"),
            f.get("k") if f["var"] == "kl" else ops[0], f.get("k") if f["var"] == "kr" else (ops[1] if len(ops) > 1 else 0),
            tuple(ops[2:]))


def describe(f, ops, expected, got):
    return "%s  [%s]  operands %s: spec says %s, compiled code printed %r" % (
        f["name"], f["src"], " ".join("0x%x" % o for o in ops), expected if not isinstance(expected, int) else "0x%x" % expected, got)


def check(chk):
    thorough = chk.tier == "thorough"
    sd = C.seed()
    rnd = random.Random(sd)
    rd = chk.rd.path
    fs = G.catalogue()
    moddir = chk.rd.sub("evaluator")
    for name, content in G.render(fs).items():
        pth = os.path.join(moddir, name)
        os.makedirs(os.path.dirname(pth), exist_ok=True)
        with open(pth, "w") as fh:
            fh.write(content)

    # ---- builds run in the background while TLC computes the tables
    C.llgo_binary()
    configs = ["O0"] + (["O2"] if thorough else [])
    pool = ThreadPoolExecutor(max_workers=8)
    builds = {cfg: pool.submit(C.llgo_build, moddir, os.path.join(rd, "eval." + cfg), cfg, "", rd) for cfg in configs}
    refexe = os.path.join(rd, "eval.ref")
    refbuild = pool.submit(C.go_build, moddir, refexe)

    # ---- TLC: layer A tables + BV justification
    sets = Sets(sd, thorough)
    fdom = float_domain(sd, thorough)
    sweep_ops = list(SWEEP_OPS) if thorough else sorted(rnd.sample(SWEEP_OPS, 6))
    if thorough:
        eq8 = list(range(256))
    else:
        eq8 = sorted(set(rnd.sample(range(256), 20) + [0, 1, 127, 128, 129, 255]))
    cs16 = sorted(set(c for c in count_set(16)))
    cs8 = list(range(256)) if thorough else count_set(8)
    wk = 6 if thorough else 4
    if thorough:
        jobs = [job_sweep(sweep_ops, workers=8),
                job_table({"bin": [(64, True)]}, sets, "bin64s", workers=6), job_table({"bin": [(64, False)]}, sets, "bin64u", workers=6),
                job_table({"bin": [(32, True), (32, False)]}, sets, "bin32", workers=6),
                job_table({"bin": [sh for sh in SHAPES if sh[0] < 32]}, sets, "bin8to16", workers=6),
                job_table({"shift": SHAPES}, sets, "shift", workers=6), job_table({"conv": SHAPES}, sets, "conv", workers=4),
                job_float(["float", "int"], fdom, "float", workers=6), job_float(["complex"], fdom, "complex", workers=6),
                job_equiv(8, eq8, cs8, cs16, "equiv8", workers=8),
                job_equiv(16, sets.bin[16], count_set(8), cs16, "equiv16", workers=6),
                job_lower(True, sets, "lowerCmpFirst"), job_lower(False, sets, "lowerCmpAfter")]
    else:
        jobs = [job_sweep(sweep_ops, workers=6),
                job_table({"bin": [sh for sh in SHAPES if sh[0] == 64]}, sets, "bin64", workers=6),
                job_table({"bin": [sh for sh in SHAPES if sh[0] < 64], "shift": SHAPES, "conv": SHAPES}, sets, "tables", workers=6),
                job_float(["float", "complex", "int"], fdom, "float", workers=4),
                job_equiv(8, eq8, cs8, cs16, "equiv8", workers=4),
                job_equiv(16, sets.bin[16], count_set(8), cs16, "equiv16", workers=4)]
    t0 = time.time()
    futs = [(j, pool.submit(run_tlc_job, chk, j)) for j in jobs]
    exp = Expected()
    fexp = FloatExpected()
    for j, fu in futs:
        res = fu.result()
        chk.add_tlc(res, j["base"] + "/" + j["name"])
        if j["kind"] == "lower":
            # layer B never judges: report whether the modelled lowering refines the spec
            chk.cov.setdefault("impl_model", []).append({"cfg": j["name"], "refines_IntOps": res.ok, "violation": res.violation})
            continue
        if not res.ok:
            raise C.Undecided("%s/%s: the specification's own cross-checks failed in TLC (spec defect, nothing was judged): %s\n%s"
                              % (j["base"], j["name"], res.violation, res.out[-1500:]))
        if j["kind"] == "sweep":
            exp.load_sweep(res)
        elif j["kind"] == "table":
            exp.load_table(res, sets)
        elif j["kind"] == "float":
            fexp.load(res)
    C.log("TLC tables: %d expected results in %.1fs" % (exp.rows + fexp.rows, time.time() - t0))
    if len(exp.sweep) != 512:
        raise C.Undecided("NumSweep8 printed %d of 512 (signedness, a) vectors" % len(exp.sweep))
    for sh in SHAPES:
        if len(exp.bin.get(sh, {})) != len(sets.bin[sh[0]]) ** 2 or len(exp.conv.get(sh, {})) != len(sets.conv[sh[0]]) \
                or len(exp.shift.get(sh, {})) != len(sets.x[sh[0]]):
            raise C.Undecided("NumTable output incomplete for shape %s" % (sh,))
    if len(fexp.f) != len(fdom[0]) or len(fexp.c) != len(fdom[1]) ** 2 or len(fexp.i) != len(fdom[2]):
        raise C.Undecided("FloatTable output incomplete")

    # ---- cases
    byid = {f["id"]: f for f in fs}
    icases = build_int_cases(fs, exp, sets, rnd, thorough)
    fcases, fskipped = build_float_cases(fs, fexp, fdom)
    plan = sweep_plan(fs, set(sweep_ops))
    # negative control: one real case with a deliberately wrong expectation
    neg_src = next(c for c in icases if isinstance(c[2], int) and byid[c[0]]["op"] == "add")
    neg_case = (neg_src[0], neg_src[1], (neg_src[2] + 1) & mask(neg_src[3]), neg_src[3])
    fneg_src = next(c for c in fcases if c[2][0] == "f" and c[2][2][0] == 0)
    fneg_case = (fneg_src[0], fneg_src[1], ("f", fneg_src[2][1], (1,) + tuple(fneg_src[2][2][1:])))
    icases.append(neg_case)
    fcases.append(fneg_case)
    allcases = [(c[0], c[1]) for c in icases] + [(c[0], c[1]) for c in fcases]
    chk.cov["functions_in_evaluator"] = len(fs)
    chk.cov["float_cases_outside_spec_skipped"] = fskipped

    # ---- reference toolchain: self-validation of the specification only
    ok, out = refbuild.result()
    if not ok:
        raise C.Undecided("reference toolchain cannot build the evaluator:\n" + out[-2000:])
    t0 = time.time()
    reffut = pool.submit(lambda: (run_cases(refexe, allcases, par=6), run_sweeps(refexe, plan, par=4)))
    # the llgo-built evaluator of the first configuration runs concurrently with the reference
    ok0, out0 = builds[configs[0]].result()
    first = pool.submit(lambda: (run_cases(os.path.join(rd, "eval." + configs[0]), allcases, par=6),
                                 run_sweeps(os.path.join(rd, "eval." + configs[0]), plan, par=4))) if ok0 else None
    refout, refsw = reffut.result()
    bad = []
    for idx, c in enumerate(icases[:-1]):
        if judge(c[2], refout[idx], c[3]) is not True:
            bad.append(describe(byid[c[0]], c[1], c[2], refout[idx]))
    off = len(icases)
    for idx, c in enumerate(fcases[:-1]):
        if judge_float(c[2], refout[off + idx]) is not True:
            bad.append(describe(byid[c[0]], c[1], c[2], refout[off + idx]))
    for fid, s, op in plan:
        m = refsw[fid]
        if isinstance(m, str):
            bad.append("%s sweep: %s" % (byid[fid]["name"], m))
            continue
        for a in range(256):
            if m[a] != exp.sweep[(s, a)][op]:
                bad.append("%s sweep a=%d: spec %s reference %s" % (byid[fid]["name"], a, exp.sweep[(s, a)][op][:8], m[a][:8]))
                break
    C.log("reference run: %d cases + %d sweeps in %.1fs" % (len(allcases), len(plan), time.time() - t0))
    if bad:
        raise C.Undecided("the specification disagrees with the reference toolchain on %d cases (spec defect, nothing judged):\n%s"
                          % (len(bad), "\n".join(bad[:10])))

    # ---- the real thing: llgo-compiled evaluator, per configuration
    total = 0
    semkeys = set()
    nontriv = set()
    for cfg in configs:
        ok, out = builds[cfg].result()
        exe = os.path.join(rd, "eval." + cfg)
        if not ok:
            if cfg != "O0":
                chk.cov.setdefault("skipped_configs", []).append("%s: evaluator does not build here (%s)" % (cfg, out[-300:]))
                continue
            raise C.Undecided("llgo cannot build the evaluator:\n" + out[-3000:])
        t0 = time.time()
        if cfg == configs[0] and first is not None:
            got, gsw = first.result()
        else:
            got, gsw = run_cases(exe, allcases, par=8), run_sweeps(exe, plan, par=8)
        C.log("%s run: %d cases + %d sweeps done (%.1fs after the previous step)" % (cfg, len(allcases), len(plan), time.time() - t0))
        failing = {}     # function name -> (count, first description, replay)
        undecided = 0

        def fail(f, ops, expected, g):
            e = failing.setdefault(f["name"], [0, describe(f, ops, expected, g),
                                               {"config": cfg, "function": f["name"], "source": f["src"], "kind": f["kind"], "variant": f["var"],
                                                "operands_hex": ["%x" % o for o in ops], "spec_result": expected, "compiled_result": g,
                                                "stdin_line": fmt_case(f["id"], ops).strip(), "more": []}])
            e[0] += 1
            if 1 < e[0] <= 8:
                e[2]["more"].append({"operands_hex": ["%x" % o for o in ops], "spec_result": expected, "compiled_result": g})

        for idx, c in enumerate(icases):
            v = judge(c[2], got[idx], c[3])
            isneg = idx == len(icases) - 1
            if isneg:
                if v is not False:
                    raise C.Undecided("negative control (integer) not flagged: the comparison compares nothing")
                continue
            if v is None:
                undecided += 1
            elif not v:
                fail(byid[c[0]], c[1], c[2], got[idx])
            if cfg == "O0":
                sk = sem_key(byid[c[0]], c[1])
                semkeys.add(sk)
                if nontrivial(byid[c[0]], c[1], c[2]):
                    nontriv.add(sk)
        for idx, c in enumerate(fcases):
            g = got[off + idx]
            v = judge_float(c[2], g)
            if idx == len(fcases) - 1:
                if v is not False:
                    raise C.Undecided("negative control (float) not flagged: the comparison compares nothing")
                continue
            if v is None:
                undecided += 1
            elif not v:
                fail(byid[c[0]], c[1], list(c[2]), g)
            if cfg == "O0":
                sk = sem_key(byid[c[0]], c[1])
                semkeys.add(sk)
                if nontrivial_float(byid[c[0]], c[1], c[2]):
                    nontriv.add(sk)
        nsweep = 0
        for fid, s, op in plan:
            f = byid[fid]
            m = gsw[fid]
            if isinstance(m, str):
                fail(f, (0, 0), "a 256x256 table", m)
                continue
            for a in range(256):
                want = exp.sweep[(s, a)][op]
                if m[a] != want:
                    b = next(j for j in range(256) if m[a][j] != want[j])
                    fail(f, (a, b), "panic" if want[b] < 0 else want[b], "panic" if m[a][b] < 0 else "%x" % m[a][b])
            nsweep += 65536
        total += len(icases) + len(fcases) - 2 + nsweep
        if undecided:
            chk.cov.setdefault("not_run_after_crashes", {})[cfg] = undecided
        # one finding per function; shift functions are grouped by (operator, operand width, count width) so that the
        # key names the defect class, the replay lists the functions
        groups = {}
        for name, (cnt, desc, rep) in sorted(failing.items()):
            rep["failing_cases_of_this_function"] = cnt
            f = next(x for x in fs if x["name"] == name)
            if f["kind"] == "shift":
                key = "%s:w%d:cw%d" % (f["op"], G.TY[f["t"]][2], G.TY[f["u"]][2])
            else:
                key = name
            if cfg != "O0":
                key += ":" + cfg
            g = groups.setdefault(key, {"desc": desc, "cases": 0, "functions": []})
            g["cases"] += cnt
            g["functions"].append(rep)
        for key, g in sorted(groups.items()):
            chk.reject(key, "%s (%d failing cases in %d functions, config %s)" % (g["desc"], g["cases"], len(g["functions"]), cfg),
                       {"config": cfg, "functions": g["functions"][:40], "how_to_replay":
                        "python3 /verif/harness/c02/gen.py <dir>; build <dir> with the llgo under test; echo '<stdin_line>' | ./prog"})
        chk.cov.setdefault("failing_functions", {})[cfg] = len(failing)

    sweep_sem = len(set((s, op) for _, s, op in plan)) * 65536
    chk.cov["evaluations"] = exp.rows + fexp.rows
    chk.cov["traces_validated_against_impl"] = total
    chk.cov["distinct_cases"] = len(semkeys) + sweep_sem
    chk.cov["distinct_nontrivial"] = len(nontriv)
    chk.cov["sweep8_operators"] = sweep_ops
    chk.cov["configs"] = configs
    chk.cov["operand_set_sizes"] = {"binary/conv per width": {str(w): len(v) for w, v in sets.conv.items()},
                                    "shift left operands": {str(w): len(v) for w, v in sets.x.items()},
                                    "shift counts per count width": {str(w): len(v) for w, v in sets.c.items()},
                                    "float domain": len(fdom[0]), "complex component domain": len(fdom[1]), "ints to float": len(fdom[2])}
    chk.cov["rule"] = ("evaluations = results computed by TLC (one per operator x shape x operand tuple); every one is replayed into every "
                       "evaluator function of that shape (12 integer types incl. a defined type, run-time and constant-operand variants) "
                       "built by llgo from the working tree; distinct = (operator, type shape(s), operand values); non-trivial = the case "
                       "panics, wraps, has a negative/unit divisor, a count >= width-1, a comparison across the sign boundary, a conversion "
                       "that changes the value or sign-extends, or a float/complex case involving +-0, +-Inf, NaN or a float->int truncation; "
                       "8-bit sweeps: every operand pair of the listed operators")
    for c in (icases[7], icases[len(icases) // 2], fcases[len(fcases) // 3]):
        chk.sample({"function": byid[c[0]]["src"], "operands_hex": ["%x" % o for o in c[1]], "spec_result": c[2]})
    chk.assumptions += [
        "O2 is the O2* pipeline of DESIGN section 3 (LLVM 14 cannot run llgo's full -O2 here)" if thorough else "quick tier: O0 only",
        "BV (limb arithmetic) is the oracle at 32/64 bit; it is model-checked against the integer definitions at W=8 "
        "(%s) and on the 16-bit boundary set, and the division identity x=q*y+r, |r|<|y| is checked at every width" %
        ("every operand pair" if thorough else "%d seeded left operands x every right operand in quick; every pair in thorough" % len(eq8)),
        "floats/complex: only operands and results that are exactly representable (small dyadic m*2^e) and the specials; rounding of "
        "inexact results, float formatting, out-of-range float->int conversions and complex division outside power-of-two-norm "
        "divisors are NOT checked; sign of zero components of complex products/quotients is not compared",
        "int<->float conversions limited to |v| < 2^31 (TLC integers)",
        "int, uint, uintptr are 64 bit (host target amd64)",
        "the harness adapters convert uint64 operands to the operand type and results back; a defect there shows as a mismatch too"]
    pool.shutdown(wait=False)


if __name__ == "__main__":
    C.main_wrapper("C02", check)

"""C12 — packages initialise once, dependencies first, variables in dependency order.

spec/initorder/InitOrder.tla       layer A: legal initialisation steps (InitVar / RunInit / Main)
spec/initorder/InitOrderProg.tla   A closed over the generated worlds: law invariants + completion, exhaustively
spec/initorder/InitOrderTrace.tla  trace validation of the order printed by llgo-compiled multi-package programs
binding: seeded "worlds" (import DAGs of 2-5 packages, variables with forward / function-mediated / cross-package
         references, several init functions over two files, uses of patched std packages inside initialisers) are
         rendered as one Go module per bundle, compiled by llgo, run; each world's printed trace must be accepted by
         InitOrderTrace and every printed value must be the one computed from fully initialised dependencies.
"""
import json
import os
import random
from concurrent.futures import ThreadPoolExecutor

from . import common as C

SPEC = os.path.join(C.VERIF, "spec", "initorder")


def gen_world(rng, wid):
    n = rng.choice([2, 3, 3, 4, 4, 5])
    pk = ["w%dp%d" % (wid, i) for i in range(n)]
    pkgs = []
    for i in range(n):
        later = list(range(i + 1, n))
        imports = sorted(rng.sample(later, rng.randint(0, min(2, len(later))))) if later else []
        pkgs.append({"name": pk[i], "imports": [pk[j] for j in imports]})
    # every package must be reachable from the root (p0): link orphans to some earlier package
    reach = {0}
    for i in range(n):
        if i in reach:
            for q in pkgs[i]["imports"]:
                reach.add(pk.index(q))
    for j in range(1, n):
        if j not in reach:
            host = rng.choice(sorted(x for x in reach if x < j))
            pkgs[host]["imports"].append(pk[j])
            reach.add(j)
            for q in pkgs[j]["imports"]:
                reach.add(pk.index(q))
    # packages are processed leaves first so that exported values of imports are known
    values = {}
    for i in reversed(range(n)):
        p = pkgs[i]
        nv = rng.randint(0, 4)
        names = ["V%d" % k for k in range(nv)]
        rank = list(range(nv))
        rng.shuffle(rank)            # initialisation order constraint different from declaration order
        vars_ = []
        for k in range(nv):
            cands = [names[j] for j in range(nv) if rank[j] < rank[k]]
            deps = sorted(rng.sample(cands, rng.randint(0, min(2, len(cands))))) if cands else []
            via = {d: rng.random() < 0.4 for d in deps}       # reference through a function
            cross = []
            for q in p["imports"]:
                qi = pk.index(q)
                if pkgs[qi]["vars"] and rng.random() < 0.6:
                    cross.append((q, rng.choice(pkgs[qi]["vars"])["name"]))
            patched = rng.choice([None, None, None, "atomic", "reflect", "once", "rtvar", "embedfs", "abikind"]) if rng.random() < 0.5 else None
            vars_.append({"name": names[k], "deps": deps, "via": via, "cross": cross, "patched": patched,
                          "file": "a" if k < (nv + 1) // 2 else "b"})
        p["vars"] = vars_
        p["ninit_a"] = rng.randint(0, 2)
        p["ninit_b"] = rng.randint(0, 2) if any(v["file"] == "b" for v in vars_) or rng.random() < 0.3 else 0
        p["ninit"] = p["ninit_a"] + p["ninit_b"]
        # expected values: 1 + sum of dependency values (+ patched contribution), in dependency order
        done = {}
        order = sorted(range(nv), key=lambda k: rank[k])
        for k in order:
            v = vars_[k]
            val = 1 + k
            for d in v["deps"]:
                val += done[d]
            for q, qv in v["cross"]:
                val += values[(q, qv)]
            val += {"atomic": 5, "reflect": 2, "once": 7, "rtvar": 4, "embedfs": 6, "abikind": 3, None: 0}[v["patched"]]
            done[v["name"]] = val % 1000003
            values[(p["name"], v["name"])] = done[v["name"]]
    return {"id": wid, "pkgs": pkgs, "values": {"%s.%s" % k: v for k, v in values.items()}}


def render_world(world, moddir, modname):
    for p in world["pkgs"]:
        d = os.path.join(moddir, p["name"])
        os.makedirs(d, exist_ok=True)
        files = {"a": [], "b": []}
        uses_atomic = any(v["patched"] == "atomic" for v in p["vars"])
        uses_reflect = any(v["patched"] == "reflect" for v in p["vars"])
        uses_once = any(v["patched"] == "once" for v in p["vars"])
        uses_embed = any(v["patched"] == "embedfs" for v in p["vars"])
        uses_abikind = any(v["patched"] == "abikind" for v in p["vars"])
        imports_a = ['"%s/%s"' % (modname, q) for q in p["imports"]]
        head = {"a": ["package %s" % p["name"], ""], "b": ["package %s" % p["name"], ""]}
        need = {"a": set(), "b": set()}
        for v in p["vars"]:
            f = v["file"]
            terms = []
            for dname in v["deps"]:
                terms.append("get%s()" % dname if v["via"][dname] else dname)
            for q, qv in v["cross"]:
                terms.append("%s.%s" % (q, qv))
                need[f].add(q)
            if v["patched"] == "atomic":
                terms.append("int(atomic.AddInt32(&cnt%s, 5))" % v["name"])
                need[f].add("sync/atomic")
            if v["patched"] == "reflect":
                terms.append("int(reflect.TypeOf(0).Kind())")
                need[f].add("reflect")
            if v["patched"] == "once":
                terms.append("onceVal%s()" % v["name"])
                need[f].add("sync")
            if v["patched"] == "rtvar":
                # state set up by the initialiser of package runtime (the GC percentage, 100 unless GOGC is set): runtime is
                # initialised before its importers
                terms.append("debug.SetGCPercent(100)/25")
                need[f].add("runtime/debug")
            if v["patched"] == "abikind":
                # state that only the ORIGINAL half of a partially overlaid std package sets up: internal/abi's table of
                # kind names (filled by the original initialiser, which llgo's replacement initialiser chains to);
                # sync imports internal/abi, so it is initialised before this package.  len("int") = 3
                terms.append("len(abiKindString(2))")
                uses_abikind = True
            if v["patched"] == "embedfs":
                # an embed.FS variable is set before any initialisation code of its package runs
                terms.append("embLen()")
                uses_embed = True
            k = int(v["name"][1:])
            files[f].append("var %s = tr(\"%s\", %d%s)" % (v["name"], v["name"], 1 + k, "".join(", " + t for t in terms)))
            files[f].append("func get%s() int { return %s }" % (v["name"], v["name"]))
            if v["patched"] == "atomic":
                files[f].append("var cnt%s int32" % v["name"])
            if v["patched"] == "once":
                files[f].append("var once%s sync.Once\nfunc onceVal%s() int { r := 0; once%s.Do(func() { r = 7 }); return r }" % (v["name"], v["name"], v["name"]))
        k = 0
        for f, cnt in (("a", p["ninit_a"]), ("b", p["ninit_b"])):
            for _ in range(cnt):
                k += 1
                files[f].append("func init() { println(\"I\", \"%s\", %d) }" % (p["name"], k))
        if uses_abikind:
            need["a"].add("unsafe")
            need["a"].add("sync")
            files["a"].insert(0, "//go:linkname abiKindString internal/abi.Kind.String\nfunc abiKindString(k uint8) string\n\nvar abiMu sync.Mutex // keeps the import of sync (and through it internal/abi) in this file\n")
        if uses_embed:
            need["a"].add("embed")
            # declared first: a variable without initialiser still takes its turn in declaration order, and the
            # variables reading it (through embLen) depend on it
            files["a"].insert(0, "//go:embed c12data.txt\nvar c12fs embed.FS\n\nfunc embLen() int {\n\tb, err := c12fs.ReadFile(\"c12data.txt\")\n"
                              "\tif err != nil {\n\t\treturn 0\n\t}\n\treturn len(b)\n}")
            with open(os.path.join(d, "c12data.txt"), "w") as fh:
                fh.write("hello\n")
        files["a"].append('''func tr(name string, base int, xs ...int) int {
	s := base
	for _, x := range xs {
		if x == 0 {
			println("ZERO", "%s", name)
		}
		s += x
	}
	s %%= 1000003
	println("V", "%s", name, s)
	return s
}''' % (p["name"], p["name"]))
        # imports that are not otherwise referenced still have to be initialised first: blank-import them in a.go
        for f in ("a", "b"):
            if f == "b" and not files["b"]:
                continue
            imps = []
            for q in sorted(need[f]):
                if q == "unsafe":
                    imps.append('_ "unsafe"')
                elif q in ("sync/atomic", "reflect", "sync", "runtime/debug", "embed"):
                    imps.append('"%s"' % q)
                else:
                    imps.append('"%s/%s"' % (modname, q))
            if f == "a":
                for q in p["imports"]:
                    if q not in need["a"]:
                        imps.append('_ "%s/%s"' % (modname, q))
            src = head[f] + (["import ("] + ["\t" + i for i in imps] + [")", ""] if imps else []) + files[f]
            with open(os.path.join(d, f + ".go"), "w") as fh:
                fh.write("\n".join(src) + "\n")


def spec_world(world):
    return {"id": world["id"],
            "pkgs": [{"name": p["name"], "imports": p["imports"],
                      "vars": [{"name": v["name"], "deps": v["deps"]} for v in p["vars"]], "ninit": p["ninit"]} for p in world["pkgs"]]}


def parse(text):
    ev = {}
    zero = []
    vals = {}
    saw_main = False
    for ln in text.splitlines():
        w = ln.split()
        if not w:
            continue
        if w[0] == "V" and len(w) == 4:
            wid = int(w[1][1:].split("p")[0])
            ev.setdefault(wid, []).append({"k": "V", "p": w[1], "n": w[2]})
            vals.setdefault(wid, {}).setdefault("%s.%s" % (w[1], w[2]), []).append(int(w[3]))
        elif w[0] == "I" and len(w) == 3:
            wid = int(w[1][1:].split("p")[0])
            ev.setdefault(wid, []).append({"k": "I", "p": w[1], "n": int(w[2])})
        elif w[0] == "ZERO":
            zero.append(ln)
        elif w[0] == "M":
            saw_main = True
    return ev, vals, zero, saw_main


def check(chk):
    thorough = chk.tier == "thorough"
    sd = C.seed()
    rd = chk.rd.path
    rng = random.Random(sd)
    nb = 12 if thorough else 2
    per = 25
    worlds = [gen_world(rng, i + 1) for i in range(nb * per)]
    # ---- the law on its own: every generated world, exhaustively
    wpath = os.path.join(rd, "traces.ndjson")
    with open(wpath, "w") as f:
        for w in worlds[: 60 if not thorough else 150]:
            f.write(json.dumps(dict(spec_world(w), ev=[])) + "\n")
    resP = C.tlc(SPEC, "InitOrderProg", "prog.cfg", chk.rd.sub("prog"), timeout=1800, copy_extra=[wpath], parse_json=False)
    if not resP.ok:
        raise C.Undecided("InitOrderProg: the law violates its own invariants: %s" % resP.violation)
    chk.add_tlc(resP, "InitOrderProg")
    configs = [("O0", "")] + ([("O2", ""), ("O0", "nogc")] if thorough else [])
    traces = []
    src_of = {}

    def do_bundle(bi):
        ws = worlds[bi * per:(bi + 1) * per]
        d = os.path.join(rd, "b%d" % bi)
        modname = "c12b%d" % bi
        os.makedirs(d, exist_ok=True)
        with open(os.path.join(d, "go.mod"), "w") as f:
            f.write("module %s\n\ngo 1.24\n" % modname)
        for w in ws:
            render_world(w, d, modname)
        with open(os.path.join(d, "main.go"), "w") as f:
            f.write("package main\n\nimport (\n" + "".join('\t_ "%s/%s"\n' % (modname, w["pkgs"][0]["name"]) for w in ws) + ")\n\nfunc main() { println(\"M\") }\n")
        ref = os.path.join(d, "ref.exe")
        renv = C.base_env()
        renv["GOFLAGS"] = (renv.get("GOFLAGS", "") + " -ldflags=-checklinkname=0").strip()   # the abikind probe pulls internal/abi.Kind.String
        ok, out = C.go_build(d, ref, env=renv)
        if not ok:
            return ("refbuild", out)
        st, so, se = C.run_exe(ref, timeout=60, merge=True)
        outs = {"ref": (st, so)}
        for opt, tags in configs:
            exe = os.path.join(d, "llgo-%s%s.exe" % (opt, tags))
            ok, out = C.llgo_build(d, exe, opt=opt, tags=tags, rundir=d)
            if not ok:
                outs[(opt, tags)] = ("buildfail", out)
                continue
            outs[(opt, tags)] = C.run_exe(exe, timeout=60, merge=True)[:2]
        return ("ok", outs)

    with ThreadPoolExecutor(max_workers=3) as ex:
        results = list(ex.map(do_bundle, range(nb)))
    judged = 0
    for bi, r in enumerate(results):
        if r[0] == "refbuild":
            raise C.Undecided("reference toolchain rejects a generated module (generator bug):\n" + r[1][-2000:])
        ws = worlds[bi * per:(bi + 1) * per]
        for cfg, (st, so) in r[1].items():
            if st == "buildfail":
                if cfg[0] == "O0" and cfg[1] == "":
                    raise C.Undecided("llgo cannot build a generated module:\n" + so[-3000:])
                chk.cov.setdefault("skipped_configs", []).append(str(cfg))
                continue
            ev, vals, zero, saw_main = parse(so)
            for w in ws:
                tid = len(traces) + 1
                e = ev.get(w["id"], []) + ([{"k": "M", "p": "", "n": 0}] if saw_main else [])
                traces.append(dict(spec_world(w), id=tid, ev=e))
                src_of[tid] = (w, cfg, st, vals.get(w["id"], {}))
            if zero and cfg != "ref":
                chk.reject("zero:%s:seed%d:bundle%d" % (cfg, sd, bi), "a variable was read before its initialisation: %s" % zero[:3], {"lines": zero[:10]})
    # negative control: swap two events of a world with at least two variable events in one package
    neg = None
    for t in traces:
        vs = [i for i, e in enumerate(t["ev"]) if e["k"] == "V"]
        if len(vs) >= 2 and t["ev"][-1]["k"] == "M":
            bad = json.loads(json.dumps(t))
            bad["ev"] = bad["ev"][:-2] + [bad["ev"][-1], bad["ev"][-2]]     # Main before the last step
            bad["id"] = 10 ** 7
            neg = bad
            break
    if neg is None:
        raise C.Undecided("no world suitable for the negative control")
    traces.append(neg)
    tpath = os.path.join(rd, "tr", "traces.ndjson")
    os.makedirs(os.path.dirname(tpath), exist_ok=True)
    with open(tpath, "w") as f:
        for t in traces:
            f.write(json.dumps(t) + "\n")
    resT = C.tlc(SPEC, "InitOrderTrace", "trace.cfg", chk.rd.sub("trace"), timeout=1800, copy_extra=[tpath], parse_json=False)
    if not resT.ok:
        raise C.Undecided("InitOrderTrace stopped: %s" % resT.violation)
    chk.add_tlc(resT, "InitOrderTrace")
    accepted = {rec["acc"] for rec in C.tlc_printed_iter(resT)}
    if neg["id"] in accepted:
        raise C.Undecided("negative control accepted by InitOrderTrace")
    spec_bad = 0
    for t in traces[:-1]:
        w, cfg, st, vals = src_of[t["id"]]
        ok = t["id"] in accepted and st == 0
        # values: each variable printed exactly once with the expected value
        badvals = {k: v for k, v in vals.items() if v != [w["values"].get(k)]}
        missing = [k for k in w["values"] if k not in vals]
        if cfg == "ref":
            if not ok or badvals or missing:
                spec_bad += 1
                C.log("spec/generator disagrees with the reference toolchain on world %d: accepted=%s badvals=%s missing=%s" % (w["id"], ok, badvals, missing))
            continue
        judged += 1
        if not ok or badvals or missing:
            chk.reject("world:%s:seed%d:w%d" % ("%s%s" % cfg, sd, w["id"]),
                       "initialisation trace of an llgo-compiled program is not a legal Go initialisation order "
                       "(accepted by InitOrder: %s, exit %s, wrong values %s, never initialised %s)" % (t["id"] in accepted, st, badvals, missing),
                       {"world": spec_world(w), "events": t["ev"], "config": cfg, "expected_values": w["values"]})
    if spec_bad:
        raise C.Undecided("InitOrder (or the generator) disagrees with the reference toolchain on %d worlds" % spec_bad)
    chk.cov["evaluations"] = judged
    chk.cov["distinct_nontrivial"] = sum(1 for w in worlds if sum(len(p["vars"]) for p in w["pkgs"]) >= 2)
    chk.cov["traces_validated_against_impl"] = judged
    chk.cov["worlds"] = len(worlds)
    chk.cov["rule"] = ("world = seeded import DAG of 2-5 packages, 0-4 variables per package with forward, function-mediated and cross-package "
                       "references, 0-4 init functions over two files, patched std packages (sync/atomic, reflect, sync) used in initialisers; "
                       "non-trivial = at least two variables; evaluations = world x llgo configuration; build mode exe only")
    chk.sample({"world": spec_world(worlds[0]), "events": traces[0]["ev"][:12]})
    chk.assumptions += ["the order among independent packages is left free (the statement asks no more)",
                        "build modes other than exe (c-archive, c-shared) are not exercised",
                        "patched std packages are observed through the values their API returns inside initialisers"]


if __name__ == "__main__":
    C.main_wrapper("C12", check)

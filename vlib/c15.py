"""C15 - reflect and fmt describe values and types as Go does (llgo-compiled programs).

spec/reflect/TypeTerms.tla     layer A: the recursive type grammar (named/unnamed, methods on value and pointer receivers,
                               embedded fields, tags, unexported fields, generic instances), one-step term extension
spec/reflect/ReflectModel.tla  layer A: Kind/Name/PkgPath/String, fields, elem/key/len, method sets and promoted methods,
                               results of reflected method calls, DeepEqual
spec/reflect/FmtModel.tla      layer A: text of %v %+v %#v %T %d %s %q %x %t, Stringer/error rules
spec/reflect/ReflectCases.tla  TLC builds terms step by step and prints, per selected term, every query with the text
                               the specification assigns to it
spec/reflect/CycEq.tla         DeepEqual on every 3-node pointer heap with sharing and cycles
spec/reflect/ConvSet.tla       Value.Convert / SetInt / SetUint round trips, settability law
binding: every printed term is rendered into Go source (harness/c15/*.tmpl), the program is built with the llgo built
         from the working tree and each output line is compared with the specification's text.  The reference
         toolchain only self-validates the specification's strings.  Program variants differ in which reflect.Value
         method-lookup calls appear (none / MethodByName(constant) / MethodByName(run-time) / Method(run-time i)).
Outside the specification: non-integral floats, %e %g, width/precision/flags, Printf argument errors, addresses,
unsafe.Sizeof-like facts of func values.
"""
import json
import os
import re
import shutil
import threading
import time
from concurrent.futures import ThreadPoolExecutor

from . import common as C

SPEC = os.path.join(C.VERIF, "spec", "reflect")
HARN = os.path.join(C.VERIF, "harness", "c15")
VARIANTS = ["none", "const", "dyn", "idx"]
UVSYMS_DIR = os.path.join(C.REPO, "runtime", "internal", "clite", "libuv")


# ----------------------------------------------------------------------------- rendering terms into Go source

def kind_of(t):
    k = t["k"]
    if k == "basic":
        return t["n"]
    if k in ("error", "iface"):
        return "interface"
    if k == "named":
        return kind_of(t["u"])
    if k == "inst":
        return "struct"
    return k


INTS = {"int8", "int16", "int32", "int64", "int", "uint8", "uint16", "uint32", "uint64", "uint"}
MS = {"none": ([], []), "vS": (["String"], []), "pS": ([], ["String"]), "vE": (["Error"], []), "pE": ([], ["Error"]),
      "vES": (["Error", "String"], []), "vM": (["M1", "m0"], []), "pM": ([], ["P1"]), "vMpM": (["M1", "m0"], ["P1"]),
      "vSpM": (["String"], ["P1"]), "vMpS": (["M1"], ["String"]), "vMS": (["M1", "String", "m0"], [])}
MBASE = {"M1": 100, "P1": 200, "m0": 300}
UP, LOW = "ABCD", "abcd"


def mangle(t):
    k = t["k"]
    if k == "basic":
        return t["n"]
    if k == "error":
        return "error"
    if k == "named":
        return tname(t)
    if k == "inst":
        return "G_" + mangle(t["a"]) + "_"
    if k == "ptr":
        return "P" + mangle(t["e"])
    if k == "slice":
        return "L" + mangle(t["e"])
    if k == "array":
        return "R%d" % t["n"] + mangle(t["e"])
    if k == "map":
        return "M" + mangle(t["key"]) + "_" + mangle(t["e"])
    if k == "chan":
        return {"both": "C", "send": "Cs", "recv": "Cr"}[t["dir"]] + mangle(t["e"])
    if k == "func":
        return "F" + "".join(mangle(x) + "_" for x in t["ps"]) + "_" + "".join(mangle(x) + "_" for x in t["rs"]) + \
               ("v" if t["v"] else "") + "_"
    if k == "struct":
        s = "S"
        for f in t["fs"]:
            s += ("e" if f["emb"] else "X" if f["x"] else "x") + mangle(f["t"]) + \
                 ("" if f["tag"] == "" else "q" if f["tag"] == "t" else "k") + "_"
        return s + "_"
    if k == "iface":
        return "I" + "".join(t["ms"]) + "_"
    raise C.Undecided("mangle: unknown term %r" % (t,))


def tname(t):
    """the driver's own derivation of a declared type's identifier; only used to name the declaration - the
    specification's texts are what is compared (a disagreement shows up in the reference self-validation)"""
    return ("N" if t["x"] else "n") + mangle(t["u"]) + "Z" + t["ms"]


class Decls:
    def __init__(self):
        self.named = {}     # name -> term
        self.order = []

    def collect(self, t):
        k = t["k"]
        if k == "named":
            self.collect(t["u"])
            n = tname(t)
            if n in self.named:
                if self.named[n] != t:
                    raise C.Undecided("two different declared types are both called " + n)
            else:
                self.named[n] = t
                self.order.append(n)
        elif k in ("ptr", "slice", "array", "chan"):
            self.collect(t["e"])
        elif k == "inst":
            self.collect(t["a"])
        elif k == "map":
            self.collect(t["key"])
            self.collect(t["e"])
        elif k == "func":
            for x in t["ps"] + t["rs"]:
                self.collect(x)
        elif k == "struct":
            for f in t["fs"]:
                self.collect(f["t"])


def typexpr(t):
    k = t["k"]
    if k == "basic":
        return t["n"]
    if k == "error":
        return "error"
    if k == "named":
        return tname(t)
    if k == "inst":
        return "G[" + typexpr(t["a"]) + "]"
    if k == "ptr":
        return "*" + typexpr(t["e"])
    if k == "slice":
        return "[]" + typexpr(t["e"])
    if k == "array":
        return "[%d]" % t["n"] + typexpr(t["e"])
    if k == "map":
        return "map[" + typexpr(t["key"]) + "]" + typexpr(t["e"])
    if k == "chan":
        e = typexpr(t["e"])
        if t["e"]["k"] == "chan":
            e = "(" + e + ")"
        return {"both": "chan ", "send": "chan<- ", "recv": "<-chan "}[t["dir"]] + e
    if k == "func":
        ps = [typexpr(x) for x in t["ps"]]
        if t["v"]:
            ps[-1] = "..." + ps[-1]
        rs = [typexpr(x) for x in t["rs"]]
        return "func(" + ", ".join(ps) + ")" + ("" if not rs else " " + rs[0] if len(rs) == 1 else " (" + ", ".join(rs) + ")")
    if k == "struct":
        if not t["fs"]:
            return "struct{}"
        parts = []
        for i, f in enumerate(t["fs"]):
            s = typexpr(f["t"]) if f["emb"] else field_name(t, i) + " " + typexpr(f["t"])
            if f["tag"]:
                s += " " + json.dumps(f["tag"])
            parts.append(s)
        return "struct { " + "; ".join(parts) + " }"
    if k == "iface":
        if not t["ms"]:
            return "interface{}"
        return "interface { " + "; ".join(m + ("() string" if m in ("String", "Error") else "() int") for m in t["ms"]) + " }"
    raise C.Undecided("typexpr: unknown term")


def field_name(st, i):
    f = st["fs"][i]
    if f["emb"]:
        t = f["t"]
        while t["k"] == "ptr":
            t = t["e"]
        return {"named": lambda: tname(t), "inst": lambda: "G", "basic": lambda: t["n"], "error": lambda: "error"}[t["k"]]()
    return (UP if f["x"] else LOW)[i]


def probe_expr(u, x):
    """Go expression of the int every declared method derives from its receiver value x of underlying type u"""
    kd = kind_of(u)
    if kd in INTS:
        return "int(%s)" % x
    if kd in ("string", "slice", "map"):
        return "len(%s)" % x
    if kd == "struct" and u["k"] == "struct" and u["fs"] and not u["fs"][0]["emb"] and kind_of(u["fs"][0]["t"]) in INTS:
        return "int(%s.%s)" % (x, field_name(u, 0))
    return "zero(%s)" % x


def render_decl(name, t):
    out = ["type %s %s" % (name, typexpr(t["u"]))]
    vms, pms = MS[t["ms"]]
    for recv, ms, x in (("r %s" % name, vms, "r"), ("r *%s" % name, pms, "(*r)")):
        for m in ms:
            p = probe_expr(t["u"], x)
            if m in ("String", "Error"):
                out.append('func (%s) %s() string { return "%s.%s:" + strconv.Itoa(%s) }' % (recv, m, name, m, p))
            else:
                out.append("func (%s) %s() int { return %d + %s }" % (recv, m, MBASE[m], p))
    return "\n".join(out)


def valexpr(t, v):
    """Go expression of static type t for the stripped value v printed by the specification"""
    k = t["k"]
    kd = kind_of(t)
    tx = typexpr(t)
    if k == "named":
        u = t["u"]
        if kd in INTS or kd in ("bool", "string", "float64"):
            return "%s(%s)" % (tx, valexpr(u, v))
        if kd in ("struct", "array"):
            return tx + "{" + ", ".join(elems(u, v)) + "}"
        if kd in ("slice", "map"):
            return "%s(nil)" % tx if v["nil"] else tx + "{" + ", ".join(elems(u, v)) + "}"
        if v["nil"]:
            return "%s(nil)" % tx
        return "%s(%s)" % (tx, valexpr(u, v))
    if k == "inst":
        return tx + "{" + valexpr(t["a"], v["es"][0]) + "}"
    if k == "basic":
        if kd == "bool":
            return "true" if v["i"] == 1 else "false"
        if kd == "string":
            return json.dumps(v["s"])
        if kd == "float64":
            return "nan()" if v["s"] == "nan" else "float64(%d)" % v["i"]
        return "%s(%d)" % (kd, v["i"])
    if v["nil"]:
        return "(%s)(nil)" % tx
    if k == "ptr":
        return "func() %s { x := %s; return &x }()" % (tx, valexpr(t["e"], v["es"][0]))
    if k in ("slice", "array", "struct", "map"):
        return tx + "{" + ", ".join(elems(t, v)) + "}"
    if k in ("iface", "error"):
        return "(%s)(%s)" % (tx, valexpr(v["dt"][0], v["es"][0]))
    raise C.Undecided("valexpr: non-nil value of kind " + k)


def elems(t, v):
    k = t["k"]
    if k in ("slice", "array"):
        return [valexpr(t["e"], x) for x in v["es"]]
    if k == "struct":
        return [valexpr(f["t"], x) for f, x in zip(t["fs"], v["es"])]
    if k == "map":
        return ["%s: %s" % (valexpr(t["key"], kx), valexpr(t["e"], ex)) for kx, ex in zip(v["ks"], v["es"])]
    raise C.Undecided("elems: kind " + k)


HEXMARK = re.compile(r"<<hex:(.*?)>>")


def spec_text(s):
    """the two-hex-digits-per-byte transliteration of opaque text that FmtModel delegates to the driver"""
    return HEXMARK.sub(lambda m: m.group(1).encode().hex(), s)


class Program:
    """one generated program: expected lines (id -> text) and Go source per variant"""

    def __init__(self):
        self.decls = Decls()
        self.body = {v: [] for v in VARIANTS}
        self.funcs = []
        self.expected = {}      # id -> text (all variants)
        self.call_ids = set()   # ids only present in variants that call methods
        self.meta = {}          # id -> (term key, query)
        self.terms = {}         # term key -> term
        self.term_key = {}      # "t<n>" -> term key
        self.nterms = 0

    def exp(self, id_, text, key, query, call=False):
        if id_ in self.expected:
            raise C.Undecided("duplicate id " + id_)
        self.expected[id_] = spec_text(text)
        self.meta[id_] = (key, query)
        if call:
            self.call_ids.add(id_)

    def add_case(self, c):
        t = c["term"]
        self.decls.collect(t)
        n = self.nterms
        self.nterms += 1
        tid = "t%d" % n
        key = c["key"]
        self.terms[key] = t
        self.term_key[tid] = key
        mt0 = "reflect.TypeOf((func(%s) %s)(nil))" % (typexpr(t), c["mt0"][0]) if c.get("mt0") else "nil"
        if kind_of(t) == "interface":
            common = ["desc(%s, reflect.TypeOf((*%s)(nil)).Elem(), %s)" % (json.dumps(tid), typexpr(t), mt0)]
        else:
            # through a value: *T is mentioned nowhere unless another term is *T, so PointerTo(T) has to find or build it
            common = ["desc(%s, reflect.TypeOf(%sv0()), %s)" % (json.dumps(tid), tid, mt0)]
        for q in c["q"]:
            self.exp(tid + "." + q["n"], q["r"], key, q["n"])
        per_variant = {v: [] for v in VARIANTS}
        seen_vals = {}
        idx_of = {}
        for vi, vc in enumerate(c["vals"]):
            sig = json.dumps(vc["v"], sort_keys=True)
            if sig in seen_vals:
                idx_of[vi] = seen_vals[sig]
                continue
            seen_vals[sig] = vi
            idx_of[vi] = vi
            for dv in walk_dyn_types(vc["v"]):
                self.decls.collect(dv)
            vid = "%s.v%d" % (tid, vi)
            fn = "%sv%d" % (tid, vi)
            self.funcs.append("func %s() %s { return %s }" % (fn, typexpr(t), valexpr(t, vc["v"])))
            verbs = "".join(f["n"] for f in vc["fm"])
            common.append("fm(%s, %s, %s())" % (json.dumps(vid), json.dumps(verbs), fn))
            for f in vc["fm"]:
                self.exp("%s.fm.%s" % (vid, f["n"]), f["r"], key, "fmt%%%s:v%d" % (f["n"], vi))
            common.append("selfeq(%s, %s())" % (json.dumps(vid + ".self"), fn))
            self.exp(vid + ".self", vc["self"], key, "selfeq:v%d" % vi)
            for cl in vc["calls"]:
                cid = "%s.call.%s" % (vid, cl["m"])
                self.exp(cid, cl["r"], key, "call.%s:v%d" % (cl["m"], vi), call=True)
                per_variant["dyn"].append("callm(%s, %s(), mname(%s))" % (json.dumps(cid), fn, json.dumps(cl["m"])))
                per_variant["idx"].append("calli(%s, %s(), mindex(%d))" % (json.dumps(cid), fn, cl["i"]))
                per_variant["const"].append("q(%s, func() string { return res(reflect.ValueOf(%s()).MethodByName(%s).Call(nil)) })"
                                            % (json.dumps(cid), fn, json.dumps(cl["m"])))
        for d in sorted(c["deq"], key=lambda d: (d["a"], d["b"])):
            a, b = d["a"], d["b"]
            if idx_of[a] != a or idx_of[b] != b:
                continue
            did = "%s.deq.%d_%d" % (tid, a, b)
            common.append("deq(%s, %sv%d(), %sv%d())" % (json.dumps(did), tid, a, tid, b))
            self.exp(did, d["r"], key, "deq:v%d,v%d" % (a, b))
        for v in VARIANTS:
            self.funcs_for(v).append("func %s() {\n\t%s\n}" % (tid, "\n\t".join(common + per_variant[v])))
            self.body[v].append("%s()" % tid)

    def funcs_for(self, v):
        return self.__dict__.setdefault("vf_" + v, [])

    def source(self, variant, tables=True):
        tmpl = open(os.path.join(HARN, "main.go.tmpl")).read()
        helpers = ""
        if tables:
            helpers += open(os.path.join(HARN, "tables.go.tmpl")).read()
        if variant in ("dyn", "idx"):
            helpers += open(os.path.join(HARN, "calls.go.tmpl")).read()
        decls = [render_decl(n, self.decls.named[n]) for n in self.decls.order]
        main = list(self.body[variant])
        if tables:
            main.append("runTables()")
        src = tmpl.replace("//VERIF:HELPERS", helpers)
        src = src.replace("//VERIF:DECLS", "const nterms = %d\n\n" % self.nterms + "\n\n".join(decls) + "\n\n" + "\n".join(self.funcs) + "\n\n" +
                          "\n\n".join(self.funcs_for(variant)))
        src = src.replace("//VERIF:MAIN", "\n\t".join(main))
        return src

    def ids_for(self, variant):
        if variant == "none":
            return {i for i in self.expected if i not in self.call_ids}
        return set(self.expected)


def walk_dyn_types(v):
    for t in v["dt"]:
        yield t
    for x in v["es"] + v["ks"]:
        for t in walk_dyn_types(x):
            yield t


# ----------------------------------------------------------------------------- table-driven parts (stdin of the program)

def tables_input(prog, cyc, conv):
    lines = []
    for ci, c in enumerate(cyc):
        n = len(c["vals"])
        cid = "cyc.%s.%s" % ("".join(map(str, c["vals"])), "".join(map(str, c["nx"])))
        lines.append("cyc %s %d %s" % (cid, n, " ".join("%d %d" % (c["vals"][i], c["nx"][i]) for i in range(n))))
        for a in range(n):
            for b in range(n):
                prog.exp("%s.%d.%d" % (cid, a + 1, b + 1), c["res"][a][b], "Cy{vals=%s,next=%s}" % (c["vals"], c["nx"]),
                         "deepequal:%d,%d" % (a + 1, b + 1))
    for c in conv:
        if c["op"] == "paths":
            lines.append("paths")
            for ln in c["lines"]:
                prog.exp(ln["n"], ln["r"], "settability" if ln["n"].startswith("path.") else "string-conversion", ln["n"])
        elif c["op"] == "conv":
            cid = "conv.%s.%s.%d" % (c["from"], c["to"], c["v"])
            lines.append("conv %s %s %s %d" % (cid, c["from"], c["to"], c["v"]))
            prog.exp(cid, c["r"], "convert:%s->%s" % (c["from"], c["to"]), str(c["v"]))
        else:
            cid = "%s.%s.%d" % (c["op"], c["from"], c["v"])
            lines.append("%s %s %s %d" % (c["op"], cid, c["from"], c["v"]))
            prog.exp(cid, c["r"], "%s:%s" % (c["op"], c["from"]), str(c["v"]))
    return "\n".join(lines) + "\n"


# ----------------------------------------------------------------------------- TLC

def run_cases_tlc(chk, label, consts, timeout, fixed=False):
    rd = chk.rd.path
    cfg = os.path.join(rd, "cases_%s.cfg" % label)
    C.write_cfg(cfg, spec="SpecFixed" if fixed else "Spec", constants=consts, invariants=["EmitFixed"] if fixed else ["LawPointerMethodSet", "LawDeepEqual", "LawVerbs", "Emit"])
    res = C.tlc(SPEC, "ReflectCases", cfg, rd, timeout=timeout, parse_json=False, workers=min(C.NCPU, 8))
    if not res.ok:
        raise C.Undecided("ReflectCases/%s failed in TLC: %s" % (label, res.violation))
    chk.add_tlc(res, "ReflectCases/" + label)
    cases = {}
    for c in C.tlc_printed_iter(res):
        cases.setdefault(c["key"], c)
    return cases


def run_cases_sim(chk, label, consts, num, depth, timeout, workers):
    rd = chk.rd.path
    cfg = os.path.join(rd, "cases_%s.cfg" % label)
    C.write_cfg(cfg, constants=consts, invariants=["Emit"])
    res = C.tlc(SPEC, "ReflectCases", cfg, rd, timeout=timeout, parse_json=False, workers=workers,
                simulate="num=%d" % num, depth=depth, tlc_seed=C.seed())
    m = re.search(r"number of states generated: (\d+)", res.out)
    if m:
        res.generated = res.distinct = int(m.group(1))     # simulation: states checked, not distinct states
    chk.add_tlc(res, "ReflectCases/" + label)
    cases = {}
    for c in C.tlc_printed_iter(res):
        cases.setdefault(c["key"], c)
    return cases


def run_small(chk, module, label, consts, invariants, timeout=600):
    rd = chk.rd.path
    cfg = os.path.join(rd, "%s_%s.cfg" % (module, label))
    C.write_cfg(cfg, constants=consts, invariants=invariants)
    res = C.tlc(SPEC, module, cfg, rd, timeout=timeout, workers=4)
    if not res.ok:
        raise C.Undecided("%s/%s: the specification's own algebra failed in TLC: %s" % (module, label, res.violation))
    chk.add_tlc(res, "%s/%s" % (module, label))
    return res.printed


# ----------------------------------------------------------------------------- building and running

_uv_lock = threading.Lock()


def uv_stub_object(rd):
    """reflect.Value.Method / MethodByName make llgo keep every method table; libuv wrappers then reference uv_*
    functions that the toolchain's stub libuv.a does not define: provide trapping weak definitions"""
    with _uv_lock:
        obj = os.path.join(rd, "uvstubs.o")
        if os.path.exists(obj):
            return obj
        syms = set()
        if os.path.isdir(UVSYMS_DIR):
            for fn in os.listdir(UVSYMS_DIR):
                if fn.endswith(".go"):
                    syms |= set(re.findall(r"C\.(uv_[a-z_0-9]+)", open(os.path.join(UVSYMS_DIR, fn), errors="replace").read()))
        src = os.path.join(rd, "uvstubs.c")
        with open(src, "w") as f:
            for s in sorted(syms):
                f.write("__attribute__((weak)) void %s(void) { __builtin_trap(); }\n" % s)
            f.write("int verif_c15_uvstubs;\n")
        import subprocess
        r = subprocess.run(["/usr/bin/clang", "-c", src, "-o", obj], capture_output=True, text=True)
        if r.returncode != 0:
            raise C.Undecided("cannot compile uv stubs: " + r.stderr)
        return obj


def parse_lines(text):
    got = {}
    extra = []
    for line in text.split("\n"):
        if not line:
            continue
        if "\t" not in line:
            extra.append(line)
            continue
        i, r = line.split("\t", 1)
        if i in got:
            extra.append("duplicate:" + line)
        got[i] = r
    return got, extra


def build_and_run(chk, name, src, stdin, tool, modname="main"):
    """returns dict(ok, build_out, status, lines, extra)"""
    rd = chk.rd.path
    d = os.path.join(rd, "prog-" + name)
    C.write_module(d, {"main.go": src}, modname=modname)
    exe = os.path.join(d, "a.out")
    t0 = time.time()
    if tool == "go":
        ok, out = C.go_build(d, exe, timeout=1800)
    else:
        # concurrent llgo processes must not write one cache: every program gets a private copy of the golden cache
        cache = os.path.join(d, "cache")
        shutil.copytree(C.golden_cache("O0", "O0", ""), cache)
        ok, out = C.llgo_build(d, exe, opt="O0", rundir=d, timeout=3000,
                               extra_env={"CCC_OVERRIDE_OPTIONS": "# +" + uv_stub_object(rd), "XDG_CACHE_HOME": cache})
        shutil.rmtree(cache, ignore_errors=True)
    C.log("C15: %s build of %s: %s in %.0fs" % (tool, name, "ok" if ok else "FAILED", time.time() - t0))
    if not ok:
        C.log(out[-1500:])
        return {"ok": False, "build_out": out, "status": None, "lines": {}, "extra": []}
    st, so, se = C.run_exe(exe, stdin=stdin.encode(), timeout=1200, merge=True)
    lines, extra = parse_lines(so)
    return {"ok": True, "build_out": out, "status": st, "lines": lines, "extra": extra}


# ----------------------------------------------------------------------------- known deviation classes
# A class folds the instances of ONE defect onto its representative key (the key to list in known-findings.txt).
# The representative is a fixed term (ReflectCases!Fixed) present in every run, whatever the seed.
#  * line class: active only while its representative fails in this run; an observed line is folded only when it
#    equals the expected line rewritten by the class's exact transformation (anything else is a violation).
#  * term class: all queries of such terms fail alike.  While the representative is listed in known-findings.txt the
#    seeded terms of the class are kept out of the generated programs and the representative is judged in the small
#    "probe" program; when it is not listed the terms are generated and judged like any other.
#  * the compiler-crash gate works like a term class (representative judged in the "gate" program).
# When a defect is fixed the representative passes, nothing is folded, and - once the known-findings line is turned
# into a fixed: line - every instance is generated and judged strictly.

def split_typeargs(s):
    """[(inside_brackets_of_a_generic_instance, text)]"""
    parts = []
    i = 0
    start = 0
    while True:
        j = s.find("G[", i)
        if j < 0:
            break
        depth = 0
        k = j + 1
        while k < len(s):
            if s[k] == "[":
                depth += 1
            elif s[k] == "]":
                depth -= 1
                if depth == 0:
                    break
            k += 1
        parts.append((False, s[start:j + 2]))
        parts.append((True, s[j + 2:k]))
        start = k
        i = k
    parts.append((False, s[start:]))
    return parts


def strip_tags(s):
    """struct tags disappear from type strings (not inside the brackets of a generic instance, where llgo keeps them)"""
    return "".join(t if inside else re.sub(r' "(?:[^"\\]|\\.)*"(?=;| \})', "", t) for inside, t in split_typeargs(s))


def strip_chan_parens(s):
    out = s
    while True:
        i = out.find("chan (<-chan")
        if i < 0:
            return out
        j = i + 5
        depth = 0
        k = j
        while k < len(out):
            if out[k] == "(":
                depth += 1
            elif out[k] == ")":
                depth -= 1
                if depth == 0:
                    break
            k += 1
        if k >= len(out):
            return out
        out = out[:j] + out[j + 1:k] + out[k + 1:]


def tight_typeargs(s):
    """llgo writes a struct literal or a func type inside the brackets of a generic instance with go/types' TypeString:
    no blanks inside braces, unexported field and method names without qualifier - for everything nested in that struct
    or func type (which extends to the end of the type argument); an interface literal elsewhere keeps reflect's spelling"""
    out = []
    for inside, text in split_typeargs(s):
        if not inside:
            out.append(text)
            continue
        res = []
        stack = []
        i = 0
        func_mode = False
        while i < len(text):
            if not func_mode and "S" not in stack and text.startswith("func(", i):
                func_mode = True
            in_struct = func_mode or "S" in stack
            if text.startswith("struct {}", i):
                res.append("struct{}")
                i += 9
            elif text.startswith("interface {}", i):
                res.append("interface{}" if in_struct else "interface {}")
                i += 12
            elif text.startswith("struct { ", i):
                res.append("struct{")
                stack.append("S")
                i += 9
            elif text.startswith("interface { ", i):
                res.append("interface{" if in_struct else "interface { ")
                stack.append("i" if in_struct else "I")
                i += 12
            elif text.startswith(" }", i) and stack:
                res.append(" }" if stack.pop() == "I" else "}")
                i += 2
            else:
                m = re.match(r"main\.([a-d] |m0\(\))", text[i:]) if in_struct else None
                if m and res and res[-1][-1:] in ("{", " ", "("):
                    res.append(m.group(1))
                    i += m.end()
                else:
                    res.append(text[i])
                    i += 1
        out.append("".join(res))
    return "".join(out)


def contains(term, pred):
    if pred(term):
        return True
    for key in ("e", "a", "u", "key"):
        if key in term and isinstance(term[key], dict) and contains(term[key], pred):
            return True
    for key in ("ps", "rs"):
        if key in term and any(contains(x, pred) for x in term[key]):
            return True
    if term["k"] == "struct" and any(contains(f["t"], pred) for f in term["fs"]):
        return True
    return False


def has_named_func(term):
    return contains(term, lambda t: t["k"] == "named" and kind_of(t["u"]) == "func")


def zero_size(t):
    k = t["k"]
    if k == "struct":
        return all(zero_size(f["t"]) for f in t["fs"])
    if k == "array":
        return t["n"] == 0 or zero_size(t["e"])
    if k == "named":
        return zero_size(t["u"])
    if k == "inst":
        return zero_size(t["a"])
    return False


def has_trailing_zero_size_field(term):
    """a struct of non-zero size whose last field has size zero (gc pads it by one byte; llgo's LLVM layout does not,
    while its descriptors follow gc: element strides and following field offsets disagree)"""
    return contains(term, lambda t: t["k"] == "struct" and len(t["fs"]) >= 2 and zero_size(t["fs"][-1]["t"]) and not zero_size(t))


LINE_CLASSES = [
    # (class id, representative finding key, query filter, transformation of the expected text)
    ("typearg-literal-spacing", "str:main.G[struct_{_A_int_}]", lambda q: True, tight_typeargs),
    ("struct-tag-in-type-string", 'str:struct_{_A_int_"t"_}', lambda q: True, strip_tags),
    ("chan-of-recv-chan-parens", "str:chan_(<-chan_int)", lambda q: True, strip_chan_parens),
    ("named-interface-pkgpath", "pkg:main.NIM1_Znone", lambda q: q == "pkg", lambda s: "" if s == "main" else s),
    ("map-pointer-key-star", "str:map[*int]int", lambda q: True, lambda s: s.replace("map[*", "map[")),
    ("named-pointer-extra-star", "str:main.NPintZnone", lambda q: True, lambda s: re.sub(r"main\.([Nn]P\w*)", r"*main.\1", s)),
    # only in programs without reflect.Value.Method/MethodByName: Type.Method(i).Type is a fresh func type
    ("method-type-identity", "mteq:main.NSXint__ZvMpM", lambda q: q == "mteq", lambda s: "false" if s == "true" else s),
]
TERM_CLASSES = [
    # (class id, representative finding key, predicate on terms)
    ("named-func-type", "name:main.NF__Znone", has_named_func),
    ("trailing-zero-size-field", "fmt%v:v1:[2]struct_{_A_int;_B_struct_{}_}", has_trailing_zero_size_field),
]
MODPATH_REP = "pkg:module=vmod:main.NSXint__ZvMpM"
TABLE_CLASSES = [
    # (class id, representative finding key, predicate on (key, query, got))
    ("convert-int-interface", "1:convert:int->int8", lambda key, q, got: key.startswith("convert:") and got == "PANIC"),
]


def explain(expected, observed, query, active):
    """the active line classes whose composed transformations turn expected into observed, or None"""
    cl = [c for c in LINE_CLASSES if c[0] in active and c[2](query)]
    n = len(cl)
    for mask in range(1, 1 << n):
        s = expected
        used = []
        for i in range(n):
            if mask >> i & 1:
                s2 = cl[i][3](s)
                if s2 != s:
                    used.append(cl[i][0])
                s = s2
        if used and s == observed:
            return used
    return None


def keyify(s):
    return re.sub(r"\s+", "_", s)


def finding_key(f):
    return keyify("%s:%s" % (f["query"], f["key"]))


# ----------------------------------------------------------------------------- the check

def select_consts(tier, sd):
    if tier == "thorough":
        return {"MaxDepth": 2, "M0": 1, "M1": 1, "M2": 12, "M3": 1, "Sel": sd}
    return {"MaxDepth": 2, "M0": 2, "M1": 5, "M2": 110, "M3": 1, "Sel": sd}


def gated(term, under_named=False):
    """terms whose mere presence makes llgo's compiler panic (probed separately): an unnamed struct type that embeds
    a generic instance (or a pointer to one) and so gets promoted-method wrappers"""
    k = term["k"]
    if k == "struct":
        for f in term["fs"]:
            t = f["t"]
            while t["k"] == "ptr":
                t = t["e"]
            if f["emb"] and t["k"] == "inst" and not under_named:
                return True
        return any(gated(f["t"]) for f in term["fs"])
    if k == "named":
        return gated(term["u"], True)
    for key in ("e", "a", "key"):
        if key in term and isinstance(term[key], dict) and gated(term[key]):
            return True
    for key in ("ps", "rs"):
        if key in term and any(gated(x) for x in term[key]):
            return True
    return False


def compare(prog, name, variant, run, agreed, stats, findings):
    """judge one llgo run against the specification on the ids the reference confirmed"""
    ids = prog.ids_for(variant) & agreed
    for i in sorted(ids):
        want = prog.expected[i]
        got = run["lines"].get(i)
        stats["evaluations"] += 1
        if got == want:
            continue
        key, query = prog.meta[i]
        findings.append({"id": i, "key": key, "query": query, "want": want, "got": got, "program": name, "variant": variant})
    for i, got in run["lines"].items():
        if i in prog.expected or i == "done":
            continue
        # a line the specification does not have for this term (e.g. fields of a type whose kind is not struct)
        tid = i.split(".")[0]
        key = prog.term_key.get(tid)
        if key is None:
            raise C.Undecided("program %s printed an id that belongs to no term: %s" % (name, i))
        findings.append({"id": i, "key": key, "query": "extra." + i.split(".", 1)[1], "want": None, "got": got,
                         "program": name, "variant": variant})


class Judge:
    def __init__(self, chk):
        self.chk = chk
        self.active = set()
        self.folded = chk.cov.setdefault("folded_into_known_classes", {})

    def activate(self, findings):
        keys = {finding_key(f) for f in findings}
        for cid, rep, *_ in LINE_CLASSES + TERM_CLASSES + TABLE_CLASSES:
            if rep in keys:
                self.active.add(cid)

    def avoided(self, term):
        return [cid for cid, rep, pred in TERM_CLASSES if cid in self.active and pred(term)]

    def report(self, findings, prog):
        by_key = {}
        for f in findings:
            by_key.setdefault(finding_key(f), []).append(f)
        reps = {rep: cid for cid, rep, *_ in LINE_CLASSES + TERM_CLASSES + TABLE_CLASSES}
        for key in sorted(by_key):
            fs = by_key[key]
            f = fs[0]
            if key not in reps:
                used = None
                if f["got"] is not None and f["want"] is not None:
                    used = explain(f["want"], f["got"], f["query"].split(":")[0], self.active)
                if used is None:
                    term = prog.terms.get(f["key"])
                    if term is not None:
                        used = [cid for cid, rep, pred in TERM_CLASSES if cid in self.active and pred(term)] or None
                if used is None:
                    used = [cid for cid, rep, pred in TABLE_CLASSES if cid in self.active and pred(f["key"], f["query"], f["got"])] or None
                if used:
                    for u in used:
                        self.folded[u] = self.folded.get(u, 0) + len(fs)
                    continue
            desc = "%s of %s: specification %r, llgo %r (variants %s)" % (f["query"], f["key"], f["want"], f["got"],
                                                                         sorted({x["variant"] for x in fs}))
            C.log("C15: rejected " + key)
            self.chk.reject(key, desc, {"term": f["key"], "query": f["query"], "expected": f["want"], "observed": f["got"],
                                        "variants": sorted({x["variant"] for x in fs}), "line_id": f["id"],
                                        "class": reps.get(key)})


def reference_agreed(prog, refs, label, chk):
    """ids whose specification text every reference run confirms; the others are dropped and counted"""
    agreed = set()
    bad = []
    for i, want in prog.expected.items():
        rs = [r for r in refs if i in prog.ids_for(r["variant"])]
        if all(r["lines"].get(i) == want for r in rs):
            agreed.add(i)
        else:
            bad.append({"id": i, "meta": prog.meta[i], "spec": want, "reference": rs[0]["lines"].get(i)})
    for r in refs:
        extra = [i for i in r["lines"] if i not in prog.expected and i != "done"]
        if extra:
            raise C.Undecided("%s: the reference program prints ids the specification does not have: %s" % (label, extra[:5]))
    chk.cov["spec_lines"] = chk.cov.get("spec_lines", 0) + len(prog.expected)
    chk.cov["spec_lines_rejected_by_reference"] = chk.cov.get("spec_lines_rejected_by_reference", 0) + len(bad)
    if bad:
        C.log("C15: %s: the reference toolchain disagrees with the specification on %d lines, e.g. %s" % (label, len(bad), bad[:3]))
        chk.cov.setdefault("spec_disagreement_samples", []).extend(bad[:5])
    if len(bad) > max(5, len(prog.expected) // 200):
        raise C.Undecided("%s: the specification disagrees with the reference toolchain on %d of %d lines: the specification is wrong; "
                          "first: %s" % (label, len(bad), len(prog.expected), bad[:5]))
    return agreed


def need_ref(r, what):
    if not r["ok"] or r["status"] != 0 or "done" not in r["lines"]:
        raise C.Undecided("the reference toolchain cannot build/run %s:\n%s\n%s" % (what, r["build_out"][-2500:], r["extra"][:10]))
    return r


def negative_control(prog, v, run, agreed):
    """one corrupted expectation must be flagged by the very comparison that judges the run"""
    neg_id = next((i for i in sorted(agreed) if i.endswith(".str") and run["lines"].get(i) == prog.expected[i]), None)
    if neg_id is None:
        return False
    saved = prog.expected[neg_id]
    prog.expected[neg_id] = saved + " "
    nf = []
    try:
        compare(prog, "neg", v, {"lines": {neg_id: run["lines"][neg_id]}}, {neg_id}, {"evaluations": 0}, nf)
    finally:
        prog.expected[neg_id] = saved
    if len(nf) != 1 or nf[0]["id"] != neg_id:
        raise C.Undecided("negative control not flagged: the comparison does not compare anything")
    return True


def judge_llgo_run(chk, prog, name, v, run, agreed, stats, findings):
    if not run["ok"]:
        m = re.search(r"panic: [^\n]*", run["build_out"])
        chk.reject("build:%s:%s" % (name, v), "llgo cannot build the generated program %s (variant %s): %s" %
                   (name, v, m.group(0) if m else run["build_out"][-800:]),
                   {"variant": v, "source": prog.source(v, tables=(name == "bulk")), "build_output": run["build_out"][-6000:]})
        return False
    if run["status"] != 0 or "done" not in run["lines"]:
        last = list(run["lines"])[-1] if run["lines"] else None
        chk.reject("crash:%s:%s" % (name, v), "the llgo-built program %s (variant %s) ended with status %s after id %s: %s" %
                   (name, v, run["status"], last, run["extra"][-5:]),
                   {"variant": v, "status": run["status"], "last_id": last, "meta": prog.meta.get(last), "tail": run["extra"][-20:]})
    compare(prog, name, v, run, agreed, stats, findings)
    return True


def run_impl_model(chk):
    """layer B (report only): the pruning rule of checkReflect/filterAbiSymbol against the need derived from layer A"""
    rd = chk.rd.path
    out = []
    for label, inv in (("observed", "NeedObserved"), ("all", "NeedAll")):
        cfg = os.path.join(rd, "prune_%s.cfg" % label)
        C.write_cfg(cfg, invariants=[inv])
        res = C.tlc(SPEC, "PruneImpl", cfg, rd, timeout=600, workers=2, parse_json=False)
        chk.add_tlc(res, "PruneImpl/" + label)
        out.append({"cfg": label, "ok": res.ok, "violation": res.violation})
        if not res.ok:
            C.log("note: PruneImpl/%s: %s (layer B never judges; the binding is the mteq query in the variant without "
                  "reflect.Value method lookups)" % (label, res.violation))
    chk.cov["impl_model"] = out


def check(chk):
    thorough = chk.tier == "thorough"
    sd = C.seed()
    t_start = time.time()
    from . import c15x
    nx = c15x.run(chk, thorough)
    chk.cov["rule"] = ("case = type term built by TLC (ReflectCases: leaf + <= 2 constructor steps, depth 3 by seeded simulation) "
                       "x {reflect query | fmt verb on a value | reflected method call | DeepEqual pair}; plus every 3-node pointer "
                       "heap x root pair (CycEq) and every (kind, kind, boundary value) conversion / set (ConvSet); "
                       "distinct_nontrivial = distinct (term, query) lines whose expected text the reference toolchain confirmed; "
                       "evaluations = confirmed lines x llgo program variants compared")
    judge = Judge(chk)
    stats = {"evaluations": 0}
    pool = ThreadPoolExecutor(max_workers=10)

    # 1. fixed representative terms (seed independent).  Terms of a class listed in known-findings.txt whose instances
    #    would all fail alike (or crash the compiler) are kept out of the generated programs; their representatives are
    #    judged in small programs of their own: gate (compiler crash), probe (term classes), modpath (other module path)
    fixed = run_cases_tlc(chk, "fixed", {"MaxDepth": 0, "M0": 1, "M1": 1, "M2": 1, "M3": 1, "Sel": 0}, 600, fixed=True)
    if not fixed:
        raise C.Undecided("no fixed cases emitted")
    gate_cases = [fixed[k] for k in sorted(fixed) if gated(fixed[k]["term"])]
    gate_key = "build:" + keyify(gate_cases[0]["key"]) if gate_cases else None
    gate_open = not (gate_key and chk.known.match(gate_key))
    listed_term_classes = [(cid, rep, pred) for cid, rep, pred in TERM_CLASSES if chk.known.match(rep)]

    def avoided(term):
        return [cid for cid, rep, pred in listed_term_classes if pred(term)]

    modp_cases = [fixed[k] for k in sorted(fixed) if fixed[k].get("label") == "modpath"]
    probe_cases = [fixed[k] for k in sorted(fixed) if not gated(fixed[k]["term"]) and avoided(fixed[k]["term"])]
    progs = {}
    for nm, cs in (("gate", gate_cases), ("modpath", modp_cases), ("probe", probe_cases)):
        p = Program()
        for c in cs:
            p.add_case(c)
        progs[nm] = p
    small = {}
    for nm, var, mod in (("gate", "dyn", "main"), ("modpath", "dyn", "vmod"), ("probe", "dyn", "main")):
        if not progs[nm].expected:
            continue
        src = progs[nm].source(var, tables=False)
        small[nm] = (pool.submit(build_and_run, chk, nm, src, "", "llgo", mod), pool.submit(build_and_run, chk, nm + "-ref", src, "", "go", mod), var)

    # 2. enumerated / simulated terms, tables
    consts = select_consts(chk.tier, sd)
    enum_fut = pool.submit(run_cases_tlc, chk, "enum", consts, 3000)
    # simulation: TLC evaluates Emit on every successor of every visited state, so a trace offers ~30 depth-3 terms
    sim_consts = {"MaxDepth": 3, "M0": 1000003, "M1": 1000003, "M2": 1000003, "M3": 40,
                  "Sel": 1000002 + 1000003 * ((((sd % 40) - 2) * 27) % 40)}   # = 1000002 mod 1000003, = sd mod 40
    sim_fut = pool.submit(run_cases_sim, chk, "sim3", sim_consts, 50 if thorough else 20, 4, 1500, 8 if thorough else 2)
    cyc_fut = pool.submit(run_small, chk, "CycEq", "n3", {"N": 3, "Sel": 0, "Mod": 1}, ["Reflexive", "Symmetric", "Emit"])
    conv_fut = pool.submit(run_small, chk, "ConvSet", "all", None, ["RoundTrip", "Emit", "EmitPaths"])
    impl_fut = pool.submit(run_impl_model, chk)
    enum, sim, cyc, conv = enum_fut.result(), sim_fut.result(), cyc_fut.result(), conv_fut.result()
    if len(cyc) != 512:
        raise C.Undecided("CycEq printed %d heaps, expected 512" % len(cyc))
    if not thorough:
        cyc = [c for i, c in enumerate(cyc) if (i + sd) % 4 == 0 or c["nx"] in ([1, 1, 1], [2, 1, 0], [2, 3, 1])]

    # 3. generated programs: fixed terms first (their findings activate the classes), then the seeded ones
    cases = {}
    for src_cases in (fixed, enum, sim):
        for k, c in src_cases.items():
            cases.setdefault(k, c)
    bulk = []
    ngated = 0
    navoided = {}
    for k, c in [(k, cases[k]) for k in sorted(fixed)] + [(k, c) for k, c in sorted(cases.items()) if k not in fixed]:
        if gated(c["term"]) and not gate_open:
            ngated += 1
            continue
        av = avoided(c["term"])
        if av:
            for a in av:
                navoided[a] = navoided.get(a, 0) + 1
            continue
        bulk.append(c)
    avoided_count = navoided
    chunk_size = 1000
    chunks = [bulk[i:i + chunk_size] for i in range(0, len(bulk), chunk_size)]
    C.log("C15: %d terms in %d program(s) (%d fixed, %d enumerated, %d simulated; %d gated away, avoided %s) after %.0fs" %
          (len(bulk), len(chunks), len(fixed), len(enum), len(sim), ngated, avoided_count, time.time() - t_start))
    if thorough:
        plan = lambda ci: ["none", VARIANTS[1 + (ci + sd) % 3]] if len(chunks) > 1 else VARIANTS
    else:
        plan = lambda ci: ["none", VARIANTS[1 + sd % 3]]
    jobs = []
    total_agreed = 0
    for ci, chunk in enumerate(chunks):
        prog = Program()
        for c in chunk:
            prog.add_case(c)
        stdin = tables_input(prog, cyc, conv) if ci == 0 else ""
        variants = plan(ci)
        refs = [(v, pool.submit(build_and_run, chk, "ref%d-%s" % (ci, v), prog.source(v, tables=(ci == 0)), stdin, "go"))
                for v in sorted(set(variants) | {"dyn"})]
        runs = [(v, pool.submit(build_and_run, chk, "llgo%d-%s" % (ci, v), prog.source(v, tables=(ci == 0)), stdin, "llgo"))
                for v in variants]
        jobs.append((ci, prog, refs, runs))
    neg_done = False
    all_variants = set()
    for ci, prog, refs, runs in jobs:
        rr = []
        for v, fut in refs:
            r = need_ref(fut.result(), "the generated program %d (%s)" % (ci, v))
            r["variant"] = v
            rr.append(r)
        agreed = reference_agreed(prog, rr, "bulk%d" % ci, chk)
        total_agreed += len(agreed)
        findings = []
        for v, fut in runs:
            run = fut.result()
            all_variants.add(v)
            okrun = judge_llgo_run(chk, prog, "bulk" if ci == 0 else "bulk%d" % ci, v, run, agreed, stats, findings)
            if okrun and not neg_done:
                neg_done = negative_control(prog, v, run, agreed)
        judge.activate(findings)
        judge.report(findings, prog)
    # 4. the small programs
    for nm in ("gate", "probe", "modpath"):
        if nm not in small:
            continue
        fut, ref_fut, var = small[nm]
        p = progs[nm]
        ref = need_ref(ref_fut.result(), "the %s program" % nm)
        ref["variant"] = var
        agreed = reference_agreed(p, [ref], nm, chk)
        run = fut.result()
        f = []
        if nm == "gate" and not run["ok"]:
            m = re.search(r"panic: [^\n]*", run["build_out"])
            C.log("C15: rejected " + gate_key)
            chk.reject(gate_key, "llgo's compiler fails on a program that mentions the type(s) %s: %s" %
                       ([c["key"] for c in gate_cases], m.group(0) if m else run["build_out"][-300:]),
                       {"terms": [c["key"] for c in gate_cases], "source": p.source(var, tables=False), "build_output": run["build_out"][-4000:]})
            continue
        if judge_llgo_run(chk, p, nm, var, run, agreed, stats, f) and not neg_done:
            neg_done = negative_control(p, var, run, agreed)
        if nm == "modpath":
            # one representative; the other lines are folded when they differ exactly by vmod for main
            keep = []
            for x in f:
                x["key"] = "module=vmod:" + x["key"]
            for x in f:
                if finding_key(x) != MODPATH_REP and x["got"] is not None and x["got"].replace("vmod", "main") == x["want"] \
                        and any(finding_key(y) == MODPATH_REP for y in f):
                    judge.folded["module-path-as-pkgpath"] = judge.folded.get("module-path-as-pkgpath", 0) + 1
                else:
                    keep.append(x)
            f = keep
        judge.activate(f)
        judge.report(f, p)
    if not neg_done:
        raise C.Undecided("no llgo program ran far enough for the negative control: nothing was compared")

    impl_fut.result()
    chk.cov["evaluations"] = stats["evaluations"] + nx
    chk.cov["distinct_nontrivial"] = total_agreed
    chk.cov["traces_validated_against_impl"] = stats["evaluations"]
    chk.cov["terms"] = len(bulk)
    chk.cov["terms_gated_away"] = ngated
    chk.cov["terms_avoided_known_class"] = avoided_count
    chk.cov["active_known_classes"] = sorted(judge.active)
    chk.cov["variants"] = sorted(all_variants)
    chk.cov["cyc_heaps"] = len(cyc)
    chk.cov["conv_set_cases"] = len(conv)
    for k in list(cases)[:3]:
        c = cases[k]
        chk.sample({"term": k, "queries": {q["n"]: q["r"] for q in c["q"][:6]},
                    "fmt": {f["n"]: spec_text(f["r"]) for f in c["vals"][1]["fm"][:6]} if len(c["vals"]) > 1 else {}})
    chk.assumptions += [
        "the driver's rendering of terms into Go source (typexpr/valexpr/render_decl) and the harness helpers; a rendering that "
        "does not mean what the specification means is caught by the reference self-validation (such lines are dropped and counted)",
        "package main is built under the module path 'main' so that package path and name coincide; the effect of another module path is probed separately",
        "methods of declared types read their receiver (probe), so a method invoked on a nil pointer panics and fmt prints <nil>",
        "fmt fragment: integral float64 only, no %e/%g, no width/precision/flags, no bad-verb texts, no addresses; panic texts are not compared, only the fact",
        "ConvSet models wrap-around for 8/16-bit targets and representable values for wider ones (TLC integers are 32-bit)",
        "two-word function values: no size/identity facts of func values are queried; non-nil func/chan values are not generated",
        "byte-to-hex transliteration of opaque text (<<hex:..>>) is done by the driver",
        "known-class folding: an instance is folded only if the class's representative (fixed term) fails in this run and the observed line "
        "equals the expected line under the class's exact rewriting (counts in folded_into_known_classes)",
    ]
    pool.shutdown(wait=False)


if __name__ == "__main__":
    C.main_wrapper("C15", check)

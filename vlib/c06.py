"""C06 - maps behave as finite maps under every operation history and key type.

Judge (layer A)   spec/maps/FiniteMap.tla           the map as a function from entries to values, key equality classes
                                                     (+0/-0, NaN, interface keys, unhashable), the range rule
                  spec/maps/FiniteMapTrace.tla      trace validation of histories recorded from llgo-compiled code
Cases             spec/maps/FiniteMapMC.tla         TLC enumerates every script of <= N tokens over 3 keys (4 key universes),
                                                     stand-alone model check of the range rule with witnesses of non-vacuity;
                  seeded random histories (50..3000 ops, thorough: up to tens of thousands of keys) sized to cross every
                  growth threshold, with mutations inside range loops
Real code         harness/c06/main.go compiled by the llgo built from the working tree (O0; thorough: O2*, nogc): one generic
                  script interpreter instantiated for 10 key types x 3 value sizes; logs every call's result and the scalars
                  of the runtime's hmap header.  Key types 6..8 (complex128, struct{c complex64; i int32}, [2]float32) carry
                  floating-point parts inside a complex number / aggregate (+0 = -0 per part, NaN in any part = a key that is
                  never found); besides the TLC-enumerated scripts and the seeded histories they get a FIXED family of
                  histories (seed-independent keys "fix:nangrow:..."): a range loop over a map holding NaN-keyed entries whose
                  body inserts enough keys to make the table grow
Layer B           spec/maps/MapGrowth.tla           scalar growth model (count, B, growing); drift is reported, never a verdict
Reference Go      runs the same scripts; its histories must be accepted by the spec too (else the spec is wrong: exit 2)
"""
import json
import os
import random
import shutil
import struct
import threading
import time

from . import common as C

SPEC = os.path.join(C.VERIF, "spec", "maps")
HARN = os.path.join(C.VERIF, "harness", "c06")

KT = ["int", "string", "float64", "any", "[2]int", "struct", "complex128", "cstruct", "[2]float32", "iface"]
NKT = len(KT)
PART_TY = {"complex64", "complex128", "cstruct", "[2]float32"}      # keys compared part by part (FiniteMap.PartTy)
NAN_KT = (2, 3, 6, 7, 8)                                            # key types whose universe has NaN keys
KT_IFACE = 9          # map[keyer]V, keyer = interface{ id() int }: dynamic types *cell, pbox = struct{p *cell}, ival, sbox, nil
NCELLS = 4096
PTR_TY = {"*cell", "pbox"}                                          # pointer-shaped dynamic types (FiniteMap.PtrTy)
VT = ["z", "i", "b"]          # struct{} (0 bytes), int (8), [17]int64 (136, stored indirectly)
STRLENS = [0, 1, 3, 4, 6, 8, 12, 16, 17, 40, 49, 100]
ALPHA = "abcdefghijklmnopqrstuvwxyz"
MININT = -(1 << 63)

# --------------------------------------------------------------------------- key universes (mirror of harness/c06/main.go)


def ftoken(bits):
    if bits == 0:
        return "+0"
    if bits == 1 << 63:
        return "-0"
    if (bits >> 52) & 0x7ff == 0x7ff and bits & ((1 << 52) - 1):
        return "NaN"
    return "b%016x" % bits


def f64bits(i):
    sp = {0: 0, 1: 1 << 63, 2: 0x7ff8000000000001, 3: 0x7ff0000000000000, 4: 0xfff0000000000000, 5: 0xfff8000000000000, 6: 1}
    if i in sp:
        return sp[i]
    return struct.unpack(">Q", struct.pack(">d", (i - 6) * 0.5))[0]


def f32token(bits):
    if bits == 0:
        return "+0"
    if bits == 1 << 31:
        return "-0"
    if (bits >> 23) & 0xff == 0xff and bits & ((1 << 23) - 1):
        return "NaN"
    return "b%08x" % bits


def f32b(x):
    return struct.unpack(">I", struct.pack(">f", x))[0]


def f64b(x):
    return struct.unpack(">Q", struct.pack(">d", x))[0]


PZ, NZ, NAN, NAN2, PINF, NINF = 0, 1 << 63, 0x7ff8000000000001, 0xfff8000000000000, 0x7ff0000000000000, 0xfff0000000000000
PZ32, NZ32, NAN32 = 0, 1 << 31, 0x7fc00001
C128 = [(PZ, PZ), (NAN, PZ), (NZ, NZ), (PZ, NAN), (PZ, NZ), (NAN, NAN), (f64b(1.0), NAN), (PINF, NZ), (NZ, f64b(1.0)),
        (PZ, f64b(1.0)), (NAN2, f64b(2.0)), (NINF, PINF)]
CST = [(PZ32, PZ32, 0), (NAN32, PZ32, 0), (NZ32, PZ32, 0), (PZ32, NAN32, 1), (PZ32, NZ32, 1), (NAN32, f32b(1.0), 0),
       (NZ32, NZ32, 1), (f32b(1.0), NZ32, -1), (f32b(1.0), PZ32, -1)]
A2F = [(PZ32, PZ32), (NAN32, PZ32), (NZ32, PZ32), (PZ32, NAN32), (NZ32, NZ32), (NAN32, NAN32), (f32b(1.0), NZ32),
       (f32b(1.0), PZ32), (0x7f800000, 0xffc00000), (0xff800000, 0x7f800000)]


def key_c128(i):
    re_, im_ = C128[i] if i < len(C128) else (f64b((i - 10) * 0.5), f64b(float(i % 5 - 2)))
    return ("complex128", "%s,%s" % (ftoken(re_), ftoken(im_)))


def key_cst(i):
    re_, im_, n = CST[i] if i < len(CST) else (f32b(float(i // 3)), f32b(float(i % 3)), i % 2)
    return ("cstruct", "%s,%s;%d" % (f32token(re_), f32token(im_), n))


def key_a2f(i):
    a, b = A2F[i] if i < len(A2F) else (f32b(i * 0.5), f32b(float(-(i % 4))) if i % 4 else 0)
    return ("[2]float32", "%s,%s" % (f32token(a), f32token(b)))


def key_str(i):
    if i == 0:
        return ""
    s = "k%d" % i
    n = STRLENS[i % 12]
    while len(s) < n:
        s += ALPHA[:min(26, n - len(s))]
    return s


def key_int(i):
    return {0: 0, 1: -1, 2: MININT, 3: (1 << 63) - 1}.get(i, i)


_keycache = {}


def key_tok(kt, i):
    """(ty, x) of key number i of key type kt"""
    c = _keycache.get((kt, i))
    if c is None:
        c = _key_tok(kt, i)
        if len(_keycache) < 400000:
            _keycache[(kt, i)] = c
    return c


def _key_tok(kt, i):
    if kt == 0:
        return ("int", str(key_int(i)))
    if kt == 1:
        return ("string", key_str(i))
    if kt == 2:
        return ("float64", ftoken(f64bits(i)))
    if kt == 4:
        return ("[2]int", "%d,%d" % (i, -i))
    if kt == 5:
        return ("struct", "%d,s%d" % (i % 4, i // 4))
    if kt == 6:
        return key_c128(i)
    if kt == 7:
        return key_cst(i)
    if kt == 8:
        return key_a2f(i)
    if kt == KT_IFACE:
        n, d = divmod(i, 4)
        if n >= NCELLS:
            return ("ival", str(i))
        if d == 0:
            return ("*cell", str(n))
        if d == 1:
            return ("pbox", str(n))
        if d == 2:
            return ("ival", str(n))
        return ("nil", "nil") if n == 0 else ("sbox", key_str(n))
    n, d = divmod(i, 10)
    if d == 0:
        return ("int", str(n))
    if d == 1:
        return ("int64", str(n))
    if d == 2:
        return ("string", key_str(n))
    if d == 3:
        return ("float64", ftoken(f64bits(n)))
    if d == 4:
        return ("[2]int", "%d,%d" % (n, -n))
    if d == 5:
        return ("struct", "%d,s%d" % (n % 4, n // 4))
    if d == 6:
        return ("nil", "nil") if n == 0 else ("uint8", str(n % 256))
    if d == 7:
        if n < 2:
            return ("bool", str(n))
        return ("complex64", CPLX[n % 8])     # complex keys: both parts compare as floats (+0 = -0)
    if d == 8:
        return {0: ("wrap/[]int", "0"), 1: ("wrap/float64", "+0"), 2: ("wrap/float64", "-0"),
                3: ("wrap/float64", "NaN")}.get(n, ("wrap/int", str(n)))
    return {0: ("[]int", "0"), 1: ("map[int]int", "0"), 2: ("func()", "0")}.get(n, ("int32", str(n)))


CPLX = ["+0,+0", "-0,+0", "+0,-0", "-0,-0", "1,+0", "1,-0", "+0,2", "-0,2"]

UNHASHABLE = {"[]int", "map[int]int", "func()", "wrap/[]int"}


def parts(k):
    """(floating-point part tokens, token of the other components) of a key compared part by part"""
    fp, _, rest = k[1].partition(";")
    return fp.split(","), rest


def tok_is_nan(k):
    if k[0] in PART_TY:
        return "NaN" in parts(k)[0]
    return k[1] == "NaN"


def is_nan(kt, i):
    return tok_is_nan(key_tok(kt, i))


def unhex(t):
    try:
        return bytes.fromhex(t[1:]).decode("utf-8")
    except Exception:
        return "?hex:" + t


def parse_key(tok, p, dyn=False):
    """parse the interpreter's printed key starting at tok[p]; returns ((ty, x), next p)"""
    t = tok[p]
    if dyn:
        if t == "N":
            return ("nil", "nil"), p + 1
        if not t.startswith("a"):
            return ("?", t), p + 1
        t = t[1:]
        if t == "C":
            def part(bits):
                return {0: "+0", 1 << 31: "-0", 0x3f800000: "1", 0x40000000: "2"}.get(bits, "b%08x" % bits)
            return ("complex64", "%s,%s" % (part(int(tok[p + 1])), part(int(tok[p + 2])))), p + 3
        if t in ("L", "J", "B", "Z"):
            return ({"L": "int64", "J": "int32", "B": "uint8", "Z": "bool"}[t], str(int(tok[p + 1]))), p + 2
        if t == "W":
            (ty, x), q = parse_key(tok, p + 1, True)
            return ("wrap/" + ty, x), q
        if t == "U":
            return ({"0": "[]int", "1": "map[int]int", "2": "func()"}.get(tok[p + 1], "?"), "0"), p + 2
    if t == "I":
        return ("int", str(int(tok[p + 1]))), p + 2
    if t == "S":
        return ("string", unhex(tok[p + 1])), p + 2
    if t == "F":
        return ("float64", ftoken(int(tok[p + 1]))), p + 2
    if t == "A":
        return ("[2]int", "%d,%d" % (int(tok[p + 1]), int(tok[p + 2]))), p + 3
    if t == "T":
        return ("struct", "%d,%s" % (int(tok[p + 1]), unhex(tok[p + 2]))), p + 3
    if t in ("kC", "kB", "kI"):
        return ({"kC": "*cell", "kB": "pbox", "kI": "ival"}[t], str(int(tok[p + 1]))), p + 2
    if t == "kS":
        return ("sbox", unhex(tok[p + 1])), p + 2
    if t == "kN":
        return ("nil", "nil"), p + 1
    if t == "X":
        return ("complex128", "%s,%s" % (ftoken(int(tok[p + 1])), ftoken(int(tok[p + 2])))), p + 3
    if t == "V":
        return ("cstruct", "%s,%s;%d" % (f32token(int(tok[p + 1])), f32token(int(tok[p + 2])), int(tok[p + 3]))), p + 4
    if t == "P":
        return ("[2]float32", "%s,%s" % (f32token(int(tok[p + 1])), f32token(int(tok[p + 2])))), p + 3
    return ("?", t), p + 1


def kj(k):
    if k[0] in PART_TY:
        fp, rest = parts(k)
        return {"ty": k[0], "x": k[1], "fp": fp, "rest": rest}
    return {"ty": k[0], "x": k[1]}


# --------------------------------------------------------------------------- scripts

class Script:
    """lines = interpreter ops; meta describes where it came from (stable key for findings)"""
    __slots__ = ("id", "kt", "vt", "lines", "key", "kind", "maxkey")

    def __init__(self, kt, vt, lines, key, kind):
        self.kt, self.vt, self.lines, self.key, self.kind = kt, vt, lines, key, kind
        self.id = 0
        self.maxkey = 0

    def text(self):
        return "S %d %d\n%s\nX\n" % (self.id, self.kt * 3 + self.vt, "\n".join(self.lines))


# the 3-key universes of FiniteMapMC -> (key type, key numbers) in the interpreter
UNIVERSES = {
    "int": [(0, [4, 5, 6]), (1, [4, 5, 6]), (4, [4, 5, 6]), (5, [4, 5, 6])],   # three plain distinct keys, replayed on 4 key types
    "f64": [(2, [0, 1, 2])],                                                  # +0, -0, NaN
    "any": [(3, [10, 11, 9])],                                                # any(int(1)), any(int64(1)), any([]int)
    "anyc": [(3, [27, 37, 47])],                                               # any(complex64(+0,-0)), any(complex64(-0,-0)), any(complex64(1,+0))
    "anyf": [(3, [13, 18, 8])],                                               # any(-0.0), any(wrap{+0.0}), any(wrap{[]int})
    # floating-point parts inside complex numbers / aggregates (key types 6..8)
    "c128": [(6, [4, 2, 1])],                                                 # +0-0i, -0-0i (one key), NaN+0i
    "c128i": [(6, [3, 8, 9])],                                                # +0+NaNi, -0+1i, +0+1i (one key)
    "cst": [(7, [2, 0, 3])],                                                  # {-0+0i,0}, {+0+0i,0} (one key), {+0+NaNi,1}
    "a2f": [(8, [1, 6, 7])],                                                  # {NaN,+0}, {1,-0}, {1,+0} (one key)
    # interface with a method: keyer(&cells[1]), keyer(pbox{&cells[1]}), keyer(ival(1)); token W = write to the pointee
    "ifc": [(KT_IFACE, [4, 5, 6])],
}
NEW_UNIVERSES = ("c128", "c128i", "cst", "a2f", "ifc")
# quick tier: enumerated scripts replayed per (universe, key type); default 500.  (The plain universe on [2]int and struct
# keys was 500 too before the part-wise and interface universes were added: the budget moved there.)
EXH_CAP = {"c128": 240, "c128i": 240, "cst": 240, "a2f": 240, "ifc": 380, ("int", 4): 300, ("int", 5): 300}


def probe(keys, inner=False):
    """observation appended where an enumerated script ends: every key, len, and (outside a loop) a complete loop"""
    if inner:
        return ["G %d" % k for k in keys] + ["L"]
    return ["G %d" % k for k in keys] + ["H %d" % keys[0], "L", "R 0 0", "E"]


def tokens_to_lines(toks, keys):
    """abstract script (FiniteMapMC tokens) -> interpreter ops.  Ops after the n-th Y run in the loop body after the n-th
    produced entry; a loop still open at the end is run to completion; a probe of every key, len and a full (nested)
    loop is appended where the script ends."""
    lines = []
    inloop = False
    ny = 0
    rpos = -1
    for pos, t in enumerate(toks):
        o, a = t["o"], t["a"]
        v = pos + 1
        if o == "F":
            lines += ["M 0"] + ["I %d %d" % (keys[j], 101 + j) for j in range(3)]
        elif o == "M":
            lines.append("M 0")
        elif o == "I":
            lines.append("I %d %d" % (keys[a - 1], v))
        elif o == "D":
            lines.append("D %d" % keys[a - 1])
        elif o == "G":
            lines.append("G %d" % keys[a - 1])
        elif o == "H":
            lines.append("H %d" % keys[a - 1])
        elif o == "L":
            lines.append("L")
        elif o == "C":
            lines.append("C")
        elif o == "W":
            lines.append("W %d" % keys[a - 1])
        elif o == "RS":
            rpos = len(lines)
            lines.append("R 0 0")
            inloop, ny = True, 0
        elif o == "Y":
            ny += 1
            lines.append("@ %d" % ny)
        elif o == "RE":
            lines.append("E")
            inloop = False
        elif o == "RB":
            lines[rpos] = "R %d 0" % ny
            lines.append("E")
            inloop = False
    if inloop:
        if ny == 0:
            lines.append("@ 1")
        lines += probe(keys, True)
        lines.append("E")
    lines += probe(keys)
    return lines


def tokstr(toks):
    return ".".join(t["o"] + (str(t["a"]) if t["a"] else "") for t in toks)


class Gen:
    """seeded random history over key numbers [0, U) of one key type; keeps an approximate picture of the map only to
    choose meaningful operations (the verdict never depends on it)"""

    def __init__(self, rng, kt, vt, U, nan_budget, loops=True, keyonly=True):
        self.r, self.kt, self.vt, self.U = rng, kt, vt, U
        self.present = []          # key numbers believed present (may be stale)
        self.pset = set()
        self.ctr = 0
        self.lines = []
        self.nil = True
        self.nan_left = nan_budget
        self.loops = loops
        self.keyonly = keyonly
        self.fresh = 0
        self.maxkey = 0

    def emit(self, s):
        self.lines.append(s)

    def _key(self, fresh_p):
        r = self.r
        if self.present and r.random() > fresh_p:
            return r.choice(self.present)
        for _ in range(8):
            if r.random() < 0.7 and self.fresh < self.U:
                k = self.fresh
                self.fresh += 1
            else:
                k = r.randrange(self.U)
            if is_nan(self.kt, k):
                if self.nan_left <= 0:
                    continue
            return k
        return 4

    def ins(self, fresh_p=0.6):
        k = self._key(fresh_p)
        if is_nan(self.kt, k):
            if self.nan_left <= 0:
                return
            self.nan_left -= 1
        self.ctr += 1
        self.maxkey = max(self.maxkey, k)
        self.emit("I %d %d" % (k, self.ctr))
        if k not in self.pset and not self.nil:
            self.pset.add(k)
            self.present.append(k)

    def dele(self, fresh_p=0.15):
        k = self._key(fresh_p)
        self.maxkey = max(self.maxkey, k)
        self.emit("D %d" % k)
        if k in self.pset:
            self.pset.discard(k)
            # O(1) removal
            i = self.present.index(k) if len(self.present) < 64 else None
            if i is None:
                try:
                    self.present.remove(k)
                except ValueError:
                    pass
            else:
                self.present[i] = self.present[-1]
                self.present.pop()

    def get(self):
        k = self._key(0.3)
        self.maxkey = max(self.maxkey, k)
        self.emit(("G %d" if self.r.random() < 0.75 else "H %d") % k)

    def clear(self):
        self.emit("C")
        self.present, self.pset = [], set()

    def make(self):
        hint = self.r.choice([0, 0, -1, 1, 8, 9, 13, 14, 53, 100, 1000])
        self.emit("M %d" % hint)
        self.nil = False
        self.present, self.pset = [], set()

    def op(self, w, depth):
        """one operation chosen by weights w = (ins, del, get, len, clear, loop, nilmake)"""
        r = self.r
        if self.kt == KT_IFACE and self.present and r.random() < 0.3:
            self.emit("W %d" % r.choice(self.present))      # write to the variable a present pointer key points to
        x = r.random() * sum(w)
        for i, wi in enumerate(w):
            x -= wi
            if x < 0:
                break
        if i == 0:
            self.ins()
        elif i == 1:
            self.dele()
        elif i == 2:
            self.get()
        elif i == 3:
            self.emit("L")
        elif i == 4:
            self.clear()
        elif i == 5:
            if self.loops and depth < 2:
                self.loop(w, depth)
            else:
                self.get()
        else:
            if depth == 0:
                if r.random() < 0.3:
                    self.emit("Z")
                    self.nil = True
                    self.present, self.pset = [], set()
                else:
                    self.make()
            else:
                self.get()

    def loop(self, w, depth, burst=0):
        r = self.r
        size = len(self.present)
        brk = 0
        if r.random() < 0.25:
            brk = r.randint(1, max(1, size))
        mode = 1 if (self.keyonly and r.random() < 0.2) else 0
        self.emit("R %d %d" % (brk, mode))
        nseg = r.choice([0, 1, 1, 2, 2, 3, 5])
        hi = brk if brk else max(2, size + 3)      # nothing runs after the break
        js = sorted(set(r.randint(1, hi) for _ in range(nseg)))
        for j in js:
            self.emit("@ %d" % j)
            if burst and r.random() < 0.6:
                # enough fresh insertions to make the table grow while the loop is running
                for _ in range(burst):
                    self.ins(1.0)
                continue
            for _ in range(r.choice([1, 1, 2, 3, 5, 8])):
                self.op(w, depth + 1)
        self.emit("E")


PROFILES = ("mixed", "grow", "churn", "nan", "clearloop")     # + "wipe" (planned explicitly), "big" (thorough only)


def gen_random(rng, profile, kt, vt, length, tag):
    """one seeded history; returns Script"""
    r = rng
    if profile == "mixed":
        g = Gen(r, kt, vt, r.choice([3, 5, 8, 12, 24, 40]), nan_budget=4)
        w = (35, 20, 15, 5, 2, 14, 2)
        while len(g.lines) < length:
            g.op(w, 0)
    elif profile == "grow":
        # insert-heavy up to a target crossing the load-factor thresholds 8, 13.2^B (6.5 per bucket), then shrink, then regrow
        target = r.choice([9, 14, 27, 54, 106, 210, 418, 834]) if length < 2500 else max(834, length // 2)
        target = min(target, max(9, length // 2))
        g = Gen(r, kt, vt, 4 * target + 16, nan_budget=3 if kt < 6 else 6)
        g.make() if r.random() < 0.8 else g.emit("M 0")
        g.nil = False
        phase_up = True
        while len(g.lines) < length:
            n = len(g.present)
            if phase_up and n >= target:
                phase_up = False
            if not phase_up and n <= target // 8:
                phase_up = True
            x = r.random()
            if x < 0.03 * min(1.0, 80.0 / max(n, 1)):
                g.loop((50, 20, 20, 3, 0.5, 5, 0), 0, burst=r.choice([0, 8, 16, max(8, n)]) if n < 600 else 0)
            elif x < 0.08:
                g.emit("R %d %d" % (r.randint(1, 3), 0))      # short loop: often starts while the table is growing
                if r.random() < 0.5:
                    g.emit("@ 1")
                    for _ in range(r.choice([1, 4, 12])):
                        g.ins(1.0)
                g.emit("E")
            elif phase_up:
                g.op((70, 8, 17, 3, 0, 0, 0), 0)
            else:
                g.op((10, 65, 20, 3, 0.3, 0, 0), 0)
    elif profile == "wipe":
        # fill to just below a growth threshold (long overflow chains), then delete every key in random order while
        # looking up keys that are still there: a delete must not make the rest of a bucket chain unreachable
        B = r.choice([5, 6, 7]) if length < 4000 else r.choice([7, 8, 9])
        size = 6 * (1 << B) - r.choice([0, 1])
        g = Gen(r, kt, vt, 1 << 30, nan_budget=0)
        g.emit("M 0")
        g.nil = False
        while len(g.present) < size:
            g.ins(1.0)
        order = list(g.present)
        r.shuffle(order)
        alive = set(order)
        for n, k in enumerate(order):
            g.emit("D %d" % k)
            alive.discard(k)
            if alive and n % 3 == 0:
                probe_k = order[r.randrange(n + 1, len(order))] if n + 1 < len(order) else k
                g.emit("G %d" % probe_k)
            if n % 97 == 0:
                g.emit("L")
            if alive and n in (len(order) // 3, 2 * len(order) // 3):
                # re-assign what is left: a key that can no longer be found would be entered a second time
                for k2 in sorted(alive)[:200]:
                    g.ctr += 1
                    g.emit("I %d %d" % (k2, g.ctr))
                g.emit("L")
        g.present, g.pset = [], set()
        g.emit("L")
    elif profile == "churn":
        # stay just below a growth threshold and replace entries: chains get overflow buckets -> same-size growth
        # (llgo's map.go grows at count+1 > 6*2^B; upstream Go at 6.5*2^B: 6*2^B - {0,1} is below both)
        B = r.choice([2, 3]) if length < 4000 else r.choice([3, 4, 5])
        size = 6 * (1 << B) - r.choice([0, 1, 1])
        g = Gen(r, kt, vt, 1 << 30, nan_budget=0)
        g.emit("M %d" % r.choice([0, size]))
        g.nil = False
        while len(g.present) < size and len(g.lines) < length:
            g.ins(1.0)
        w = (45, 45, 8, 2, 0, 0, 0)
        while len(g.lines) < length:
            x = r.random()
            if x < 0.07:
                # short loops (cheap, many: some start while a growth is running) and a few complete ones
                full = r.random() < 0.25
                brk = 0 if full else r.randint(1, 4)
                g.emit("R %d %d" % (brk, 0))
                for j in sorted(set(r.randint(1, size if full else brk) for _ in range(r.choice([0, 1, 2])))):
                    g.emit("@ %d" % j)
                    for _ in range(r.choice([1, 2, 4, 8])):
                        g.emit("P")
                        g.ins(1.0)
                    if r.random() < 0.3:
                        g.emit("R %d 0" % r.randint(1, 3))
                        g.emit("E")
                g.emit("E")
            elif x < 0.12:
                g.get()
            elif x < 0.13:
                g.emit("L")
            else:
                g.emit("P")          # delete whichever entry a loop produces first, insert a new key: count stays
                g.ins(1.0)
    elif profile == "nan":
        # many NaN entries (each insertion a new entry) among +0/-0/Inf and ordinary keys; values are distinct, so the
        # entry a produced NaN stands for is identified by its value
        many = vt != 0
        g = Gen(r, kt, vt, r.choice([8, 30, 80]), nan_budget=(r.choice([6, 20, 60, 150]) if many else 5), keyonly=not many)
        g.make()
        nanidx = [i for i in range(0, 80) if is_nan(kt, i)]
        while len(g.lines) < length:
            x = r.random()
            if x < 0.35 and nanidx and g.nan_left > 0:
                g.nan_left -= 1
                g.ctr += 1
                k = r.choice(nanidx)
                g.maxkey = max(g.maxkey, k)
                g.emit("I %d %d" % (k, g.ctr))
            elif x < 0.42 and nanidx:
                g.emit(r.choice(["G %d", "D %d", "H %d"]) % r.choice(nanidx))
            else:
                g.op((30, 15, 15, 5, 0.7, 12, 0), 0)
    elif profile == "big":
        # thousands of live entries (B up to 11): `length` fresh keys with lookups and short loops on the way up, then some
        # deletions.  (TLC re-fingerprints the whole model map in every state, so the live size is what bounds this.)
        g = Gen(r, kt, vt, 1 << 30, nan_budget=0)
        g.emit("M %d" % r.choice([0, 0, 5000]))
        g.nil = False
        for n in range(length):
            g.ins(1.0)
            x = r.random()
            if x < 0.08:
                g.get()
            elif x < 0.10:
                g.emit("R %d 0" % r.randint(1, 3))
                if r.random() < 0.5:
                    g.emit("@ 1")
                    for _ in range(r.choice([1, 3, 9])):
                        g.ins(1.0)
                g.emit("E")
            elif x < 0.105:
                g.emit("L")
        for _ in range(length // 10):
            if r.random() < 0.5:
                g.emit("P")
            else:
                g.dele(0.0)
        g.emit("L")
        g.emit("R 100 0")
        g.emit("E")
        sc = Script(kt, vt, g.lines, "rnd:%s:%s:%s:%s" % (profile, KT[kt], VT[vt], tag), "rnd:" + profile)
        sc.maxkey = 0
        return sc
    else:  # clearloop: clear / delete-everything / refill inside running loops
        g = Gen(r, kt, vt, r.choice([6, 20, 60, 200]), nan_budget=3)
        g.make()
        while len(g.lines) < length:
            for _ in range(r.randint(1, g.U)):
                g.ins(0.9)
            g.emit("R %d %d" % (0 if r.random() < 0.8 else r.randint(1, 5), 0))
            for j in sorted(set(r.randint(1, max(2, len(g.present))) for _ in range(r.randint(1, 3)))):
                g.emit("@ %d" % j)
                y = r.random()
                if y < 0.4:
                    g.clear()
                    for _ in range(r.choice([0, 1, 3, 9, 30])):
                        g.ins(r.choice([0.0, 1.0]))
                elif y < 0.7:
                    for k in list(g.present):
                        g.emit("D %d" % k)
                    g.present, g.pset = [], set()
                    for _ in range(r.choice([0, 1, 3, 9])):
                        g.ins(1.0)
                else:
                    for _ in range(r.randint(1, 2 * len(g.present) + 2)):
                        g.ins(1.0)
            g.emit("E")
            g.emit("L")
            for _ in range(r.randint(0, 4)):
                g.get()
    # close with a full observation: len and one complete loop
    g.emit("L")
    g.emit("R 0 0")
    g.emit("E")
    sc = Script(kt, vt, g.lines, "rnd:%s:%s:%s:%s" % (profile, KT[kt], VT[vt], tag), "rnd:" + profile)
    sc.maxkey = g.maxkey
    return sc


# --------------------------------------------------------------------------- fixed histories (seed-independent keys)

def fixed_nangrow():
    """A range loop over a map that holds N NaN-keyed entries (NaN = a key with a NaN in some floating-point part) and
    three ordinary ones; the body run after the J-th produced entry inserts B fresh keys (the table grows at least once
    while the loop is running), looks up and deletes NaN keys (no effect).  Every entry present at the start must still be
    produced exactly once.  Same scripts on every run: keys fix:nangrow:<key type>:<value type>:n<N>.b<B>.j<J>"""
    out = []
    for kt in NAN_KT:
        nanidx = [i for i in range(120) if is_nan(kt, i)][:6]
        if kt >= 6:
            variants = [(n, b, j, 1) for n in (4, 7, 8, 12) for b in (9, 40) for j in (1, 3)] + \
                       [(30, 40, 1, 1), (7, 9, 1, 0), (7, 40, 3, 0), (7, 9, 1, 2), (7, 40, 3, 2), (12, 120, 2, 2)]
        else:       # float64 and any: their NaN keys are also in the seeded "nan" histories
            variants = [(4, 9, 1, 1), (8, 40, 3, 1), (12, 40, 1, 1), (7, 9, 1, 0), (7, 40, 3, 2), (12, 120, 2, 2)]
        for (n, b, j, vt) in variants:
            lines = ["M 0"]
            v = 0
            for i in range(n):
                v += 1
                lines.append("I %d %d" % (nanidx[i % len(nanidx)], v))
            for k in (0, 2, 4):
                v += 1
                lines.append("I %d %d" % (k, v))
            lines += ["L", "R 0 0", "@ %d" % j]
            for i in range(b):
                v += 1
                lines.append("I %d %d" % (200 + i, v))
            lines += ["G %d" % nanidx[0], "D %d" % nanidx[-1], "L", "E", "L", "R 0 0", "E"]
            sc = Script(kt, vt, lines, "fix:nangrow:%s:%s:n%d.b%d.j%d" % (KT[kt], VT[vt], n, b, j), "fix:nangrow")
            sc.maxkey = 200 + b
            out.append(sc)
    return out


def fixed_poke():
    """map[keyer]V (interface with a method) with keys of the pointer-shaped dynamic types *cell and struct{p *cell}, an
    integer, a string struct and nil: the variables the pointer keys point to are written between storing a key and using
    it again; every key must still be found, re-assigning must not add an entry, delete must remove it.
    keys fix:poke:iface:<value type>:n<N>[.loop]"""
    out = []
    for (n, vt, loop) in [(3, 1, False), (8, 1, False), (8, 0, False), (8, 2, False), (20, 1, False), (60, 1, False), (200, 1, False),
                          (8, 1, True), (60, 2, True)]:
        keys = list(range(n))
        lines = ["M 0"]
        v = 0
        for k in keys:
            v += 1
            lines.append("I %d %d" % (k, v))
        lines += ["L"] + ["W %d" % k for k in keys if k % 4 == 0]
        lines += ["G %d" % k for k in keys] + ["L"]
        if loop:
            lines += ["R 0 0", "@ 2"] + ["W %d" % k for k in keys if k % 4 == 0] + ["I %d %d" % (k, 1000 + k) for k in keys[:12]]
            lines += ["@ 3"] + ["D %d" % k for k in keys[:12:2]] + ["E", "L"]
        for k in keys:
            v += 1
            lines.append("I %d %d" % (k, v))           # re-assign: no new entry
        lines += ["L"] + ["W %d" % k for k in keys if k % 4 == 0]
        lines += ["H %d" % k for k in keys[: 16]]
        lines += ["D %d" % k for k in keys[::2]] + ["L", "R 0 0", "E"]
        lines += ["G %d" % k for k in keys[: 16]]
        sc = Script(KT_IFACE, vt, lines, "fix:poke:iface:%s:n%d%s" % (VT[vt], n, ".loop" if loop else ""), "fix:poke")
        sc.maxkey = n
        out.append(sc)
    return out


# --------------------------------------------------------------------------- running the interpreter, log -> trace

def run_scripts(exe, scripts, hdr, rd, label, timeout):
    """feed all scripts to one interpreter process; on a crash continue after the crashed script.
    returns ({script id: [log lines]}, [(script id, status, tail)])"""
    logs = {}
    crashes = []
    todo = list(scripts)
    rounds = 0
    while todo:
        rounds += 1
        if rounds > 12:
            raise C.Undecided("%s: interpreter keeps dying" % label)
        inp = "Q %d\n" % (1 if hdr else 0) + "".join(s.text() for s in todo)
        st, out, _ = C.run_exe(exe, stdin=inp.encode(), timeout=timeout, merge=True)
        cur = None
        done_ids = set()
        for line in out.split("\n"):
            if not line:
                continue
            if line.startswith("S "):
                try:
                    cur = int(line[2:])
                except ValueError:
                    cur = None
                    continue
                logs[cur] = []
            elif line.startswith("X "):
                done_ids.add(cur)
                cur = None
            elif cur is not None:
                logs[cur].append(line)
        if st == 0 and len(done_ids) == len(todo):
            break
        # the script that was running when the process died (or the first one without an end marker)
        bad = None
        for s in todo:
            if s.id not in done_ids:
                bad = s
                break
        if bad is None:
            raise C.Undecided("%s: interpreter exit status %s but every script completed" % (label, st))
        crashes.append((bad.id, st, "\n".join((logs.get(bad.id) or [])[-5:]) + "\n" + out[-600:]))
        logs.pop(bad.id, None)
        todo = [s for s in todo if s.id not in done_ids and s.id != bad.id]
    return logs, crashes


R = {"0": "ok", "1": "panic"}


def to_events(sc, log):
    """interpreter log lines -> FiniteMapTrace events (+ hmap scalars for layer B)"""
    ev = []
    kt, vt = sc.kt, sc.vt
    dyn = kt == 3
    for line in log:
        t = line.split(" ")
        c = t[0]
        if c == "I":
            v = int(t[2]) if vt else 0
            e = {"o": "ins", "k": kj(key_tok(kt, int(t[1]))), "v": v, "r": R.get(t[3], "?")}
            h = t[4:8]
        elif c == "D":
            e = {"o": "del", "k": kj(key_tok(kt, int(t[1]))), "r": R.get(t[2], "?")}
            h = t[3:7]
        elif c == "G":
            e = {"o": "get2", "k": kj(key_tok(kt, int(t[1]))), "r": R.get(t[2], "?"), "v": int(t[3]), "ok": t[4] == "1"}
            h = t[5:9]
        elif c == "H":
            e = {"o": "get1", "k": kj(key_tok(kt, int(t[1]))), "r": R.get(t[2], "?"), "v": int(t[3])}
            h = t[4:8]
        elif c == "L":
            e = {"o": "len", "n": int(t[1])}
            h = t[2:6]
        elif c == "C":
            e = {"o": "clear", "r": R.get(t[1], "?")}
            h = t[2:6]
        elif c == "W":
            e = {"o": "poke", "k": kj(key_tok(kt, int(t[1])))}
            h = t[2:6]
        elif c == "M":
            e = {"o": "make"}
            h = t[1:5]
        elif c == "Z":
            e = {"o": "nil"}
            h = t[1:5]
        elif c == "RS":
            e = {"o": "rs", "i": int(t[1])}
            h = t[2:6]
        elif c == "Y":
            k, p = parse_key(t, 3, dyn)
            e = {"o": "y", "i": int(t[1]), "k": kj(k), "v": int(t[2]), "hv": True}
            h = t[p:p + 4]
        elif c == "K":
            k, p = parse_key(t, 2, dyn)
            e = {"o": "y", "i": int(t[1]), "k": kj(k), "v": 0, "hv": False}
            h = t[p:p + 4]
        elif c == "PD":
            k, p = parse_key(t, 2, dyn)
            e = {"o": "del", "k": kj(k), "r": R.get(t[1], "?")}
            h = t[p:p + 4]
        elif c == "RE":
            e = {"o": "re", "i": int(t[1]), "done": t[2] == "1"}
            if t[2] == "2":
                e["o"] = "runaway"       # no action of the spec: the loop produced more than every entry once
            h = t[3:7]
        else:
            e = {"o": "garbage:" + line[:40]}
            h = ["-1", "0", "0", "0"]
        hh = [int(x) for x in h]
        e["c"] = hh[0]
        e["hB"], e["hg"], e["ho"] = hh[1], hh[2], hh[3]
        ev.append(e)
    return ev


def strip_b(ev):
    """events as FiniteMapTrace sees them (layer-B scalars removed)"""
    out = []
    for e in ev:
        d = {k: v for k, v in e.items() if k not in ("hB", "hg", "ho")}
        out.append(d)
    return out


# --------------------------------------------------------------------------- TLC pieces

def write_cfg(path, body):
    with open(path, "w") as f:
        f.write(body)


def tlc_generate(chk, rd, universe, maxops):
    cfg = os.path.join(rd, "gen_%s_%d.cfg" % (universe, maxops))
    write_cfg(cfg, "SPECIFICATION Spec\nCONSTANTS\n  KU <- KU_%s\n  MaxOps = %d\n  Reads = FALSE\n"
                   "INVARIANTS RangeInv AtMostOnce Emit\nCHECK_DEADLOCK FALSE\n" % (universe, maxops))
    res = C.tlc(SPEC, "FiniteMapMC", cfg, rd, workers=max(2, C.NCPU // 4), timeout=1500, parse_json=False,
                java_opts="-Xss64m -XX:ParallelGCThreads=2")
    if not res.ok:
        raise C.Undecided("FiniteMapMC(%s) violated its own invariant: %s" % (universe, res.violation))
    scripts = {}
    wit = {}
    blocked = 0
    for rec in C.tlc_printed_iter(res):
        s = rec["s"]
        scripts.setdefault(tokstr(s), s)
        for w in rec["w"]:
            wit[w] = wit.get(w, 0) + 1
        if rec["b"]:
            blocked += 1
    return res, scripts, wit, blocked


def tlc_modelcheck(chk, rd, universe, maxops):
    cfg = os.path.join(rd, "mc_%s_%d.cfg" % (universe, maxops))
    write_cfg(cfg, "SPECIFICATION Spec\nCONSTANTS\n  KU <- KU_%s\n  MaxOps = %d\n  Reads = TRUE\n"
                   "INVARIANTS RangeInv AtMostOnce EmitWit\nVIEW View\nCHECK_DEADLOCK FALSE\n" % (universe, maxops))
    res = C.tlc(SPEC, "FiniteMapMC", cfg, rd, workers=max(2, C.NCPU // 4), timeout=1500, parse_json=False,
                java_opts="-Xss64m -XX:ParallelGCThreads=2")
    if not res.ok:
        raise C.Undecided("FiniteMap(%s) violates the range-rule invariants on its own: %s" % (universe, res.violation))
    wit = {}
    blocked = 0
    for rec in C.tlc_printed_iter(res):
        for w in rec["w"]:
            wit[w] = wit.get(w, 0) + 1
        if rec["b"]:
            blocked += 1
    return res, wit, blocked


def validate(chk, rd, traces, label, module="FiniteMapTrace", cfg="trace.cfg", heap="-Xmx12g", add=True):
    """traces: list of {"id", "ev"}; returns (set of accepted ids, [TLC results]).  Large sets are validated in several
    TLC runs (each history is independent)."""
    if not traces:
        return set(), []
    shards, cur, n = [], [], 0
    for tr in sorted(traces, key=lambda t: -len(t["ev"])):      # long histories first: they bound the wall time
        cur.append(tr)
        n += len(tr["ev"])
        if n >= 500000:
            shards.append(cur)
            cur, n = [], 0
    if cur:
        shards.append(cur)
    acc = set()
    ress = []
    for i, sh in enumerate(shards):
        d = os.path.join(rd, "tr-%s-%d" % (label, i))
        os.makedirs(d, exist_ok=True)
        tpath = os.path.join(d, "traces.ndjson")
        with open(tpath, "w") as f:
            for tr in sh:
                f.write(json.dumps(tr, separators=(",", ":")) + "\n")
        res = C.tlc(SPEC, module, cfg, rd, timeout=5400, copy_extra=[tpath], parse_json=False,
                    java_opts="-Xss256m -XX:ParallelGCThreads=4 " + heap)
        if not res.ok:
            raise C.Undecided("%s stopped (%s): %s" % (module, label, res.violation))
        for rec in C.tlc_printed_iter(res):
            if "acc" in rec:
                acc.add(rec["acc"])
        ress.append(res)
        shutil.rmtree(res.wd, ignore_errors=True)
        os.remove(tpath)
    return acc, ress


def progress(chk, rd, traces):
    """for rejected histories: index of the first event no behaviour of FiniteMap can take"""
    os.makedirs(os.path.join(rd, "tr-progress"), exist_ok=True)
    tpath = os.path.join(rd, "tr-progress", "traces.ndjson")
    with open(tpath, "w") as f:
        for tr in traces:
            f.write(json.dumps(tr, separators=(",", ":")) + "\n")
    cfg = os.path.join(rd, "progress.cfg")
    write_cfg(cfg, "SPECIFICATION Spec\nINVARIANTS EmitProgress\nCHECK_DEADLOCK FALSE\n")
    res = C.tlc(SPEC, "FiniteMapTrace", cfg, rd, timeout=1500, copy_extra=[tpath], parse_json=False)
    best = {}
    for rec in C.tlc_printed_iter(res):
        if "at" in rec:
            best[rec["id"]] = max(best.get(rec["id"], 0), rec["at"])
    return best


def build_plan(rng, thorough):
    """(profile, key type, value type, length) of every seeded random history"""
    if thorough:
        plan = []
        for kt in range(NKT):
            for vt in range(3):
                for prof in PROFILES:
                    if prof == "nan" and kt not in NAN_KT:
                        continue
                    if kt >= 6 and prof == "churn":
                        continue
                    for rep in range(3 if kt < 6 or prof == "grow" else 1):
                        ln = rng.choice([60, 150, 400, 900, 1500, 3000])
                        if prof == "churn":
                            ln = rng.choice([1500, 3000, 6000])
                        plan.append((prof, kt, vt, ln))
        plan += [("wipe", kt, vt, ln) for kt in range(6) for vt in (0, 1) for ln in (3000, 6000)]
        plan += [("big", 0, 1, 7000), ("big", 1, 0, 5000), ("big", 3, 2, 5000), ("big", 2, 1, 3000), ("big", 4, 2, 3000),
                 ("big", 5, 0, 3000), ("big", 6, 1, 3000)]
        plan += [("wipe", kt, 1, 3000) for kt in (6, 7, 8, 9)]
    else:
        plan = []
        combos = [(kt, vt) for kt in range(6) for vt in range(3)]
        rng.shuffle(combos)
        for i, (kt, vt) in enumerate(combos):
            prof = PROFILES[i % len(PROFILES)]
            if prof == "nan" and kt not in (2, 3):
                prof = "mixed"
            plan.append((prof, kt, vt, rng.choice([50, 120, 300])))
        for kt in range(6):
            plan.append(("grow", kt, rng.randrange(3), rng.choice([500, 900])))
            plan.append(("churn", kt, rng.randrange(3), rng.choice([1200, 1600])))
            plan.append(("mixed", kt, rng.randrange(3), rng.choice([100, 250])))
            plan.append(("clearloop", kt, rng.randrange(3), 200))
        for kt in (2, 3):
            plan.append(("nan", kt, 1, 400))
            plan.append(("nan", kt, 0, 150))
        plan.append(("grow", 0, 1, 3000))
        plan.append(("grow", 3, 2, 2000))
        plan.append(("wipe", 0, 1, 3000))
        plan.append(("wipe", 1, 0, 3000))
        plan.append(("wipe", 3, 1, 3000))
        # floating-point parts inside complex numbers / aggregates: growth inside loops while NaN entries are present
        for kt in (6, 7, 8):
            plan.append(("grow", kt, rng.choice([1, 1, 2, 0]), rng.choice([500, 900])))
            plan.append(("nan", kt, 1, 300))
            plan.append((rng.choice(["mixed", "clearloop"]), kt, rng.randrange(3), rng.choice([100, 250])))
        # interface keys with methods and pointer-shaped dynamic types, pointees written on the way
        plan.append(("grow", KT_IFACE, rng.randrange(3), rng.choice([500, 900])))
        plan.append(("mixed", KT_IFACE, rng.randrange(3), 250))
        plan.append(("clearloop", KT_IFACE, 1, 200))
    return plan


def reached(evlists):
    """what the recorded histories reached, from the logged header scalars"""
    cover = {"doubling_growths": 0, "same_size_growths": 0, "max_B": 0, "mutations_inside_range_loops": 0,
             "loops_started_while_growing": 0, "growths_started_inside_a_loop": 0, "yields_while_growing": 0,
             "loops_started_during_same_size_growth": 0, "nan_entries_produced_by_loops": 0, "unhashable_panics": 0,
             "nil_map_write_panics": 0, "max_entries": 0, "nan_aggregate_entries_produced_by_loops": 0,
             "nan_aggregate_entries_produced_after_growth_inside_the_loop": 0, "pointee_writes_of_pointer_keys": 0}
    for ev in evlists:
        pB, pg, po = None, 0, 0
        depth = 0
        same = False
        grew = False         # a growth started inside the outermost running loop
        for e in ev:
            o = e["o"]
            if o == "rs":
                depth += 1
                if e["hg"]:
                    cover["loops_started_while_growing"] += 1
                    if same:
                        cover["loops_started_during_same_size_growth"] += 1
            elif o == "re":
                depth -= 1
                if depth == 0:
                    grew = False
            elif o == "y":
                if e["hg"]:
                    cover["yields_while_growing"] += 1
                if e["k"]["x"] == "NaN":
                    cover["nan_entries_produced_by_loops"] += 1
                elif "fp" in e["k"] and "NaN" in e["k"]["fp"]:
                    cover["nan_aggregate_entries_produced_by_loops"] += 1
                    if grew:
                        cover["nan_aggregate_entries_produced_after_growth_inside_the_loop"] += 1
            elif depth > 0 and o in ("ins", "del", "clear"):
                cover["mutations_inside_range_loops"] += 1
            elif o == "poke" and e["k"]["ty"] in PTR_TY:
                cover["pointee_writes_of_pointer_keys"] += 1
            if o in ("ins", "del", "get1", "get2") and e["r"] == "panic":
                if e["k"]["ty"] in UNHASHABLE:
                    cover["unhashable_panics"] += 1
                elif o == "ins":
                    cover["nil_map_write_panics"] += 1
            if e["c"] < 0:
                pB, pg, po = None, 0, 0
                continue
            if o == "ins" and pB is not None:
                started = False
                if e["hB"] > pB:
                    cover["doubling_growths"] += 1
                    started, same = True, False
                elif e["hB"] == pB and ((e["hg"] and not pg) or e["ho"] < po):
                    cover["same_size_growths"] += 1
                    started, same = True, True
                if started and depth > 0:
                    cover["growths_started_inside_a_loop"] += 1
                    grew = True
            if not e["hg"]:
                same = False
            cover["max_B"] = max(cover["max_B"], e["hB"])
            cover["max_entries"] = max(cover["max_entries"], e["c"])
            pB, pg, po = e["hB"], e["hg"], e["ho"]
    return cover


# --------------------------------------------------------------------------- the check

def check(chk):
    thorough = chk.tier == "thorough"
    sd = C.seed()
    rd = chk.rd.path
    rng = random.Random(sd * 1000003 + 17)
    t0 = time.time()

    # ---- build the interpreter with the llgo of the working tree (O0, default GC) and with reference Go, while TLC enumerates
    configs = [("O0", "")]
    if thorough:
        configs += [("O2", ""), ("O0", "nogc")]
    builds = {}

    def do_build(opt, tags):
        out = os.path.join(rd, "interp-%s%s" % (opt, "-" + tags if tags else ""))
        # (vlib.common gives every check its own llgo package cache, seeded from a smoke-tested golden copy)
        ok, msg = C.llgo_build(HARN, out, opt=opt, tags=tags, rundir=os.path.join(rd, "b-%s%s" % (opt, tags)), timeout=1800)
        builds[(opt, tags)] = (ok, msg, out)

    C.llgo_binary()
    bthreads = [threading.Thread(target=do_build, args=c) for c in configs]
    for t in bthreads:
        t.start()
    ref = os.path.join(rd, "interp-ref")
    okr, msgr = C.go_build(HARN, ref)
    if not okr:
        raise C.Undecided("reference go build of the interpreter failed:\n" + msgr)

    # ---- TLC: the stand-alone model (range rule not vacuous) and the exhaustive scripts
    gen_n = 5 if thorough else 4
    mc_n = 6 if thorough else 5
    exh = {}
    witness = {}
    blocked = 0
    results = {}

    def tl_gen(u):
        results[("gen", u)] = tlc_generate(chk, rd, u, gen_n)

    def tl_mc(u):
        results[("mc", u)] = tlc_modelcheck(chk, rd, u, mc_n)

    errs = []

    def guard(fn, *a):
        try:
            fn(*a)
        except Exception as e:   # re-raised in the main thread
            errs.append(e)

    tthreads = [threading.Thread(target=guard, args=(tl_gen, u)) for u in UNIVERSES]
    mcu = list(UNIVERSES) if thorough else ["f64", "any"]
    tthreads += [threading.Thread(target=guard, args=(tl_mc, u)) for u in mcu]
    for t in tthreads:
        t.start()
    for t in tthreads:
        t.join()
    if errs:
        raise errs[0]
    for u in UNIVERSES:
        res, scripts, wit, b = results[("gen", u)]
        chk.add_tlc(res, "FiniteMapMC scripts %s <=%d" % (u, gen_n))
        exh[u] = scripts
        for w, n in wit.items():
            witness[w] = witness.get(w, 0) + n
        blocked += b
    for u in mcu:
        res, wit, b = results[("mc", u)]
        chk.add_tlc(res, "FiniteMap stand-alone %s <=%d ops" % (u, mc_n))
        for w, n in wit.items():
            witness[w] = witness.get(w, 0) + n
        blocked += b
    need = ["nil_write_panic", "unhashable_panic", "second_nan_entry", "zero_update", "insert_in_loop", "delete_before_yield",
            "delete_after_yield", "nan_not_deleted", "nan_not_found", "nil_read", "clear_in_loop", "yield_created_in_loop",
            "end_without_created_in_loop", "break_leaves_unyielded"]
    miss = [w for w in need if not witness.get(w)]
    if miss or not blocked:
        raise C.Undecided("FiniteMap model check is vacuous: situations never reached: %s blocked=%d" % (miss, blocked))
    chk.cov["model_witnesses"] = dict(witness, loop_must_continue_states=blocked)
    C.log("TLC enumeration done at %.1fs: %s" % (time.time() - t0, {u: len(s) for u, s in exh.items()}))

    # ---- scripts: exhaustive part (selection by name; Script objects are built batch by batch)
    n_exh_total = sum(len(s) for s in exh.values())
    exh_cap = None if thorough else 500
    selections = []          # (universe, key type, key numbers, [script names])
    for u, toks in exh.items():
        names = sorted(toks)
        for (kt, keys) in UNIVERSES[u]:
            sel = names
            r2 = random.Random(sd * 31 + kt)
            if exh_cap is None:
                # thorough: the +0/-0/NaN and the mixed-dynamic-type universes completely; seeded samples of the others
                cap = {"f64": None, "any": None, "anyf": 20000, "anyc": 20000, "c128": None}.get(u, 30000 if kt == 0 else 10000)
                if cap is not None:
                    sel = sorted(r2.sample(names, min(len(names), cap)))
            if exh_cap is not None:
                # quick: every script of <= 2 tokens and a seeded sample of the longer ones
                short = [n for n in names if n.count(".") <= (2 if n.startswith("F") else 1)]
                sshort = set(short)
                rest = [n for n in names if n not in sshort]
                r2.shuffle(rest)
                sel = short + rest[:max(0, EXH_CAP.get(u, EXH_CAP.get((u, kt), exh_cap)) - len(short))]
            selections.append((u, kt, keys, sel))
    n_exh = sum(len(s[3]) for s in selections)

    def ex_scripts(u, kt, keys, names):
        out = []
        for i, n in enumerate(names):
            vt = (1, 1, 2, 0)[i % 4] if thorough else (1, 1, 1, 2, 1, 0)[i % 6]
            sc = Script(kt, vt, tokens_to_lines(exh[u][n], keys), "ex:%s:%s:%s:%s" % (u, KT[kt], VT[vt], n), "ex:" + u)
            sc.maxkey = max(keys)
            out.append(sc)
        return out

    # ---- scripts: seeded random histories
    plan = build_plan(rng, thorough)
    rnd_scripts = [gen_random(random.Random(sd * 7919 + i), prof, kt, vt, ln, "seed%d.%d.%d" % (sd, i, ln))
                   for i, (prof, kt, vt, ln) in enumerate(plan)]
    fix_scripts = fixed_nangrow() + fixed_poke()
    C.log("scripts: %d exhaustive (of %d enumerated), %d random with %d ops, %d fixed with %d ops" % (
        n_exh, n_exh_total, len(rnd_scripts), sum(len(s.lines) for s in rnd_scripts),
        len(fix_scripts), sum(len(s.lines) for s in fix_scripts)))

    # ---- key universe self-test of the harness (interpreter's keys = this driver's keys)
    maxk = {}
    for sc in rnd_scripts + fix_scripts:
        maxk[sc.kt] = max(maxk.get(sc.kt, 0), min(sc.maxkey, 3000))
    for (u, kt, keys, _) in selections:
        maxk[kt] = max(maxk.get(kt, 0), max(keys))
    inp = "Q 0\n" + "".join("U %d %d\n" % (kt, n + 1) for kt, n in sorted(maxk.items()))

    def universe_ok(exe, what):
        st, out, _ = C.run_exe(exe, stdin=inp.encode(), timeout=120, merge=True)
        lines = [l for l in out.split("\n") if l.startswith("U ")]
        p = 0
        for kt, n in sorted(maxk.items()):
            for i in range(n + 1):
                t = lines[p].split(" ") if p < len(lines) else ["U", "-1", "?"]
                p += 1
                k, _ = parse_key(t, 2, kt == 3)
                if int(t[1]) != i or k != key_tok(kt, i):
                    return "%s: key %d of %s is %s, driver says %s" % (what, i, KT[kt], t[2:], key_tok(kt, i))
        return None

    bad = universe_ok(ref, "reference build")
    if bad:
        raise C.Undecided("harness self-test failed: " + bad)

    for t in bthreads:
        t.join()
    for (opt, tags), (ok, msg, out) in builds.items():
        if not ok:
            raise C.Undecided("llgo build of the interpreter failed (%s %s):\n%s" % (opt, tags, msg[-3000:]))
    C.log("builds done at %.1fs" % (time.time() - t0))
    labels = ["O0"] + (["O2", "O0-nogc"] if thorough else [])
    for label in labels:
        opt, _, tags = label.partition("-")
        bad = universe_ok(builds[(opt, tags)][2], "llgo build " + label)
        if bad:
            chk.reject("universe:" + label, "llgo-compiled interpreter constructs a different key than the reference: " + bad,
                       {"config": label, "detail": bad})

    # ---- batches: run (llgo configurations + reference), validate, account
    tot = {"n_impl": 0, "evs": 0, "ref": 0, "rejected": 0, "crashes": 0, "neg": set(), "distinct": set(), "cover": None,
           "drift_items": [], "batches": 0}
    rsel = random.Random(sd + 5)

    def run_batch(batch, first):
        for i, sc in enumerate(batch):
            sc.id = i + 1
        byid = {sc.id: sc for sc in batch}
        ex_b = [s for s in batch if s.kind.startswith("ex:")]
        rn_b = [s for s in batch if not s.kind.startswith("ex:")]
        runs = [("O0", batch)]
        if thorough:
            runs.append(("O2", rsel.sample(ex_b, len(ex_b) // 6) + [s for s in rn_b if len(s.lines) <= 1600]))
            runs.append(("O0-nogc", rsel.sample(ex_b, len(ex_b) // 6) + [s for s in rn_b if len(s.lines) <= 1000]))
        traces = []
        src = {}        # trace id -> (config, script, full events)
        for label, subset in runs:
            if not subset:
                continue
            opt, _, tags = label.partition("-")
            exe = builds[(opt, tags)][2]
            logs, crashes = run_scripts(exe, subset, True, rd, "llgo " + label, 1800 if thorough else 240)
            for sid, st, tail in crashes:
                sc = byid[sid]
                tot["crashes"] += 1
                # run the history again on its own, flushing every log line, to see the call it dies in
                st2, out2, _ = C.run_exe(exe, stdin=("Q 1 1\n" + sc.text()).encode(), timeout=120, merge=True)
                tail = "alone: status %s, last lines: %s" % (st2, out2.split("\n")[-6:]) if st2 != 0 else tail
                C.log("crash: %s %s status %s: %s" % (label, sc.key, st, tail[-400:]))
                chk.reject("crash:" + sc.key, "llgo-compiled (%s) map program died (status %s) while running history %s" % (label, st, sc.key),
                           {"config": label, "script": sc.lines[:4000], "kt": KT[sc.kt], "vt": VT[sc.vt], "status": str(st), "tail": tail})
            for sc in subset:
                if sc.id in logs:
                    tid = len(traces) + 1
                    ev = to_events(sc, logs[sc.id])
                    traces.append({"id": tid, "ev": strip_b(ev)})
                    src[tid] = (label, sc, ev)
        n_impl = len(traces)

        # reference: the random histories and a sample of the exhaustive ones (self-validation of the specification)
        nref = min(len(ex_b), max(1, len(ex_b) // 6) if thorough else 500)
        ref_subset = rsel.sample(ex_b, nref) + [s for s in rn_b if len(s.lines) <= (5000 if thorough else 700)]
        rlogs, rcrashes = run_scripts(ref, ref_subset, False, rd, "reference", 1800 if thorough else 240)
        if rcrashes:
            raise C.Undecided("reference interpreter died on script %s" % byid[rcrashes[0][0]].key)
        ref_ids = set()
        for sc in ref_subset:
            tid = len(traces) + 1
            traces.append({"id": tid, "ev": strip_b(to_events(sc, rlogs[sc.id]))})
            src[tid] = ("reference", sc, None)
            ref_ids.add(tid)

        neg = negative_controls(traces, n_impl) if first else {}
        accepted, ressT = validate(chk, rd, traces, "b%d" % tot["batches"], cfg="trace_inv.cfg" if thorough else "trace.cfg")
        for r in ressT:
            chk.add_tlc(r, "FiniteMapTrace batch %d" % tot["batches"])
        C.log("batch %d validated at %.1fs: %d llgo histories, %d reference, TLC %.1fs" % (
            tot["batches"], time.time() - t0, n_impl, len(ref_ids), sum(r.wall for r in ressT)))
        for nid, kind in neg.items():
            if nid in accepted:
                raise C.Undecided("negative control (%s) accepted by FiniteMapTrace: the trace spec is not binding" % kind)
        tot["neg"] |= set(neg.values())
        bad_ref = [tid for tid in ref_ids if tid not in accepted]
        if bad_ref:
            sc = src[bad_ref[0]][1]
            prog = progress(chk, rd, [traces[bad_ref[0] - 1]])
            raise C.Undecided("FiniteMap rejects a history of the REFERENCE Go toolchain (%d such; first: %s, event %s): the "
                              "specification is wrong" % (len(bad_ref), sc.key, prog))
        rejected = [tr for tr in traces[:n_impl] if tr["id"] not in accepted]
        if rejected:
            prog = progress(chk, rd, rejected[:200])
            seen = set()
            for tr in rejected:
                label, sc, ev = src[tr["id"]]
                at = prog.get(tr["id"], 0)
                key = "history:" + sc.key
                if key in seen:
                    continue
                seen.add(key)
                bad_ev = tr["ev"][at] if at < len(tr["ev"]) else None
                C.log("rejected: %s %s event %d %s" % (label, sc.key, at + 1, json.dumps(bad_ev)))
                chk.reject(key, "history recorded from the llgo-compiled (%s) map[%s]%s is not a behaviour of FiniteMap: event %d %s "
                                "has no matching action after %s" % (label, KT[sc.kt], VT[sc.vt], at + 1, json.dumps(bad_ev),
                                                                     json.dumps(tr["ev"][max(0, at - 3):at])),
                           {"config": label, "kt": KT[sc.kt], "vt": VT[sc.vt], "script": sc.lines[:4000],
                            "first_rejected_event_index": at, "first_rejected_event": bad_ev,
                            "events_before": tr["ev"][max(0, at - 12):at], "n_events": len(tr["ev"])})
        # accounting
        tot["n_impl"] += n_impl
        tot["ref"] += len(ref_ids)
        tot["rejected"] += len(rejected)
        tot["evs"] += sum(len(t["ev"]) for t in traces[:n_impl])
        for t in traces[:n_impl]:
            tot["distinct"].add(hash(json.dumps(t["ev"], sort_keys=True)))
        cov = reached([src[tid][2] for tid in range(1, n_impl + 1)])
        if tot["cover"] is None:
            tot["cover"] = cov
        else:
            for k, v in cov.items():
                tot["cover"][k] = max(tot["cover"][k], v) if k.startswith("max_") else tot["cover"][k] + v
        for tid in range(1, n_impl + 1):
            if not src[tid][1].kind.startswith("ex:"):
                tot["drift_items"].append((len(tot["drift_items"]) + 1, src[tid][2]))
        if first:
            small = [t for t in traces[:n_impl] if 6 < len(t["ev"]) < 30 and any(e["o"] == "y" for e in t["ev"])]
            for t in small[:2]:
                chk.sample({"validated_history": t["ev"], "script": src[t["id"]][1].key})
        tot["batches"] += 1

    if thorough:
        first = True
        for (u, kt, keys, names) in selections:
            for lo in range(0, len(names), 40000):
                run_batch(ex_scripts(u, kt, keys, names[lo:lo + 40000]), first)
                first = False
        run_batch(fix_scripts + rnd_scripts, False)
    else:
        batch = []
        for (u, kt, keys, names) in selections:
            batch += ex_scripts(u, kt, keys, names)
        run_batch(batch + fix_scripts + rnd_scripts, True)
    if len(tot["neg"]) < 7:
        raise C.Undecided("could not construct all negative controls: %s" % sorted(tot["neg"]))

    # ---- layer B: scalar growth model, drift only (the exhaustive 3-key histories never grow)
    drift = growth_drift(chk, rd, tot["drift_items"])
    if thorough:
        resG = C.tlc(SPEC, "MapGrowthMC", "growthmc.cfg", rd, workers=4, timeout=1500, parse_json=False)
        chk.add_tlc(resG, "MapGrowthMC (layer B against A, 10 keys)")
        drift["MapGrowthMC_holds"] = bool(resG.ok)

    # ---- evidence: what the histories reached (from the logged header scalars)
    cover = tot["cover"]
    must = ["doubling_growths", "same_size_growths", "mutations_inside_range_loops", "loops_started_while_growing",
            "growths_started_inside_a_loop", "yields_while_growing", "nan_entries_produced_by_loops", "unhashable_panics",
            "nil_map_write_panics", "nan_aggregate_entries_produced_by_loops",
            "nan_aggregate_entries_produced_after_growth_inside_the_loop", "pointee_writes_of_pointer_keys"]
    if any(cover[k] == 0 for k in must):
        raise C.Undecided("generated histories did not reach: %s" % [k for k in must if cover[k] == 0])
    chk.cov["traces_validated_against_impl"] = tot["n_impl"]
    chk.cov["evaluations"] = tot["evs"]
    chk.cov["distinct_nontrivial"] = len(tot["distinct"])
    chk.cov["histories"] = {"exhaustive_scripts_enumerated": n_exh_total, "exhaustive_replayed": n_exh,
                            "random": len(rnd_scripts), "fixed_histories": len(fix_scripts),
                            "reference_histories_validated": tot["ref"],
                            "negative_controls": sorted(tot["neg"]), "rejected": tot["rejected"], "crashes": tot["crashes"]}
    chk.cov["reached"] = cover
    chk.cov["conformance_real_vs_MapGrowth"] = drift
    chk.cov["configs"] = labels
    chk.cov["rule"] = ("history = one script run by the llgo-compiled interpreter on one map[K]V (10 key types x 3 value sizes): every "
                       "insert/delete/lookup/len/clear/make/range step with its observed result, mutations inside range bodies; "
                       "evaluations = logged map operations judged by FiniteMapTrace; distinct = distinct recorded histories "
                       "(event sequences incl. iteration order); exhaustive part = every script of <= %d tokens over 3 keys "
                       "enumerated by TLC from FiniteMapMC for 10 key universes (plain, +0/-0/NaN, mixed dynamic types with an "
                       "unhashable one, complex and interface-wrapped floats in interfaces, and signed zeros / NaN in a part of a "
                       "complex128, struct{complex64;int32} and [2]float32 key, interface-with-method keys of pointer-shaped dynamic types "
                       "with writes to the pointee), each followed by a probe of every key, len and a "
                       "complete loop; fixed part = range loops over maps with NaN-keyed entries whose body makes the table grow "
                       "(5 key types) and map[interface{id() int}]V histories that write to the variables their pointer keys point to "
                       "(both seed-independent)" % gen_n)
    chk.assumptions += [
        "the interpreter's key construction (numbers -> keys) agrees with the driver's table: checked on every run against both builds",
        "a value read back is reduced to one int by the interpreter (all 17 words of the 136-byte value are compared first)",
        "a range loop is cut by the interpreter after len(m)+len(script)+16 produced entries (more than any correct loop can produce); the duplicates are in the log",
        "llgo configurations: O0 default GC in quick; thorough adds the O2* pass pipeline of vlib.common and -tags nogc",
        "panic kinds/messages are not compared, only that the call panicked",
        "live map sizes stay below ~10^4 entries (B <= 11): TLC re-fingerprints the whole model map in every state",
    ]


def negative_controls(traces, n_impl):
    """append corrupted copies of recorded llgo histories; returns {trace id: kind}"""
    neg = {}

    def add_neg(kind, tr, mut):
        bad = json.loads(json.dumps(tr))
        if mut(bad["ev"]):
            bad["id"] = len(traces) + 1
            traces.append(bad)
            neg[bad["id"]] = kind

    def m_value(ev):
        for e in ev:
            if e["o"] == "get2" and e["ok"] and e["r"] == "ok":
                e["v"] += 1
                return True

    def m_dup(ev):
        for i, e in enumerate(ev):
            if e["o"] == "y":
                ev.insert(i + 1, dict(e))
                return True

    def m_drop(ev):
        open_y = {}
        for i, e in enumerate(ev):
            if e["o"] == "y":
                open_y[e["i"]] = i
            if e["o"] == "re" and e["done"] and e["i"] in open_y:
                # only sound as a negative control if nothing was mutated during the loop
                j = open_y[e["i"]]
                lo = max(k for k in range(j + 1) if ev[k]["o"] == "rs" and ev[k]["i"] == e["i"])
                if all(x["o"] in ("y", "rs", "re", "get1", "get2", "len") for x in ev[lo:i + 1]):
                    del ev[j]
                    return True

    def m_len(ev):
        for e in ev:
            if e["o"] == "len":
                e["n"] += 1
                return True

    def m_count(ev):
        for e in ev:
            if e["o"] == "ins" and e["c"] >= 0:
                e["c"] += 1
                return True

    def m_ok(ev):
        for e in ev:
            if e["o"] == "get2" and not e["ok"] and e["r"] == "ok":
                e["ok"] = True
                return True

    def m_panic(ev):
        for e in ev:
            if e["o"] == "ins" and e["r"] == "panic":
                e["r"] = "ok"
                return True

    for kind, mut in (("value", m_value), ("duplicate_yield", m_dup), ("dropped_yield", m_drop), ("len", m_len),
                      ("header_count", m_count), ("ok", m_ok), ("panic", m_panic)):
        for tr in traces[:n_impl]:
            if len(tr["ev"]) < 400:
                before = len(neg)
                add_neg(kind, tr, mut)
                if len(neg) > before:
                    break
    return neg


# --------------------------------------------------------------------------- layer B

def growth_drift(chk, rd, items):
    """MapGrowth.tla judged against the logged header scalars: fraction of histories whose every step is a step of the
    growth model.  Reported as drift; never a verdict."""
    traces = []
    for tid, ev in items:
        steps = []
        for e in ev:
            if e["c"] < 0:
                steps.append({"o": "none", "c": 0, "B": 0, "g": False, "ov": 0})
                continue
            kind = e["o"] if e["o"] in ("ins", "del", "clear", "make") else "read"
            steps.append({"o": kind, "c": e["c"], "B": e["hB"], "g": bool(e["hg"]), "ov": e["ho"]})
        traces.append({"id": tid, "ev": steps})
    if not traces or not os.path.exists(os.path.join(SPEC, "MapGrowth.tla")):
        return {"histories": 0}
    try:
        acc, ress = validate(chk, rd, traces, "growth", module="MapGrowth", cfg="growth.cfg")
    except C.Undecided as e:
        return {"histories": len(traces), "error": str(e)[:300]}
    for r in ress:
        chk.add_tlc(r, "MapGrowth (layer B, drift only)")
    return {"histories": len(traces), "conforming": len(acc), "rate": round(len(acc) / max(1, len(traces)), 4)}


if __name__ == "__main__":
    C.main_wrapper("C06", check)

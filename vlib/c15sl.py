"""C15, a fifth law (added after seeded change C15-4 was missed):
spec/reflect/SliceEq.tla   reflect.DeepEqual on every ordered pair of slice values that are windows (array, offset, length) over
                           three arrays (two with equal contents), nil, or []int{} - plain and wrapped one level in a struct
                           field, a []any, a map value: sharing a backing array never decides the answer.
The cases are rendered into the program of vlib/c15ro.py (one line per pair)."""
import os

from . import common as C

SPEC = os.path.join(C.VERIF, "spec", "reflect")
WRAPS = ("plain", "struct", "anys", "mapval")


def goexpr(w):
    if w["arr"] == 0:
        return "[]int(nil)" if w["nil"] else "[]int{}"
    return "seArrs[%d][%d:%d]" % (w["arr"] - 1, w["off"], w["off"] + w["len"])


def wkey(w):
    return (w["arr"], w["off"], w["len"], 0 if w["nil"] else 1)


def prepare(chk):
    """returns (go source, call, expect {key: {wrap: 'true'/'false'}}, meta {key: record})"""
    res = C.tlc(SPEC, "SliceEq", "sliceeq.cfg", chk.rd.sub("c15sl"), timeout=600, workers=2, parse_json=False)
    if not res.ok:
        raise C.Undecided("SliceEq violates its own laws: %s" % res.violation)
    chk.add_tlc(res, "SliceEq")
    recs = list(C.tlc_printed_iter(res))
    if len(recs) != 38 * 38:
        raise C.Undecided("SliceEq emitted %d pairs, %d expected" % (len(recs), 38 * 38))
    wins = sorted({wkey(r["a"]): r["a"] for r in recs}.items())
    num = {k: i for i, (k, w) in enumerate(wins)}
    src = """type seW struct{ S []int }

var seArrs = [3][5]int{{1, 2, 1, 2, 1}, {1, 2, 1, 2, 1}, {1, 1, 1, 2, 2}}

func sliceEq() {
	sl := [][]int{
%s	}
	for i, a := range sl {
		for j, b := range sl {
			println("D", i, j, reflect.DeepEqual(a, b), reflect.DeepEqual(seW{a}, seW{b}), reflect.DeepEqual([]any{a}, []any{b}),
				reflect.DeepEqual(map[string][]int{"k": a}, map[string][]int{"k": b}))
		}
	}
}""" % "".join("\t\t%s,\n" % goexpr(w) for k, w in wins)
    expect, meta = {}, {}
    for r in recs:
        k = "D %d %d" % (num[wkey(r["a"])], num[wkey(r["b"])])
        expect[k] = {w: ("true" if r["eq"][w] else "false") for w in WRAPS}
        meta[k] = r
    chk.cov["deepequal_slices"] = {"slice_values": len(wins), "pairs": len(recs), "verdicts": len(recs) * len(WRAPS),
                                   "equal": sum(1 for r in recs if r["eq"]["plain"]),
                                   "same_start_other_length": sum(1 for r in recs if r["rel"] == "same-start-other-length")}
    return src, "\tsliceEq()", expect, meta


def parse_line(ln, out):
    w = ln.split()
    if len(w) == 7 and w[0] == "D":
        out["D %s %s" % (w[1], w[2])] = dict(zip(WRAPS, w[3:]))


def key_of(rec, field):
    return "deepequal-slice:%s:%s" % (rec["rel"], field)


def describe(rec, field, n, want, got):
    shape = {"plain": "DeepEqual(a, b)", "struct": "DeepEqual(struct{ S []int }{a}, struct{ S []int }{b})", "anys": "DeepEqual([]any{a}, []any{b})",
             "mapval": 'DeepEqual(map[string][]int{"k": a}, map[string][]int{"k": b})'}.get(field, field)
    return ("%d pairs: %s with a = %s, b = %s (seArrs = {1,2,1,2,1}, {1,2,1,2,1}, {1,1,1,2,2}; relation %s): Go says %s, llgo-compiled program %s"
            % (n, shape, goexpr(rec["a"]), goexpr(rec["b"]), rec["rel"], (want or {}).get(field), (got or {}).get(field, "no line")))

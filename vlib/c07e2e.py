"""End-to-end part of C07: near-miss type pairs meet at run time in an llgo-compiled three-package program.

For a pair (t, u) the package that may spell t's unexported names provides  V<k>() any  returning (*t)(nil) boxed, the
package for u provides  Is<k>(x any) bool { _, ok := x.(*u); return ok }  and  Eq<k>(x any) bool { return x == any((*u)(nil)) };
main prints Is<k>(V<k>()) and Eq<k>(V<k>()): both must equal Identical(t, u) as computed by TypeIdentity.tla.
"""
import os
import random

from . import common as C

BASIC = {"int", "uint8", "byte", "string", "int32"}


def pkg_of(t):
    """the package whose unexported identifiers the term spells (None if it spells none), or 'mixed'"""
    pk = set()

    def walk(x):
        k = x["k"]
        if k == "named":
            for a in x["targs"]:
                walk(a)
        elif k in ("ptr", "slice", "array", "chan"):
            walk(x["e"])
        elif k == "map":
            walk(x["key"])
            walk(x["e"])
        elif k == "func":
            for a in x["params"] + x["results"]:
                walk(a)
        elif k == "struct":
            for f in x["fields"]:
                if not f["emb"] and not f["name"][:1].isupper():
                    pk.add(f["fpkg"])
                walk(f["type"])
        elif k == "iface":
            for m in x["methods"]:
                if not m["name"][:1].isupper():
                    pk.add(m["mpkg"])
                walk(m["sig"])
    walk(t)
    if len(pk) > 1:
        return "mixed"
    return pk.pop() if pk else None


def scoped(t):
    if isinstance(t, dict):
        if t.get("k") == "named" and t.get("scope"):
            return True
        return any(scoped(v) for v in t.values())
    if isinstance(t, list):
        return any(scoped(v) for v in t)
    return False


def expressible(t):
    """only the named types the generated packages declare: T, U (plain) and G (generic, one argument)"""
    if isinstance(t, dict):
        if t.get("k") == "named":
            if t["targs"]:
                if t["name"] != "G" or len(t["targs"]) != 1:
                    return False
            elif t["name"] not in ("T", "U"):
                return False
        return all(expressible(v) for v in t.values())
    if isinstance(t, list):
        return all(expressible(v) for v in t)
    return True


def texpr(t, here):
    k = t["k"]
    if k == "basic":
        return t["n"]
    if k == "named":
        name = t["name"] + ("[" + ", ".join(texpr(a, here) for a in t["targs"]) + "]" if t["targs"] else "")
        return name if t["pkg"] == here else t["pkg"] + "." + name
    if k == "ptr":
        return "*" + texpr(t["e"], here)
    if k == "slice":
        return "[]" + texpr(t["e"], here)
    if k == "array":
        return "[%d]%s" % (t["n"], texpr(t["e"], here))
    if k == "map":
        return "map[%s]%s" % (texpr(t["key"], here), texpr(t["e"], here))
    if k == "chan":
        return {"both": "chan ", "send": "chan<- ", "recv": "<-chan "}[t["dir"]] + "(" + texpr(t["e"], here) + ")"
    if k == "func":
        ps = [texpr(p, here) for p in t["params"]]
        if t["variadic"]:
            ps[-1] = "..." + ps[-1][2:]
        rs = [texpr(p, here) for p in t["results"]]
        return "func(%s)%s" % (", ".join(ps), (" (" + ", ".join(rs) + ")") if rs else "")
    if k == "struct":
        fs = []
        for f in t["fields"]:
            tag = (" `%s`" % f["tag"]) if f["tag"] else ""
            fs.append((texpr(f["type"], here) if f["emb"] else f["name"] + " " + texpr(f["type"], here)) + tag)
        return "struct { " + "; ".join(fs) + " }"
    if k == "iface":
        ms = []
        for m in t["methods"]:
            ms.append(m["name"] + texpr(m["sig"], here)[4:])
        return "interface { " + "; ".join(ms) + " }"
    raise ValueError(k)


def run(chk, thorough):
    res_pairs = chk.cov.get("_pairs")
    if not res_pairs:
        return
    rng = random.Random(C.seed())
    usable = []
    for p in res_pairs:
        if p["t"] == p["u"] or scoped(p["t"]) or scoped(p["u"]) or not expressible(p["t"]) or not expressible(p["u"]):
            continue
        pt, pu = pkg_of(p["t"]), pkg_of(p["u"])
        if "mixed" in (pt, pu):
            continue
        usable.append((p, pt or "p1", pu or "p1"))
    rng.shuffle(usable)
    usable = usable[: 1500 if thorough else 350]
    rd = chk.rd.path
    d = os.path.join(rd, "e2e")
    src = {"p1": ["package p1", "", 'import "c07e2e/p2"', "", "var _ p2.T", "type T struct{ x int }", "type U struct{ y int }", "type G[X any] struct{ g int }", ""],
           "p2": ["package p2", "", "type T struct{ z int }", "type U struct{ w int }", "type G[X any] struct{ g int }", ""]}
    main = ["package main", "", 'import (', '\t"c07e2e/p1"', '\t"c07e2e/p2"', ")", "", "var _ p2.T", "", "func main() {"]
    expect = []
    n = 0
    for p, pt, pu in usable:
        # p2 cannot import p1 (p1 imports p2): a term written in p2 may only mention p2's names
        def mentions_p1(t):
            if isinstance(t, dict):
                if t.get("k") == "named" and t.get("pkg") == "p1":
                    return True
                return any(mentions_p1(v) for v in t.values())
            if isinstance(t, list):
                return any(mentions_p1(v) for v in t)
            return False
        if (pt == "p2" and mentions_p1(p["t"])) or (pu == "p2" and mentions_p1(p["u"])):
            continue
        n += 1
        src[pt].append("func V%d() any { return (*%s)(nil) }" % (n, texpr(p["t"], pt)))
        src[pu].append("func Is%d(x any) bool { _, ok := x.(*%s); return ok }" % (n, texpr(p["u"], pu)))
        src[pu].append("func Eq%d(x any) bool { return x == any((*%s)(nil)) }" % (n, texpr(p["u"], pu)))
        main.append("\tprintln(%d, %s.Is%d(%s.V%d()), %s.Eq%d(%s.V%d()))" % (n, pu, n, pt, n, pu, n, pt, n))
        expect.append((n, p))
    main.append("}")
    C.write_module(d, {"p1/p1.go": "\n".join(src["p1"]) + "\n", "p2/p2.go": "\n".join(src["p2"]) + "\n",
                       "main.go": "\n".join(main) + "\n"}, modname="c07e2e")
    ref = os.path.join(d, "ref.exe")
    ok, out = C.go_build(d, ref)
    if not ok:
        raise C.Undecided("reference toolchain rejects the generated identity program (generator bug):\n" + out[-2500:])
    st, so, se = C.run_exe(ref, timeout=60, merge=True)

    def parse(text):
        r = {}
        for ln in text.splitlines():
            w = ln.split()
            if len(w) == 3 and w[0].isdigit():
                r[int(w[0])] = (w[1] == "true", w[2] == "true")
        return r
    refres = parse(so)
    bad = [(k, p) for k, p in expect if refres.get(k) != (p["same"], p["same"])]
    if bad:
        raise C.Undecided("TypeIdentity disagrees with the reference toolchain at run time on %d pairs, e.g. %s" % (len(bad), bad[0]))
    configs = [("O0", "")] + ([("O2", "")] if thorough else [])
    from . import c07
    for opt, tags in configs:
        exe = os.path.join(d, "llgo-%s.exe" % opt)
        ok, out = C.llgo_build(d, exe, opt=opt, tags=tags, rundir=d)
        if not ok:
            if opt == "O0":
                raise C.Undecided("llgo cannot build the identity program:\n" + out[-3000:])
            continue
        st, so, se = C.run_exe(exe, timeout=60, merge=True)
        got = parse(so)
        for k, p in expect:
            want = (p["same"], p["same"])
            if got.get(k) != want:
                kind = c07.classify(p["t"], p["u"])
                chk.reject("runtime:%s:%s" % ("merged" if p["same"] is False else "split", kind),
                           "at run time x.(*U) / x == (*U)(nil) gave %s for t=%s u=%s, Go: %s (config %s)" % (
                               got.get(k), texpr(p["t"], "main"), texpr(p["u"], "main"), want, opt),
                           {"t": p["t"], "u": p["u"], "got": got.get(k), "want": want, "config": opt})
        chk.cov["evaluations"] += len(expect)
        chk.cov["traces_validated_against_impl"] += len(expect)
    chk.cov["runtime_pairs"] = len(expect)

"""end-to-end part of C07 (filled in below)"""


def run(chk, thorough):
    pass

"""C15, two further laws (added after seeded changes C15-1, C15-2 were missed):
spec/reflect/EmbedLookup.tla  FieldByName("X") through every embedding graph over five struct types (664 graphs x 5
                              starting types): found / ambiguous / absent and the index path
spec/reflect/BlankCmp.tla     comparability of structs with blank fields (Type/Value.Comparable, interface ==, map[any] key)
spec/reflect/ConvCopy.tla     a Value made by Convert, and an interface made from it, are values of their own: every script
                              over {mut, conv, iface, readc, readi} of up to 5 steps x {struct, array, string, int} operands
spec/reflect/ReflectRO.tla    read-only flags of a Value along every path of 1..3 field selections (vlib/c15ro.py, own program, which
                              also carries SliceEq.tla - DeepEqual on aliased slices, vlib/c15sl.py - and ChanStr.tla - spelling of
                              nested channel types, vlib/c15ch.py)
All are enumerated by TLC, rendered as one Go program, validated with the reference toolchain and compared with the
llgo-compiled program."""
import os

from . import common as C

SPEC = os.path.join(C.VERIF, "spec", "reflect")

HELPERS = '''
func idx(ix []int) string {
	s := ""
	for i, v := range ix {
		if i > 0 {
			s += "."
		}
		s += string(rune('0' + v))
	}
	if s == "" {
		s = "-"
	}
	return s
}
'''

KINDS = {
    "struct": dict(decl="type cvS1 struct{ A, B int }\ntype cvS2 struct{ A, B int }", new="cvS1{A: 1}", mut="o.A = %d", to="cvS2{}",
                   readc="int(c.Field(0).Int())", readi="i.(cvS2).A"),
    "array": dict(decl="type cvA1 [2]int\ntype cvA2 [2]int", new="cvA1{1, 0}", mut="o[0] = %d", to="cvA2{}",
                  readc="int(c.Index(0).Int())", readi="i.(cvA2)[0]"),
    "string": dict(decl="type cvT1 string\ntype cvT2 string", new='cvT1("1")', mut='o = cvT1(string(rune(\'0\' + %d)))', to='cvT2("")',
                   readc="int(c.String()[0] - '0')", readi="int(i.(cvT2)[0] - '0')"),
    "int": dict(decl="type cvI1 int\ntype cvI2 int", new="cvI1(1)", mut="o = cvI1(%d)", to="cvI2(0)",
                readc="int(c.Int())", readi="int(i.(cvI2))"),
}


def run(chk, thorough):
    rd = chk.rd.sub("c15x")
    resE = C.tlc(SPEC, "EmbedLookup", "embedlookup.cfg", rd, timeout=900, parse_json=False)
    if not resE.ok:
        raise C.Undecided("EmbedLookup violates its own laws: %s" % resE.violation)
    chk.add_tlc(resE, "EmbedLookup")
    graphs = list(C.tlc_printed_iter(resE))
    resC = C.tlc(SPEC, "ConvCopy", "convcopy.cfg", chk.rd.sub("c15x-conv"), timeout=900, parse_json=False)
    if not resC.ok:
        raise C.Undecided("ConvCopy violates its own law: %s" % resC.violation)
    chk.add_tlc(resC, "ConvCopy")
    scripts = list(C.tlc_printed_iter(resC))
    resB = C.tlc(SPEC, "BlankCmp", "blankcmp.cfg", chk.rd.sub("c15x-blank"), timeout=600, parse_json=False)
    if not resB.ok:
        raise C.Undecided("BlankCmp: %s" % resB.violation)
    chk.add_tlc(resB, "BlankCmp")
    blanks = list(C.tlc_printed_iter(resB))
    if len(blanks) < 200:
        raise C.Undecided("BlankCmp emitted only %d structs" % len(blanks))
    if len(graphs) < 600 or len(scripts) < 150:
        raise C.Undecided("EmbedLookup/ConvCopy emitted only %d/%d cases" % (len(graphs), len(scripts)))
    src = ["package main", "", 'import "reflect"', HELPERS]
    expect = {}
    table = []
    for g, rec in enumerate(graphs, 1):
        for i in range(1, 6):
            fields = ["G%dT%d" % (g, e) for e in rec["emb"][i - 1]]
            if rec["own"][i - 1]:
                fields.append("X int")
            src.append("type G%dT%d struct{ %s }" % (g, i, "; ".join(fields)))
            table.append("G%dT%d{}" % (g, i))
            lk = rec["look"][i - 1]
            expect["L %d %d" % (g, i)] = "%s %s" % ("true" if lk["found"] else "false", ".".join(map(str, lk["index"])) if lk["found"] else "-")
    src.append("var lookTable = []any{\n" + "".join("\t%s,\n" % t for t in table) + "}")
    src.append('''func lookups() {
	for n, v := range lookTable {
		t := reflect.TypeOf(v)
		f, ok := t.FieldByName("X")
		fv := reflect.ValueOf(v).FieldByName("X")
		ix := "-"
		if ok {
			ix = idx(f.Index)
		}
		println("L", n/5+1, n%5+1, ok, ix, fv.IsValid())
	}
}''')
    for kind, k in KINDS.items():
        src.append(k["decl"])
    nconv = 0
    body = []
    for kind, k in KINDS.items():
        for s, rec in enumerate(scripts, 1):
            nconv += 1
            name = "conv_%s_%d" % (kind, s)
            lines = ["func %s() {" % name, "\to := %s" % k["new"], "\tv := reflect.ValueOf(&o).Elem()", "\tvar c reflect.Value", "\tvar i any", "\t_, _, _ = v, c, i"]
            val, rd_i = 1, 0
            outs = []
            for op in rec["script"]:
                if op == "mut":
                    val += 1
                    lines.append("\t" + k["mut"] % val)
                elif op == "conv":
                    lines.append("\tc = v.Convert(reflect.TypeOf(%s))" % k["to"])
                elif op == "iface":
                    lines.append("\ti = c.Interface()")
                elif op == "readc":
                    lines.append('\tprintln("C", "%s", %d, %d, %s)' % (kind, s, rd_i, k["readc"]))
                    outs.append(rec["reads"][rd_i])
                    rd_i += 1
                else:
                    lines.append('\tprintln("C", "%s", %d, %d, %s)' % (kind, s, rd_i, k["readi"]))
                    outs.append(rec["reads"][rd_i])
                    rd_i += 1
            lines.append("}")
            src.append("\n".join(lines))
            body.append("\t%s()" % name)
            for j, v in enumerate(outs):
                expect["C %s %d %d" % (kind, s, j)] = str(v)
    # ---- comparability with blank fields
    src.append("""func cmpProbe(n int, w string, v any) {
	t := reflect.TypeOf(v)
	eqPanics, keyPanics := false, false
	func() {
		defer func() {
			if recover() != nil {
				eqPanics = true
			}
		}()
		_ = v == v
	}()
	func() {
		defer func() {
			if recover() != nil {
				keyPanics = true
			}
		}()
		m := map[any]int{}
		m[v] = 1
	}()
	println("B", n, w, t.Comparable(), reflect.ValueOf(v).Comparable(), !eqPanics, !keyPanics)
}""")
    for n, rec in enumerate(blanks, 1):
        src.append("type B%d struct{ %s }" % (n, "; ".join("%s %s" % (f["n"], f["t"]) for f in rec["fields"])))
        body.append("\tcmpProbe(%d, \"s\", B%d{})" % (n, n))
        body.append("\tcmpProbe(%d, \"a\", [2]B%d{})" % (n, n))
        body.append("\tcmpProbe(%d, \"w\", struct{ B%d }{})" % (n, n))
        for w in "saw":
            c = "true" if rec["cmp"] else "false"
            expect["B %d %s" % (n, w)] = "%s %s %s %s" % (c, c, c, c)
    src.append("func main() {\n\tlookups()\n" + "\n".join(body) + '\n\tprintln("ALLDONE")\n}')
    d = os.path.join(chk.rd.path, "c15xprog")
    C.write_module(d, {"main.go": "\n\n".join(src) + "\n"}, modname="c15x")

    def parse(text):
        out = {}
        for ln in text.splitlines():
            w = ln.split()
            if len(w) == 6 and w[0] == "L":
                out["L %s %s" % (w[1], w[2])] = "%s %s" % (w[3], w[4]) if w[5] == w[3] else "%s %s valid=%s" % (w[3], w[4], w[5])
            elif len(w) == 5 and w[0] == "C":
                out["C %s %s %s" % (w[1], w[2], w[3])] = w[4]
            elif len(w) == 7 and w[0] == "B":
                out["B %s %s" % (w[1], w[2])] = " ".join(w[3:])
        return out
    ref = os.path.join(d, "ref.exe")
    ok, out = C.go_build(d, ref, go=C.ref_go())
    if not ok:
        raise C.Undecided("reference toolchain rejects the EmbedLookup/ConvCopy program (generator bug):\n" + out[-2000:])
    st, so, se = C.run_exe(ref, timeout=300, merge=True)
    refres = parse(so)
    bad = [k for k in expect if refres.get(k) != expect[k]]
    if bad:
        raise C.Undecided("EmbedLookup/ConvCopy disagree with the reference toolchain on %d lines, e.g. %s: ref %s spec %s"
                          % (len(bad), bad[0], refres.get(bad[0]), expect[bad[0]]))
    probe = next(k for k in expect if k.startswith("L") and expect[k].startswith("true"))
    if refres.get(probe) == "false -":
        raise C.Undecided("negative control failed")
    exe = os.path.join(d, "llgo.exe")
    ok, out = C.llgo_build(d, exe, opt="O0", rundir=d, timeout=2400)
    if not ok:
        raise C.Undecided("llgo cannot build the EmbedLookup/ConvCopy program:\n" + out[-2500:])
    st, so, se = C.run_exe(exe, timeout=600, merge=True)
    got = parse(so)
    groups = {}
    for k in expect:
        if got.get(k) != expect[k]:
            if k.startswith("L"):
                g, i = int(k.split()[1]), int(k.split()[2])
                why = graphs[g - 1]["look"][i - 1]["why"]
                groups.setdefault("fieldbyname:%s:%s" % (why, "found" if (got.get(k) or "").startswith("true") else "notfound"), []).append(k)
            elif k.startswith("B"):
                groups.setdefault("comparable-blank:%s" % ("comparable" if expect[k].startswith("true") else "not-comparable"), []).append(k)
            else:
                kind = k.split()[1]
                groups.setdefault("convert-copy:%s" % kind, []).append(k)
    for key, ks in sorted(groups.items()):
        k = ks[0]
        if k.startswith("L"):
            g, i = int(k.split()[1]), int(k.split()[2])
            rec = graphs[g - 1]
            desc = ("%d lookups: FieldByName(\"X\") on T%d of the embedding graph emb=%s own=%s: Go %s (%s), llgo-compiled program %s"
                    % (len(ks), i, rec["emb"], rec["own"], expect[k], rec["look"][i - 1]["why"], got.get(k)))
            obj = {"graph": rec, "start": i, "want": expect[k], "got": got.get(k)}
        elif k.startswith("B"):
            n, w = int(k.split()[1]), k.split()[2]
            rec = blanks[n - 1]
            shape = {"s": "T", "a": "[2]T", "w": "struct{ T }"}[w]
            desc = ("%d probes: %s with T = struct{ %s }: Go says Type.Comparable, Value.Comparable, interface == without panic, usable as map[any] key = %s; "
                    "llgo-compiled program: %s" % (len(ks), shape, "; ".join("%s %s" % (f["n"], f["t"]) for f in rec["fields"]), expect[k], got.get(k)))
            obj = {"fields": rec["fields"], "shape": shape, "want": expect[k], "got": got.get(k)}
        else:
            kind, s, j = k.split()[1], int(k.split()[2]), int(k.split()[3])
            desc = ("%d reads: operand kind %s, script %s: read %d must show %s (the value held when Convert / Interface ran), llgo-compiled program shows %s"
                    % (len(ks), kind, scripts[s - 1]["script"], j, expect[k], got.get(k)))
            obj = {"kind": kind, "script": scripts[s - 1]["script"], "want": expect[k], "got": got.get(k)}
        chk.reject(key, desc, obj)
    chk.cov["evaluations"] = chk.cov.get("evaluations", 0) + len(expect)
    chk.cov["embed_lookup"] = {"graphs": len(graphs), "lookups": 5 * len(graphs), "ambiguous": sum(1 for r in graphs for l in r["look"] if l["why"] == "ambiguous")}
    chk.cov["comparable_blank"] = {"structs": len(blanks), "probes": 3 * len(blanks)}
    chk.cov["convert_copy"] = {"scripts": len(scripts), "operand_kinds": len(KINDS), "reads": sum(1 for k in expect if k.startswith("C"))}
    from . import c15ro
    return len(expect) + c15ro.run(chk)

"""C08 — type size, alignment and field offsets agree wherever they are computed.

spec/layout/LayoutImpl.tla layer B (thorough, report only): the mechanism behind (a) - go/types sizes with one-word funcs plus the
                         missing words added afterwards - checked against layer A per profile (exact on 64-bit and on 32-bit
                         with 4-byte aligned scalars; TLC finds the counterexample for 8-byte aligned scalars and for aliases)
spec/layout/Layout.tla   layer A: Size / Align / Offsets (and map slot / bucket sizes) as recursive operators over type terms
                         for a target profile; TLC enumerates the type terms step by step and prints each with its layout
                         under every profile of a small family (64-bit, 32-bit with 4- or 8-byte aligned 64-bit scalars,
                         with / without the zero-size-tail byte)
binding (in process):    every term is built as a go/types value by an injected test of package ssa (one process per
                         target) and the real code is asked in the three places the property names:
                           a  the types.Sizes handed to the type checker, obtained the way internal/build.Do obtains it
                              (`go list` compiler/arch -> types.SizesFor -> Do's own `sizes` closure, whose source text is
                              compiled into the test binary -> Program.TypeSizes)
                           b  Program.SizeOf / OffsetOf / ABI alignment of the LLVM type (data layout of the target)
                           c  the constants in the descriptor globals emitted by the real Builder.abiType (+ the tables)
                         oracle: a = b = c on every target (first sentence of the property); on amd64 they must equal
                         Lay(t, AMD64) as computed by TLC; C-compatible terms must equal gcc's sizeof/_Alignof/offsetof
                         (which also self-validates the profile, as does go/types' own gc sizes for func-free terms)
binding (end to end):    llgo-compiled programs print unsafe.Sizeof/Alignof/Offsetof constants, address differences of
                         real array elements / fields, and reflect sizes for a sample of the terms (host).
Reported cases are minimal: a disagreeing term none of whose components disagrees; keys are
layout:<goarch>:<class of the minimal term>:<quantities, and which two computations still agree>  (e2e:... for compiled programs).
VERIF_C08_E2E=0 skips the end-to-end part (development aid for mutation runs of the in-process part).
"""
import json
import os
import random
import re
import shutil
import subprocess
import time

from . import common as C

SPEC = os.path.join(C.VERIF, "spec", "layout")
HARNESS = os.path.join(C.VERIF, "harness", "c08")
PROFILES = ["p64", "p64nz", "p32a4", "p32a4nz", "p32a8", "p32a8nz"]
TARGETS = [("linux", "amd64"), ("linux", "arm64"), ("linux", "386"), ("linux", "arm"), ("wasip1", "wasm")]
HOST = "amd64"
IS64 = {"amd64", "arm64"}
QUANT = ["size", "align", "offsets", "mapslots"]


# --------------------------------------------------------------------------- terms

def tkey(t):
    return json.dumps(t, sort_keys=True, separators=(",", ":"))


def show(t):
    k = t["k"]
    if k == "basic":
        return "unsafe.Pointer" if t["n"] == "unsafeptr" else t["n"]
    if k == "ptr":
        return "*" + show(t["e"])
    if k == "slice":
        return "[]" + show(t["e"])
    if k == "chan":
        return "chan " + show(t["e"])
    if k == "map":
        return "map[%s]%s" % (show(t["key"]), show(t["e"]))
    if k == "func":
        return "func()"
    if k == "iface":
        return "interface{}" if t["m"] == 0 else "interface{M0()}"
    if k == "array":
        return "[%d]%s" % (t["len"], show(t["e"]))
    if k == "named":
        return "N(%s)" % show(t["u"])
    if k == "alias":
        return "A(%s)" % show(t["u"])
    if k == "struct":
        return "struct{%s}" % "; ".join(show(f) for f in t["fields"])
    raise ValueError(k)


def children(t):
    """component types whose layout is part of t's layout (not what a pointer-like word refers to), plus map key/elem"""
    k = t["k"]
    if k == "array":
        return [t["e"]]
    if k in ("named", "alias"):
        return [t["u"]]
    if k == "struct":
        return list(t["fields"])
    if k == "map":
        return [t["key"], t["e"]]
    return []


def subterms(t):
    yield t
    for c in children(t):
        yield from subterms(c)


def has_func(t):
    """a function value is part of t's own memory (not merely referred to)"""
    return _has_func_layout(t)


def _has_func_layout(t):
    k = t["k"]
    if k == "func":
        return True
    if k in ("array", "named", "alias", "struct"):
        return any(_has_func_layout(c) for c in children(t))
    return False


def lay(l):
    """normalise a layout to a comparable tuple (size, align, offsets, mapslots)"""
    if isinstance(l, dict):
        return (l["s"], l["a"], tuple(l.get("o") or ()), tuple(l.get("m") or ()))
    return (l[0], l[1], tuple(l[2]), tuple(l[3]))


def root_class(t):
    """stable, coarse description of a minimal disagreeing term (what kind of thing it is)"""
    k = t["k"]
    if k == "basic":
        return t["n"]
    if k == "array":
        return "array.len0" if t["len"] == 0 else "array"
    if k == "struct":
        fs = t["fields"]
        if not fs:
            return "struct.empty"
        if zero_size(fs[-1]) and not all(zero_size(f) for f in fs):
            return "struct.zerotail"
        if any(f["k"] in ("struct", "array", "named", "alias") for f in fs):
            return "struct.nested"
        return "struct.flat"
    return k


def zero_size(t):
    k = t["k"]
    if k == "struct":
        return all(zero_size(f) for f in t["fields"])
    if k == "array":
        return t["len"] == 0 or zero_size(t["e"])
    if k in ("named", "alias"):
        return zero_size(t["u"])
    return False


# --------------------------------------------------------------------------- the real `sizes` closure of build.Do

def build_sizes_closure():
    src = open(os.path.join(C.REPO, "internal", "build", "build.go")).read()
    m = re.search(r"\n(\t+)sizes := (func\(sizes types\.Sizes, compiler, arch string\) types\.Sizes \{\n.*?\n\1\})\n", src, re.S)
    if not m:
        raise C.Undecided("cannot find the `sizes` closure in internal/build/build.go (Do); the harness must be adapted")
    return m.group(2)


def sizes_file():
    return ("package ssa_test\n\n// generated by /verif: the `sizes` closure of internal/build.Do, verbatim\n\n"
            "import (\n\t\"go/types\"\n\n\tllssa \"github.com/goplus/llgo/ssa\"\n)\n\n"
            "func init() {\n\tllssa.VerifBuildSizes = func(prog llssa.Program) func(sizes types.Sizes, compiler, arch string) types.Sizes {\n"
            "\t\tsizes := " + build_sizes_closure().replace("\n", "\n\t") + "\n\t\treturn sizes\n\t}\n}\n")


# --------------------------------------------------------------------------- in-process observation

def run_targets(chk, testbin, cases_path, targets, tag=""):
    rd = chk.rd.path
    procs = []
    for goos, goarch in targets:
        out = os.path.join(rd, "obs-%s%s.ndjson" % (goarch, tag))
        env = C.base_env({"VERIF_CASES": cases_path, "VERIF_OUT": out, "VERIF_TARGET": goos + "/" + goarch,
                          "VERIF_REPO_DIR": C.REPO, "TMPDIR": chk.rd.sub("tmp")})
        log = open(os.path.join(rd, "harness-%s%s.log" % (goarch, tag)), "w")
        p = subprocess.Popen([testbin, "-test.run", "TestVerifC08Layout$", "-test.timeout", "3000s"], env=env,
                             cwd=os.path.join(C.REPO, "ssa"), stdout=log, stderr=subprocess.STDOUT)
        procs.append((goarch, p, out, log))
    res = {}
    for goarch, p, out, log in procs:
        try:
            rc = p.wait(timeout=3000)
        except subprocess.TimeoutExpired:
            p.kill()
            raise C.Undecided("layout harness timed out for " + goarch)
        log.close()
        txt = open(log.name, errors="replace").read()
        if rc != 0 or "VERIF_DONE" not in txt:
            last = -1
            try:
                with open(out) as f:
                    for line in f:
                        last = json.loads(line).get("i", last)
            except Exception:
                pass
            raise C.Undecided("layout harness died for %s while observing the case after #%d (a crash of the real code is "
                              "not a verdict on the property):\n%s" % (goarch, last, txt[-3000:]))
        info, obs = None, {}
        with open(out) as f:
            for line in f:
                d = json.loads(line)
                if "info" in d:
                    info = d["info"]
                else:
                    obs[d["i"]] = d
        res[goarch] = (info, obs)
    return res


# --------------------------------------------------------------------------- the judge

def quantities(arch, rec, o):
    """per quantity the values the computations use: {quantity: {"a":..,"b":..,"c":..}}"""
    a, b, c = lay(o["a"]), lay(o["b"]), lay(o["c"])
    q = {}
    for i, name in enumerate(QUANT):
        q[name] = {"a": a[i], "b": b[i], "c": c[i]}
    if "cd" in o:
        q["fieldalign"] = {"a": a[1], "b": b[1], "c": o["cd"][0]}
    return q


def pattern(vals):
    """who agrees with whom, e.g. 'a=b' (c stands alone)"""
    a, b, c = vals["a"], vals["b"], vals["c"]
    if a == b == c:
        return None
    return "a=b" if a == b else "a=c" if a == c else "b=c" if b == c else "all"


def judge(arch, rec, o):
    """problems of one (term, target) observation: list of (quantity-tag, detail). Empty = the property holds here."""
    if o.get("err"):
        return [("error", o["err"])]
    probs = []
    q = quantities(arch, rec, o)
    for name, vals in q.items():
        p = pattern(vals)
        if p:
            probs.append(("%s(%s)" % (name, p), "%s: compile-time %s, code generation %s, descriptor %s" % (name, vals["a"], vals["b"], vals["c"])))
    if "ct" in o and "cd" in o:
        c = lay(o["c"])
        if [c[0], c[1], o["cd"][0], o["cd"][1]] != list(o["ct"]):
            probs.append(("desc!=table", "descriptor constants (size, align, fieldalign, ptrbytes) %s differ from the abi tables %s" % ([c[0], c[1]] + list(o["cd"]), o["ct"])))
    if arch == HOST:
        # Layout(amd64); the byte after a zero-size tail field is gc's convention, not the language's, so a computation may
        # follow either convention here - that all three follow the same one is what the agreement above demands
        want = (lay(rec["L"][0]), lay(rec["L"][1]))
        for nm in "abc":
            got = lay(o[nm])
            if got not in want:
                probs.append(("spec(%s)" % nm, "%s = %s but Layout(amd64) = %s" % ({"a": "compile-time", "b": "code generation", "c": "descriptor"}[nm], got, want[0])))
    return probs


def key_tags(probs):
    """the disagreements name the case; on the host 'spec(x)' (x differs from Layout(amd64)) only when the three agree"""
    tags = sorted(set(t for t, _ in probs))
    dis = [t for t in tags if not t.startswith("spec(")]
    return "+".join(dis or tags)


def find_roots(arch, recs, obs, index):
    """recs: list of term records; obs: {i: observation}; index: term key -> i.
    Returns (roots, explained): a bad term is a root when none of its components is bad (so every reported case is a
    minimal instance; composites built from an already disagreeing component are counted, not re-reported)."""
    bad = {}
    for i, rec in enumerate(recs):
        o = obs.get(i)
        if o is None or o.get("err"):          # not observed: counted by the caller, never a verdict
            continue
        p = judge(arch, rec, o)
        if p:
            bad[i] = p
    roots, explained = [], 0
    for i, p in bad.items():
        kids = [index.get(tkey(c)) for c in children(recs[i]["t"])]
        if any(k is not None and k in bad for k in kids):
            explained += 1
        else:
            roots.append((i, p))
    return roots, explained, len(bad)


def fit_profiles(recs, obs):
    """which profile of the family each computation follows (fraction of terms matched by the best profile)"""
    cnt = {nm: [0] * len(PROFILES) for nm in "abc"}
    n = 0
    for i, rec in enumerate(recs):
        o = obs.get(i)
        if o is None or o.get("err"):
            continue
        n += 1
        Ls = [lay(x) for x in rec["L"]]
        for nm in "abc":
            v = lay(o[nm])
            for pi in range(len(PROFILES)):
                if v == Ls[pi]:
                    cnt[nm][pi] += 1
    out = {}
    for nm in "abc":
        best = max(range(len(PROFILES)), key=lambda pi: cnt[nm][pi])
        out[nm] = "%s %d/%d" % (PROFILES[best], cnt[nm][best], n)
    return out


# --------------------------------------------------------------------------- gcc (C-compatible subset, host)

C_BASIC = {"bool": "_Bool", "int8": "int8_t", "uint8": "uint8_t", "int16": "int16_t", "uint16": "uint16_t", "int32": "int32_t",
           "uint32": "uint32_t", "int64": "int64_t", "uint64": "uint64_t", "int": "int64_t", "uint": "uint64_t",
           "uintptr": "uintptr_t", "float32": "float", "float64": "double", "complex64": "float _Complex",
           "complex128": "double _Complex", "unsafeptr": "void *"}


def cdecl(t, name):
    k = t["k"]
    if k == "basic":
        return "%s %s" % (C_BASIC[t["n"]], name)
    if k == "ptr":
        return "void *%s" % name
    if k == "array":
        return cdecl(t["e"], "%s[%d]" % (name, t["len"]))
    if k in ("named", "alias"):
        return cdecl(t["u"], name)
    if k == "struct":
        return "struct { %s; } %s" % ("; ".join(cdecl(f, "f%d" % i) for i, f in enumerate(t["fields"])), name)
    raise ValueError("not C-compatible: " + k)


def under(t):
    while t["k"] in ("named", "alias"):
        t = t["u"]
    return t


def run_gcc(chk, recs, idxs):
    """sizeof/_Alignof/offsetof of the C rendering of the C-compatible terms -> {i: (size, align, offsets, ())}"""
    rd = chk.rd.sub("gcc")
    lines = ["#include <stdio.h>", "#include <stdint.h>", "#include <stddef.h>", ""]
    body = []
    for i in idxs:
        t = recs[i]["t"]
        lines.append("typedef %s;" % cdecl(t, "T%d" % i))
        u = under(t)
        offs = ""
        args = ""
        if u["k"] == "struct":
            offs = " %zu" * len(u["fields"])
            args = "".join(", offsetof(T%d, f%d)" % (i, j) for j in range(len(u["fields"])))
        body.append('  printf("%d %%zu %%zu%s\\n", sizeof(T%d), _Alignof(T%d)%s);' % (i, offs, i, i, args))
    # printf calls spread over several functions (keeps gcc fast)
    funcs = []
    for k in range(0, len(body), 500):
        funcs.append("static void p%d(void) {\n%s\n}" % (k // 500, "\n".join(body[k:k + 500])))
    lines += funcs
    lines.append("int main(void) {\n%s\n  return 0;\n}" % "\n".join("  p%d();" % j for j in range(len(funcs))))
    src = os.path.join(rd, "lay.c")
    with open(src, "w") as f:
        f.write("\n".join(lines) + "\n")
    exe = os.path.join(rd, "lay")
    r = subprocess.run(["gcc", "-O0", "-w", "-std=gnu11", "-o", exe, src], capture_output=True, text=True, timeout=900)
    if r.returncode != 0:
        raise C.Undecided("gcc failed on the C rendering of the C-compatible terms:\n" + r.stderr[-2000:])
    r = subprocess.run([exe], capture_output=True, text=True, timeout=300)
    if r.returncode != 0:
        raise C.Undecided("the gcc-compiled layout program failed")
    out = {}
    for line in r.stdout.split("\n"):
        f = line.split()
        if f:
            out[int(f[0])] = (int(f[1]), int(f[2]), tuple(int(x) for x in f[3:]), ())
    return out


# --------------------------------------------------------------------------- end to end (host)

GO_BASIC = {"unsafeptr": "unsafe.Pointer"}


class GoRender:
    def __init__(self):
        self.decls = []

    def typ(self, t):
        k = t["k"]
        if k == "basic":
            return GO_BASIC.get(t["n"], t["n"])
        if k == "ptr":
            return "*" + self.typ(t["e"])
        if k == "slice":
            return "[]" + self.typ(t["e"])
        if k == "chan":
            return "chan " + self.typ(t["e"])
        if k == "map":
            return "map[%s]%s" % (self.typ(t["key"]), self.typ(t["e"]))
        if k == "func":
            return "func()"
        if k == "iface":
            return "interface{}" if t["m"] == 0 else "interface{ M0() }"
        if k == "array":
            return "[%d]%s" % (t["len"], self.typ(t["e"]))
        if k == "struct":
            return "struct{ %s }" % "; ".join("F%d %s" % (i, self.typ(f)) for i, f in enumerate(t["fields"]))
        if k == "named":
            name = "N%d" % len(self.decls)
            self.decls.append(None)
            self.decls[int(name[1:])] = "type %s %s" % (name, self.typ(t["u"]))
            return name
        if k == "alias":
            name = "N%d" % len(self.decls)
            self.decls.append(None)
            self.decls[int(name[1:])] = "type %s = %s" % (name, self.typ(t["u"]))
            return name
        raise ValueError(k)


def e2e_program(recs, idxs):
    r = GoRender()
    funcs = []
    for i in idxs:
        t = recs[i]["t"]
        ty = r.typ(t)
        u = under(t)
        nf = len(u["fields"]) if u["k"] == "struct" else 0
        a = "".join(", unsafe.Offsetof(v[0].F%d)" % j for j in range(nf))
        b = "".join(", addr(unsafe.Pointer(&v[0].F%d))-addr(unsafe.Pointer(&v[0]))" % j for j in range(nf))
        c = "".join(", rt.Field(%d).Offset" % j for j in range(nf))
        funcs.append("""func t%d() {
	var v [2]%s
	var w struct {
		b byte
		x %s
	}
	rt := reflect.TypeOf(&v[0]).Elem()
	println(%d, "a", unsafe.Sizeof(v[0]), unsafe.Alignof(v[0])%s)
	println(%d, "b", addr(unsafe.Pointer(&v[1]))-addr(unsafe.Pointer(&v[0])), addr(unsafe.Pointer(&w.x))-addr(unsafe.Pointer(&w))%s)
	println(%d, "g", gsize(&v[0]), galign(&v[0]))
	println(%d, "c", rt.Size(), rt.Align(), rt.FieldAlign()%s)
}
""" % (i, ty, ty, i, a, i, b, i, i, c))
    src = ("package main\n\nimport (\n\t\"reflect\"\n\t\"unsafe\"\n)\n\n"
           "//go:noinline\nfunc addr(p unsafe.Pointer) uintptr { return uintptr(p) }\n\n"
           "func gsize[X any](p *X) uintptr  { return unsafe.Sizeof(*p) }\nfunc galign[X any](p *X) uintptr { return unsafe.Alignof(*p) }\n\n"
           + "\n".join(d for d in r.decls) + "\n\n" + "\n".join(funcs)
           + "\nfunc main() {\n" + "".join("\tt%d()\n" % i for i in idxs) + "\tprintln(\"DONE\")\n}\n")
    return src


class BuildFailed(Exception):
    pass


def run_e2e(chk, recs, idxs, label, failures, budget):
    """run_e2e_batch, isolating terms the compiler itself cannot compile (a compiler crash is not a verdict on C08):
    a failing batch is split until the offending terms stand alone; they are recorded in `failures` and left out"""
    try:
        return run_e2e_batch(chk, recs, idxs, label)
    except BuildFailed as e:
        if len(idxs) == 1:
            failures.append({"term": show(recs[idxs[0]]["t"]), "output": str(e)[:400]})
            return {}
        budget[0] -= 1
        if budget[0] < 0:
            raise C.Undecided("llgo cannot build the layout programs (too many failing batches):\n" + str(e)[:3000])
        h = len(idxs) // 2
        out = run_e2e(chk, recs, idxs[:h], label + "l", failures, budget)
        out.update(run_e2e(chk, recs, idxs[h:], label + "r", failures, budget))
        return out


def run_e2e_batch(chk, recs, idxs, label):
    """compile one program with the real llgo and collect what it prints: {i: observation in the in-process format}"""
    rd = chk.rd.path
    mod = os.path.join(rd, "e2e-" + label)
    C.write_module(mod, {"main.go": e2e_program(recs, idxs)}, modname="c08e2e" + label)
    exe = os.path.join(mod, "prog.exe")
    t0 = time.time()
    # concurrent llgo processes must not share one cache: every program gets a private copy of the golden cache
    cache = os.path.join(mod, "cache")
    shutil.copytree(C.golden_cache("O0", "O0", ""), cache)
    ok, out = C.llgo_build(mod, exe, rundir=mod, timeout=1500, extra_env={"XDG_CACHE_HOME": cache})
    shutil.rmtree(cache, ignore_errors=True)
    C.log("end-to-end program %s: %d terms built by llgo in %.0fs" % (label, len(idxs), time.time() - t0))
    if not ok:
        raise BuildFailed(out)
    st, so, _ = C.run_exe(exe, timeout=120, merge=True)
    if st != 0 or "DONE" not in so:
        raise C.Undecided("the llgo-compiled layout program %s failed (status %s):\n%s" % (label, st, so[-1500:]))
    raw = {}
    for line in so.split("\n"):
        f = line.split()
        if len(f) >= 4 and f[1] in ("a", "b", "c", "g"):
            raw.setdefault(int(f[0]), {})[f[1]] = [int(x) for x in f[2:]]
    obs = {}
    for i in idxs:
        r = raw.get(i)
        if not r or any(k not in r for k in "abcg"):
            raise C.Undecided("layout program %s printed nothing for term %d" % (label, i))
        obs[i] = {"i": i,
                  "a": {"s": r["a"][0], "a": r["a"][1], "o": r["a"][2:], "m": []},
                  "b": {"s": r["b"][0], "a": r["b"][1], "o": r["b"][2:], "m": []},
                  "c": {"s": r["c"][0], "a": r["c"][1], "o": r["c"][3:], "m": []},
                  "cd": [r["c"][2], 0], "g": r["g"]}
    return obs


def judge_e2e(rec, o):
    """like judge(), on what a compiled program printed; map slots are not observable there"""
    rec2 = dict(rec)
    rec2["L"] = [[x[0], x[1], x[2], []] for x in rec["L"]]
    probs = judge(HOST, rec2, {k: v for k, v in o.items() if k != "g"})
    g = o["g"]
    a = lay(o["a"])
    if (g[0], g[1]) != (a[0], a[1]):
        probs.append(("generic", "unsafe.Sizeof/Alignof of a type-parameter value give %s, of the same type written out %s" % (g, [a[0], a[1]])))
    return probs



def load_terms(res):
    recs, index = [], {}
    for d in C.tlc_printed_iter(res):
        k = tkey(d["t"])
        if k in index:
            continue
        index[k] = 1
        recs.append(d)
    recs.sort(key=lambda d: tkey(d["t"]))          # TLC's print order varies with its workers
    index = {tkey(d["t"]): i for i, d in enumerate(recs)}
    return recs, index


def closure(recs, index, idxs):
    """idxs plus all their components (so that minimality of a reported case can be decided)"""
    out, todo = set(), list(idxs)
    while todo:
        i = todo.pop()
        if i in out:
            continue
        out.add(i)
        for c in children(recs[i]["t"]):
            j = index.get(tkey(c))
            if j is not None and j not in out:
                todo.append(j)
    return sorted(out)


REF_PROFILE = {"amd64": 0, "arm64": 0, "386": 2, "arm": 2}      # what the reference toolchain (gc) does on the arch


def check(chk):
    from concurrent.futures import ThreadPoolExecutor
    thorough = chk.tier == "thorough"
    rd = chk.rd.path
    rng = random.Random(C.seed())
    files = {"zz_verif_c08_test.go": open(os.path.join(HARNESS, "zz_verif_c08_test.go")).read(),
             "zz_verif_c08_sizes_test.go": sizes_file()}
    pool = ThreadPoolExecutor(max_workers=4)
    f_bin = pool.submit(C.gotest_compile_injected, "ssa", files, rd, "", True, 1500)
    if os.environ.get("VERIF_C08_E2E") != "0":
        pool.submit(C.llgo_binary)          # started early; the end-to-end builds wait for it under its own lock
    cfg = "layout_thorough.cfg" if thorough else "layout_quick.cfg"
    res = C.tlc(SPEC, "Layout", cfg, rd, timeout=2400, parse_json=False, tlc_seed=C.seed())
    if not res.ok:
        raise C.Undecided("Layout.tla: a law of the layout itself failed in TLC (spec defect): %s" % res.violation)
    chk.add_tlc(res, "Layout/" + chk.tier)
    recs, index = load_terms(res)
    if len(recs) < 5000:
        raise C.Undecided("Layout.tla emitted only %d terms" % len(recs))
    C.log("TLC: %d terms in %.0fs" % (len(recs), res.wall))

    # ---------------- in process: every term x every target
    cases = os.path.join(rd, "cases.ndjson")
    with open(cases, "w") as f:
        for i, d in enumerate(recs):
            f.write(json.dumps({"i": i, "t": d["t"]}) + "\n")
    testbin = f_bin.result()
    C.log("injected test binary ready after %.0fs" % (time.time() - chk.t0))
    t0 = time.time()
    # the end-to-end program is built while the in-process harness runs
    n_e2e = 1500 if thorough else 30
    leaves = [i for i, d in enumerate(recs) if d["ph"] == 1]
    # deterministic representatives (so that a known class is met whatever the seed) + a seeded sample
    I8, FNT = {"k": "basic", "n": "int8"}, {"k": "func"}
    sentinels = [{"k": "struct", "fields": [I8, {"k": "struct", "fields": []}]}, {"k": "alias", "u": {"k": "struct", "fields": [FNT]}},
                 {"k": "struct", "fields": [I8, FNT, {"k": "basic", "n": "int64"}]}, {"k": "array", "len": 3, "e": {"k": "struct", "fields": [FNT]}}]
    pick = set(leaves) | set(rng.sample(range(len(recs)), min(n_e2e, len(recs))))
    pick |= set(index[tkey(t)] for t in sentinels if tkey(t) in index)
    e2e_idx = closure(recs, index, pick)
    if os.environ.get("VERIF_C08_E2E") == "0":      # development aid (mutation testing of the in-process part only)
        e2e_idx = []
    batches = [e2e_idx[k:k + 400] for k in range(0, len(e2e_idx), 400)]
    e2e_failures, e2e_budget = [], [24]
    f_e2e = [pool.submit(run_e2e, chk, recs, b, "b%d" % bi, e2e_failures, e2e_budget) for bi, b in enumerate(batches)]
    results = run_targets(chk, testbin, cases, TARGETS)
    C.log("in-process harness: %d terms x %d targets in %.0fs" % (len(recs), len(TARGETS), time.time() - t0))

    # negative controls: the judge must reject a wrong expectation and a corrupted observation
    ki = index.get(tkey({"k": "struct", "fields": [{"k": "basic", "n": "int8"}, {"k": "basic", "n": "int64"}]}))
    if ki is None:
        raise C.Undecided("negative control term not enumerated")
    wrong = json.loads(json.dumps(recs[ki]))
    wrong["L"][0][0] += 1
    wrong["L"][1][0] += 1
    o64 = results[HOST][1][ki]
    def tags(probs):
        return set(t for t, _ in probs)

    if not (tags(judge(HOST, wrong, o64)) - tags(judge(HOST, recs[ki], o64))) & {"spec(a)", "spec(b)", "spec(c)"}:
        raise C.Undecided("negative control: a wrong expected size for struct{int8; int64} was not flagged")
    oarm = json.loads(json.dumps(results["arm64"][1][ki]))
    oarm["b"], oarm["c"] = json.loads(json.dumps(oarm["a"])), json.loads(json.dumps(oarm["a"]))
    oarm["cd"][0] = oarm["a"]["a"]
    oarm.pop("ct", None)
    same = tags(judge("arm64", recs[ki], oarm))
    oarm["b"]["o"][-1] += 1
    if same or "offsets(a=c)" not in tags(judge("arm64", recs[ki], oarm)):
        raise C.Undecided("negative control: a corrupted field offset was not flagged as a disagreement")

    # self-validation of the profiles against the reference toolchain's own sizes (func-free terms)
    nref = 0
    for arch, pi in REF_PROFILE.items():
        for i, o in results[arch][1].items():
            if o.get("ref") and not o.get("err"):
                nref += 1
                if lay(o["ref"]) != lay(recs[i]["L"][pi]):
                    raise C.Undecided("Layout.tla (%s) disagrees with go/types gc sizes on %s for %s: spec %s, go/types %s" % (
                        PROFILES[pi], arch, show(recs[i]["t"]), lay(recs[i]["L"][pi]), lay(o["ref"])))
    # ... and against the host C compiler for the C-compatible terms
    cc = [i for i, d in enumerate(recs) if d["cc"]]
    t0 = time.time()
    gcc = run_gcc(chk, recs, cc)
    C.log("gcc: %d C-compatible terms in %.0fs" % (len(cc), time.time() - t0))
    for i in cc:
        want = lay(recs[i]["L"][0])
        if gcc.get(i) != want:
            raise C.Undecided("Layout.tla (amd64) disagrees with gcc for %s: spec %s, gcc %s" % (show(recs[i]["t"]), want, gcc.get(i)))

    # the verdicts
    nobs, nerr = 0, 0
    fits = {}
    for goos, arch in TARGETS:
        info, obs = results[arch]
        nobs += len(obs)
        errs = [o for o in obs.values() if o.get("err")]
        nerr += len(errs)
        if len(errs) > len(obs) // 20:
            raise C.Undecided("the harness could not observe %d of %d terms on %s, e.g. %s" % (len(errs), len(obs), arch, errs[0]))
        roots, explained, nbad = find_roots(arch, recs, obs, index)
        fits[arch] = fit_profiles(recs, obs)
        fits[arch]["sizes"] = info["base"] + " -> " + info["sizes"]
        fits[arch]["disagreeing_terms"] = nbad
        fits[arch]["minimal"] = len(roots)
        groups = {}
        for i, probs in roots:
            key = "layout:%s:%s:%s" % (arch, root_class(recs[i]["t"]), key_tags(probs))
            groups.setdefault(key, []).append((i, probs))
        for key, items in sorted(groups.items()):
            i, probs = items[0]
            chk.reject(key, "%s: %d minimal term(s), e.g. %s: %s (%d terms built from such components not listed)" % (
                arch, len(items), show(recs[i]["t"]), "; ".join(d for _, d in probs), explained),
                {"target": info, "examples": [{"term": recs[j]["t"], "go": show(recs[j]["t"]), "observed": obs[j],
                                               "spec_profiles": dict(zip(PROFILES, recs[j]["L"])), "problems": pr} for j, pr in items[:8]]})
        # second sentence: C-compatible terms equal the host C compiler's layout
        if arch == HOST:
            for i in cc:
                o = obs[i]
                if o.get("err"):
                    continue
                for nm in "abc":
                    if lay(o[nm]) != gcc[i] and not judge(arch, recs[i], o):
                        chk.reject("layout:%s:%s:cabi(%s)" % (arch, root_class(recs[i]["t"]), nm),
                                   "%s: llgo %s, gcc %s" % (show(recs[i]["t"]), lay(o[nm]), gcc[i]), {"term": recs[i]["t"], "observed": o, "gcc": gcc[i]})

    # ---------------- layer B (report only): the "go/types size + one word per func value afterwards" mechanism
    if thorough:
        layer_b = {}
        for cfgname, expect in (("impl_p64", True), ("impl_p32a4", True), ("impl_p64_noalias", False), ("impl_p32a8", False)):
            rb = C.tlc(SPEC, "LayoutImpl", cfgname + ".cfg", rd, timeout=1200, parse_json=False, workers=4)
            chk.add_tlc(rb, "LayoutImpl/" + cfgname)
            cex = re.findall(r"/\\ t = (.*)", rb.out)
            layer_b[cfgname] = {"mechanism_matches_layout": rb.ok, "as_expected": rb.ok == expect,
                                "counterexample": cex[-1] if (cex and not rb.ok) else None}
        chk.cov["layer_B_LayoutImpl"] = layer_b

    # ---------------- end to end on the host
    e2e_obs = {}
    for f in f_e2e:
        e2e_obs.update(f.result())
    e2e_idx = [i for i in e2e_idx if i in e2e_obs]
    bad = {i: p for i, p in ((i, judge_e2e(recs[i], e2e_obs[i])) for i in e2e_idx) if p}
    groups = {}
    e2e_explained = 0
    for i, probs in bad.items():
        kids = [index.get(tkey(c)) for c in children(recs[i]["t"])]
        if any(k in bad for k in kids if k is not None):
            e2e_explained += 1
            continue
        key = "e2e:%s:%s:%s" % (HOST, root_class(recs[i]["t"]), key_tags(probs))
        groups.setdefault(key, []).append((i, probs))
    for key, items in sorted(groups.items()):
        i, probs = items[0]
        chk.reject(key, "llgo-compiled program: %d minimal term(s), e.g. %s: %s" % (len(items), show(recs[i]["t"]), "; ".join(d for _, d in probs)),
                   {"examples": [{"term": recs[j]["t"], "go": show(recs[j]["t"]), "printed": e2e_obs[j], "spec_amd64": recs[j]["L"][0],
                                  "problems": pr} for j, pr in items[:8]], "program": e2e_program(recs, closure(recs, index, [i]))})
    # the in-process observations are what the compiled program shows (binding of the harness to the real build)
    drift = []
    for i in e2e_idx:
        o, e = results[HOST][1][i], e2e_obs[i]
        if o.get("err"):
            continue
        for nm in "abc":
            if nm == "c" and under(recs[i]["t"])["k"] == "func":
                continue        # reflect presents a closure as its code pointer's func type; judged on its own below
            x, y = lay(o[nm]), lay(e[nm])
            if (x[0], x[1], x[2]) != (y[0], y[1], y[2]):
                drift.append("%s %s: in-process %s, compiled program %s" % (show(recs[i]["t"]), nm, x[:3], y[:3]))
    if drift:
        raise C.Undecided("%d in-process observations differ from what the llgo-compiled program prints (the harness does not "
                          "follow the real build), e.g. %s" % (len(drift), "; ".join(drift[:4])))

    ncomposite = sum(1 for d in recs if d["t"]["k"] in ("struct", "array", "map", "named", "alias"))
    chk.cov["evaluations"] = nobs + len(e2e_idx) + len(cc)
    chk.cov["distinct_nontrivial"] = ncomposite
    chk.cov["traces_validated_against_impl"] = nobs - nerr + len(e2e_idx)
    chk.cov["rule"] = ("one evaluation = one (type term, target) whose three layouts (compile-time sizes, LLVM data layout, emitted "
                       "descriptor constants) were obtained from the real code and compared with each other (all targets) and with "
                       "Lay(t, AMD64) computed by TLC (host); plus terms printed by llgo-compiled programs and gcc. non-trivial = "
                       "distinct composite terms (struct / array / map / named / alias)")
    chk.cov["terms"] = len(recs)
    chk.cov["targets"] = ["%s/%s" % t for t in TARGETS]
    chk.cov["observed_profiles"] = fits
    chk.cov["c_compatible_terms_vs_gcc"] = len(cc)
    chk.cov["reference_sizes_self_validation"] = nref
    chk.cov["end_to_end_terms"] = len(e2e_idx)
    chk.cov["end_to_end_disagreeing"] = len(bad)
    chk.cov["end_to_end_compiler_failures"] = e2e_failures[:10]
    chk.cov["harness_errors"] = nerr
    chk.sample({"negative_control": "struct{int8; int64} with expected size %d instead of %d must be flagged" % (wrong["L"][0][0], recs[ki]["L"][0][0]),
                "observed_amd64": {k: o64.get(k) for k in "abc"}})
    mid = recs[len(recs) // 2]
    chk.sample({"term": show(mid["t"]), "spec": dict(zip(PROFILES, mid["L"])),
                "observed": {a: {k: results[a][1][len(recs) // 2].get(k) for k in "abc"} for _, a in TARGETS}})
    chk.assumptions += [
        "the go/types values built by the harness represent the terms (self-validated: go/types' own gc sizes equal the spec "
        "profile on every func-free term; gcc equals it on every C-compatible term)",
        "compile-time sizes are obtained as internal/build.Do obtains them: compiler/arch from `go list`, types.SizesFor, then "
        "Do's `sizes` closure compiled verbatim from internal/build/build.go (end-to-end programs confirm on the host)",
        "off the host only agreement of llgo's own three computations is judged; the fitted profile is reported",
        "on the host each computation must equal Layout(amd64) with or without the byte gc adds after a zero-size tail field "
        "(the language does not prescribe it); which of the two is chosen must be the same in all three (agreement)",
        "a disagreeing term built from an already disagreeing component is counted, not reported separately",
    ]


if __name__ == "__main__":
    C.main_wrapper("C08", check)

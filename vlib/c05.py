"""C05 — slices and strings: append, copy, slicing, iteration and conversion semantics.

spec/slices/SliceModel.tla  layer A: heap of backing arrays + slice windows; append/copy/reslice/make/clear/index laws
spec/slices/SliceGen.tla    TLC explores SliceModel and prints one script per transition (operands chosen around
                            every window boundary, out-of-range operands included: they must panic)
spec/slices/SliceTrace.tla  trace validation: the log of a script executed by an llgo-compiled interpreter must be
                            a behaviour of SliceModel (capacity of a fresh array bound to the observed one)
spec/slices/Utf8.tla        layer A: well-formed UTF-8 (Unicode table 3-7) decoder/encoder, range iteration,
                            conversions, comparison, concatenation, slicing, indexing of strings
spec/slices/Utf8Cases.tla   TLC enumerates every byte string over a boundary alphabet and prints the expected results
binding: harness/c05 (a Go module) is compiled by the llgo built from the working tree (O0; thorough adds O2 and
         -tags nogc) and fed all scripts / byte strings on stdin; its output is judged by the specs.
         The reference toolchain runs the same program only to self-validate the specs (spec rejects go -> exit 2).
"""
import json
import os
import random
import shutil
import time
from concurrent.futures import ThreadPoolExecutor

from . import common as C

SPEC = os.path.join(C.VERIF, "spec", "slices")
HARNESS = os.path.join(C.VERIF, "harness", "c05")
OMIT = -9999
SIZES = [0, 1, 2, 3, 8, 24]
_T0 = time.time()


def tick(msg):
    C.log("[c05 %6.1fs] %s" % (time.time() - _T0, msg))


TYPENAME = {0: "struct{}", 1: "uint8", 2: "uint16", 3: "[3]byte", 8: "int64", 24: "[3]int64"}

# --------------------------------------------------------------------------- script tokens <-> operations

ARITY = {1: 3, 3: 4, 4: 5, 6: 4, 7: 3, 8: 2, 9: 1, 10: 3, 11: 2, 12: 1, 13: 2, 14: 2}   # operands after the opcode
OPNAME = {1: "make", 2: "lit", 3: "r2", 4: "r3", 5: "app", 6: "appn", 7: "apps", 8: "copy", 9: "clear", 10: "set",
          11: "idx", 12: "nil", 13: "probe", 14: "mov"}


def split_ops(tokens):
    """token list -> list of (opcode, operands)"""
    ops = []
    i = 0
    while i < len(tokens):
        c = tokens[i]
        if c == 2:
            n = 2 + tokens[i + 2]
        elif c == 5:
            n = 3 + tokens[i + 3]
        else:
            n = ARITY[c]
        ops.append((c, tokens[i + 1:i + 1 + n]))
        i += 1 + n
    return ops


def model_op(c, a):
    """the operation record SliceModel!Apply takes"""
    def op(k, d=0, s=0, o=0, args=(), v=()):
        return {"k": k, "d": d, "s": s, "o": o, "a": list(args), "v": list(v)}
    if c == 1:
        return op("make", a[0], args=a[1:3])
    if c == 2:
        return op("lit", a[0], v=a[2:])
    if c == 3:
        return op("r2", a[0], a[1], args=a[2:4])
    if c == 4:
        return op("r3", a[0], a[1], args=a[2:5])
    if c == 5:
        return op("app", a[0], a[1], v=a[3:])
    if c == 6:
        return op("app", a[0], a[1], v=[(a[3] + m) & 255 for m in range(a[2])])
    if c == 7:
        return op("apps", a[0], a[1], a[2])
    if c == 8:
        return op("copy", a[0], a[1])
    if c == 9:
        return op("clear", a[0])
    if c == 10:
        return op("set", a[0], args=a[1:3])
    if c == 11:
        return op("idx", a[0], args=a[1:2])
    if c == 12:
        return op("nil", a[0])
    if c == 13:
        return op("probe", a[0], args=a[1:2])
    if c == 14:
        return op("mov", a[0], a[1])
    raise ValueError(c)


def show_op(c, a):
    def ix(x):
        return "" if x == OMIT else str(x)
    n = OPNAME[c]
    if c == 1:
        return "v%d=make([]T,%s)" % (a[0], ",".join(str(x) for x in a[1:3] if x != OMIT))
    if c == 2:
        return "v%d=[]T{%s}" % (a[0], ",".join(map(str, a[2:])))
    if c == 3:
        return "v%d=v%d[%s:%s]" % (a[0], a[1], ix(a[2]), ix(a[3]))
    if c == 4:
        return "v%d=v%d[%s:%s:%s]" % (a[0], a[1], ix(a[2]), ix(a[3]), ix(a[4]))
    if c == 5:
        return "v%d=append(v%d%s)" % (a[0], a[1], "".join("," + str(x) for x in a[3:]))
    if c == 6:
        return "v%d=append(v%d,<%d fresh values from %d>...)" % (a[0], a[1], a[2], a[3])
    if c == 7:
        return "v%d=append(v%d,v%d...)" % (a[0], a[1], a[2])
    if c == 8:
        return "copy(v%d,v%d)" % (a[0], a[1])
    if c == 9:
        return "clear(v%d)" % a[0]
    if c == 10:
        return "v%d[%d]=%d" % (a[0], a[1], a[2])
    if c == 11:
        return "_=v%d[%d]" % (a[0], a[1])
    if c == 12:
        return "v%d=nil" % a[0]
    if c == 13:
        return "probe(v%d[:cap],%d)" % (a[0], a[1])
    if c == 14:
        return "v%d=v%d" % (a[0], a[1])
    return n


def show_script(tokens):
    return "; ".join(show_op(c, a) for c, a in split_ops(tokens))


def parse_step(seg):
    """'ok 2:3:0,0 ~' -> (out, [var states])"""
    parts = seg.split(" ")
    st = parts[0]
    if st == "ok":
        out = {"p": False, "r": 0}
    elif st == "panic":
        out = {"p": True, "r": 0}
    elif st[0] in "nx":
        out = {"p": False, "r": int(st[1:])}
    else:
        raise ValueError("bad status " + st)
    vs = []
    for p in parts[1:]:
        if p == "~":
            vs.append({"nil": True, "len": 0, "cap": 0, "c": []})
        else:
            ln, cp, cs = p.split(":")
            vs.append({"nil": False, "len": int(ln), "cap": int(cp), "c": [int(x) for x in cs.split(",")] if cs else []})
    return out, vs


def make_trace(tid, nv, tokens, logline):
    """logline: the text after 'S <id> ' """
    ops = split_ops(tokens)
    segs = logline.split(" / ") if logline else []
    if len(segs) != len(ops):
        raise ValueError("log has %d steps, script %d" % (len(segs), len(ops)))
    ev = []
    for (c, a), seg in zip(ops, segs):
        try:
            out, vs = parse_step(seg)
        except (IndexError, KeyError, TypeError) as e:
            raise ValueError("malformed step %r" % seg[:80])
        if len(vs) != nv:
            raise ValueError("log shows %d variables, script has %d" % (len(vs), nv))
        ev.append({"op": model_op(c, a), "out": out, "st": vs})
    return {"id": tid, "nv": nv, "ev": ev}


# --------------------------------------------------------------------------- seeded longer scripts

def random_script(rng, nv, nsteps, big):
    """a longer script; a light shadow of (len, cap) per variable only steers operand choice towards the window
    boundaries (it is not a judge: any script is valid, out-of-range operands must panic)"""
    sh = [None] * nv            # None = nil, else [len, cap]
    toks = []
    limit = 900 if big else 40

    def L(v):
        return sh[v][0] if sh[v] else 0

    def Cp(v):
        return sh[v][1] if sh[v] else 0

    def grow(s, n):
        need = L(s) + n
        if need <= Cp(s):
            return None if sh[s] is None else [need, Cp(s)]
        return [need, max(need, 2 * Cp(s))]

    def near(x):
        return max(-1, x + rng.choice([-2, -1, -1, 0, 0, 0, 0, 1, 1, 2]))

    for _ in range(nsteps):
        d, s, o = rng.randrange(nv), rng.randrange(nv), rng.randrange(nv)
        r = rng.random()
        if r < 0.08:
            if big and rng.random() < 0.5:
                l = rng.choice([120, 127, 128, 129, 250, 255, 256, 257, 300])
            else:
                l = rng.randrange(0, 9)
            c = rng.choice([OMIT, l, l + 1, l + rng.randrange(0, 8)])
            if rng.random() < 0.05:
                l, c = rng.choice([(2, 1), (-1, 3), (0, -1)])
            toks += [1, d, l, c]
            if l >= 0 and (c == OMIT or c >= l):
                sh[d] = [l, l if c == OMIT else c]
        elif r < 0.14:
            k = rng.randrange(0, 5)
            toks += [2, d, k] + [rng.randrange(1, 256) for _ in range(k)]
            sh[d] = [k, k]
        elif r < 0.28:
            cp = Cp(s)
            if rng.random() < 0.85:
                j = rng.randrange(0, cp + 1)
                i = rng.randrange(0, j + 1)
                if rng.random() < 0.3:
                    j = rng.choice([L(s), cp, j])
                    i = min(i, j)
            else:
                i, j = near(rng.randrange(0, cp + 1)), near(cp)
            fi = OMIT if (i == 0 and rng.random() < 0.3) else i
            fj = OMIT if (j == L(s) and rng.random() < 0.5) else j
            toks += [3, d, s, fi, fj]
            if 0 <= i <= j <= cp:
                sh[d] = None if sh[s] is None else [j - i, cp - i]
        elif r < 0.38:
            cp = Cp(s)
            if rng.random() < 0.85:
                k = rng.randrange(0, cp + 1)
                j = rng.randrange(0, k + 1)
                i = rng.randrange(0, j + 1)
            else:
                i, j, k = near(0), near(rng.randrange(0, cp + 1)), near(cp)
            fi = OMIT if (i == 0 and rng.random() < 0.3) else i
            toks += [4, d, s, fi, j, k]
            if 0 <= i <= j <= k <= cp:
                sh[d] = None if sh[s] is None else [j - i, k - i]
        elif r < 0.52:
            k = rng.randrange(0, 4)
            toks += [5, d, s, k] + [rng.randrange(1, 256) for _ in range(k)]
            sh[d] = grow(s, k)
        elif r < 0.60:
            if big:
                n = rng.choice([1, 7, 100, 127, 128, 129, 200, 255, 256, 257, 300])
                room = Cp(s) - L(s)
                if rng.random() < 0.3:
                    n = max(0, room + rng.choice([-1, 0, 1]))
            else:
                room = Cp(s) - L(s)
                n = rng.choice([rng.randrange(0, 10), max(0, room), room + 1, max(0, room - 1)])
            if L(s) + n > limit:
                n = 1
            toks += [6, d, s, n, rng.randrange(1, 256)]
            sh[d] = grow(s, n)
        elif r < 0.72:
            if L(s) + L(o) > limit:
                toks += [9, d]
                continue
            toks += [7, d, s, o]
            sh[d] = grow(s, L(o))
        elif r < 0.80:
            toks += [8, d, s]
        elif r < 0.83:
            toks += [9, d]
        elif r < 0.90:
            i = rng.randrange(0, L(d)) if L(d) and rng.random() < 0.9 else near(L(d))
            toks += [10, d, i, rng.randrange(1, 256)]
        elif r < 0.92:
            i = rng.randrange(0, L(d)) if L(d) and rng.random() < 0.8 else near(L(d))
            toks += [11, d, i]
        elif r < 0.94:
            toks += [12, d]
            sh[d] = None
        elif r < 0.98:
            toks += [13, d, rng.randrange(1, 256)]
        else:
            toks += [14, d, s]
            sh[d] = None if sh[s] is None else list(sh[s])
    return toks


# --------------------------------------------------------------------------- running the interpreter

def run_batch(exe, lines, timeout=400):
    st, so, _ = C.run_exe(exe, stdin=("".join(lines)).encode(), timeout=timeout, merge=True)
    outl = so.splitlines()
    complete = st == 0 and bool(outl) and outl[-1] == "END"
    return st, outl, complete


def build_all(chk, configs):
    """{config name: exe} for the llgo configurations, plus 'ref' (reference toolchain, spec self-validation only)"""
    rd = chk.rd.path
    src = os.path.join(rd, "c05prog")
    shutil.copytree(HARNESS, src)
    exes = {}

    def b_llgo(cfg):
        opt, tags = cfg
        name = opt + ("-" + tags if tags else "")
        sub = chk.rd.sub("build-" + name)
        exe = os.path.join(sub, "c05." + name)
        ok, out = C.llgo_build(src, exe, opt=opt, tags=tags, rundir=sub)
        return name, (exe if ok else None), out

    def b_ref(_):
        exe = os.path.join(rd, "c05.ref")
        ok, out = C.go_build(src, exe)
        return "ref", (exe if ok else None), out

    C.llgo_binary()
    with ThreadPoolExecutor(max_workers=4) as ex:
        futs = [ex.submit(b_ref, None)] + [ex.submit(b_llgo, c) for c in configs]
        for f in futs:
            name, exe, out = f.result()
            if exe is None:
                if name in ("ref", "O0"):
                    raise C.Undecided("cannot build the interpreter program (%s):\n%s" % (name, out[-3000:]))
                chk.cov.setdefault("skipped_configs", []).append("%s: does not build here (%s)" % (name, out[-300:]))
                continue
            exes[name] = exe
    return exes


# --------------------------------------------------------------------------- slices

def first_diff(exp, got):
    """which observable differs first between the model's expectation and the log of the rejected step"""
    if exp["out"]["p"] != got["out"]["p"]:
        return "panic"
    for e, g in zip(exp["st"], got["st"]):
        for f in ("nil", "len"):
            if e[f] != g[f]:
                return f
    if not exp.get("en", True):
        return "cap-below-len"
    for e, g in zip(exp["st"], got["st"]):
        if e["cap"] != g["cap"]:
            return "cap"
        if any(a != b and a != -1 for a, b in zip(e["c"], g["c"])):
            return "contents"
    if exp["out"]["r"] != got["out"]["r"]:
        return "result"
    return "state"


def corrupt(tr, rng):
    """negative control: change one observable field of one logged step.  Only fields the model determines
    completely are touched (a length, or an element a literal/make/probe has just written) - the capacity of a
    grown slice and the first observation of a fresh tail are legitimately free"""
    bad = json.loads(json.dumps(tr))
    det = [(i, e["op"]["d"]) for i, e in enumerate(bad["ev"])
           if e["op"]["k"] in ("lit", "make", "probe") and not e["out"]["p"] and e["st"][e["op"]["d"]]["c"]]
    if det and rng.random() < 0.6:
        i, v = rng.choice(det)
        s = bad["ev"][i]["st"][v]
        k = rng.randrange(len(s["c"]))
        s["c"][k] = (s["c"][k] + 1) % 256
        return bad, "element"
    cands = [(i, v) for i, e in enumerate(bad["ev"]) for v, s in enumerate(e["st"]) if not s["nil"]]
    i, v = rng.choice(cands)
    s = bad["ev"][i]["st"][v]
    s["len"] += 1
    s["c"] = s["c"] + [0]
    return bad, "length"


def validate_traces(chk, group, es, traces, workers):
    """run SliceTrace on the traces; returns {id: None (accepted) | rejection record}"""
    d = chk.rd.sub("tr-" + group)
    tpath = os.path.join(d, "traces.ndjson")
    with open(tpath, "w") as f:
        for tr in traces:
            f.write(json.dumps(tr, separators=(",", ":")) + "\n")
    res = C.tlc(SPEC, "SliceTrace", "trace_es%d.cfg" % es, d, timeout=3000, copy_extra=[tpath], parse_json=False,
                workers=workers)
    if not res.ok:
        raise C.Undecided("SliceTrace (%s) stopped: %s\n%s" % (group, res.violation, res.out[-1500:]))
    verdict = {}
    for j in C.tlc_printed_iter(res):
        if "acc" in j:
            verdict[j["acc"]] = None
        elif "rej" in j:
            verdict[j["rej"]] = j
    return res, verdict


def slices_part(chk, exes, gen_results, thorough, sd):
    rd = chk.rd.path
    rng = random.Random(sd * 7919 + 5)
    sizes = SIZES if thorough else [0, [1, 2, 3, 8, 24][sd % 5]]
    # ---- scripts: enumerated by TLC (sorted: deterministic ids) + seeded longer ones
    scripts = []   # (nv, tokens, origin)
    for nv, res in gen_results:
        got = sorted(set(tuple(x) for x in C.tlc_printed_iter(res)))
        if not got:
            raise C.Undecided("SliceGen emitted no scripts")
        scripts += [(nv, list(t), "enum") for t in got]
    n_enum = len(scripts)
    n_small, n_big = (12000, 300) if thorough else (1200, 30)
    for i in range(n_small):
        scripts.append((3, random_script(rng, 3, rng.randrange(8, 31), False), "random"))
    for i in range(n_big):
        scripts.append((3, random_script(rng, 3, rng.randrange(8, 25), True), "random-big"))
    chk.cov["slice_scripts"] = {"enumerated": n_enum, "random": n_small, "random_big": n_big}

    # ---- run every script for every element size in every configuration; keep the distinct (script, log) pairs per
    # model instance (zero-size / non-zero-size: the model is the same for every non-zero size) and who produced them
    body = ["%d %d %s\n" % (i, nv, " ".join(map(str, t))) for i, (nv, t, _) in enumerate(scripts)]
    tick("%d scripts prepared" % len(scripts))

    def run_one(job):
        name, es = job
        pre = "S %d " % es
        st, outl, complete = run_batch(exes[name], [pre + x for x in body])
        pairs, garbage = [], []
        for ln in outl:
            if ln.startswith("S "):
                p = ln.split(" ", 2)
                if len(p) > 1 and p[1].isdigit() and int(p[1]) < len(scripts):
                    pairs.append((int(p[1]), p[2] if len(p) > 2 else ""))
                    continue
            if ln != "END":
                garbage.append(ln)
        return name, es, st, complete, pairs, garbage

    jobs = [(name, es) for name in exes for es in sizes]
    groups = {"es0": {}, "esN": {}}
    executed = 0
    with ThreadPoolExecutor(max_workers=6) as ex:
        for name, es, st, complete, pairs, garbage in ex.map(run_one, jobs):
            if garbage:
                if name == "ref":
                    raise C.Undecided("reference run of the interpreter printed unexpected lines: %r" % garbage[:3])
                chk.reject("slice-log:%s" % TYPENAME[es],
                           "%s: the compiled interpreter printed %d malformed log lines, e.g. %r" % (name, len(garbage), garbage[0][:200]),
                           {"config": name, "elem": TYPENAME[es], "lines": [g[:500] for g in garbage[:10]]})
            if not complete:
                if name == "ref":
                    raise C.Undecided("reference run of the interpreter ended abnormally (%s)" % st)
                seen = set(i for i, _ in pairs)
                missing = next(i for i in range(len(scripts)) if i not in seen)
                nv, t, _ = scripts[missing]
                st2, outl2, complete2 = run_batch(exes[name], ["S %d 0 %d %s\n" % (es, nv, " ".join(map(str, t)))], timeout=60)
                if complete2:
                    raise C.Undecided("interpreter (%s, size %d) ended abnormally (%s) but the script it stopped at runs alone" % (name, es, st))
                kinds = "+".join(sorted(set(OPNAME[c] for c, _ in split_ops(t))))
                chk.reject("slice-crash:%s:%s" % (TYPENAME[es], kinds),
                           "the compiled program dies (%s) on a script of legal Go operations: %s" % (st2, show_script(t)),
                           {"config": name, "elem": TYPENAME[es], "script": show_script(t), "tokens": t, "status": str(st2),
                            "output": outl2[-5:]})
            g = groups["es0" if es == 0 else "esN"]
            src = (name, es)
            for k in pairs:
                lst = g.get(k)
                if lst is None:
                    g[k] = [src]
                else:
                    lst.append(src)
            if name != "ref":
                executed += len(pairs)
    chk.cov["evaluations"] += executed

    budget = {"es0": 150000, "esN": 450000} if thorough else {"es0": 7000, "esN": 10000}

    def signature(k):
        """operation kinds, outcomes and the final lengths/capacities: used only to spread the validated subset over
        as many different situations as possible"""
        i, text = k
        segs = text.split(" / ")
        last = segs[-1].split(" ")
        return (tuple(c for c, _ in split_ops(scripts[i][1])), tuple((x.split(" ", 1)[0] or "?")[0] for x in segs),
                tuple(p.rsplit(":", 1)[0] for p in last[1:]))

    def stratified(keys, n):
        if n <= 0 or not keys:
            return []
        if len(keys) <= n:
            return list(keys)
        strata = {}
        for k in keys:
            strata.setdefault(signature(k), []).append(k)
        order = sorted(strata)
        for sg in order:
            rng.shuffle(strata[sg])
        rng.shuffle(order)
        out = []
        depth = 0
        while len(out) < n:
            added = False
            for sg in order:
                lst = strata[sg]
                if depth < len(lst):
                    out.append(lst[depth])
                    added = True
                    if len(out) >= n:
                        break
            if not added:
                break
            depth += 1
        return out

    plan = {}
    for gname, g in groups.items():
        if not g:
            continue
        keys = sorted(g)
        must, dev, rest, refonly = [], [], [], []
        for k in keys:
            src = g[k]
            impl = [x for x in src if x[0] != "ref"]
            if not impl:
                refonly.append(k)
            elif scripts[k[0]][2] != "enum":
                must.append(k)                      # every seeded longer script is validated
            elif any(("ref", es) not in src for _, es in impl):
                dev.append(k)                       # deviates from the reference log (capacity or worse): first in line
            else:
                rest.append(k)
        b = budget[gname]
        head = dev[::max(1, len(dev) // 2000)][:2000]   # deterministic part (stable representatives)
        hs = set(head)
        tail = stratified([k for k in dev if k not in hs], max(0, b // 2 - len(head)))
        sel = must + head + tail
        sel += stratified(rest, max(0, b - len(sel)))
        rng.shuffle(refonly)
        refsel = refonly[:max(500, b // 6)]
        plan[gname] = (sel, refsel, len(keys))

    def build_traces(gname):
        sel, refsel, _ = plan[gname]
        traces, meta = [], {}
        for k in sel + refsel:
            i, text = k
            tid = len(traces) + 1
            nv, t, _ = scripts[i]
            try:
                traces.append(make_trace(tid, nv, t, text))
            except ValueError as e:
                src = groups[gname][k]
                if all(s[0] == "ref" for s in src):
                    raise C.Undecided("unparsable reference log: %s" % e)
                chk.reject("slice-log:%s" % TYPENAME[src[0][1]], "unparsable interpreter log (%s): %r" % (e, text[:200]),
                           {"script": show_script(t), "log": text[:2000], "sources": src})
                continue
            meta[tid] = k
        # negative controls: corrupted copies of accepted-looking traces
        negs = {}
        nrng = random.Random(sd + 17)
        cands = [tr for tr in traces if any(not s["nil"] for e in tr["ev"] for s in e["st"])]
        for tr in nrng.sample(cands, min(5, len(cands))):
            bad, what = corrupt(tr, nrng)
            bad["id"] = len(traces) + 1
            traces.append(bad)
            negs[bad["id"]] = (tr["id"], what)
        return traces, meta, negs

    tick("scripts executed, traces selected")
    built = {g: build_traces(g) for g in plan}
    tick("trace files built: %s" % {g: len(built[g][0]) for g in built})
    with ThreadPoolExecutor(max_workers=2) as ex:
        futs = {g: ex.submit(validate_traces, chk, g, 0 if g == "es0" else 8, built[g][0], max(2, C.NCPU // len(built)))
                for g in built}
        tl = {g: f.result() for g, f in futs.items()}

    tick("SliceTrace done")
    stats = {"growth_appends": 0, "inplace_appends": 0, "panicking_steps": 0, "nonempty_copies": 0, "self_appends": 0}
    nontrivial = 0
    validated = 0
    informative = 0
    rejected = {}
    kinds_seen = {}
    for gname, (res, verdict) in tl.items():
        traces, meta, negs = built[gname]
        chk.add_tlc(res, "SliceTrace/" + gname)
        byid = {tr["id"]: tr for tr in traces}
        missing = [tid for tid in byid if tid not in verdict]
        if missing:
            raise C.Undecided("SliceTrace gave no verdict for %d traces (%s)" % (len(missing), gname))
        for nid, (orig, what) in negs.items():
            if verdict[orig] is None:
                informative += 1
                if verdict[nid] is None:
                    raise C.Undecided("negative control accepted: a log with a corrupted %s passed SliceTrace" % what)
        for tid, k in meta.items():
            i, text = k
            src = groups[gname][k]
            impl = sorted(s for s in src if s[0] != "ref")
            tr = byid[tid]
            v = verdict[tid]
            if v is None:
                if impl:
                    validated += 1
                    nt = False
                    prev = [{"nil": True, "len": 0, "cap": 0, "c": []}] * tr["nv"]
                    for e in tr["ev"]:
                        kd = e["op"]["k"]
                        kinds_seen[kd] = kinds_seen.get(kd, 0) + 1
                        if e["out"]["p"]:
                            stats["panicking_steps"] += 1
                        elif kd in ("app", "apps"):
                            nt = True
                            n = len(e["op"]["v"]) if kd == "app" else prev[e["op"]["o"]]["len"]
                            srcv = prev[e["op"]["s"]]
                            stats["inplace_appends" if srcv["len"] + n <= srcv["cap"] else "growth_appends"] += 1
                            if kd == "apps" and e["op"]["o"] == e["op"]["s"]:
                                stats["self_appends"] += 1
                        elif kd == "copy" and e["out"]["r"] > 0:
                            nt = True
                            stats["nonempty_copies"] += 1
                        elif kd in ("r2", "r3") and not e["st"][e["op"]["d"]]["nil"]:
                            nt = True
                        prev = e["st"]
                    nontrivial += nt
                continue
            nv, t, origin = scripts[i]
            step = v["l"] - 1
            ops = split_ops(t)
            got = tr["ev"][step]
            exp = {"out": v["out"], "st": v["exp"], "en": v["en"]}
            what = first_diff(exp, got)
            if not impl:
                raise C.Undecided("SliceModel rejects the reference toolchain's behaviour (spec defect?) at step %d of [%s]: "
                                  "%s differs; log %s" % (step + 1, show_script(t), what, text[:300]))
            validated += 1
            c, a = ops[step]
            opk = OPNAME[c]
            name, es = impl[0]
            key = "slice:%s:%s:%s" % (TYPENAME[es], "app" if opk == "appn" else opk, what)
            desc = ("%s, element type %s: step %d of [%s]: SliceModel %s, the program logged `%s` (first difference: %s)" % (
                name, TYPENAME[es], step + 1, show_script(t),
                "panics" if exp["out"]["p"] else "gives " + " ".join(
                    "~" if x["nil"] else "%d:%d:%s" % (x["len"], x["cap"], ",".join(map(str, x["c"]))) for x in exp["st"]),
                text.split(" / ")[step], what))
            rejected.setdefault(key, []).append(
                (len(t), t, desc, {"configs": impl, "elem": TYPENAME[es], "script": show_script(t), "tokens": t, "nv": nv,
                                   "rejected_step": step + 1, "operation": show_op(c, a), "model_expects": exp,
                                   "program_logged": got, "full_log": text[:4000], "first_difference": what,
                                   "origin": origin,
                                   "stdin_line": "S %d 1 %d %s" % (es, nv, " ".join(map(str, t)))}))
    for key in sorted(rejected):
        lst = sorted(rejected[key], key=lambda x: (x[0], x[1]))
        n, t, desc, rep = lst[0]
        rep["rejected_traces_with_this_key"] = len(lst)
        chk.reject(key, desc + " [%d rejected traces of this kind]" % len(lst), rep)
    unseen = [k for k in ("make", "lit", "r2", "r3", "app", "apps", "copy", "clear", "set", "idx", "nil", "probe", "mov")
              if not kinds_seen.get(k)]
    vacuous = unseen or not (stats["growth_appends"] and stats["inplace_appends"] and stats["panicking_steps"] and stats["nonempty_copies"])
    if vacuous and not chk.violations and not chk.known_hits:    # (a run that already has rejections is not vacuous)
        raise C.Undecided("vacuous run: operation kinds %s / outcome classes %s never occurred in an accepted trace" % (unseen, stats))
    chk.cov["slice_ops_in_accepted_traces"] = kinds_seen
    if informative == 0 and not chk.violations and not chk.known_hits:
        raise C.Undecided("no informative negative control for SliceTrace (all originals were rejected)")
    chk.cov["negative_controls"] = chk.cov.get("negative_controls", 0) + informative
    chk.cov["traces_validated_against_impl"] += validated
    chk.cov["distinct_nontrivial"] += nontrivial
    chk.cov["slice_steps"] = stats
    chk.cov["slice_trace_selection"] = {g: {"distinct_logs": plan[g][2], "validated": len(plan[g][0]),
                                            "reference_only_validated": len(plan[g][1])} for g in plan}
    chk.cov["elem_sizes"] = sizes
    for gname in built:
        traces, meta, _ = built[gname]
        for tr in traces:
            k = meta.get(tr["id"])
            if k and scripts[k[0]][2] == "enum" and tl[gname][1].get(tr["id"]) is None and \
                    any(e["op"]["k"] in ("app", "apps", "copy") and not e["out"]["p"] for e in tr["ev"]):
                chk.sample({"validated_slice_trace": show_script(scripts[k[0]][1]), "elem_sizes": sorted(set(
                    es for _, es in groups[gname][k])), "log": k[1][:300]})
                break


# --------------------------------------------------------------------------- strings

def hx(bs):
    return "".join("%02x" % b for b in bs) if bs else "-"


def fits(v):
    """which integer types of the harness can hold v (same conditions as harness/c05/strs.go strFromInt)"""
    ts = ["l"]
    if v >= 0:
        ts += ["L", "I"]
    ts.append("i")
    if -2**31 <= v < 2**31:
        ts.append("r")
    if 0 <= v < 2**32:
        ts.append("w")
    if -2**15 <= v < 2**15:
        ts.append("h")
    if 0 <= v < 2**16:
        ts.append("H")
    if -128 <= v < 128:
        ts.append("c")
    if 0 <= v < 256:
        ts.append("b")
    return ts


def string_case(cid, c):
    """(stdin line, expected output line, key) for one case printed by Utf8Cases"""
    k = c["k"]
    if k == "u":
        rg = c["rg"]
        exp = "U %d n=%d rg=%s ix=%s cnt=%d ru=%s b=%s sb=%s sr=%s ap=%s cp=%d:%s" % (
            cid, c["n"], ",".join("%d:%d" % (i, r) for i, r in rg), ",".join(str(i) for i, _ in rg), len(rg),
            ",".join(map(str, c["ru"])), hx(c["b"]), hx(c["sb"]), hx(c["sr"]), hx(c["ap"]), c["cpn"], hx(c["cpb"]))
        return "U %d %s\n" % (cid, hx(c["s"])), exp, "u:" + hx(c["s"])
    if k == "p":
        exp = "P %d cat=%s cat3=%s acc=%s cmp=%s" % (cid, hx(c["cat"]), hx(c["cat3"]), hx(c["acc"]), "".join(map(str, c["cmp"])))
        return "P %d %s %s\n" % (cid, hx(c["s"]), hx(c["t"])), exp, "p:%s:%s" % (hx(c["s"]), hx(c["t"]))
    if k == "x":
        sl = "panic" if c["slp"] else "%s:%d" % (hx(c["sl"]), len(c["sl"]))
        ix = "na" if c["i"] == OMIT else ("panic" if c["ixp"] else str(c["ix"]))
        return ("X %d %s %d %d\n" % (cid, hx(c["s"]), c["i"], c["j"]), "X %d sl=%s ix=%s" % (cid, sl, ix),
                "x:%s:%d:%d" % (hx(c["s"]), c["i"], c["j"]))
    if k == "r":
        v = c["i"] * 65536 + c["j"]
        exp = "R %d %s" % (cid, " ".join("%s=%s" % (t, hx(c["enc"])) for t in fits(v)))
        return "R %d %d %d\n" % (cid, c["i"], c["j"]), exp, "r:%d" % v
    if k == "q":
        return ("Q %d %s\n" % (cid, " ".join(map(str, c["s"]))) if c["s"] else "Q %d\n" % cid, "Q %d s=%s" % (cid, hx(c["enc"])),
                "q:" + ",".join(map(str, c["s"])))
    raise ValueError(k)


def judged(line):
    """the judged part of an output line (the nil-ness note of U lines is informational)"""
    p = line.find(" NIL=")
    return line if p < 0 else line[:p]


def diff_field(exp, got):
    e, g = exp.split(" "), got.split(" ")
    for a, b in zip(e[2:], g[2:]):
        if a != b:
            return a.split("=")[0]
    return "shape"


def compare_strings(expected, outl):
    """-> {case id: (expected line, got line)} for every mismatch"""
    got = {}
    for ln in outl:
        if ln[:2] in ("U ", "P ", "X ", "R ", "Q "):
            try:
                got[int(ln.split(" ", 2)[1])] = judged(ln)
            except ValueError:
                pass
    return {cid: (exp, got.get(cid, "<no output>")) for cid, exp in expected.items() if got.get(cid) != exp}


def strings_part(chk, exes, ures, thorough, sd):
    cases = sorted(C.tlc_printed_iter(ures), key=lambda c: json.dumps(c, sort_keys=True))
    if not cases:
        raise C.Undecided("Utf8Cases emitted no cases")
    chk.add_tlc(ures, "Utf8Cases")
    lines, expected, keys, kinds = [], {}, {}, {}
    for cid, c in enumerate(cases, 1):
        ln, exp, key = string_case(cid, c)
        lines.append(ln)
        expected[cid] = exp
        keys[cid] = key
        kinds[cid] = c["k"]
    # self-validation: the reference toolchain must produce exactly what the spec says
    st, outl, complete = run_batch(exes["ref"], lines)
    if not complete:
        raise C.Undecided("reference run of the string cases ended abnormally (%s)" % st)
    mm = compare_strings(expected, outl)
    if mm:
        cid = sorted(mm)[0]
        raise C.Undecided("Utf8 spec disagrees with the reference toolchain on %d cases, e.g. %s: spec %r, go %r" % (
            len(mm), keys[cid], mm[cid][0], mm[cid][1]))
    # negative control: one wrong expectation must be flagged
    rng = random.Random(sd + 3)
    ucases = [cid for cid in expected if kinds[cid] == "u" and " rg=0:" in expected[cid]]
    ncid = rng.choice(ucases)
    wrong = dict(expected)
    wrong[ncid] = expected[ncid].replace(" rg=0:", " rg=0:1", 1)
    if ncid not in compare_strings(wrong, outl):
        raise C.Undecided("negative control not flagged: the string comparison does not compare anything")
    chk.cov["negative_controls"] = chk.cov.get("negative_controls", 0) + 1
    nil_notes = {}
    for name, exe in exes.items():
        if name == "ref":
            continue
        st, outl, complete = run_batch(exe, lines)
        if not complete:
            # the program died or hung: attribute it to the first case without output, re-run alone
            done = set()
            for ln in outl:
                p = ln.split(" ", 2)
                if len(p) > 1 and p[0] in ("U", "P", "X", "R", "Q") and p[1].isdigit():
                    done.add(int(p[1]))
            cid = next((c for c in sorted(expected) if c not in done), None)
            if cid is None:
                raise C.Undecided("string run (%s) ended abnormally (%s) after its last case" % (name, st))
            st2, outl2, complete2 = run_batch(exe, [lines[cid - 1]], timeout=60)
            if complete2:
                raise C.Undecided("string run (%s) ended abnormally (%s) but the case it stopped at runs alone" % (name, st))
            chk.reject("str-crash:%s" % kinds[cid],
                       "%s: the compiled program dies (%s) on the string case %s" % (name, st2, keys[cid]),
                       {"config": name, "case": keys[cid], "stdin_line": lines[cid - 1].strip(), "status": str(st2),
                        "output": outl2[-5:], "spec": expected[cid]})
            continue
        mm = compare_strings(expected, outl)
        byfield = {}
        for cid in sorted(mm, key=lambda x: keys[x]):
            exp, got = mm[cid]
            f = "crash" if got == "<no output>" else diff_field(exp, got)
            byfield.setdefault((kinds[cid], f), []).append(cid)
        for (kd, f), cids in sorted(byfield.items()):
            first = cids[0]
            chk.reject("str:%s:%s" % (kd, f),
                       "%s: %d string cases deviate in %s, first %s: spec %r, program %r" % (
                           name, len(cids), f, keys[first], mm[first][0], mm[first][1]),
                       {"config": name, "field": f, "count": len(cids),
                        "cases": [{"case": keys[c], "stdin_line": lines[c - 1].strip(), "spec": mm[c][0], "program": mm[c][1]}
                                  for c in cids[:25]]})
        chk.cov["evaluations"] += len(cases)
        chk.cov["traces_validated_against_impl"] += len(cases)
        for ln in outl:
            if ln.startswith("U ") and ln.endswith(("NIL=11", "NIL=10", "NIL=01")):
                nil_notes.setdefault(name, 0)
                nil_notes[name] += 1
    nt = sum(1 for c in cases if c["k"] != "u" or any(b >= 128 for b in c["s"]))
    chk.cov["distinct_nontrivial"] += nt
    chk.cov["string_cases"] = {k: sum(1 for c in cases if c["k"] == k) for k in "upxrq"}
    if nil_notes:
        chk.cov["observations_not_judged"] = [
            "[]byte(\"\") and []rune(\"\") are nil in the llgo-compiled program (%s); the Go spec says a non-nil slice for "
            "[]byte - nil-ness is not part of the C05 statement, so it is reported here only" % nil_notes]
    for c in cases[:: max(1, len(cases) // 3)][:3]:
        chk.sample({"string_case": c})


# --------------------------------------------------------------------------- main

def check(chk):
    thorough = chk.tier == "thorough"
    sd = C.seed()
    rd = chk.rd.path
    configs = [("O0", "")] + ([("O2", ""), ("O0", "nogc")] if thorough else [])
    gens = [("gen_thorough2.cfg", 2), ("gen_thorough3.cfg", 3)] if thorough else [("gen_quick.cfg", 2)]
    w = max(2, C.NCPU // 2)
    with ThreadPoolExecutor(max_workers=4) as ex:
        fb = ex.submit(build_all, chk, configs)
        fg = [(nv, ex.submit(C.tlc, SPEC, "SliceGen", cfg, rd, workers=w, timeout=3000, parse_json=False)) for cfg, nv in gens]
        fu = ex.submit(C.tlc, SPEC, "Utf8Cases", "utf8_thorough.cfg" if thorough else "utf8_quick.cfg", rd, workers=w,
                       timeout=3000, parse_json=False)
        exes = fb.result()
        gen_results = []
        for nv, f in fg:
            res = f.result()
            if not res.ok:
                raise C.Undecided("SliceGen: SliceModel violates its own invariants: %s" % res.violation)
            chk.add_tlc(res, "SliceGen/nv%d" % nv)
            gen_results.append((nv, res))
        ures = fu.result()
        if not ures.ok:
            raise C.Undecided("Utf8Cases: the UTF-8 laws fail in TLC (spec defect): %s" % ures.violation)
    tick("built %s; SliceGen and Utf8Cases done" % sorted(exes))
    chk.cov["configs"] = sorted(n for n in exes if n != "ref")
    strings_part(chk, exes, ures, thorough, sd)
    tick("strings judged")
    slices_part(chk, exes, gen_results, thorough, sd)
    tick("slices judged")
    chk.cov["rule"] = (
        "slices: SliceGen (TLC) prints one script per transition of SliceModel, operands taken around every window boundary "
        "(in range, one beyond, inverted, omitted), plus seeded longer scripts (<=30 ops, lengths up to ~900 crossing the "
        "256-element growth threshold); every script is executed by the llgo-compiled interpreter for each element size and "
        "configuration; a log is accepted iff SliceTrace can replay it on SliceModel (only the capacity of a fresh array and "
        "its unseen tail are free). distinct = distinct (script, observed log) pairs; non-trivial = an accepted trace with a "
        "non-panicking append, a copy that moved >=1 element or a reslice of a non-nil slice. strings: every byte string over "
        "the decoder-class boundary alphabet up to length 4, all pairs/slicings over a small alphabet, boundary integers and "
        "rune sequences; the program's output must equal the result Utf8.tla assigns; non-trivial = contains a byte >= 0x80 "
        "or is a pair/slicing/integer/rune-sequence case")
    chk.assumptions += [
        "the interpreter program (harness/c05) itself uses append/copy on []byte and defer/recover to produce its log",
        "traces of the element sizes 1,2,3,8,24 are validated by one SliceModel instance (the model is identical for every "
        "non-zero size); identical (script, log) pairs from several sizes/configurations are validated once",
        "quick tier validates a seeded subset of the enumerated scripts (all are executed; logs deviating from the "
        "reference toolchain's are validated first); thorough validates up to the stated budgets",
        "glibc memcpy/memmove and Boehm GC as installed here; O2 is the LLVM-14-safe pass pipeline of vlib.common.O2STAR",
    ]


if __name__ == "__main__":
    C.main_wrapper("C05", check)

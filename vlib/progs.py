"""llgo-compiled test programs shared by several properties (second binding)."""
from . import common as C


def run_sync_programs(chk, thorough, sd):
    pass

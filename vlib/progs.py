"""llgo-compiled test programs shared by several properties (second binding: real threads, real compiler)."""
import os
import shutil
from concurrent.futures import ThreadPoolExecutor

from . import common as C

PROGS = os.path.join(C.VERIF, "harness", "progs")


def reference_output(moddir, rundir, name, args=(), stdin=None, timeout=120):
    """build and run with the reference Go toolchain"""
    exe = os.path.join(rundir, name + ".ref")
    ok, out = C.go_build(moddir, exe)
    if not ok:
        raise C.Undecided("reference toolchain cannot build %s:\n%s" % (name, out))
    st, so, se = C.run_exe(exe, args=args, stdin=stdin, timeout=timeout, merge=True)
    return st, so, se


def llgo_exe(moddir, rundir, name, opt="O0", tags=""):
    exe = os.path.join(rundir, "%s.%s%s" % (name, opt, "." + tags if tags else ""))
    ok, out = C.llgo_build(moddir, exe, opt=opt, tags=tags, rundir=rundir)
    if not ok:
        return None, out
    return exe, out


def copy_prog(name, rundir):
    d = os.path.join(rundir, "prog-" + name)
    if not os.path.isdir(d):
        shutil.copytree(os.path.join(PROGS, name), d)
    return d


def run_sync_programs(chk, thorough, sd):
    run_stress_program(chk, thorough, "syncstress")


def run_chan_programs(chk, thorough, sd):
    run_stress_program(chk, thorough, "chanstress")


def run_stress_program(chk, thorough, name):
    rd = chk.rd.path
    d = copy_prog(name, rd)
    rst, rout, rerr = reference_output(d, rd, name)
    if rst != 0 or "done" not in rout:
        raise C.Undecided("reference run of %s failed: %s %s" % (name, rst, rerr[-500:]))
    configs = [("O0", "")] + ([("O2", ""), ("O0", "nogc")] if thorough else [])
    runs = 120 if thorough else 12
    total = 0
    for opt, tags in configs:
        exe, out = llgo_exe(d, rd, name, opt, tags)
        if exe is None:
            if opt != "O0":
                chk.cov.setdefault("skipped_configs", []).append("%s/%s: does not build here (%s)" % (opt, tags, out[-200:]))
                continue
            raise C.Undecided("llgo cannot build %s:\n" % name + out[-3000:])

        def one(i):
            return C.run_exe(exe, timeout=120, merge=True)
        with ThreadPoolExecutor(max_workers=4) as ex:
            results = list(ex.map(one, range(runs)))
        for st, so, se in results:
            total += 1
            if st != 0 or so != rout:
                bad = [l for l in so.splitlines() if l not in rout.splitlines()]
                first = bad[0].split(":")[0] if bad else "status"
                chk.reject("%s:%s:%s" % (name, opt + tags, first),
                           "compiled stress program deviates from the schedule-independent expected output "
                           "(status %s, differing lines %s, stderr %s)" % (st, bad[:3], se[-300:]),
                           {"config": opt + "/" + tags, "status": st, "stdout": so, "expected": rout, "stderr": se[-2000:]})
                break
    chk.cov["compiled_program_runs"] = chk.cov.get("compiled_program_runs", 0) + total
    chk.cov["evaluations"] += total
    chk.sample({"compiled_program": name, "expected_lines": rout.splitlines()[:4]})

"""Builds the controlled-scheduler harness (harness/sched) against runtime sources copied from the working tree."""
import os
import re
import shutil
import subprocess

from . import common as C

SCHED_SRC = os.path.join(C.VERIF, "harness", "sched")

SHIM = '''package %s

import "unsafe"

func AllocU(size uintptr) unsafe.Pointer { b := make([]byte, size+8); return unsafe.Pointer(&b[0]) }
func AllocZ(size uintptr) unsafe.Pointer { return AllocU(size) }

type plainError string

func (e plainError) RuntimeError() {}
func (e plainError) Error() string  { return string(e) }

type errorString string

func (e errorString) RuntimeError() {}
func (e errorString) Error() string  { return "runtime error: " + string(e) }

func throw(s string) { panic("throw: " + s) }
func fatal(s string) { panic("fatal: " + s) }
func runtimeNano() int64 { return 0 }
'''

IMPORT_MAP = {
    '"github.com/goplus/llgo/runtime/internal/clite/pthread/sync"': '"verifsched/standin/psync"',
    '"github.com/goplus/llgo/runtime/internal/clite"': '"verifsched/standin/clite"',
    '"github.com/goplus/llgo/runtime/internal/lib/sync/atomic"': '"verifsched/standin/latomic"',
}


def prepare(rundir):
    """copy the harness module and generate chanimpl/ and semaimpl/ from the working tree"""
    d = os.path.join(rundir, "sched")
    if os.path.isdir(d):
        return d
    shutil.copytree(SCHED_SRC, d)
    # channels
    src = open(os.path.join(C.REPO, "runtime/internal/runtime/z_chan.go")).read()
    src = re.sub(r"^package runtime", "package chanimpl", src, count=1, flags=re.M)
    for a, b in IMPORT_MAP.items():
        src = src.replace(a, b)
    os.makedirs(os.path.join(d, "chanimpl"), exist_ok=True)
    open(os.path.join(d, "chanimpl", "z_chan.go"), "w").write(src)
    open(os.path.join(d, "chanimpl", "shim.go"), "w").write(SHIM % "chanimpl" + """
// ResetCapForVerif re-creates the buffer of a freshly allocated channel header with another capacity
// (the harness first allocates all headers, sorts them by address, then assigns capacities).
func ResetCapForVerif(p *Chan, eltSize, capa int) {
	q := NewChan(eltSize, capa)
	p.data, p.cap = q.data, q.cap
}
""")
    # semaphores / notify list
    src = open(os.path.join(C.REPO, "runtime/internal/lib/runtime/sema_llgo.go")).read()
    src = re.sub(r"^//go:build.*\n", "", src, count=1, flags=re.M)
    src = re.sub(r"^package runtime", "package semaimpl", src, count=1, flags=re.M)
    src = re.sub(r"^//go:linkname .*\n", "", src, flags=re.M)   # would redefine the host toolchain's sync.runtime_* symbols
    for a, b in IMPORT_MAP.items():
        src = src.replace(a, b)
    os.makedirs(os.path.join(d, "semaimpl"), exist_ok=True)
    open(os.path.join(d, "semaimpl", "sema_llgo.go"), "w").write(src)
    # package-level state (maps, once flags, mutexes) must not leak from one execution into the next
    resets = []
    for m in re.finditer(r"^var (\w+) ([^=\n]+)$", src, flags=re.M):
        resets.append("\t{ var z %s; %s = z }" % (m.group(2).strip(), m.group(1)))
    shim = (SHIM % "semaimpl").replace('import "unsafe"', 'import (\n\t"unsafe"\n\n\tpsync "verifsched/standin/psync"\n)\n\nvar _ psync.Mutex') + "\n// ResetForVerif clears the package-level state between executions.\nfunc ResetForVerif() {\n" + "\n".join(resets) + "\n}\n"
    shim += """
type NotifyList = notifyList

func SemaAcquire(addr *uint32) { semaAcquire(addr) }
func SemaRelease(addr *uint32) { semaRelease(addr) }
func NotifyListAdd(l *notifyList) uint32 { return sync_runtime_notifyListAdd(l) }
func NotifyListWait(l *notifyList, t uint32) { sync_runtime_notifyListWait(l, t) }
func NotifyListNotifyAll(l *notifyList) { sync_runtime_notifyListNotifyAll(l) }
func NotifyListNotifyOne(l *notifyList) { sync_runtime_notifyListNotifyOne(l) }
func NotifyCounters(l *notifyList) (uint32, uint32) { return l.wait, l.notify }
"""
    open(os.path.join(d, "semaimpl", "shim.go"), "w").write(shim)
    return d


def build(rundir, cmd):
    d = prepare(rundir)
    out = os.path.join(d, cmd)
    r = subprocess.run([C.GO124, "build", "-o", out, "./cmd/" + cmd], cwd=d, env=C.base_env(), capture_output=True, text=True)
    if r.returncode != 0:
        raise C.Undecided("the scheduler harness does not compile against the working tree's runtime source "
                          "(new imports or helpers?):\n" + r.stdout + r.stderr)
    return out

"""C11, sync/atomic clause: litmus programs judged by spec/sync/AtomicSC.tla.

AtomicSC (layer A)  one memory, every atomic operation one indivisible step: TLC prints every outcome a litmus
                    program may have (registers per thread + final memory).
AtomicTSO (layer B) x86-TSO with the instruction selection as switches (store = xchg | mov, rmw = locked | split):
                    must equal AtomicSC with both switches on; with one off, the programs whose outcome set grows are
                    the tests able to expose that lowering (report only).
binding             a generated Go program holds one straight-line function per (program, thread, operand kind):
                    raw and typed sync/atomic operations of every width, pointers included.  Persistent workers run
                    every program thousands of rounds with real threads; every observed outcome must be in the set.
                    The reference toolchain runs the same program first (self-validation of generator and spec).
"""
import itertools
import json
import os
import random

from . import common as C

SPEC = os.path.join(C.VERIF, "spec", "sync")
MAXT = 4


def W(l, v):
    return {"k": "st", "l": l, "v": v, "w": 0}


def R(l):
    return {"k": "ld", "l": l, "v": 0, "w": 0}


def A(l, v):
    return {"k": "add", "l": l, "v": v, "w": 0}


def S(l, v):
    return {"k": "swp", "l": l, "v": v, "w": 0}


def CAS(l, old, new):
    return {"k": "cas", "l": l, "v": old, "w": new}


def AND(l, v):
    return {"k": "and", "l": l, "v": v, "w": 0}


def OR(l, v):
    return {"k": "or", "l": l, "v": v, "w": 0}


x, y, z = 0, 1, 2


def classic():
    """named shapes: (name, init, threads)"""
    L = [
        ("SB", [0, 0], [[W(x, 1), R(y)], [W(y, 1), R(x)]]),
        ("SB3", [0, 0, 0], [[W(x, 1), R(y)], [W(y, 1), R(z)], [W(z, 1), R(x)]]),
        ("SB+rmw-load", [0, 0], [[W(x, 1), A(y, 0)], [W(y, 1), A(x, 0)]]),
        ("SB+swap-store", [0, 0], [[S(x, 1), R(y)], [S(y, 1), R(x)]]),
        ("SB+mixed", [0, 0], [[W(x, 1), R(y)], [S(y, 1), R(x)]]),
        ("SB+other-first", [0, 0, 0], [[W(z, 1), W(x, 1), R(y)], [W(y, 1), R(x), R(z)]]),
        ("MP", [0, 0], [[W(x, 1), W(y, 1)], [R(y), R(x)]]),
        ("MP+add", [0, 0], [[A(x, 1), A(y, 1)], [R(y), R(x)]]),
        ("LB", [0, 0], [[R(x), W(y, 1)], [R(y), W(x, 1)]]),
        ("IRIW", [0, 0], [[W(x, 1)], [W(y, 1)], [R(x), R(y)], [R(y), R(x)]]),
        ("IRIW+add", [0, 0], [[A(x, 1)], [A(y, 1)], [R(x), R(y)], [R(y), R(x)]]),
        ("WRC", [0, 0], [[W(x, 1)], [R(x), W(y, 1)], [R(y), R(x)]]),
        ("2+2W", [0, 0], [[W(x, 1), W(y, 2)], [W(y, 1), W(x, 2)]]),
        ("R", [0, 0], [[W(x, 1), W(y, 1)], [W(y, 2), R(x)]]),
        ("S", [0, 0], [[W(x, 2), W(y, 1)], [R(y), W(x, 1)]]),
        ("CoRR", [0], [[W(x, 1)], [R(x), R(x)]]),
        ("CoRR2", [0], [[W(x, 1)], [W(x, 2)], [R(x), R(x)], [R(x), R(x)]]),
        ("CoWR", [0], [[W(x, 1), R(x)], [W(x, 2)]]),
        ("CoRW", [0], [[R(x), W(x, 1)], [W(x, 2)]]),
        ("CoWW", [0], [[W(x, 1), W(x, 2)], [R(x), R(x)]]),
        ("add-add", [0], [[A(x, 1)], [A(x, 1)]]),
        ("add3", [0], [[A(x, 1)], [A(x, 2)], [A(x, 4)]]),
        ("add2x2", [0], [[A(x, 1), A(x, 1)], [A(x, 1), A(x, 1)]]),
        ("add-vs-store", [0], [[A(x, 1)], [W(x, 4)], [R(x)]]),
        ("swap-swap", [0], [[S(x, 1)], [S(x, 2)]]),
        ("swap-ring", [0, 0], [[S(x, 1), S(y, 1)], [S(y, 2), S(x, 2)]]),
        ("cas-cas", [0], [[CAS(x, 0, 1)], [CAS(x, 0, 2)]]),
        ("cas-chain", [0], [[CAS(x, 0, 1)], [CAS(x, 1, 2)], [R(x)]]),
        ("cas-vs-store", [0], [[CAS(x, 0, 1)], [W(x, 2)]]),
        ("cas-vs-add", [0], [[CAS(x, 0, 5), R(x)], [A(x, 1)]]),
        ("cas-lock", [0, 0], [[CAS(x, 0, 1), A(y, 1)], [CAS(x, 0, 1), A(y, 2)]]),
        ("or-or", [0], [[OR(x, 1)], [OR(x, 2)]]),
        ("and-and", [3], [[AND(x, 1)], [AND(x, 2)]]),
        ("or-and", [1], [[OR(x, 2), R(x)], [AND(x, 2)]]),
        ("or-vs-add", [0], [[OR(x, 4)], [A(x, 1)], [A(x, 2)]]),
    ]
    return L


MENU = [W(x, 1), W(y, 1), R(x), R(y), A(x, 1), S(y, 2), CAS(x, 0, 3), A(y, 0)]


def systematic_pairs():
    """every two-thread program with two operations per thread from MENU (up to swapping the threads)"""
    seqs = [list(p) for p in itertools.product(range(len(MENU)), repeat=2)]
    out = []
    for i, a in enumerate(seqs):
        for b in seqs[i:]:
            ops = [MENU[k] for k in a + b]
            locs = {o["l"] for o in ops}
            if len(locs) < 2 and not any(o["k"] in ("add", "swp", "cas") for o in ops):
                continue
            if not any(o["k"] != "ld" for o in ops):
                continue
            # interaction needed: some location touched by both threads
            la = {MENU[k]["l"] for k in a}
            lb = {MENU[k]["l"] for k in b}
            if not (la & lb):
                continue
            out.append(("pair:%d%d|%d%d" % (a[0], a[1], b[0], b[1]), [0, 0], [[dict(MENU[k]) for k in a], [dict(MENU[k]) for k in b]]))
    return out


# operand kinds: name -> (go scalar type or None, bits, typed?, supports)
KINDS = {
    "i32": dict(t="int32", bits=32, typed=False, ops={"ld", "st", "add", "swp", "cas", "and", "or"}, fn="Int32"),
    "u32": dict(t="uint32", bits=32, typed=False, ops={"ld", "st", "add", "swp", "cas", "and", "or"}, fn="Uint32"),
    "i64": dict(t="int64", bits=64, typed=False, ops={"ld", "st", "add", "swp", "cas", "and", "or"}, fn="Int64"),
    "u64": dict(t="uint64", bits=64, typed=False, ops={"ld", "st", "add", "swp", "cas", "and", "or"}, fn="Uint64"),
    "uptr": dict(t="uintptr", bits=64, typed=False, ops={"ld", "st", "add", "swp", "cas", "and", "or"}, fn="Uintptr"),
    "ptr": dict(t="unsafe.Pointer", bits=0, typed=False, ops={"ld", "st", "swp", "cas"}, fn="Pointer"),
    "TInt32": dict(t="int32", bits=32, typed=True, ops={"ld", "st", "add", "swp", "cas", "and", "or"}, fn="Int32"),
    "TUint32": dict(t="uint32", bits=32, typed=True, ops={"ld", "st", "add", "swp", "cas", "and", "or"}, fn="Uint32"),
    "TInt64": dict(t="int64", bits=64, typed=True, ops={"ld", "st", "add", "swp", "cas", "and", "or"}, fn="Int64"),
    "TUint64": dict(t="uint64", bits=64, typed=True, ops={"ld", "st", "add", "swp", "cas", "and", "or"}, fn="Uint64"),
    "TUintptr": dict(t="uintptr", bits=64, typed=True, ops={"ld", "st", "add", "swp", "cas", "and", "or"}, fn="Uintptr"),
    "TPointer": dict(t="*cell", bits=0, typed=True, ops={"ld", "st", "swp", "cas"}, fn="Pointer[cell]"),
    "TBool": dict(t="bool", bits=1, typed=True, ops={"ld", "st", "swp", "cas"}, fn="Bool"),
    # atomic.Value holding int64: a fresh Value per round; 0 stands for "nothing stored yet" (Load returns nil)
    "TValue": dict(t="any", bits=-1, typed=True, ops={"ld", "st", "swp", "cas"}, fn="Value"),
}
PAT = {32: "0x00010001", 64: "0x0000000100000001"}


def kind_ok(kind, init, threads):
    K = KINDS[kind]
    for t in threads:
        for o in t:
            if o["k"] not in K["ops"]:
                return False
            if K["bits"] == -1 and ((o["k"] in ("st", "swp") and o["v"] == 0) or (o["k"] == "cas" and o["w"] == 0)):
                return False      # nil cannot be stored into a Value
            if K["bits"] == 1 and (o["v"] > 1 or o["w"] > 1):
                return False
    if K["bits"] == 1 and any(v > 1 for v in init):
        return False
    return True


def enc(kind, v):
    """Go expression of the embedded value v for this kind"""
    K = KINDS[kind]
    if K["bits"] == -1:
        return "nil" if v == 0 else "int64(%d * %s)" % (v, PAT[64])
    if K["bits"] == 1:
        return "true" if v else "false"
    if K["bits"] == 0:
        if kind == "ptr":
            return "nil" if v == 0 else "unsafe.Pointer(&cells[%d])" % v
        return "nil" if v == 0 else "&cells[%d]" % v
    return "%s(%d * %s)" % (K["t"], v, PAT[K["bits"]])


def dec(kind, e):
    K = KINDS[kind]
    if K["bits"] == -1:
        return "dval(%s)" % e
    if K["bits"] == 1:
        return "b2i(%s)" % e
    if K["bits"] == 0:
        return "dptr(unsafe.Pointer(%s))" % e
    return "d%d(uint64(%s))" % (K["bits"], e)


def op_code(kind, o, loc, ri):
    """one Go statement; ri = register index or None"""
    K = KINDS[kind]
    k = o["k"]
    tgt = "r[%d] = " % ri if ri is not None else ""
    if K["typed"]:
        L = "%s.v" % loc
        if k == "ld":
            return tgt + dec(kind, "%s.Load()" % L)
        if k == "st":
            return "%s.Store(%s)" % (L, enc(kind, o["v"]))
        if k == "add":
            return tgt + dec(kind, "%s.Add(%s)" % (L, enc(kind, o["v"])))
        if k == "swp":
            return tgt + dec(kind, "%s.Swap(%s)" % (L, enc(kind, o["v"])))
        if k == "cas":
            return tgt + "b2i(%s.CompareAndSwap(%s, %s))" % (L, enc(kind, o["v"]), enc(kind, o["w"]))
        if k == "and":
            return tgt + dec(kind, "%s.And(%s)" % (L, enc(kind, o["v"])))
        if k == "or":
            return tgt + dec(kind, "%s.Or(%s)" % (L, enc(kind, o["v"])))
    else:
        L = "&%s.v" % loc
        F = K["fn"]
        if k == "ld":
            return tgt + dec(kind, "atomic.Load%s(%s)" % (F, L))
        if k == "st":
            return "atomic.Store%s(%s, %s)" % (F, L, enc(kind, o["v"]))
        if k == "add":
            return tgt + dec(kind, "atomic.Add%s(%s, %s)" % (F, L, enc(kind, o["v"])))
        if k == "swp":
            return tgt + dec(kind, "atomic.Swap%s(%s, %s)" % (F, L, enc(kind, o["v"])))
        if k == "cas":
            return tgt + "b2i(atomic.CompareAndSwap%s(%s, %s, %s))" % (F, L, enc(kind, o["v"]), enc(kind, o["w"]))
        if k == "and":
            return tgt + dec(kind, "atomic.And%s(%s, %s)" % (F, L, enc(kind, o["v"])))
        if k == "or":
            return tgt + dec(kind, "atomic.Or%s(%s, %s)" % (F, L, enc(kind, o["v"])))
    raise ValueError(k)


def loc_decl(kind):
    K = KINDS[kind]
    if K["bits"] == -1:
        return "var L%s [3]struct {\n\tv *atomic.Value\n\t_ [120]byte\n}\n" % kind
    if K["typed"]:
        return "var L%s [3]struct {\n\tv atomic.%s\n\t_ [120]byte\n}\n" % (kind, K["fn"])
    return "var L%s [3]struct {\n\tv %s\n\t_ [120]byte\n}\n" % (kind, K["t"])


HEADER = '''// generated by vlib/c11litmus.py: litmus programs over sync/atomic, one straight-line function per (program, thread, kind)
package main

import (
	"litmus/yield"
	"sync/atomic"
	"unsafe"
)

type cell struct {
	v   int64
	pad [7]int64
}

var cells [64]cell

func b2i(b bool) int64 {
	if b {
		return 1
	}
	return 0
}

// decoders: a value outside the embedding (a torn or corrupted access) is reported as 99
func d32(u uint64) int64 {
	u &= 0xffffffff
	if u%0x00010001 != 0 || u/0x00010001 > 63 {
		return 99
	}
	return int64(u / 0x00010001)
}

func d64(u uint64) int64 {
	if u%0x0000000100000001 != 0 || u/0x0000000100000001 > 63 {
		return 99
	}
	return int64(u / 0x0000000100000001)
}

// the int64 held by an atomic.Value (nil: nothing stored yet)
func dval(v any) int64 {
	if v == nil {
		return 0
	}
	x, ok := v.(int64)
	if !ok {
		return 99
	}
	return d64(uint64(x))
}

func dptr(p unsafe.Pointer) int64 {
	if p == nil {
		return 0
	}
	for i := 1; i < len(cells); i++ {
		if p == unsafe.Pointer(&cells[i]) {
			return int64(i)
		}
	}
	return 99
}

type test struct {
	id    int
	nth   int
	nreg  [4]int
	nloc  int
	fns   [4]func(r *[4]int64)
	reset func()
	final func(m *[4]int64)
}

type slot struct {
	r   [4]int64
	pad [12]int64
}

var (
	round, cur, done int32
	results          [4]slot
	spin             [4]slot
)

func worker(t int) {
	res := &results[t].r
	for r := int32(1); ; r++ {
		n := 0
		for atomic.LoadInt32(&round) != r {
			n++
			if n > 200 {
				yield.Yield()
			}
		}
		ti := atomic.LoadInt32(&cur)
		if ti < 0 {
			atomic.AddInt32(&done, 1)
			return
		}
		tt := &tests[ti]
		if t < tt.nth {
			// skew the start of the threads differently in every round
			k := int((uint32(r)*2654435761)>>(uint(t)*4)) & 15
			for i := 0; i < k; i++ {
				spin[t].r[0]++
			}
			tt.fns[t](res)
		}
		atomic.AddInt32(&done, 1)
	}
}

func main() {
	rounds := ROUNDS
	for t := 0; t < 4; t++ {
		go worker(t)
	}
	r := int32(0)
	for ti := range tests {
		tt := &tests[ti]
		counts := map[uint64]int{}
		for i := 0; i < rounds; i++ {
			tt.reset()
			for t := 0; t < 4; t++ {
				results[t].r = [4]int64{}
			}
			atomic.StoreInt32(&done, 0)
			atomic.StoreInt32(&cur, int32(ti))
			r++
			atomic.StoreInt32(&round, r)
			n := 0
			for atomic.LoadInt32(&done) != 4 {
				n++
				if n > 200 {
					yield.Yield()
				}
			}
			var code uint64
			for t := 0; t < tt.nth; t++ {
				for k := 0; k < tt.nreg[t]; k++ {
					code = code*100 + uint64(results[t].r[k])
				}
			}
			var m [4]int64
			tt.final(&m)
			for l := 0; l < tt.nloc; l++ {
				code = code*100 + uint64(m[l])
			}
			counts[code]++
		}
		print("L ", tt.id)
		for c, n := range counts {
			print(" ", c, "=", n)
		}
		println()
	}
	atomic.StoreInt32(&done, 0)
	atomic.StoreInt32(&cur, -1)
	atomic.StoreInt32(&round, r+1)
	for atomic.LoadInt32(&done) != 4 {
		yield.Yield()
	}
	println("done")
}
'''

YIELD_GO = '''//go:build !llgo

package yield

import "runtime"

func Yield() { runtime.Gosched() }
'''

YIELD_LLGO = '''//go:build llgo

package yield

import _ "unsafe"

const LLGoPackage = "link"

//go:linkname schedYield C.sched_yield
func schedYield() int32

func Yield() { schedYield() }
'''


def gen_program(tests, rounds):
    """tests: list of dict(id, kind, init, threads). Returns Go source of main.go"""
    out = [HEADER.replace("ROUNDS", str(rounds))]
    kinds = sorted({t["kind"] for t in tests})
    for k in kinds:
        out.append(loc_decl(k))
    table = []
    for t in tests:
        kind = t["kind"]
        nreg = []
        fnames = []
        for ti, ops in enumerate(t["threads"]):
            ri = 0
            body = []
            for o in ops:
                if o["k"] == "st":
                    body.append(op_code(kind, o, "L%s[%d]" % (kind, o["l"]), None))
                else:
                    body.append(op_code(kind, o, "L%s[%d]" % (kind, o["l"]), ri))
                    ri += 1
            nreg.append(ri)
            fn = "p%d_%d" % (t["id"], ti)
            fnames.append(fn)
            out.append("func %s(r *[4]int64) {\n\t%s\n}\n" % (fn, "\n\t".join(body)))
        K = KINDS[kind]
        rs = []
        fs = []
        for l, v in enumerate(t["init"]):
            loc = "L%s[%d]" % (kind, l)
            if K["bits"] == -1:
                rs.append("%s.v = new(atomic.Value)" % loc)
                if v:
                    rs.append(op_code(kind, {"k": "st", "v": v, "w": 0}, loc, None))
            else:
                rs.append(op_code(kind, {"k": "st", "v": v, "w": 0}, loc, None))
            fs.append("m[%d] = " % l + op_code(kind, {"k": "ld", "v": 0, "w": 0}, loc, None))
        out.append("func reset%d() {\n\t%s\n}\n" % (t["id"], "\n\t".join(rs)))
        out.append("func final%d(m *[4]int64) {\n\t%s\n}\n" % (t["id"], "\n\t".join(fs)))
        nreg4 = nreg + [0] * (4 - len(nreg))
        table.append("\t{id: %d, nth: %d, nreg: [4]int{%s}, nloc: %d, fns: [4]func(r *[4]int64){%s}, reset: reset%d, final: final%d},"
                     % (t["id"], len(t["threads"]), ", ".join(map(str, nreg4)), len(t["init"]), ", ".join(fnames), t["id"], t["id"]))
        t["nreg"] = nreg
    out.append("var tests = []test{\n%s\n}\n" % "\n".join(table))
    return "\n".join(out)


def decode_outcome(t, code):
    """code -> (regs per thread, mem) using the layout of test t"""
    digits = []
    n = sum(t["nreg"]) + len(t["init"])
    for _ in range(n):
        digits.append(code % 100)
        code //= 100
    digits.reverse()
    regs, i = [], 0
    for k in t["nreg"]:
        regs.append(digits[i:i + k])
        i += k
    return regs, digits[i:]


def okey(regs, mem):
    return "|".join(",".join(map(str, r)) for r in regs) + "#" + ",".join(map(str, mem))


def tlc_outcomes(chk, module, cfg_consts, ppath, label):
    rd = chk.rd.path
    cfg = os.path.join(rd, "%s_%s.cfg" % (module, label))
    C.write_cfg(cfg, constants=cfg_consts, invariants=["Emit"] + (["TypeOK"] if module == "AtomicSC" else ["BufBounded"]))
    res = C.tlc(SPEC, module, cfg, rd, timeout=2400, copy_extra=[ppath], parse_json=False)
    if not res.ok:
        raise C.Undecided("%s (%s) stopped: %s" % (module, label, res.violation))
    chk.add_tlc(res, "%s:%s" % (module, label))
    out = {}
    for rec in C.tlc_printed_iter(res):
        out.setdefault(rec["id"], set()).add(okey(rec["regs"], rec["mem"]))
    return out


def parse_run(so, bytest):
    obs = {}
    for line in so.splitlines():
        if not line.startswith("L "):
            continue
        parts = line.split()
        tid = int(parts[1])
        t = bytest[tid]
        d = obs.setdefault(tid, {})
        for p in parts[2:]:
            c, n = p.split("=")
            regs, mem = decode_outcome(t, int(c))
            k = okey(regs, mem)
            d[k] = d.get(k, 0) + int(n)
    return obs


def run(chk, thorough, sd):
    rd = chk.rd.path
    rng = random.Random(sd * 31 + 5)
    shapes = classic()
    pairs = systematic_pairs()
    npairs = len(pairs)
    if not thorough:
        pairs = rng.sample(pairs, 60)
    # programs (kind independent) for TLC
    progs = []
    for name, init, threads in shapes + pairs:
        progs.append({"id": len(progs) + 1, "name": name, "init": init, "threads": threads})
    ppath = os.path.join(rd, "programs.ndjson")
    with open(ppath, "w") as f:
        for p in progs:
            f.write(json.dumps({"id": p["id"], "init": p["init"], "threads": p["threads"]}) + "\n")
    allowed = tlc_outcomes(chk, "AtomicSC", {}, ppath, "sc")
    if any(p["id"] not in allowed for p in progs):
        raise C.Undecided("AtomicSC printed no outcome for some program")
    # layer B: the lowering on x86-TSO
    tso_ok = tlc_outcomes(chk, "AtomicTSO", {"StoreFence": "TRUE", "RMWLocked": "TRUE"}, ppath, "xchg+lock")
    tso_mov = tlc_outcomes(chk, "AtomicTSO", {"StoreFence": "FALSE", "RMWLocked": "TRUE"}, ppath, "mov+lock")
    tso_split = tlc_outcomes(chk, "AtomicTSO", {"StoreFence": "TRUE", "RMWLocked": "FALSE"}, ppath, "xchg+split")
    diff_ok = [p["name"] for p in progs if tso_ok.get(p["id"]) != allowed[p["id"]]]
    expose_mov = [p["name"] for p in progs if tso_mov.get(p["id"], set()) - allowed[p["id"]]]
    expose_split = [p["name"] for p in progs if tso_split.get(p["id"], set()) - allowed[p["id"]]]
    chk.cov["atomic_lowering_model"] = {
        "programs": len(progs), "xchg+lock_equals_SC": not diff_ok, "differs": diff_ok[:5],
        "programs_exposing_plain_mov_store": len(expose_mov), "e.g.": expose_mov[:8],
        "programs_exposing_unlocked_rmw": len(expose_split), "e.g.2": expose_split[:8]}
    if diff_ok:
        C.log("note: AtomicTSO with xchg stores and locked rmw differs from AtomicSC on %s" % diff_ok[:5])
    if "SB" not in expose_mov or "add-add" not in expose_split:
        raise C.Undecided("AtomicTSO does not refute the weak lowerings (model defect)")

    # tests = program x kind
    kinds_all = list(KINDS)
    tests = []
    for p in progs:
        is_classic = p["id"] <= len(shapes)
        if is_classic:
            ks = kinds_all
        else:
            ks = [rng.choice(["i32", "i64", "u32", "TUint64", "uptr", "TInt32"])]
        for k in ks:
            if kind_ok(k, p["init"], p["threads"]):
                tests.append({"id": len(tests) + 1, "prog": p["id"], "name": p["name"], "kind": k, "init": p["init"], "threads": p["threads"]})
    rounds = 4000 if thorough else 1500      # measured: 48 M rounds (all pairs x 2 kinds x 12000) exceed the time limits under load
    src = gen_program(tests, rounds)
    bytest = {t["id"]: t for t in tests}
    d = os.path.join(rd, "litmus")
    os.makedirs(os.path.join(d, "yield"), exist_ok=True)
    with open(os.path.join(d, "go.mod"), "w") as f:
        f.write("module litmus\n\ngo 1.24\n")
    with open(os.path.join(d, "main.go"), "w") as f:
        f.write(src)
    with open(os.path.join(d, "yield", "yield_go.go"), "w") as f:
        f.write(YIELD_GO)
    with open(os.path.join(d, "yield", "yield_llgo.go"), "w") as f:
        f.write(YIELD_LLGO)

    def judge(label, so, report):
        obs = parse_run(so, bytest)
        bad = 0
        for tid, outs in obs.items():
            t = bytest[tid]
            for k, n in outs.items():
                if k not in allowed[t["prog"]]:
                    bad += 1
                    report(t, k, n, outs)
        return obs, bad

    # self-validation: the reference toolchain on the same program
    refexe = os.path.join(rd, "litmus.ref")
    ok, out = C.go_build(d, refexe, go=C.ref_go())   # 1.24.0 miscompiles atomic.OrInt32 with a used result (operand taken as address)
    if not ok:
        raise C.Undecided("reference toolchain cannot build the litmus program:\n" + out[-2000:])
    st, so, se = C.run_exe(refexe, timeout=3000, merge=True)
    if st != 0 or "done" not in so:
        raise C.Undecided("reference run of the litmus program failed: %s %s" % (st, so[-500:]))
    refbad = []
    robs, nb = judge("ref", so, lambda t, k, n, outs: refbad.append((t["name"], t["kind"], k)))
    if nb:
        raise C.Undecided("AtomicSC rejects outcomes of the reference toolchain (spec or generator defect): %s" % refbad[:3])

    configs = [("O0", "")] + ([("O2", "")] if thorough else [])
    total_rounds = 0
    nontrivial = set()
    interleaved = 0
    for opt, tags in configs:
        exe = os.path.join(rd, "litmus.%s" % opt)
        ok, out = C.llgo_build(d, exe, opt=opt, tags=tags, rundir=rd)
        if not ok:
            if opt != "O0":
                chk.cov.setdefault("skipped_configs", []).append("litmus %s: does not build here (%s)" % (opt, out[-200:]))
                continue
            raise C.Undecided("llgo cannot build the litmus program:\n" + out[-3000:])
        for rep in range(3 if thorough else 1):
            st, so, se = C.run_exe(exe, timeout=3000, merge=True)
            if st != 0 or "done" not in so:
                chk.reject("litmus:%s:crash" % opt, "litmus program died (status %s): %s" % (st, so[-400:]),
                           {"config": opt, "status": st, "tail": so[-2000:]})
                break

            def report(t, k, n, outs, opt=opt):
                chk.reject("litmus:%s:%s:%s" % (opt, t["name"], t["kind"]),
                           "sync/atomic outcome outside every sequentially consistent order: program %s on kind %s gave %s "
                           "(%d of %d rounds); allowed: %s" % (t["name"], t["kind"], k, n, sum(outs.values()), sorted(allowed[t["prog"]])[:12]),
                           {"config": opt, "program": {"init": t["init"], "threads": t["threads"]}, "kind": t["kind"],
                            "observed": outs, "allowed": sorted(allowed[t["prog"]])})
            obs, nb = judge(opt, so, report)
            for tid, outs in obs.items():
                total_rounds += sum(outs.values())
                for k in outs:
                    nontrivial.add((tid, k))
                if len(outs) > 1:
                    interleaved += 1
    # negative control: an outcome the spec forbids must be flagged by the comparison
    sb = next(t for t in tests if t["name"] == "SB")
    if okey([[0], [0]], [1, 1]) in allowed[sb["prog"]] or okey([[0], [1]], [1, 1]) not in allowed[sb["prog"]]:
        raise C.Undecided("negative control: AtomicSC admits the store-buffering outcome")
    chk.cov["litmus"] = {"programs": len(progs), "classic_shapes": len(shapes), "systematic_pairs_total": npairs,
                         "tests_program_x_kind": len(tests), "kinds": kinds_all, "rounds_per_test": rounds,
                         "rounds_total": total_rounds, "distinct_observed_outcomes": len(nontrivial),
                         "tests_with_more_than_one_outcome": interleaved,
                         "allowed_outcomes_total": sum(len(v) for v in allowed.values())}
    chk.cov["evaluations"] += total_rounds
    chk.cov["distinct_nontrivial"] += len(nontrivial)
    chk.sample({"litmus_program": "SB", "threads": sb["threads"], "allowed": sorted(allowed[sb["prog"]])})
    chk.assumptions.append("litmus runs see only the interleavings the hardware and OS produce in the given number of rounds; "
                           "AtomicTSO tells which programs could expose a weak lowering on this machine")

"""Seeded generator of well-typed, terminating CoreGo programs (see gomini.py for the AST).

Profiles steer the statement mix:  "core" (C01), "defer" (C04), "faults" (C03).
Design rules that keep the generated programs inside *specified* Go behaviour:
  * calls appear only as statements, as the whole right-hand side of a declaration/assignment, or as operands
    next to constants / other calls (Go fixes the order of calls, not of calls relative to variable reads);
  * every loop has a constant bound, functions call only higher-numbered functions (no recursion);
  * integers stay small (results are reduced modulo 97 after multiplications);
  * every printed value is an int, bool or string literal.
"""
import os
import random

V = lambda x: ("var", x)
I = lambda n: ("int", n)
ARR = ("array", 3, "int")


def uses_label(node, lab):
    if isinstance(node, (list, tuple)):
        if len(node) == 2 and node[0] in ("break", "continue") and node[1] == lab:
            return True
        return any(uses_label(x, lab) for x in node)
    if isinstance(node, dict):
        return any(uses_label(v, lab) for v in node.values())
    return False


class Gen:
    def __init__(self, rng, prefix, profile):
        self.r = rng
        self.pf = prefix
        self.profile = profile
        self.nv = 0
        self.nl = 0
        self.funcs = []
        self.structs = {}
        self.embedded = {}
        self.ifaces = {}
        self.methods = {}
        self.nfuncs = rng.choice([2, 3, 3, 4])
        self.sigs = {}      # fname -> (nparams, nresults)
        self.features = set()
        self.extra_defer_kinds = ()
        self.rawdecls = []
        self.have_iters = False
        self.split_at = None      # index of the first function that lives in package lib (None: one package)
        self.cur_fi = None

    # ---- names
    def var(self, hint="v"):
        self.nv += 1
        return "%s%d" % (hint, self.nv)

    def label(self):
        self.nl += 1
        return "L%s%d" % (self.pf, self.nl)

    def fname(self, i):
        if self.split_at is not None and i >= self.split_at:
            return "L%sf%d" % (self.pf, i)          # exported: lives in package lib
        return "%sf%d" % (self.pf, i)

    def in_lib(self, fi):
        return self.split_at is not None and fi is not None and fi >= self.split_at

    def helper_name(self, base, fi):
        return ("L" if self.in_lib(fi) else "") + self.pf + base

    # ---- expressions
    def int_expr(self, sc, depth=2, allow_fault=False):
        r = self.r
        ints = [x for x, t in sc.items() if t == "int"]
        arrs = [x for x, t in sc.items() if t == ARR]
        ptrs = [x for x, t in sc.items() if t == ("ptr", "int")]
        sts = [x for x, t in sc.items() if isinstance(t, tuple) and t[0] == "struct"]
        choice = r.random()
        if depth <= 0 or choice < 0.3:
            if ints and r.random() < 0.7:
                return V(r.choice(ints))
            return I(r.randint(-3, 9))
        if choice < 0.55:
            op = r.choice(["+", "-", "*", "+", "-"])
            e = ("bin", op, self.int_expr(sc, depth - 1, allow_fault), self.int_expr(sc, depth - 1, allow_fault))
            if op == "*":
                e = ("bin", "%", e, I(97))
            return e
        if choice < 0.65 and arrs:
            a = r.choice(arrs)
            if allow_fault and ints and r.random() < 0.35:
                self.features.add("index-fault")
                # may be out of range at run time: specified panic (never a constant expression: Go rejects constant
                # indices that are out of range)
                return ("index", V(a), ("bin", "+", V(r.choice(ints)), self.int_expr(sc, depth - 1)))
            return ("index", V(a), ("bin", "%", ("bin", "+", ("bin", "%", self.int_expr(sc, depth - 1), I(3)), I(3)), I(3)))
        if choice < 0.72 and ptrs:
            self.features.add("deref")
            return ("deref", V(r.choice(ptrs)))
        if choice < 0.8 and sts:
            s = r.choice(sts)
            fields = [f for f, t in self.structs[sc[s][1]] if t == "int"]
            if fields:
                return ("field", V(s), r.choice(fields))
        if choice < 0.86:
            d = self.int_expr(sc, depth - 1)
            if allow_fault and ints and r.random() < 0.4:
                self.features.add("div-fault")
                # divisor may be zero at run time (never a constant expression: Go rejects constant zero divisors)
                return ("bin", r.choice(["/", "%"]), self.int_expr(sc, depth - 1), ("bin", "%", V(r.choice(ints)), I(2)))
            return ("bin", r.choice(["/", "%"]), self.int_expr(sc, depth - 1), ("bin", "+", ("bin", "*", d, d), I(1)))
        if choice < 0.9:
            return ("neg", self.int_expr(sc, depth - 1))
        if arrs:
            return ("len", V(r.choice(arrs)))
        return I(r.randint(0, 5))

    def bool_expr(self, sc, depth=2):
        r = self.r
        bools = [x for x, t in sc.items() if t == "bool"]
        c = r.random()
        if depth > 0 and c < 0.12:
            # comparison of whole structs / arrays
            stys = []
            for t in sc.values():
                if isinstance(t, tuple) and t[0] == "struct" and "[" not in t[1] and t not in stys:
                    stys.append(t)
            for ty in [ARR] + stys:
                xs = [x for x, t in sc.items() if t == ty]
                if len(xs) >= 2 and r.random() < 0.7:
                    a, b = r.sample(xs, 2)
                    self.features.add("composite-equality")
                    return ("bin", r.choice(["==", "!="]), V(a), V(b))
        if depth <= 0 or c < 0.5:
            return ("bin", r.choice(["<", "<=", "==", "!=", ">", ">="]), self.int_expr(sc, 1), self.int_expr(sc, 1))
        if c < 0.6 and bools:
            return V(r.choice(bools))
        if c < 0.8:
            return ("bin", r.choice(["&&", "||"]), self.bool_expr(sc, depth - 1), self.bool_expr(sc, depth - 1))
        return ("not", self.bool_expr(sc, depth - 1))

    # ---- calls to later functions
    def call_expr(self, sc, fi, nres=1):
        cands = [j for j in range(fi + 1, self.nfuncs) if self.sigs[j][1] == nres]
        if not cands:
            return None
        j = self.r.choice(cands)
        args = [self.int_expr(sc, 1) if self.r.random() < 0.8 else I(self.r.randint(0, 4)) for _ in range(self.sigs[j][0])]
        return ("call", ("fn", self.fname(j)), args)

    # ---- statements
    def stmts(self, sc, fi, depth, budget, ctx):
        out = []
        n = self.r.randint(1, budget)
        for _ in range(n):
            s = self.stmt(sc, fi, depth, ctx)
            if s:
                out.extend(s)
        return out

    def weights(self):
        base = {"decl": 5, "assign": 6, "print": 5, "if": 4, "for": 3, "rangeint": 2, "rangearr": 2, "switch": 2, "call": 4,
                "closure": 3, "defer": 1, "panic": 0.4, "return": 0.6, "break": 1, "continue": 1, "swap": 2, "ptr": 2, "struct": 2,
                "method": 2, "iface": 2, "generic": 2, "rangefunc": 2, "zerodecl": 2, "gotoloop": 1.5, "typeswitch": 2, "deferafter": 0, "defersandwich": 0, "fault": 0, "recoverblock": 0.5, "goexit": 0, "gowait": 0.2, "arrset": 2}
        if self.profile == "defer":
            base.update({"defer": 9, "panic": 2.5, "return": 2, "recoverblock": 4, "fault": 1.5, "goexit": 0.6, "gowait": 1.0,
                         "closure": 1, "switch": 0.5, "rangearr": 0.5, "struct": 0.5, "method": 0.5, "iface": 0.3, "generic": 0.4, "rangefunc": 3, "deferafter": 3, "defersandwich": 2, "gotoloop": 2.5, "typeswitch": 0.5})
        if self.profile == "faults":
            base.update({"fault": 6, "recoverblock": 5, "defer": 3, "panic": 1, "ptr": 3})
        if self.in_lib(self.cur_fi):
            base.update({"struct": 0, "method": 0, "iface": 0, "generic": 0, "rangefunc": 0, "typeswitch": 0})
        return base

    def stmt(self, sc, fi, depth, ctx):
        r = self.r
        w = self.weights()
        if depth <= 0:
            for k in ("if", "for", "rangeint", "rangearr", "rangefunc", "switch", "closure", "recoverblock", "gowait", "defersandwich", "gotoloop", "typeswitch"):
                w[k] = 0
        if not ctx.get("loop"):
            w["break"] = w["continue"] = 0
        kinds = list(w)
        k = r.choices(kinds, [w[x] for x in kinds])[0]
        ints = [x for x, t in sc.items() if t == "int"]
        if k == "decl":
            x = self.var()
            t = r.choice(["int", "int", "bool"])
            e = self.int_expr(sc) if t == "int" else self.bool_expr(sc)
            sc[x] = t
            return [("decl", x, t, e)]
        if k == "assign" and ints:
            return [("assign", [V(r.choice(ints))], [self.int_expr(sc)])]
        if k == "swap" and len(ints) >= 2:
            a, b = r.sample(ints, 2)
            self.features.add("swap")
            if r.random() < 0.5:
                return [("assign", [V(a), V(b)], [V(b), V(a)])]
            return [("assign", [V(a), V(b)], [("bin", "+", V(b), I(1)), ("bin", "-", V(a), V(b))])]
        if k == "print":
            es = [("str", r.choice(["p", "q", "z"]))] + [self.int_expr(sc, 1) if r.random() < 0.8 else self.bool_expr(sc, 1) for _ in range(r.randint(1, 2))]
            return [("print", es)]
        if k == "if":
            c = self.bool_expr(sc)
            then = self.stmts(dict(sc), fi, depth - 1, 3, ctx)
            els = self.stmts(dict(sc), fi, depth - 1, 2, ctx) if r.random() < 0.5 else []
            return [("if", c, then, els)]
        if k == "for":
            i = self.var("i")
            lab = self.label() if r.random() < 0.4 else None
            n = r.randint(1, 3)
            sc2 = dict(sc)
            sc2[i] = "int"
            ctx2 = dict(ctx, loop=True, labels=ctx.get("labels", []) + ([lab] if lab else []))
            body = self.stmts(sc2, fi, depth - 1, 3, ctx2)
            self.features.add("for")
            if lab and not uses_label(body, lab):
                lab = None
            return [("for", lab, ("decl", i, "int", I(0)), ("bin", "<", V(i), I(n)), ("assign", [V(i)], [("bin", "+", V(i), I(1))]), body)]
        if k == "rangeint":
            x = self.var("k")
            lab = self.label() if r.random() < 0.3 else None
            sc2 = dict(sc)
            sc2[x] = "int"
            ctx2 = dict(ctx, loop=True, labels=ctx.get("labels", []) + ([lab] if lab else []))
            self.features.add("rangeint")
            rbody = self.stmts(sc2, fi, depth - 1, 3, ctx2)
            if lab and not uses_label(rbody, lab):
                lab = None
            return [("rangeint", lab, x, I(r.randint(0, 3)), rbody)]
        if k == "rangearr":
            arrs = [x for x, t in sc.items() if t == ARR]
            if not arrs:
                a = self.var("a")
                ainit = ("mkarr", ARR, [self.int_expr(sc, 1) for _ in range(3)])
                sc[a] = ARR
                return [("decl", a, ARR, ainit)]
            a = r.choice(arrs)
            i, v = self.var("i"), self.var("e")
            sc2 = dict(sc)
            sc2[i] = "int"
            sc2[v] = "int"
            ctx2 = dict(ctx, loop=True, labels=ctx.get("labels", []))
            body = self.stmts(sc2, fi, depth - 1, 2, ctx2)
            # mutate the array inside the loop: the range expression was copied, so e must not change
            body.append(("assign", [("index", V(a), I(r.randint(0, 2)))], [("bin", "+", V(v), I(5))]))
            self.features.add("rangearr")
            return [("rangearr", None, i, v, V(a), ARR, body)]
        if k == "arrset":
            arrs = [x for x, t in sc.items() if t == ARR]
            if arrs:
                return [("assign", [("index", V(r.choice(arrs)), I(r.randint(0, 2)))], [self.int_expr(sc, 1)])]
            return None
        if k == "switch":
            tag = self.int_expr(sc, 1)
            cases = []
            vals = r.sample(range(0, 6), 3)
            for ci in range(r.randint(1, 3)):
                cases.append(([I(vals[ci])], self.stmts(dict(sc), fi, depth - 1, 2, dict(ctx, loop=ctx.get("loop"))), r.random() < 0.3 and ci < 2))
            if r.random() < 0.6:
                cases.insert(r.randint(0, len(cases)), (None, self.stmts(dict(sc), fi, depth - 1, 2, ctx), False))
            # a fallthrough may not be last
            cases[-1] = (cases[-1][0], cases[-1][1], False)
            self.features.add("switch")
            return [("switch", ("bin", "%", ("bin", "+", ("bin", "%", tag, I(6)), I(6)), I(6)), cases)]
        if k == "call":
            nres = r.choice([0, 1, 1, 2])
            c = self.call_expr(sc, fi, nres)
            if not c:
                return None
            if nres == 0:
                return [("expr", c)]
            if nres == 1:
                if ints and r.random() < 0.5:
                    return [("assign", [V(r.choice(ints))], [c])]
                x = self.var()
                sc[x] = "int"
                return [("decl", x, "int", c)]
            a, b = self.var(), self.var()
            sc[a] = sc[b] = "int"
            self.features.add("multi-result")
            return [("decl", a, "int", I(0)), ("decl", b, "int", I(0)), ("calls", [a, b], c)]
        if k == "closure" and ints:
            fv = self.var("fn")
            cap = r.choice(ints)
            p = self.var("x")
            body_sc = dict(sc)
            body_sc[p] = "int"
            res = self.var("r")
            body = [("assign", [V(cap)], [("bin", "+", V(cap), V(p))]),
                    ("assign", [V(res)], [("bin", "+", ("bin", "*", V(cap), I(2)), V(p))])]
            lit = {"name": "", "params": [(p, "int")], "results": [(res, "int")], "body": body}
            arg = self.int_expr(sc, 1)
            sc[fv] = ("func", ["int"], ["int"])
            x = self.var()
            sc[x] = "int"
            self.features.add("closure")
            return [("decl", fv, ("func", ["int"], ["int"]), ("funclit", lit)),
                    ("decl", x, "int", ("call", ("clo", V(fv)), [arg])),
                    ("print", [("str", "c"), V(x), V(cap)])]
        if k == "closure" and not ints:
            return None
        if k == "ptr" and r.random() < 0.3:
            fs = self.var("fs")
            i = self.var("i")
            acc = self.var("acc")
            j = self.var("j")
            y = self.var()
            sc[acc] = "int"
            lit = {"name": "", "params": [], "results": [("r", "int")],
                   "body": [("assign", [V(acc)], [("bin", "+", V(acc), I(1))]),
                            ("assign", [V("r")], [("bin", "+", ("bin", "*", V(i), I(10)), V(acc))])]}
            self.features.add("per-iteration-loopvar")
            FT = ("array", 3, ("func", [], ["int"]))
            return [("decl", acc, "int", I(0)), ("decl", fs, FT, None),
                    ("for", None, ("decl", i, "int", I(0)), ("bin", "<", V(i), I(3)), ("assign", [V(i)], [("bin", "+", V(i), I(1))]),
                     [("assign", [("index", V(fs), V(i))], [("funclit", lit)]),
                      ("if", ("bin", "==", V(i), I(1)), [("assign", [V(i)], [("bin", "+", V(i), I(0))])], [])]),
                    ("rangeint", None, j, I(3), [("decl", y, "int", ("call", ("clo", ("index", V(fs), V(j))), [])), ("print", [("str", "lc"), V(y)])])]
        if k == "ptr" and ints:
            p = self.var("p")
            target = r.choice(ints)
            sc[p] = ("ptr", "int")
            self.features.add("pointer")
            out = [("decl", p, ("ptr", "int"), ("addr", V(target)))]
            out.append(("assign", [("deref", V(p))], [("bin", "+", ("deref", V(p)), I(r.randint(1, 3)))]))
            if self.profile == "faults" and r.random() < 0.4:
                out.append(("if", self.bool_expr(sc, 1), [("assign", [V(p)], [("nil",)])], []))
                self.features.add("nil-fault")
            return out
        if k == "struct":
            return self.struct_stmts(sc)
        if k == "method":
            return self.method_stmts(sc)
        if k == "iface":
            return self.iface_stmts(sc)
        if k == "deferafter":
            # a defer statement behind a call that may panic: it must not run when the call panicked
            self.features.add("defer-after-panicking-call")
            first = [("defer", ("call", ("fn", self.helper_name("dp", self.cur_fi)), [I(r.randint(1, 9)), self.int_expr(sc, 1)]))] if r.random() < 0.7 else []
            mid = ("expr", ("call", ("fn", self.helper_name("mp", self.cur_fi)), [self.int_expr(sc, 1) if r.random() < 0.6 else I(r.randint(0, 3))]))
            c = r.random()
            if c < 0.4:
                last = ("defer", ("call", ("fn", self.helper_name("nop", self.cur_fi)), []))
            elif c < 0.7:
                last = ("defer", ("call", ("fn", self.helper_name("dp", self.cur_fi)), [I(r.randint(1, 9)), self.int_expr(sc, 1)]))
            else:
                last = ("defer", ("call", ("clo", ("funclit", {"name": "", "params": [], "results": [], "body": [("print", [("str", "dl")])]})), []))
            return first + [mid, last]
        if k == "defersandwich" and depth > 0:
            # loop defers, a defer without arguments, loop defers: strict last-in-first-out across all three
            self.features.add("defer-between-loops")
            def loop(tag):
                i = self.var("i")
                return ("for", None, ("decl", i, "int", I(0)), ("bin", "<", V(i), I(r.randint(1, 2))), ("assign", [V(i)], [("bin", "+", V(i), I(1))]),
                        [("defer", ("call", ("fn", self.helper_name("dp", self.cur_fi)), [I(tag), V(i)]))])
            midk = r.random()
            if midk < 0.6:
                mid = ("defer", ("call", ("fn", self.helper_name("nop", self.cur_fi)), []))
            else:
                mid = ("defer", ("call", ("fn", self.helper_name("dp", self.cur_fi)), [I(5), I(5)]))
            return [loop(1), mid, loop(2)]
        if k == "typeswitch":
            self.ensure_types()
            self.features.add("type-switch")
            P, Q, R_ = self.pf + "P", self.pf + "Q", self.pf + "R"
            I_ = self.pf + "Sh"
            which = r.choice(["P", "R", "Q", "nil"])
            iv = self.var("sh")
            pre = []
            if which == "nil":
                pre.append(("decl", iv, ("iface", I_), None))
            else:
                tmp = self.var("o")
                if which == "P":
                    t, init = ("struct", P), ("mkstruct", P, [("a", self.int_expr(sc, 1)), ("b", I(r.randint(0, 5)))])
                elif which == "R":
                    t, init = ("struct", R_), ("mkstruct", R_, [("w", self.int_expr(sc, 1))])
                else:
                    t, init = ("struct", Q), ("mkstruct", Q, [("in", ("mkstruct", P, [("a", I(r.randint(0, 5))), ("b", I(2))])), ("c", self.int_expr(sc, 1))])
                sc[tmp] = t
                pre += [("decl", tmp, t, init), ("decl", iv, ("iface", I_), ("iface", I_, "*" + t[1], ("addr", V(tmp))))]
            x = self.var("tv")
            fld = {"P": "a", "R": "w", "Q": "c"}
            order = r.sample(["P", "R", "Q", "nil"], r.randint(2, 4))
            cases = []
            for o in order:
                if o == "nil":
                    cases.append(("nil", None, [("print", [("str", "tn")])] + self.stmts(dict(sc), fi, depth - 1, 1, ctx)))
                else:
                    sname = {"P": P, "R": R_, "Q": Q}[o]
                    body = [("print", [("str", "t" + o), ("field", ("deref", V(x), True), fld[o])]),
                            ("assign", [("field", ("deref", V(x), True), fld[o])], [("bin", "+", ("field", ("deref", V(x), True), fld[o]), I(1))])]
                    body += self.stmts(dict(sc), fi, depth - 1, 1, ctx)
                    if r.random() < 0.3:
                        body.append(("if", self.bool_expr(sc, 1), [("break", None)], []))
                        body.append(("print", [("str", "tb")]))
                    cases.append(("*" + sname, ("ptr", ("struct", sname)), body))
            dflt = [("print", [("str", "td")])] if r.random() < 0.7 else None
            return pre + [("typeswitch", x, V(iv), cases, dflt)]
        if k == "gotoloop":
            # a loop made of a label and a backward goto (one basic block when the body is straight-line code)
            self.features.add("goto-loop")
            cnt = self.var("g")
            lab = self.label()
            sc[cnt] = "int"
            body = self.stmts(dict(sc), fi, depth - 1, 2, dict(ctx, loop=False, labels=[]))
            if self.profile == "defer" or r.random() < 0.3:
                body.append(("defer", ("call", ("fn", self.helper_name("dp", self.cur_fi)), [I(7), V(cnt)])))
                self.features.add("defer")
            n = r.randint(1, 3)
            form = r.random()
            tail = [("assign", [V(cnt)], [("bin", "+", V(cnt), I(1))])]
            if form < 0.6:
                tail.append(("if", ("bin", "<", V(cnt), I(n)), [("goto", lab)], []))
            else:
                tail.append(("if", ("bin", ">=", V(cnt), I(n)), [], [("goto", lab)]))
            return [("decl", cnt, "int", I(0)), ("label", lab), ("block", body)] + tail
        if k == "zerodecl":
            # a declaration without initialiser is executed (and zeroes the variable) every time control passes it,
            # e.g. once per loop iteration: read it before writing it
            self.features.add("zero-declared-local")
            if r.random() < 0.6 or self.in_lib(self.cur_fi):
                z = self.var("z")
                sc[z] = ARR
                return [("decl", z, ARR, None),
                        ("print", [("str", "zd"), ("index", V(z), I(r.randint(0, 2))), ("index", V(z), I(r.randint(0, 2)))]),
                        ("assign", [("index", V(z), I(r.randint(0, 2)))], [("bin", "+", self.int_expr(sc, 1), I(1))]),
                        ("assign", [("index", V(z), I(r.randint(0, 2)))], [I(r.randint(1, 9))])]
            self.ensure_types()
            P = self.pf + "P"
            z = self.var("zs")
            sc[z] = ("struct", P)
            return [("decl", z, ("struct", P), None),
                    ("print", [("str", "zs"), ("field", V(z), "a"), ("field", V(z), "b")]),
                    ("assign", [("field", V(z), "a")], [("bin", "+", self.int_expr(sc, 1), I(1))]),
                    ("assign", [("field", V(z), "b")], [I(r.randint(1, 9))])]
        if k == "generic":
            return self.generic_stmts(sc)
        if k == "rangefunc":
            return self.rangefunc_stmts(sc, fi, depth, ctx)
        if k == "defer":
            return self.defer_stmt(sc, fi, ctx)
        if k == "panic":
            self.features.add("panic")
            return [("if", self.bool_expr(sc, 1), [("panic", I(r.randint(1, 60)))], [])] if r.random() < 0.7 else [("panic", I(r.randint(1, 60)))]
        if k == "return" and ctx.get("fn"):
            self.features.add("early-return")
            f = ctx["fn"]
            rs = [self.int_expr(sc, 1) for _ in f["results"]]
            return [("if", self.bool_expr(sc, 1), [("return", rs)], [])]
        if k == "break":
            labs = ctx.get("labels", [])
            return [("if", self.bool_expr(sc, 1), [("break", r.choice(labs) if labs and r.random() < 0.5 else None)], [])]
        if k == "continue":
            labs = ctx.get("labels", [])
            return [("if", self.bool_expr(sc, 1), [("continue", r.choice(labs) if labs and r.random() < 0.5 else None)], [])]
        if k == "fault":
            x = self.var()
            fe = self.int_expr(sc, 2, allow_fault=True)
            sc[x] = "int"
            self.features.add("fault")
            return [("print", [("str", "b")]), ("decl", x, "int", fe), ("print", [("str", "a"), V(x)])]
        if k == "recoverblock":
            # func() { defer func() { r := recover(); print }(); body }()
            rv = self.var("rc")
            body_sc = dict(sc)
            inner = self.stmts(body_sc, fi, depth - 1, 3, {"fn": None, "ingo": ctx.get("ingo")})
            dlit = {"name": "", "params": [], "results": [], "body": [("decl", rv, "int", I(0)), ("recover", rv), ("print", [("str", "rec"), V(rv)])]}
            lit = {"name": "", "params": [], "results": [], "body": [("defer", ("call", ("clo", ("funclit", dlit)), []))] + inner}
            self.features.add("recover")
            return [("expr", ("call", ("clo", ("funclit", lit)), []))]
        if k == "goexit" and ctx.get("ingo"):
            self.features.add("goexit")
            return [("if", self.bool_expr(sc, 1), [("goexit",)], [])]
        if k == "gowait":
            body_sc = dict(sc)
            inner = self.stmts(body_sc, fi, depth - 1, 3, {"fn": None, "ingo": True})
            if r.random() < 0.5:
                inner.append(("goexit",))
                inner.append(("print", [("str", "unreachable")]))
                self.features.add("goexit")
            # a panic escaping a goroutine kills the program: keep a recover at its top
            rv = self.var("rc")
            dlit = {"name": "", "params": [], "results": [], "body": [("decl", rv, "int", I(0)), ("recover", rv), ("print", [("str", "grec"), V(rv)])]}
            lit = {"name": "", "params": [], "results": [], "body": [("defer", ("call", ("clo", ("funclit", dlit)), []))] + inner}
            self.features.add("goroutine")
            return [("gowait", ("call", ("clo", ("funclit", lit)), []))]
        return None

    # ---- defer forms
    def defer_stmt(self, sc, fi, ctx):
        r = self.r
        self.features.add("defer")
        ints = [x for x, t in sc.items() if t == "int"]
        kinds = ["print", "print", "closure-result", "recover", "panic", "repanic", "closure-capture"] + list(self.extra_defer_kinds)
        if ctx.get("inrf") and not os.path.exists("/opt/veriftools/go1.26.8/bin/go"):
            # Go 1.24.0 resumes in the wrong place when a panic of the enclosing function is recovered by a call deferred
            # from inside a range-over-func body (the loop body runs again, then the process crashes; fixed in later
            # releases): with only that toolchain as reference such cases cannot be self-validated
            kinds = [k for k in kinds if k not in ("recover", "repanic", "recover-helper", "inner-recovered-panic")]
        kind = r.choice(kinds)
        f = ctx.get("fn")
        if kind == "print":
            return [("defer", ("call", ("fn", self.helper_name("dp", self.cur_fi)), [I(r.randint(1, 9)), self.int_expr(sc, 1)]))]
        if kind == "closure-capture" and ints:
            x = r.choice(ints)
            lit = {"name": "", "params": [], "results": [], "body": [("print", [("str", "dc"), V(x)])]}
            return [("defer", ("call", ("clo", ("funclit", lit)), []))]
        if kind == "closure-result" and f and f["results"]:
            res = f["results"][0][0]
            lit = {"name": "", "params": [("d", "int")], "results": [],
                   "body": [("assign", [V(res)], [("bin", "+", ("bin", "*", V(res), I(2)), V("d"))]), ("print", [("str", "dr"), V(res)])]}
            self.features.add("defer-modifies-result")
            return [("defer", ("call", ("clo", ("funclit", lit)), [self.int_expr(sc, 1)]))]
        if kind == "recover":
            rv = self.var("rc")
            body = [("decl", rv, "int", I(0)), ("recover", rv), ("print", [("str", "rec"), V(rv)])]
            if f and f["results"] and r.random() < 0.6:
                body.append(("if", ("bin", "!=", V(rv), I(0)), [("assign", [V(f["results"][0][0])], [("bin", "+", V(rv), I(100))])], []))
            lit = {"name": "", "params": [], "results": [], "body": body}
            self.features.add("recover")
            return [("defer", ("call", ("clo", ("funclit", lit)), []))]
        if kind == "recover-helper":
            # recover called by a helper of the deferred function: must NOT stop the panic
            lit = {"name": "", "params": [], "results": [], "body": [("expr", ("call", ("fn", self.helper_name("helper", self.cur_fi)), [])), ("print", [("str", "dh")])]}
            self.features.add("recover-via-helper")
            return [("defer", ("call", ("clo", ("funclit", lit)), []))]
        if kind == "inner-recovered-panic":
            # the deferred function panics and recovers that panic itself: the outer panic (if any) must survive
            rv = self.var("rc")
            dlit = {"name": "", "params": [], "results": [], "body": [("decl", rv, "int", I(0)), ("recover", rv), ("print", [("str", "irec"), V(rv)])]}
            inner = {"name": "", "params": [], "results": [], "body": [("defer", ("call", ("clo", ("funclit", dlit)), [])), ("panic", I(r.randint(91, 99)))]}
            lit = {"name": "", "params": [], "results": [], "body": [("expr", ("call", ("clo", ("funclit", inner)), [])), ("print", [("str", "di")])]}
            self.features.add("inner-recovered-panic")
            return [("defer", ("call", ("clo", ("funclit", lit)), []))]
        if kind == "panic":
            lit = {"name": "", "params": [], "results": [], "body": [("print", [("str", "dp2")]), ("panic", I(r.randint(61, 90)))]}
            self.features.add("panic-in-deferred")
            return [("defer", ("call", ("clo", ("funclit", lit)), []))]
        if kind == "repanic":
            rv = self.var("rc")
            lit = {"name": "", "params": [], "results": [], "body": [
                ("decl", rv, "int", I(0)), ("recover", rv), ("print", [("str", "rr"), V(rv)]),
                ("if", ("bin", "!=", V(rv), I(0)), [("panic", ("bin", "+", ("bin", "%", V(rv), I(50)), I(200)))], [])]}
            self.features.add("repanic")
            return [("defer", ("call", ("clo", ("funclit", lit)), []))]
        return [("defer", ("call", ("fn", self.helper_name("dp", self.cur_fi)), [I(0), I(0)]))]

    # ---- structs, methods, interfaces (a fixed small family per case)
    def ensure_types(self):
        if self.structs:
            return
        P, Q = self.pf + "P", self.pf + "Q"
        self.structs[P] = [("a", "int"), ("b", "int")]
        self.structs[Q] = [("in", ("struct", P)), ("c", "int")]
        self.embedded[Q] = ("in",)
        I_ = self.pf + "Sh"
        self.ifaces[I_] = [("Area", [], ["int"]), ("Bump", ["int"], [])]
        # methods: P.Area (value), (*P).Bump (pointer); Q promotes both through the embedded P; Q2 own methods
        R_ = self.pf + "R"
        self.structs[R_] = [("w", "int")]
        self.methods["*" + P] = {"Area": P + ".Area$ptr", "Bump": P + ".Bump"}
        self.methods["*" + R_] = {"Area": R_ + ".Area", "Bump": R_ + ".Bump"}
        self.methods["*" + Q] = {"Area": Q + ".Area$promoted", "Bump": Q + ".Bump$promoted"}
        SP = ("struct", P)
        self.funcs += [
            {"name": P + ".Area", "goname": "Area", "recv": ("s", SP), "params": [("s", SP)], "results": [("r", "int")],
             "body": [("assign", [V("r")], [("bin", "+", ("bin", "*", ("field", V("s"), "a"), I(3)), ("field", V("s"), "b"))])]},
            {"name": P + ".Bump", "goname": "Bump", "recv": ("s", ("ptr", SP)), "params": [("s", ("ptr", SP)), ("d", "int")], "results": [],
             "body": [("assign", [("field", ("deref", V("s"), True), "a")], [("bin", "+", ("field", ("deref", V("s"), True), "a"), V("d"))])]},
            {"name": R_ + ".Area", "goname": "Area", "recv": ("s", ("ptr", ("struct", R_))), "params": [("s", ("ptr", ("struct", R_)))], "results": [("r", "int")],
             "body": [("assign", [V("r")], [("bin", "+", ("field", ("deref", V("s"), True), "w"), I(1000))])]},
            {"name": R_ + ".Bump", "goname": "Bump", "recv": ("s", ("ptr", ("struct", R_))), "params": [("s", ("ptr", ("struct", R_))), ("d", "int")], "results": [],
             "body": [("assign", [("field", ("deref", V("s"), True), "w")], [("bin", "-", ("field", ("deref", V("s"), True), "w"), V("d"))])]},
            # wrappers that exist only in the machine program (Go synthesises them)
            {"name": P + ".Area$ptr", "synthetic": True, "params": [("s", ("ptr", SP))], "results": [("r", "int")],
             "body": [("assign", [V("r")], [("call", ("fn", P + ".Area"), [("deref", V("s"))])])]},
            {"name": Q + ".Area$promoted", "synthetic": True, "params": [("s", ("ptr", ("struct", Q)))], "results": [("r", "int")],
             "body": [("assign", [V("r")], [("call", ("fn", P + ".Area"), [("field", ("deref", V("s")), "in")])])]},
            {"name": Q + ".Bump$promoted", "synthetic": True, "params": [("s", ("ptr", ("struct", Q))), ("d", "int")], "results": [],
             "body": [("expr", ("call", ("fn", P + ".Bump"), [("addr", ("field", ("deref", V("s")), "in")), V("d")]))]},
        ]

    # ---- generics: fixed declarations per case (raw Go + machine functions), random uses
    def ensure_generics(self):
        if self.rawdecls:
            return
        self.ensure_types()
        pf = self.pf
        P = pf + "P"
        self.rawdecls += [
            "func %sgid[T any](x T) T { return x }" % pf,
            "func %sgapply[T any](x T, f func(T) T, n int) T {\n\tfor i := 0; i < n; i++ {\n\t\tx = f(x)\n\t}\n\treturn x\n}" % pf,
            "func %sgpair[A any, B any](a A, b B) (B, A) { return b, a }" % pf,
            "type %sBox[T any] struct {\n\tv T\n\tn int\n}" % pf,
            "func (b *%sBox[T]) Set(x T) { b.v = x; b.n++ }" % pf,
            "func (b %sBox[T]) Get() T { return b.v }" % pf,
            "func %sgfirst[T any](xs [3]T, pick func(T) bool) (r T, ok bool) {\n\tfor _, x := range xs {\n\t\tif pick(x) {\n\t\t\treturn x, true\n\t\t}\n\t}\n\treturn r, false\n}" % pf,
        ]
        # the machine is dynamically typed: one function serves every instantiation
        self.funcs += [
            {"name": pf + "gid", "synthetic": True, "params": [("x", "int")], "results": [("r", "int")],
             "body": [("assign", [V("r")], [V("x")])]},
            {"name": pf + "gapply", "synthetic": True, "params": [("x", "int"), ("f", ("func", ["int"], ["int"])), ("n", "int")],
             "results": [("r", "int")],
             "body": [("for", None, ("decl", "i", "int", I(0)), ("bin", "<", V("i"), V("n")), ("assign", [V("i")], [("bin", "+", V("i"), I(1))]),
                       [("assign", [V("x")], [("call", ("clo", V("f")), [V("x")])])]),
                      ("assign", [V("r")], [V("x")])]},
            {"name": pf + "gpair", "synthetic": True, "params": [("a", "int"), ("b", "int")], "results": [("r1", "int"), ("r2", "int")],
             "body": [("assign", [V("r1"), V("r2")], [V("b"), V("a")])]},
            {"name": pf + "Box.Set", "synthetic": True, "params": [("b", "int"), ("x", "int")], "results": [],
             "body": [("assign", [("field", ("deref", V("b")), "v")], [V("x")]),
                      ("assign", [("field", ("deref", V("b")), "n")], [("bin", "+", ("field", ("deref", V("b")), "n"), I(1))])]},
            {"name": pf + "Box.Get", "synthetic": True, "params": [("b", "int")], "results": [("r", "int")],
             "body": [("assign", [V("r")], [("field", V("b"), "v")])]},
        ]
        self.structs[pf + "Box[int]"] = [("v", "int"), ("n", "int")]
        self.structs[pf + "Box[%s]" % P] = [("v", ("struct", P)), ("n", "int")]

    def generic_stmts(self, sc):
        self.ensure_generics()
        r = self.r
        pf = self.pf
        P = pf + "P"
        self.features.add("generics")
        c = r.random()
        if c < 0.2:
            x = self.var()
            e = self.int_expr(sc, 1)
            sc[x] = "int"
            return [("decl", x, "int", ("call", ("fn", pf + "gid"), [e])), ("print", [("str", "g"), V(x)])]
        if c < 0.45:
            x = self.var()
            pv = self.var("x")
            k = r.randint(1, 4)
            lit = {"name": "", "params": [(pv, "int")], "results": [("r", "int")],
                   "body": [("assign", [V("r")], [("bin", "%", ("bin", "+", ("bin", "*", V(pv), I(k)), I(1)), I(97))])]}
            e = self.int_expr(sc, 1)
            sc[x] = "int"
            return [("decl", x, "int", ("call", ("fn", pf + "gapply"), [e, ("funclit", lit), I(r.randint(0, 3))])), ("print", [("str", "ga"), V(x)])]
        if c < 0.6:
            a, b = self.var(), self.var("b")
            e = self.int_expr(sc, 1)
            be = self.bool_expr(sc, 1)
            sc[a] = "int"
            sc[b] = "bool"
            return [("decl", a, "int", I(0)), ("decl", b, "bool", ("bool", False)),
                    ("calls", [b, a], ("call", ("fn", pf + "gpair"), [e, be])), ("print", [("str", "gp"), V(a), V(b)])]
        if c < 0.8:
            bx = self.var("bx")
            x = self.var()
            e1, e2 = self.int_expr(sc, 1), self.int_expr(sc, 1)
            T = ("struct", pf + "Box[int]")
            sc[x] = "int"
            return [("decl", bx, T, ("mkstruct", pf + "Box[int]", [("v", e1), ("n", I(0))])),
                    ("expr", ("call", ("method", ("addr", V(bx)), pf + "Box.Set", "Set", V(bx)), [e2])),
                    ("expr", ("call", ("method", ("addr", V(bx)), pf + "Box.Set", "Set", V(bx)), [("bin", "+", e2, I(1))])),
                    ("decl", x, "int", ("call", ("method", V(bx), pf + "Box.Get", "Get", V(bx)), [])),
                    ("print", [("str", "gb"), V(x), ("field", V(bx), "n")])]
        bx = self.var("bx")
        pv = self.var("s")
        e1, e2 = self.int_expr(sc, 1), self.int_expr(sc, 1)
        T = ("struct", pf + "Box[%s]" % P)
        x = self.var()
        sc[x] = "int"
        return [("decl", bx, T, ("mkstruct", pf + "Box[%s]" % P, [("v", ("mkstruct", P, [("a", e1), ("b", I(2))])), ("n", I(0))])),
                ("expr", ("call", ("method", ("addr", V(bx)), pf + "Box.Set", "Set", V(bx)), [("mkstruct", P, [("a", e2), ("b", I(3))])])),
                ("decl", pv, ("struct", P), ("call", ("method", V(bx), pf + "Box.Get", "Get", V(bx)), [])),
                ("decl", x, "int", ("bin", "+", ("field", V(pv), "a"), ("field", V(pv), "b"))),
                ("print", [("str", "gs"), V(x), ("field", V(bx), "n")])]

    # ---- range-over-func: fixed iterator functions per case, random loop bodies
    def ensure_iters(self):
        if self.have_iters:
            return
        self.have_iters = True
        pf = self.pf
        YT = ("func", ["int"], ["bool"])
        YT2 = ("func", ["int", "int"], ["bool"])
        inc = ("assign", [V("i")], [("bin", "+", V("i"), I(1))])
        stop = lambda *args: ("if", ("not", ("call", ("clo", V("yield")), list(args))), [("return", [])], [])
        note = lambda tag: {"name": "", "params": [], "results": [], "body": [("print", [("str", tag), V("tag")])]}
        # upto(n, tag): yields 0..n-1; its own deferred call and its tail show when the iterator function itself ends
        self.funcs.append({"name": pf + "upto", "params": [("n", "int"), ("tag", "int")], "results": [("r", ("func", [YT], []))], "body": [
            ("assign", [V("r")], [("funclit", {"name": "", "params": [("yield", YT)], "results": [], "body": [
                ("defer", ("call", ("clo", ("funclit", note("itd"))), [])),
                ("for", None, ("decl", "i", "int", I(0)), ("bin", "<", V("i"), V("n")), inc, [stop(V("i"))]),
                ("print", [("str", "ite"), V("tag")])]})])]})
        # pairs(n, tag): two loop variables, two yields per round
        self.funcs.append({"name": pf + "pairs", "params": [("n", "int"), ("tag", "int")], "results": [("r", ("func", [YT2], []))], "body": [
            ("assign", [V("r")], [("funclit", {"name": "", "params": [("yield", YT2)], "results": [], "body": [
                ("for", None, ("decl", "i", "int", I(0)), ("bin", "<", V("i"), V("n")), inc,
                 [stop(V("i"), ("bin", "*", V("i"), V("i"))), stop(("bin", "+", V("i"), I(10)), V("tag"))]),
                ("print", [("str", "pe"), V("tag")])]})])]})

    def rangefunc_stmts(self, sc, fi, depth, ctx):
        self.ensure_iters()
        r = self.r
        pf = self.pf
        self.features.add("range-over-func")
        lab = self.label() if r.random() < 0.35 else None
        sc2 = dict(sc)
        if r.random() < 0.65:
            xs = [self.var("k")]
            seq = ("call", ("fn", pf + "upto"), [I(r.randint(0, 3)) if r.random() < 0.7 else self.int_expr(sc, 1), I(r.randint(1, 9))])
        else:
            xs = [self.var("k"), self.var("w")]
            seq = ("call", ("fn", pf + "pairs"), [I(r.randint(0, 2)), I(r.randint(1, 9))])
        for x in xs:
            sc2[x] = "int"
        ctx2 = dict(ctx, loop=True, inrf=True, labels=ctx.get("labels", []) + ([lab] if lab else []))
        body = self.stmts(sc2, fi, depth - 1, 3, ctx2)
        if r.random() < 0.5:
            body.insert(0, ("print", [("str", "rf")] + [V(x) for x in xs]))
        if lab and not uses_label(body, lab):
            lab = None
        return [("rangefunc", lab, xs, seq, body)]

    def struct_stmts(self, sc):
        self.ensure_types()
        r = self.r
        P, Q = self.pf + "P", self.pf + "Q"
        self.features.add("struct")
        ps = [x for x, t in sc.items() if t == ("struct", P)]
        if not ps or r.random() < 0.3:
            x = self.var("s")
            init = ("mkstruct", P, [("a", self.int_expr(sc, 1)), ("b", self.int_expr(sc, 1))])
            sc[x] = ("struct", P)
            return [("decl", x, ("struct", P), init)]
        a = r.choice(ps)
        c = r.random()
        if c < 0.35:
            b = self.var("s")
            sc[b] = ("struct", P)
            # struct assignment copies
            return [("decl", b, ("struct", P), V(a)), ("assign", [("field", V(b), "a")], [("bin", "+", ("field", V(b), "a"), I(7))]),
                    ("print", [("str", "s"), ("field", V(a), "a"), ("field", V(b), "a")])]
        if c < 0.7:
            q = self.var("q")
            qinit = ("mkstruct", Q, [("in", V(a)), ("c", self.int_expr(sc, 1))])
            sc[q] = ("struct", Q)
            self.features.add("embedding")
            return [("decl", q, ("struct", Q), qinit),
                    ("assign", [("field", ("field", V(q), "in", True), "b")], [("bin", "+", ("field", ("field", V(q), "in", True), "b"), I(1))]),
                    ("print", [("str", "e"), ("field", ("field", V(q), "in", True), "b"), ("field", V(a), "b"), ("field", V(q), "c")])]
        return [("assign", [("field", V(a), r.choice(["a", "b"]))], [self.int_expr(sc, 1)])]

    def method_stmts(self, sc):
        self.ensure_types()
        r = self.r
        P, Q = self.pf + "P", self.pf + "Q"
        ps = [x for x, t in sc.items() if t == ("struct", P)]
        qs = [x for x, t in sc.items() if t == ("struct", Q)]
        self.features.add("method")
        if qs and r.random() < 0.5:
            q = r.choice(qs)
            x = self.var()
            barg = self.int_expr(sc, 1)
            sc[x] = "int"
            self.features.add("promoted-method")
            return [("expr", ("call", ("method", ("addr", ("field", V(q), "in")), P + ".Bump", "Bump", V(q)), [barg])),
                    ("decl", x, "int", ("call", ("method", ("field", V(q), "in"), P + ".Area", "Area", V(q)), [])),
                    ("print", [("str", "m"), V(x)])]
        if ps:
            a = r.choice(ps)
            x = self.var()
            barg = self.int_expr(sc, 1)
            sc[x] = "int"
            out = [("expr", ("call", ("method", ("addr", V(a)), P + ".Bump", "Bump", V(a)), [barg])),
                   ("decl", x, "int", ("call", ("method", V(a), P + ".Area", "Area", V(a)), [])),
                   ("print", [("str", "m"), V(x)])]
            if r.random() < 0.4:
                # method value bound now: later changes to the receiver are not seen by a value-receiver method value
                mv = self.var("mv")
                y = self.var()
                sc[y] = "int"
                lit_unused = None
                self.features.add("method-value")
                out += [("decl", mv, ("func", [], ["int"]), ("funclit", {"name": "", "params": [], "results": [("r", "int")],
                                                                       "body": [("assign", [V("r")], [("call", ("method", V(a), P + ".Area", "Area", V(a)), [])])]})),
                        ("assign", [("field", V(a), "a")], [("bin", "+", ("field", V(a), "a"), I(1))]),
                        ("decl", y, "int", ("call", ("clo", V(mv)), [])), ("print", [("str", "mv"), V(y)])]
            return out
        return self.struct_stmts(sc)

    def iface_stmts(self, sc):
        self.ensure_types()
        r = self.r
        P, Q, R_ = self.pf + "P", self.pf + "Q", self.pf + "R"
        I_ = self.pf + "Sh"
        self.features.add("interface")
        iv = self.var("sh")
        which = r.choice(["P", "R", "Q"])
        tmp = self.var("o")
        if which == "P":
            t = ("struct", P)
            init = ("mkstruct", P, [("a", self.int_expr(sc, 1)), ("b", I(r.randint(0, 5)))])
        elif which == "R":
            t = ("struct", R_)
            init = ("mkstruct", R_, [("w", self.int_expr(sc, 1))])
        else:
            t = ("struct", Q)
            init = ("mkstruct", Q, [("in", ("mkstruct", P, [("a", I(r.randint(0, 5))), ("b", I(2))])), ("c", I(1))])
            self.features.add("promoted-through-interface")
        barg = self.int_expr(sc, 1)
        sc[tmp] = t
        x = self.var()
        sc[x] = "int"
        dyn = "*" + t[1]
        return [("decl", tmp, t, init),
                ("decl", iv, ("iface", I_), ("iface", I_, dyn, ("addr", V(tmp)))),
                ("expr", ("call", ("imethod", V(iv), "Bump"), [barg])),
                ("decl", x, "int", ("call", ("imethod", V(iv), "Area"), [])),
                ("print", [("str", "i"), V(x)])]

    # ---- whole case
    def make(self):
        r = self.r
        for j in range(self.nfuncs):
            self.sigs[j] = (r.randint(0, 2), r.choice([0, 1, 1, 2])) if j > 0 else (0, 0)
        # helpers used by defer forms (one copy per package that has functions of this case)
        hv = "hr"
        for lib in ([False, True] if self.split_at is not None else [False]):
            pre = ("L" if lib else "") + self.pf
            self.funcs.append({"name": pre + "dp", "params": [("k", "int"), ("v", "int")], "results": [], "lib": lib,
                               "body": [("print", [("str", "d"), V("k"), V("v")])]})
            self.funcs.append({"name": pre + "helper", "params": [], "results": [], "lib": lib,
                               "body": [("decl", hv, "int", I(0)), ("recover", hv), ("print", [("str", "h"), V(hv)])]})
            self.funcs.append({"name": pre + "nop", "params": [], "results": [], "lib": lib, "noinline": True,
                               "body": [("print", [("str", "n")])]})
            self.funcs.append({"name": pre + "mp", "params": [("c", "int")], "results": [], "lib": lib, "noinline": True,
                               "body": [("if", ("bin", "==", ("bin", "%", ("bin", "+", ("bin", "%", V("c"), I(2)), I(2)), I(2)), I(1)),
                                         [("panic", ("bin", "+", ("bin", "%", ("bin", "+", ("bin", "%", V("c"), I(9)), I(9)), I(9)), I(40)))], [])]})
        for j in reversed(range(self.nfuncs)):
            np_, nr = self.sigs[j]
            params = [(self.var("a"), "int") for _ in range(np_)]
            results = [(self.var("r"), "int") for _ in range(nr)]
            f = {"name": self.fname(j), "params": params, "results": results, "body": [], "lib": self.in_lib(j)}
            sc = {x: t for x, t in params + results}
            self.cur_fi = j
            body = self.stmts(sc, j, 2 if j > 0 else 3, 5 if j == 0 else 4, {"fn": f})
            if results:
                body.append(("assign", [V(x) for x, _ in results], [self.int_expr(sc, 1) for _ in results]))
            f["body"] = body
            self.funcs.append(f)
        return {"funcs": self.funcs, "structs": self.structs, "embedded": self.embedded, "ifaces": self.ifaces,
                "methods": self.methods, "entry": self.fname(0), "features": sorted(self.features), "rawdecls": self.rawdecls}


def gen_case(seed, idx, profile, extra_defer_kinds=(), split=False):
    rng = random.Random(seed * 1000003 + idx)
    g = Gen(rng, "c%d_" % idx, profile)
    g.extra_defer_kinds = tuple(extra_defer_kinds)
    if split and g.nfuncs >= 2:
        g.split_at = rng.randint(1, g.nfuncs - 1)
    return g.make()


def _lit(body, params=(), results=()):
    return {"name": "", "params": list(params), "results": list(results), "body": body}


def fixed_cases(profile):
    """hand-written, seed-independent cases (stable ids >= 100000): representatives of known deviations and
    regression anchors for the rules of the property statement"""
    out = []

    def case(cid, name, funcs, entry):
        pf = "c%d_" % cid
        out.append((cid, name, {"funcs": funcs, "structs": {}, "embedded": {}, "ifaces": {}, "methods": {}, "entry": entry,
                                "features": [name]}))
    if profile == "defer":
        # F1: recover called by a helper of the deferred function must not stop the panic
        pf = "c100001_"
        helper = {"name": pf + "helper", "params": [], "results": [], "body": [("decl", "hr", "int", I(0)), ("recover", "hr"), ("print", [("str", "h"), V("hr")])]}
        f0 = {"name": pf + "f0", "params": [], "results": [], "body": [
            ("defer", ("call", ("clo", ("funclit", _lit([("expr", ("call", ("fn", pf + "helper"), [])), ("print", [("str", "dh")])]))), [])),
            ("print", [("str", "before")]), ("panic", I(28)), ("print", [("str", "unreachable")])]}
        case(100001, "recover-via-helper", [helper, f0], pf + "f0")
        # F2: a panic raised and recovered inside a deferred call must leave the outer panic in flight
        pf = "c100002_"
        dl = _lit([("decl", "rc", "int", I(0)), ("recover", "rc"), ("print", [("str", "irec"), V("rc")])])
        inner = _lit([("defer", ("call", ("clo", ("funclit", dl)), [])), ("panic", I(92))])
        dl2 = _lit([("decl", "rc2", "int", I(0)), ("recover", "rc2"), ("print", [("str", "orec"), V("rc2")])])
        f1 = {"name": pf + "f1", "params": [], "results": [], "body": [
            ("defer", ("call", ("clo", ("funclit", dl2)), [])),
            ("defer", ("call", ("clo", ("funclit", _lit([("expr", ("call", ("clo", ("funclit", inner)), [])), ("print", [("str", "di")])]))), [])),
            ("panic", I(11))]}
        f0 = {"name": pf + "f0", "params": [], "results": [], "body": [("expr", ("call", ("fn", pf + "f1"), [])), ("print", [("str", "after")])]}
        case(100002, "inner-recovered-panic-keeps-outer", [f1, f0], pf + "f0")
        # F3: anchor - LIFO, arguments at defer time, named result modified, recover returns normally
        pf = "c100003_"
        dp = {"name": pf + "dp", "params": [("k", "int"), ("v", "int")], "results": [], "body": [("print", [("str", "d"), V("k"), V("v")])]}
        g = {"name": pf + "g", "params": [("n", "int")], "results": [("res", "int")], "body": [
            ("decl", "x", "int", I(1)),
            ("defer", ("call", ("fn", pf + "dp"), [I(1), V("x")])),
            ("assign", [V("x")], [I(2)]),
            ("for", None, ("decl", "i", "int", I(0)), ("bin", "<", V("i"), V("n")), ("assign", [V("i")], [("bin", "+", V("i"), I(1))]),
             [("defer", ("call", ("fn", pf + "dp"), [I(2), V("i")])),
              ("if", ("bin", "==", V("i"), I(1)), [("defer", ("call", ("clo", ("funclit", _lit([
                  ("decl", "rc", "int", I(0)), ("recover", "rc"), ("print", [("str", "rec"), V("rc")]),
                  ("assign", [V("res")], [("bin", "+", V("res"), I(100))])]))), []))], [])]),
            ("assign", [V("res")], [I(5)]),
            ("if", ("bin", ">", V("n"), I(2)), [("panic", I(7))], [])]}
        f0 = {"name": pf + "f0", "params": [], "results": [], "body": [
            ("decl", "a", "int", ("call", ("fn", pf + "g"), [I(2)])), ("print", [("str", "a"), V("a")]),
            ("decl", "b", "int", ("call", ("fn", pf + "g"), [I(3)])), ("print", [("str", "b"), V("b")])]}
        case(100003, "anchor-lifo-args-namedresult", [dp, g, f0], pf + "f0")
        # F4: a defer statement that was never reached (a call before it panicked) must not run
        pf = "c100004_"
        dp = {"name": pf + "dp", "params": [("k", "int"), ("v", "int")], "results": [], "body": [("print", [("str", "d"), V("k"), V("v")])]}
        nop = {"name": pf + "nop", "params": [], "results": [], "noinline": True, "body": [("print", [("str", "n")])]}
        mp = {"name": pf + "mp", "params": [("c", "int")], "results": [], "noinline": True,
              "body": [("if", ("bin", "==", V("c"), I(1)), [("panic", I(41))], [])]}
        rl = _lit([("decl", "rc", "int", I(0)), ("recover", "rc"), ("print", [("str", "rec"), V("rc")])])
        g = {"name": pf + "g", "params": [("c", "int")], "results": [], "body": [
            ("defer", ("call", ("clo", ("funclit", rl)), [])),
            ("defer", ("call", ("fn", pf + "dp"), [I(1), I(0)])),
            ("expr", ("call", ("fn", pf + "mp"), [V("c")])),
            ("defer", ("call", ("fn", pf + "nop"), [])),
            ("expr", ("call", ("fn", pf + "mp"), [("bin", "-", V("c"), I(1))])),
            ("defer", ("call", ("fn", pf + "dp"), [I(2), I(7)]))]}
        f0 = {"name": pf + "f0", "params": [], "results": [], "body": [
            ("expr", ("call", ("fn", pf + "g"), [I(1)])), ("print", [("str", "--")]),
            ("expr", ("call", ("fn", pf + "g"), [I(2)])), ("print", [("str", "--")]),
            ("expr", ("call", ("fn", pf + "g"), [I(0)]))]}
        case(100004, "unreached-defer-does-not-run", [dp, nop, mp, g, f0], pf + "f0")
        # F5: loop defers, a defer without arguments, loop defers: one last-in-first-out order
        pf = "c100005_"
        dp = {"name": pf + "dp", "params": [("k", "int"), ("v", "int")], "results": [], "body": [("print", [("str", "d"), V("k"), V("v")])]}
        nop = {"name": pf + "nop", "params": [], "results": [], "noinline": True, "body": [("print", [("str", "n")])]}
        mkloop = lambda tag, iv: ("for", None, ("decl", iv, "int", I(0)), ("bin", "<", V(iv), I(2)), ("assign", [V(iv)], [("bin", "+", V(iv), I(1))]),
                                 [("defer", ("call", ("fn", pf + "dp"), [I(tag), V(iv)]))])
        f0 = {"name": pf + "f0", "params": [], "results": [], "body": [
            mkloop(1, "i"), ("defer", ("call", ("fn", pf + "nop"), [])), mkloop(2, "j"),
            ("defer", ("call", ("fn", pf + "nop"), [])), mkloop(3, "k")]}
        case(100005, "defer-between-loops-lifo", [dp, nop, f0], pf + "f0")
        # F6: Goexit in an inner frame; a deferred call panics, an earlier-registered one recovers: the goroutine still exits
        pf = "c100006_"
        rl = _lit([("decl", "rc", "int", I(0)), ("recover", "rc"), ("print", [("str", "rec"), V("rc")])])
        pl = _lit([("print", [("str", "dp2")]), ("panic", I(61))])
        inner = {"name": pf + "inner", "params": [], "results": [], "body": [
            ("defer", ("call", ("clo", ("funclit", rl)), [])),
            ("defer", ("call", ("clo", ("funclit", pl)), [])),
            ("goexit",), ("print", [("str", "unreachable")])]}
        body = {"name": pf + "body", "params": [], "results": [], "body": [
            ("defer", ("call", ("clo", ("funclit", _lit([("print", [("str", "body-deferred")])]))), [])),
            ("expr", ("call", ("fn", pf + "inner"), [])), ("print", [("str", "after-inner")])]}
        f0 = {"name": pf + "f0", "params": [], "results": [], "body": [
            ("gowait", ("call", ("fn", pf + "body"), [])), ("print", [("str", "main-after")])]}
        case(100006, "goexit-survives-recovered-panic", [inner, body, f0], pf + "f0")
        # F7: a goto loop with a defer inside a branch of a range loop, and a defer behind the range loop: the blocks are
        # not compiled in the order in which they execute
        pf = "c100007_"
        dp = {"name": pf + "dp", "params": [("k", "int"), ("v", "int")], "results": [], "body": [("print", [("str", "d"), V("k"), V("v")])]}
        f0 = {"name": pf + "f0", "params": [], "results": [], "body": [
            ("rangeint", None, "k", I(3), [
                ("if", ("bin", ">", V("k"), I(0)), [("print", [("str", "x"), V("k")])], [
                    ("decl", "g", "int", I(0)),
                    ("label", "Lc100007_1"),
                    ("block", [("assign", [V("g")], [("bin", "+", V("g"), I(3))]),
                               ("defer", ("call", ("fn", pf + "dp"), [I(7), V("g")]))]),
                    ("assign", [V("g")], [("bin", "+", V("g"), I(1))]),
                    ("if", ("bin", "<", V("g"), I(3)), [("goto", "Lc100007_1")], [])])]),
            ("defer", ("call", ("fn", pf + "dp"), [I(9), I(0)]))]}
        case(100007, "defer-in-goto-loop-in-branch-then-defer", [dp, f0], pf + "f0")
    return out
